/* C20 side-car contracts for Matrix4<T> (included from contracts/C20_vec.h; T as there).
 *
 * Storage convention of the class (Vector.hh / str()): m[x][y] is column x, row y.
 * Specification (property C20, linear-algebra definitions in that convention):
 *   Matrix4()            identity:            m[x][y] == (x == y)
 *   transposition()      r.m[y][x] == m[x][y];   transpose() the same in place;  transposing twice is the identity (lemma)
 *   M * v                (Mv).row_i = sum_j m[j][i] * v_j
 * "for every element (x,y)" is the ghost index pair (g_x, g_y), fixed before the call (DESIGN.md 3.4).
 * Matrix4<T>::operator*(Matrix4) accumulates in a double whatever T is; its contract (element (x,y) = sum_z A.m[z][y] *
 * B.m[x][z] for entries small enough to be exact) needs the fact (double)acc + (double)t == (double)(acc + t), which no
 * back end decided within 300 s: not under contract (props/C20.py NOT_DECIDED).
 */
size_t g_x, g_y;      /* ghost element index */
T g_val;              /* ghost: entry value of element (g_x, g_y) for the in-place transpose */
T g_m[16];            /* ghost: entry values of the matrix operand (flat view v[16]) */

#define M4_FRESH(p) __CPROVER_is_fresh(p, sizeof(Matrix4))
#define GXY_OK (g_x < 4 && g_y < 4)
#define ALL16(P) (P(0) && P(1) && P(2) && P(3) && P(4) && P(5) && P(6) && P(7) && P(8) && P(9) && P(10) && P(11) && \
                  P(12) && P(13) && P(14) && P(15))
#define M_EQG_SELF(k) (self->v[k] == g_m[k])

/* ---- Matrix4(): identity */
#define ID_AT(p, x, y) ((p)->m[x][y] == (T)((y) == (x)))
#define M4_CTOR_OUTER \
  __CPROVER_assigns(x, __CPROVER_object_whole(self)) \
  __CPROVER_loop_invariant(x <= 4 && (g_x < x ==> ID_AT(self, g_x, g_y))) \
  __CPROVER_decreases(4 - x)
#define M4_CTOR_INNER \
  __CPROVER_assigns(y, __CPROVER_object_whole(self)) \
  __CPROVER_loop_invariant(y <= 4 && ((g_x < x || (g_x == x && g_y < y)) ==> ID_AT(self, g_x, g_y))) \
  __CPROVER_decreases(4 - y)
void Matrix4_ctor(Matrix4* self)
__CPROVER_requires(M4_FRESH(self) && GXY_OK)
__CPROVER_ensures(ID_AT(self, g_x, g_y))
__CPROVER_assigns(__CPROVER_object_whole(self));

/* ---- transposition() */
#define TR_AT(x, y) (res.m[y][x] == self->m[x][y])
#define M4_TR_OUTER \
  __CPROVER_assigns(x, __CPROVER_object_whole(&res)) \
  __CPROVER_loop_invariant(x <= 4 && (g_x < x ==> TR_AT(g_x, g_y))) \
  __CPROVER_decreases(4 - x)
#define M4_TR_INNER \
  __CPROVER_assigns(y, __CPROVER_object_whole(&res)) \
  __CPROVER_loop_invariant(y <= 4 && ((g_x < x || (g_x == x && g_y < y)) ==> TR_AT(g_x, g_y))) \
  __CPROVER_decreases(4 - y)
Matrix4 Matrix4_transposition(const Matrix4* self)
__CPROVER_requires(M4_FRESH(self) && GXY_OK && ALL16(M_EQG_SELF))
__CPROVER_ensures(RV.m[g_y][g_x] == self->m[g_x][g_y])
__CPROVER_assigns();

/* ---- transpose(): in place */
Matrix4* Matrix4_transpose(Matrix4* self)
__CPROVER_requires(M4_FRESH(self) && GXY_OK && ALL16(M_EQG_SELF) && self->m[g_x][g_y] == g_val)
__CPROVER_ensures(__CPROVER_return_value == self && self->m[g_y][g_x] == g_val)
__CPROVER_assigns(__CPROVER_object_whole(self));

/* ---- M * v   (element type unsigned: wrap-around arithmetic, no input excluded) */
#if !T_SIGNED
#define ROWDOT(i) (self->m[0][i] * other->x + self->m[1][i] * other->y + self->m[2][i] * other->z + self->m[3][i] * other->w)
Vector4 Matrix4_mulv(const Matrix4* self, const Vector4* other)
__CPROVER_requires(M4_FRESH(self) && __CPROVER_is_fresh(other, sizeof(Vector4)) && ALL16(M_EQG_SELF) && EQG4(other, g_o))
__CPROVER_ensures(RV.x == (T)ROWDOT(0) && RV.y == (T)ROWDOT(1) && RV.z == (T)ROWDOT(2) && RV.w == (T)ROWDOT(3))
__CPROVER_assigns();
#endif
