/* C09 hex dump: line geometry of format_data's main loop (assembled from extracted snippets, see contracts/C09_lines.h). */
#include "contracts/verif.h"
#include "x_fd_flags.h"
#include "contracts/C09_lines.h"
int verif_exc; uint64_t g_i, g_off, g_col; bool g_interior; int g_width;
#include "x_fd_lines.c"

void h_line_loop(void)
{
  uint64_t in_start, in_size;
  fd_line_loop(in_start, in_size);
  VERIF_REACH();
}

void h_line(void)
{
  uint64_t in_start, in_size, in_flags, in_off, in_i;
  g_off = in_off; g_i = in_i;
  fd_line(in_start, in_size, in_flags);
  VERIF_REACH();
}
