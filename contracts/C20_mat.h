/* C20 side-car contracts for Matrix4<T> (included from contracts/C20_vec.h; T as there).
 *
 * Storage convention of the class (Vector.hh / str()): m[x][y] is column x, row y.
 * Specification (property C20, linear-algebra definitions in that convention):
 *   Matrix4()            identity:            m[x][y] == (x == y)
 *   transposition()      r.m[y][x] == m[x][y];   transpose() the same in place;  transposing twice is the identity (lemma)
 *   M * v                (Mv).row_i = sum_j m[j][i] * v_j
 *   A * B                (AB).m[x][y] = sum_z A.m[z][y] * B.m[x][z]      (row y of A times column x of B)
 * "for every element (x,y)" is the ghost index pair (g_x, g_y), fixed before the call (DESIGN.md 3.4).
 *
 * Matrix4<T>::operator*(Matrix4) accumulates in a double whatever T is: the contract is stated for integer T and entries
 * |e| <= 2^24, for which every partial sum (< 2^51) is exactly representable; the floating-point instantiations are
 * not decided (see props/C20.py NOT_DECIDED).
 */
size_t g_x, g_y;      /* ghost element index */
T g_val;              /* ghost: entry value of element (g_x, g_y) for the in-place transpose */
T g_m[16], g_n[16];   /* ghosts: entry values of the operand matrices (flat view v[16]) */
int64_t g_acc;        /* ghost accumulator: exact partial sum of the element of A*B being computed */

#define M4_FRESH(p) __CPROVER_is_fresh(p, sizeof(Matrix4))
#define GXY_OK (g_x < 4 && g_y < 4)
#define ALL16(P) (P(0) && P(1) && P(2) && P(3) && P(4) && P(5) && P(6) && P(7) && P(8) && P(9) && P(10) && P(11) && \
                  P(12) && P(13) && P(14) && P(15))
#define M_EQG_SELF(k) (self->v[k] == g_m[k])
#define M_EQG_OTHER(k) (other->v[k] == g_n[k])

/* ---- Matrix4(): identity */
#define ID_AT(p, x, y) ((p)->m[x][y] == (T)((y) == (x)))
#define M4_CTOR_OUTER \
  __CPROVER_assigns(x, __CPROVER_object_whole(self)) \
  __CPROVER_loop_invariant(x <= 4 && (g_x < x ==> ID_AT(self, g_x, g_y))) \
  __CPROVER_decreases(4 - x)
#define M4_CTOR_INNER \
  __CPROVER_assigns(y, __CPROVER_object_whole(self)) \
  __CPROVER_loop_invariant(y <= 4 && ((g_x < x || (g_x == x && g_y < y)) ==> ID_AT(self, g_x, g_y))) \
  __CPROVER_decreases(4 - y)
void Matrix4_ctor(Matrix4* self)
__CPROVER_requires(M4_FRESH(self) && GXY_OK)
__CPROVER_ensures(ID_AT(self, g_x, g_y))
__CPROVER_assigns(__CPROVER_object_whole(self));

/* ---- transposition() */
#define TR_AT(x, y) (res.m[y][x] == self->m[x][y])
#define M4_TR_OUTER \
  __CPROVER_assigns(x, __CPROVER_object_whole(&res)) \
  __CPROVER_loop_invariant(x <= 4 && (g_x < x ==> TR_AT(g_x, g_y))) \
  __CPROVER_decreases(4 - x)
#define M4_TR_INNER \
  __CPROVER_assigns(y, __CPROVER_object_whole(&res)) \
  __CPROVER_loop_invariant(y <= 4 && ((g_x < x || (g_x == x && g_y < y)) ==> TR_AT(g_x, g_y))) \
  __CPROVER_decreases(4 - y)
Matrix4 Matrix4_transposition(const Matrix4* self)
__CPROVER_requires(M4_FRESH(self) && GXY_OK && ALL16(M_EQG_SELF))
__CPROVER_ensures(RV.m[g_y][g_x] == self->m[g_x][g_y])
__CPROVER_assigns();

/* ---- transpose(): in place */
Matrix4* Matrix4_transpose(Matrix4* self)
__CPROVER_requires(M4_FRESH(self) && GXY_OK && ALL16(M_EQG_SELF) && self->m[g_x][g_y] == g_val)
__CPROVER_ensures(__CPROVER_return_value == self && self->m[g_y][g_x] == g_val)
__CPROVER_assigns(__CPROVER_object_whole(self));

/* ---- M * v */
#define BND30(e) ((e) >= -((T)1 << 30) && (e) <= ((T)1 << 30))
#define M_BND30(k) BND30(self->v[k])
#define ROWDOT(i) (self->m[0][i] * other->x + self->m[1][i] * other->y + self->m[2][i] * other->z + self->m[3][i] * other->w)
Vector4 Matrix4_mulv(const Matrix4* self, const Vector4* other)
__CPROVER_requires(M4_FRESH(self) && __CPROVER_is_fresh(other, sizeof(Vector4)) && ALL16(M_EQG_SELF) && EQG4(other, g_o))
__CPROVER_requires(ALL16(M_BND30) && BND30(other->x) && BND30(other->y) && BND30(other->z) && BND30(other->w))
__CPROVER_ensures(RV.x == (T)ROWDOT(0) && RV.y == (T)ROWDOT(1) && RV.z == (T)ROWDOT(2) && RV.w == (T)ROWDOT(3))
__CPROVER_assigns();

/* ---- A * B */
#ifndef MM_BITS
#define MM_BITS 24
#endif
#define BND24(e) ((e) >= -((T)1 << MM_BITS) && (e) <= ((T)1 << MM_BITS))
#define M_BND24_SELF(k) BND24(self->v[k])
#define M_BND24_OTHER(k) BND24(other->v[k])
#define TERM(x, y, z) ((int64_t)(self->m[z][y] * other->m[x][z]))
/* partial sum of the first z terms of element (x,y) */
#define PSUM(x, y, z) (((z) > 0 ? TERM(x, y, 0) : 0) + ((z) > 1 ? TERM(x, y, 1) : 0) + ((z) > 2 ? TERM(x, y, 2) : 0) + \
                       ((z) > 3 ? TERM(x, y, 3) : 0))
#define SUM4(x, y) (TERM(x, y, 0) + TERM(x, y, 1) + TERM(x, y, 2) + TERM(x, y, 3))
#define MM_AT(x, y) (res.m[x][y] == (T)SUM4(x, y))
#define M4_MM_OUTER \
  __CPROVER_assigns(x, g_acc, __CPROVER_object_whole(&res)) \
  __CPROVER_loop_invariant(x <= 4 && (g_x < x ==> MM_AT(g_x, g_y))) \
  __CPROVER_decreases(4 - x)
#define M4_MM_MID \
  __CPROVER_assigns(y, g_acc, __CPROVER_object_whole(&res)) \
  __CPROVER_loop_invariant(y <= 4 && ((g_x < x || (g_x == x && g_y < y)) ==> MM_AT(g_x, g_y))) \
  __CPROVER_decreases(4 - y)
#define M4_MM_INNER \
  __CPROVER_assigns(z, value, g_acc) \
  __CPROVER_loop_invariant(z <= 4 && g_acc == PSUM(x, y, z) && value == (double)g_acc) \
  __CPROVER_loop_invariant(g_acc >= -((int64_t)z << (2 * MM_BITS)) && g_acc <= ((int64_t)z << (2 * MM_BITS))) \
  __CPROVER_decreases(4 - z)
Matrix4 Matrix4_mulm(const Matrix4* self, const Matrix4* other)
__CPROVER_requires(M4_FRESH(self) && M4_FRESH(other) && GXY_OK && ALL16(M_EQG_SELF) && ALL16(M_EQG_OTHER))
__CPROVER_requires(ALL16(M_BND24_SELF) && ALL16(M_BND24_OTHER))
__CPROVER_ensures(RV.m[g_x][g_y] == (T)SUM4(g_x, g_y))
__CPROVER_assigns(g_acc);
