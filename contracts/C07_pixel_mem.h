/* C07: MEMORY-LEVEL obligations of Image::read_pixel / Image::write_pixel (src/Image.cc), the only place with the non-linear index
 * (y * width + x) * channels.  One instantiation per channel width CW (8/16/32/64) and alpha mode HA (0/1), canvas dimensions
 * bounded by C07_DIMB (symbolic within the bound) -- the only BOUNDED obligations of C07.
 *
 * The postconditions are the clause macros of the loop-level contracts (contracts/C07_clauses.h: WP_EXC, WP_PIX, RP_PIX) with
 * "ghost value of pixel (g_dx,g_dy)" instantiated by "the channels decoded from the pixel buffer at (g_dx,g_dy)" (MEM_* below):
 *   write_pixel: throws out_of_range iff (x,y) is outside; inside: pixel (x,y) holds the stored form of (r,g,b,a) and every OTHER pixel
 *                (g_dx,g_dy) keeps its bytes; nothing but verif_exc and the pixel buffer is assigned (assigns clause + pointer checks:
 *                no access outside the buffer);
 *   read_pixel : throws iff outside; inside: the outputs are the channels of pixel (x,y) (alpha = max_value without alpha channel);
 *                nothing but verif_exc and the non-null outputs is assigned. */
#ifndef C07_PIXEL_MEM_H
#define C07_PIXEL_MEM_H
#include "contracts/C07_clauses.h"

#ifndef C07_DIMB
#define C07_DIMB 8
#endif
#if CW == 8
typedef uint8_t CT;
#elif CW == 16
typedef uint16_t CT;
#elif CW == 32
typedef uint32_t CT;
#elif CW == 64
typedef uint64_t CT;
#else
#error "CW must be 8, 16, 32 or 64"
#endif
#define NCH (HA ? 4 : 3)
/* layout of the canvas: row-major, NCH channels of CW bits per pixel (Image.hh: get_data_size) */
#define PIXIDX(i, x, y) ((((size_t)(y)) * ((size_t)(i)->width) + ((size_t)(x))) * NCH)
#define MEMCH(i, x, y, c) ((uint64_t)((const CT*)(i)->data.raw)[PIXIDX(i, x, y) + (c)])
#define MEM_R(i, x, y) MEMCH(i, x, y, 0)
#define MEM_G(i, x, y) MEMCH(i, x, y, 1)
#define MEM_B(i, x, y) MEMCH(i, x, y, 2)
#if HA
#define MEM_A(i, x, y) MEMCH(i, x, y, 3)
#else
#define MEM_A(i, x, y) ((i)->max_value)
#endif
#define DATA_BYTES(i) (((size_t)(i)->width) * ((size_t)(i)->height) * NCH * (CW / 8))

#define MEM_REQ(self) \
  __CPROVER_requires(__CPROVER_is_fresh(self, sizeof(Image))) \
  __CPROVER_requires(IMG_VALID(self) && self->channel_width == CW && self->has_alpha == HA && self->width <= C07_DIMB && self->height <= C07_DIMB) \
  __CPROVER_requires(SHAPE_IS(self, g_dw, g_dh, g_dalpha, g_dcw)) \
  __CPROVER_requires(__CPROVER_is_fresh(self->data.raw, DATA_BYTES(self))) \
  __CPROVER_requires(verif_exc == 0) \
  /* ghost value idiom: g_d* name the current channels of the symbolic pixel (g_dx,g_dy), if it exists */ \
  __CPROVER_requires(!OUTSIDE(self, g_dx, g_dy) ==> (g_dr == MEM_R(self, g_dx, g_dy) && g_dg == MEM_G(self, g_dx, g_dy) && \
                                                     g_db == MEM_B(self, g_dx, g_dy) && g_da == MEM_A(self, g_dx, g_dy)))

void Image_write_pixel(Image* self, ssize_t x, ssize_t y, uint64_t r, uint64_t g, uint64_t b, uint64_t a)
MEM_REQ(self)
__CPROVER_ensures(WP_EXC(self, x, y, verif_exc))
__CPROVER_ensures(!OUTSIDE(self, g_dx, g_dy) ==>
                  WP_PIX(self, x, y, r, g, b, a, g_dx, g_dy, g_dr, g_dg, g_db, g_da,
                         MEM_R(self, g_dx, g_dy), MEM_G(self, g_dx, g_dy), MEM_B(self, g_dx, g_dy), MEM_A(self, g_dx, g_dy)))
__CPROVER_assigns(verif_exc, __CPROVER_object_whole(self->data.raw));

void Image_read_pixel(const Image* self, ssize_t x, ssize_t y, uint64_t* r, uint64_t* g, uint64_t* b, uint64_t* a)
MEM_REQ(self)
__CPROVER_requires((r == 0 || __CPROVER_w_ok(r, sizeof(uint64_t))) && (g == 0 || __CPROVER_w_ok(g, sizeof(uint64_t))))
__CPROVER_requires((b == 0 || __CPROVER_w_ok(b, sizeof(uint64_t))) && (a == 0 || __CPROVER_w_ok(a, sizeof(uint64_t))))
__CPROVER_ensures(WP_EXC(self, x, y, verif_exc))
__CPROVER_ensures(!OUTSIDE(self, g_dx, g_dy) ==> RP_PIX(self, x, y, r, g, b, a, g_dx, g_dy, g_dr, g_dg, g_db, g_da))
__CPROVER_assigns(verif_exc; r != 0: *r; g != 0: *g; b != 0: *b; a != 0: *a);
#endif
