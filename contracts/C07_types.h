/* C mirror of class Image (src/Image.hh); the member list is checked against the class text by props/C07.py:check_members
 * on every run.  Nothing is dropped: the class has no other data members. */
#ifndef C07_TYPES_H
#define C07_TYPES_H
#include "contracts/verif.h"
#include <stdlib.h>

typedef union DataPtrs {
  void* raw;
  uint8_t* as8;
  uint16_t* as16;
  uint32_t* as32;
  uint64_t* as64;
} DataPtrs;

typedef struct Image {
  ssize_t width;
  ssize_t height;
  bool has_alpha;
  uint8_t channel_width;
  uint64_t max_value;
  DataPtrs data;
} Image;

#endif
