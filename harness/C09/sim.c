/* C09 O-2: step-simulation lemmas.  The formatter's per-byte step (body of its rendering loop, x_fds_step.c) is run on ONE symbolic
 * byte b with symbolic mask byte / mask state; the characters it emitted (followed by an arbitrary next character) are then fed
 * to the parser's step (body of its loop, x_pds_step.c) in the state the parser is in at that point.  Loop-free over all
 * 256 x 256 x 2 x 2 x 256 combinations: this is the induction step of parse(format(x, mask)) == (x, mask) for strings of any length.
 * Both bodies are extracted text; buffers are small constant arrays (a step emits <= 5 and appends <= 1 bytes). */
#include "contracts/C03_leaf.h"
#include "x_Encoding_leaf.c"
#include "x_c09_prelude.c"
int verif_exc; size_t g_vk, g_k, g_w, g_j, g_n; bool g_quoted, g_returned; 
const char* g_end; char g_c0, g_c1, g_c2, g_c3;
unsigned g_st_calls; const char* g_st_arg; const char* g_st_end; int g_st_base; int g_st_kind;
unsigned long long g_num; double g_dbl; float g_flt; unsigned g_load_calls;
/* the parser state (locals of parse_data_string) */
const char* in; uint8_t chr;
bool reading_string, reading_unicode_string, reading_comment, reading_multiline_comment, reading_high_nybble, reading_filename;
bool big_endian, mask_enabled, allow_files;
OUT_STR* data; OUT_STR* mask; vstr filename;
#include "x_pds_step.c"
#include "x_fds_step.c"

#define TEXT_CAP 8
static char tbuf[TEXT_CAP], dbuf[4], mbuf[4];
static vstr T, D, M;

static void setup(bool with_mask)
{
  T.data = tbuf; T.size = 0; T.cap = TEXT_CAP - 2;
  D.data = dbuf; D.size = 0; D.cap = 4;
  M.data = mbuf; M.size = 0; M.cap = 4;
  data = &D; mask = with_mask ? &M : 0;
  filename.data = 0; filename.size = 0; filename.cap = 0;
  verif_exc = 0; g_returned = 0; g_st_calls = 0; g_load_calls = 0; allow_files = 0;
}

/* the parser's loop on the emitted characters: `while (in[0]) { body }`, at most 5 characters */
static void parse_emitted(const char* tend)
{
  for (int i = 0; i < 5; i++) {
    if (in == tend || g_returned) {
      break;
    }
    __CPROVER_assert(in[0] != 0, "the formatter never emits a NUL character");
    pds_step();
    __CPROVER_assert(__CPROVER_same_object(in, tend) && in <= tend + 1, "parser position stays at the emitted text");
  }
}

/* a bool object holds 0 or 1 (ISO C 6.2.5); nondet bool locals of the verifier need not */
#define B01(b) ((b) == 0 || (b) == 1)
#define NO_OTHER_MODE (!reading_unicode_string && !reading_comment && !reading_multiline_comment && !reading_filename)

/* quoted form: inside "...", parser mask state == formatter mask state */
void l_sim_quoted(void)
{
  uint8_t in_b, in_m; bool in_has_mask, in_me, in_parser_mask, in_be; char in_next;
  __CPROVER_assume(B01(in_has_mask) && B01(in_me) && B01(in_parser_mask) && B01(in_be));
  __CPROVER_assume(FDS_PRINTABLE(in_b));          /* the quoted form is only used for such bytes (O-3) */
  __CPROVER_assume(in_has_mask || in_me);         /* without a mask the formatter never toggles: mask_enabled stays true */
  setup(in_parser_mask);
  uint8_t d[1] = { in_b }, mk[1] = { in_m };
  bool fme = in_me;
  fds_quoted_step(&T, d, in_has_mask ? (const uint8_t*)mk : (const uint8_t*)0, 0, &fme);
  __CPROVER_assert(T.size >= 1 && T.size <= 5, "1..5 characters per byte");
  __CPROVER_assert(fme == (in_has_mask ? (in_m != 0) : in_me), "the formatter's mask state follows the mask byte");
  tbuf[T.size] = in_next; tbuf[T.size + 1] = 0;
  in = tbuf; g_end = tbuf + T.size + 1;
  PDS_INIT_STATE();
  reading_string = 1; mask_enabled = in_me; big_endian = in_be;
  parse_emitted(tbuf + T.size);
  __CPROVER_assert(!g_returned && verif_exc == 0, "parser does not stop");
  __CPROVER_assert(in == tbuf + T.size, "the parser consumes exactly the characters emitted for this byte");
  __CPROVER_assert(D.size == 1 && (uint8_t)dbuf[0] == in_b, "exactly the byte b is appended");
  __CPROVER_assert(!in_parser_mask || (M.size == 1 && (uint8_t)mbuf[0] == PDS_MASK_BYTE(fme)), "mask classification of the byte");
  __CPROVER_assert(reading_string && NO_OTHER_MODE && reading_high_nybble && chr == 0 && big_endian == in_be, "same parser state");
  __CPROVER_assert(mask_enabled == fme, "parser mask state == formatter mask state");
  VERIF_REACH();
}

/* hex form: between constructs, no pending nybble */
void l_sim_hex(void)
{
  uint8_t in_b, in_m; bool in_has_mask, in_me, in_parser_mask, in_be; char in_next;
  __CPROVER_assume(B01(in_has_mask) && B01(in_me) && B01(in_parser_mask) && B01(in_be));
  __CPROVER_assume(in_has_mask || in_me);
  setup(in_parser_mask);
  uint8_t d[1] = { in_b }, mk[1] = { in_m };
  bool fme = in_me;
  fds_hex_step(&T, d, in_has_mask ? (const uint8_t*)mk : (const uint8_t*)0, 0, &fme);
  __CPROVER_assert(T.size >= 2 && T.size <= 3, "2..3 characters per byte");
  __CPROVER_assert(fme == (in_has_mask ? (in_m != 0) : in_me), "the formatter's mask state follows the mask byte");
  tbuf[T.size] = in_next; tbuf[T.size + 1] = 0;
  in = tbuf; g_end = tbuf + T.size + 1;
  PDS_INIT_STATE();
  mask_enabled = in_me; big_endian = in_be;
  parse_emitted(tbuf + T.size);
  __CPROVER_assert(!g_returned && verif_exc == 0, "parser does not stop");
  __CPROVER_assert(in == tbuf + T.size, "the parser consumes exactly the characters emitted for this byte");
  __CPROVER_assert(D.size == 1 && (uint8_t)dbuf[0] == in_b, "exactly the byte b is appended");
  __CPROVER_assert(!in_parser_mask || (M.size == 1 && (uint8_t)mbuf[0] == PDS_MASK_BYTE(fme)), "mask classification of the byte");
  __CPROVER_assert(!reading_string && NO_OTHER_MODE && reading_high_nybble && chr == 0 && big_endian == in_be, "same parser state");
  __CPROVER_assert(mask_enabled == fme, "parser mask state == formatter mask state");
  VERIF_REACH();
}

/* brackets of the quoted form: the opening quote takes the initial parser state into the string state, the closing quote
 * followed by the terminator leaves it; neither appends anything */
void l_quote_brackets(void)
{
  bool in_parser_mask, in_me; char in_next;
  __CPROVER_assume(B01(in_me) && B01(in_parser_mask));
  setup(in_parser_mask);
  tbuf[0] = '"'; tbuf[1] = in_next; tbuf[2] = 0;
  in = tbuf; g_end = tbuf + 2;
  PDS_INIT_STATE();
  pds_step();
  __CPROVER_assert(in == tbuf + 1 && D.size == 0 && M.size == 0 && !g_returned, "opening quote: consumed, nothing appended");
  __CPROVER_assert(reading_string && NO_OTHER_MODE && reading_high_nybble && chr == 0 && mask_enabled, "opening quote: string state, mask enabled");
  tbuf[0] = '"'; tbuf[1] = 0;
  in = tbuf; g_end = tbuf + 1;
  mask_enabled = in_me;
  pds_step();
  __CPROVER_assert(in == tbuf + 1 && in[0] == 0 && D.size == 0 && M.size == 0 && !g_returned, "closing quote: consumed, nothing appended, end of text");
  __CPROVER_assert(!reading_string && NO_OTHER_MODE, "closing quote: string state left");
  VERIF_REACH();
}

/* the state parse_data_string starts in (declarations in front of its loop): between constructs, no pending nybble,
 * little-endian numerals, mask enabled */
void l_initial_state(void)
{
  bool a, b, c, d, e, f, g, h; uint8_t v;
  reading_string = a; reading_unicode_string = b; reading_comment = c; reading_multiline_comment = d; reading_high_nybble = e;
  reading_filename = f; big_endian = g; mask_enabled = h; chr = v;
  PDS_INIT_STATE();
  __CPROVER_assert(!reading_string && !reading_unicode_string && !reading_comment && !reading_multiline_comment && !reading_filename, "no mode active");
  __CPROVER_assert(reading_high_nybble == 1 && chr == 0, "no pending nybble");
  __CPROVER_assert(big_endian == 0, "numerals are little-endian until the first $");
  __CPROVER_assert(mask_enabled == 1, "mask enabled until the first ?");
  VERIF_REACH();
}

/* '...' : every character becomes one 16-bit code unit whose value is the byte, zero-extended, in the selected byte order */
void l_wide_char(void)
{
  char in_c, in_next; bool in_be;
  __CPROVER_assume(B01(in_be) && in_c != 0 && in_c != '\'' && in_c != '\\');
  setup(1);
  tbuf[0] = in_c; tbuf[1] = in_next; tbuf[2] = 0;
  in = tbuf; g_end = tbuf + 2;
  PDS_INIT_STATE();
  reading_unicode_string = 1; big_endian = in_be;
  pds_step();
  __CPROVER_assert(in == tbuf + 1 && D.size == 2 && M.size == 2, "one character -> two bytes");
  __CPROVER_assert((uint8_t)dbuf[in_be ? 1 : 0] == (uint8_t)in_c, "low byte of the code unit is the character");
  __CPROVER_assert((uint8_t)dbuf[in_be ? 0 : 1] == 0, "high byte of the code unit is zero (also for characters >= 0x80)");
  VERIF_REACH();
}
