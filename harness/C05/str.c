/* C05: h_str */
#include "harness/C05/common.h"
#include "x_reader_core.c"   /* StringReader_ctor (the constructor's member-initialiser list) */
#include "x_json_entry.c"

void h_str(void) { const vstr* s; JVal* ret; bool in_de; IN_COMMON; g_j.de = in_de; JSON_parse_str(s, in_de, ret); VERIF_REACH(); }
