"""C17 -- command-line arguments are classified and type-checked exactly (DESIGN.md section 4, C17)."""
import re

from vf import lex
from vf.extract import Source, Unit
from vf.lex import Rule, ExtractionBreak
from vf.pipeline import Group, Replay

ID = 'C17'
LEVEL = 'proof'

HH, CC, ENC, STR = 'src/Arguments.hh', 'src/Arguments.cc', 'src/Encoding.hh', 'src/Strings.cc'
ARGS = r'class Arguments'

INT_TYPES = [('uint8_t', 8, 0), ('int8_t', 8, 1), ('uint16_t', 16, 0), ('int16_t', 16, 1),
             ('uint32_t', 32, 0), ('int32_t', 32, 1), ('uint64_t', 64, 0), ('int64_t', 64, 1)]

# Set to False to restrict the numeric obligations to texts without an embedded NUL (what argv can deliver); with True a
# std::string token such as "5\0abc" (possible through Arguments(std::vector<std::string>)) is in scope.
EMBEDDED_NUL_IN_SCOPE = True


def intformat_unit(ctx, src):
    """enum class IntFormat { DEFAULT = 0, HEX, ... }  ->  enum { IntFormat_DEFAULT = 0, IntFormat_HEX, ... }"""
    u = Unit(ctx, 'intformat')
    body = u.snippet(src, HH, r'enum class IntFormat\s*\{([^{}]*)\};', group=1)
    names = re.findall(r'\b([A-Za-z_]\w*)\b(?=\s*(?:=|,|$))', body.strip())
    if sorted(names) != ['DECIMAL', 'DEFAULT', 'HEX', 'OCTAL']:
        raise ExtractionBreak('IntFormat enumerators are %r, the specification names DEFAULT/HEX/DECIMAL/OCTAL' % names)
    u.raw('enum {%s};' % re.sub(r'\b([A-Za-z_]\w*)\b(?=\s*(?:=|,|$))', r'IntFormat_\1', body.rstrip()))
    u.write(suffix='.h', scan=False)
    return u


def mask_unit(ctx, src):
    """bits_for_type<T> / mask_for_type<T> (variable templates of Encoding.hh) -> function-like macros, expression text verbatim"""
    u = Unit(ctx, 'mask_for_type')
    bits = u.snippet(src, ENC, r'template <typename T>\s*constexpr uint8_t bits_for_type = ([^;]*);', group=1)
    mask = u.snippet(src, ENC, r'template <typename T>\s*constexpr uint64_t mask_for_type = ([^;]*);', group=1,
                     rules=[Rule(r'bits_for_type<(\w+)>', r'bits_for_type(\1)', count='+', regex=True)])
    u.raw('#define bits_for_type(T) ((uint8_t)(%s))' % bits)
    u.raw('#define mask_for_type(T) ((uint64_t)(%s))' % mask)
    u.write(suffix='.h', scan=False)
    return u


# rewrites shared by parse_int / parse_float: std::string text -> vstr stub, libc scanners -> abstract scanners
TEXT_RULES = [Rule('text.c_str()', 'C17_c_str(text)', count='+'),
              Rule('text.size()', 'vstr_size(text)'),                       # only in the repaired text
              Rule(r"text\.find\('-'\)", 'C17_find_minus(text)', regex=True),  # only in the repaired text
              Rule(r'\bstring::npos\b', 'VSTR_NPOS', regex=True),
              Rule(r'\berrno\b', 'verif_errno', regex=True)]


def parse_units(ctx, src):
    ui = Unit(ctx, 'parse_int')
    ui.function(src, HH, r'static RetT parse_int\(const IdentT& id, const std::string& text, IntFormat format\)', scope=ARGS,
                new_header='static RetT PI_NAME(const void* id, const vstr* text, int format)', ret_zero='0',
                rules=TEXT_RULES + [Rule(r'\bstrtoull\(', 'C17_strtoull(', regex=True), Rule(r'\bstrtoll\(', 'C17_strtoll(', regex=True),
                                    Rule(r'\bIntFormat::', 'IntFormat_', count='+', regex=True),
                                    Rule(r'\bmask_for_type<RetT>', 'mask_for_type(RetT)', regex=True),
                                    Rule(r'\bis_unsigned_v<RetT>', 'C17_IS_UNSIGNED(RetT)', regex=True),
                                    Rule(r'\bis_signed_v<RetT>', '(!C17_IS_UNSIGNED(RetT))', regex=True)])
    ui.write(suffix='.inc')
    uf = Unit(ctx, 'parse_float')
    # the scanner is strtod (today's text) or std::stod (its C++ wrapper, which reports failures by exception): whichever the
    # text uses is modelled by stubs/C17_strto.h; a try statement around it is lowered like the getters' (LowerExc)
    _, pf_body, _, _ = lex.find_def(src.text(HH), r'static RetT parse_float\(const IdentT& id, const std::string& text\)', 'function')
    if re.search(r'\bstod\(', pf_body):
        ncatch = len(re.findall(r'\bcatch\b', lex.mask(pf_body)))
        pf_rules = [Rule('text.size()', 'vstr_size(text)'), Rule('text.c_str()', 'C17_c_str(text)'),
                    Rule(r'\bstod\(text, ([^;]+)\);', r'C17_stod(text, \1); if (verif_exc) VERIF_RAISE;', count=1, regex=True),
                    LowerExc([None] * ncatch, ['C17_stod'], ['C17_c_str', 'vstr_size', 'exc_prefix'])]
    else:
        pf_rules = TEXT_RULES + [Rule(r'\bstrtod\(', 'C17_strtod(', count=1, regex=True)]
    uf.function(src, HH, r'static RetT parse_float\(const IdentT& id, const std::string& text\)', scope=ARGS,
                new_header='static RetT PF_NAME(const void* id, const vstr* text)', ret_zero='0',
                rules=pf_rules)
    uf.write(suffix='.inc')
    return ui, uf


class NthRule(Rule):
    """Replace the k-th occurrence of a regex by reps[k]; the number of occurrences must equal len(reps)."""

    def __init__(self, pat, reps):
        self.pat, self.reps = pat, reps

    def apply(self, text, where=''):
        ms = list(re.finditer(self.pat, text, re.S))
        if len(ms) != len(self.reps):
            raise ExtractionBreak('%s: rule %r fired %d times, expected %d' % (where, self.pat, len(ms), len(self.reps)))
        for mo, rep in reversed(list(zip(ms, self.reps))):
            text = text[:mo.start()] + mo.expand(rep) + text[mo.end():]
        return text


class LowerExc(Rule):
    """Exception lowering for one getter body (DESIGN.md 3.3), at most one un-nested try statement:

        try { B } catch (const T& [v]) { H }
    ->  { B' } goto verif_end_1;  verif_catch_1: if (VERIF_CATCHES(verif_exc, EXC_T)) { verif_exc = 0; H' } else { return RET; }  verif_end_1: ;

    `throw X(...);` becomes `{ verif_exc = EXC_X; RAISE }` and the marker `VERIF_RAISE;` (written by the call-rewriting rules after
    every may-throw call: `f(...); if (verif_exc) VERIF_RAISE;`) becomes RAISE, where RAISE = `goto verif_catch_1;` inside the
    protected block and `return RET;` everywhere else (handlers included: an exception raised in a handler leaves the function).
    Gates (extraction break otherwise): every call expression names a callee of the may-throw or no-throw table; every
    may-throw call is followed by the propagation test (or is the operand of a `return` outside any try block); the number of handlers is len(handlers); their exception types are read from the text and lowered in source order."""
    KEYWORDS = {'if', 'for', 'while', 'switch', 'catch', 'return', 'sizeof', 'VERIF_CATCHES'}

    def __init__(self, handlers, maythrow, nothrow, ret='0'):
        self.handlers, self.maythrow, self.nothrow, self.ret = handlers, maythrow, nothrow, ret
        self.pat = 'exception lowering'

    def _low(self, seg, action):
        seg, _ = lex.lower_throws(seg, 'VERIF_RAISE_SENTINEL')
        return seg.replace('return VERIF_RAISE_SENTINEL;', action).replace('VERIF_RAISE;', action)

    @staticmethod
    def _ws(m, i):
        while i < len(m) and m[i] in ' \t\r\n':
            i += 1
        return i

    def apply(self, text, where=''):
        ret = 'return %s;' % self.ret if self.ret else 'return;'
        m = lex.mask(text)
        tries = [mo.start() for mo in re.finditer(r'\btry\b', m)]
        if len(tries) != (1 if self.handlers else 0):
            raise ExtractionBreak('%s: expected %d try statements, found %d' % (where, 1 if self.handlers else 0, len(tries)))
        prot = (0, 0)
        if not tries:
            out = self._low(text, ret)
        else:
            t = tries[0]
            b = self._ws(m, t + 3)
            if m[b] != '{':
                raise ExtractionBreak('%s: try without block' % where)
            be = lex.match_close(m, b)
            hs, k = [], be + 1
            while True:
                c = self._ws(m, k)
                if not re.match(r'catch\b', m[c:]):
                    break
                p_ = self._ws(m, c + 5)
                pe = lex.match_close(m, p_)
                h = self._ws(m, pe + 1)
                he = lex.match_close(m, h)
                hs.append((' '.join(text[p_ + 1:pe].split()), text[h + 1:he]))
                k = he + 1
            # the handler *types* come from the text (a changed type changes the lowered condition); only the count is pinned
            if len(hs) != len(self.handlers):
                raise ExtractionBreak('%s: handlers are %r, the lowering table expects %d handler(s)' % (where, [d for d, _ in hs], len(self.handlers)))
            out = self._low(text[:t], ret)
            blk = '{ /* protected block */' + self._low(text[b + 1:be], 'goto verif_catch_1;') + '}\n'
            prot = (len(out), len(out) + len(blk))
            out += blk
            # a block that completes normally skips the handlers; verif_catch_1 is entered only by a raise (verif_exc != 0)
            out += '  goto verif_end_1;\n  verif_catch_1:\n'
            first = True
            for d, htext in hs:
                mo = re.fullmatch(r'const (\w+)\s*&\s*(\w+)?', d)
                if not mo:
                    raise ExtractionBreak('%s: unsupported exception declaration %r' % (where, d))
                out += '  %sif (VERIF_CATCHES(verif_exc, EXC_%s)) { verif_exc = 0;%s}\n' % ('' if first else 'else ', mo.group(1), self._low(htext, ret))
                first = False
            out += '  else { %s /* no handler matches: the exception propagates */ }\n' % ret
            out += '  verif_end_1: ;\n'
            out += self._low(text[k:], ret)
        m = lex.mask(out)
        for mo in re.finditer(r'\b([A-Za-z_]\w*)\s*\(', m):
            n = mo.group(1)
            if n in self.KEYWORDS or n in self.nothrow:
                continue
            if n not in self.maythrow:
                raise ExtractionBreak('%s: call of %s(...) is in neither the may-throw nor the no-throw table of the lowering' % (where, n))
            pe = lex.match_close(m, mo.end() - 1)
            s = self._ws(m, pe + 1)
            h = mo.start()
            while h > 0 and m[h - 1] not in ';{}':
                h -= 1
            if re.match(r'\s*return\b', m[h:mo.start()]) and m[s] == ';' and not (prot[0] <= mo.start() < prot[1]):
                continue        # `return f(...);` -- the callee's flag and zero value are passed on as they are
            if m[s] != ';' or not re.match(r'\s*if \(verif_exc\) (goto verif_catch_1|return)\b', m[s + 1:]):
                raise ExtractionBreak('%s: may-throw call %s(...) is not followed by the propagation test' % (where, n))
        return out


FLAGS_LOOP = """
__CPROVER_assigns(C17_FLAGS_LOOP_ASSIGNS)
__CPROVER_loop_invariant(1 <= z && z <= arg->size && g_nev == g_nev0 + (z - 1) && g_npos == g_npos0)
__CPROVER_loop_invariant((g_ck >= 1 && g_ck < z) ==> arg->data[g_ck] != 0)
__CPROVER_loop_invariant((g_ek >= g_nev0 && g_ek < g_nev) ==> (C17_EV_IS(C17_EV_NAMED, arg) && g_ev_koff == 1 + (g_ek - g_nev0) && g_ev_klen == 1 && g_ev_tlen == 0))
__CPROVER_loop_invariant((g_ek < g_nev0 || g_ek >= g_nev) ==> !g_ev_written)
__CPROVER_decreases(arg->size - z)
"""


def argtext_unit(ctx, src):
    """Arguments::ArgText::ArgText(std::string&& text) : text(std::move(text)), used(<init>) {}  ->  #define of <init>"""
    u = Unit(ctx, 'argtext')
    init = u.snippet(src, CC, r'Arguments::ArgText::ArgText\(std::string&& text\)\s*:\s*text\(std::move\(text\)\),\s*used\(([^()]*)\)\s*\{\s*\}', group=1)
    u.raw('#define C17_ARGTEXT_USED_INIT (%s)' % init)
    u.functions.append({'file': CC, 'cxx_header': 'Arguments::ArgText::ArgText(std::string&& text) : text(std::move(text)), used(...) {}',
                        'c_header': '#define C17_ARGTEXT_USED_INIT', 'line': 0})
    # the members the model mirrors
    u.snippet(src, HH, r'struct ArgText \{\s*std::string text;\s*bool used;')
    u.snippet(src, HH, r'std::unordered_map<std::string, std::vector<ArgText>> named;\s*std::vector<ArgText> positional;')
    u.write(suffix='.h', scan=False)
    return u


class PartsRule(Rule):
    """`auto v = split(<string expr>, 'c'[, max_splits]);` -> the split model on slices (stubs/C17_args.h); `v[k]`, `std::move(v[k])`, `v.size()`
    for the variables so declared (type-directed)"""

    def __init__(self):
        self.pat, self.count = 'split() results as slices', None

    def apply(self, text, where=''):
        names = []

        def decl(mo):
            names.append(mo.group(1))
            return 'C17_parts %s = C17_split(%s, %s, %s);' % (mo.group(1), mo.group(2), mo.group(3), mo.group(4) or '0 /* default argument */')
        text = re.sub(r"\b(?:auto|vector<string>|std::vector<std::string>) (\w+) = (?:phosg::)?split\((arg\.substr\([^()]*\)), ('(?:\\.|[^'\\])')(?:, ([^;()]+))?\);", decl, text)
        for n in names:
            text = re.sub(r'(?:std::)?move\(%s\[(\d+)\]\)' % n, r'C17_part(&%s, \1)' % n, text)
            text = re.sub(r'\b%s\[(\d+)\]' % n, r'C17_part(&%s, \1)' % n, text)
            text = re.sub(r'\b%s\.size\(\)' % n, '%s.count' % n, text)
        return text


def token_unit(ctx, src):
    """The body of `for (string& arg : args)` in Arguments::parse as a function of one token."""
    u = Unit(ctx, 'parse_token')
    # the loop is the whole body of parse(): nothing happens before or after it
    u.snippet(src, CC, r'void Arguments::parse\(vector<string>&& args\) \{\s*for \(string& arg : args\) \{')
    u.block(src, CC, r'void Arguments::parse\(vector<string>&& args\)', r'for \(string& arg : args\)',
            new_header='void Arguments_parse_token(Arguments_log* self, vstr* arg)',
            rules=[PartsRule(),
                   Rule(r'arg\.substr\(([^(),]+), ([^(),]+)\)', r'C17_substr(arg, \1, \2)', count=None, regex=True),
                   Rule(r'arg\.substr\(([^(),]+)\)', r'C17_substr(arg, \1, VSTR_NPOS)', count='+', regex=True),
                   Rule(r'self->positional\.emplace_back\(move\(arg\)\);', 'C17_positional_emplace_back(self, C17_whole(arg));', count='+', regex=True),
                   Rule(r'self->named\[(.*?)\]\.emplace_back\((.*?)\);', r'C17_named_emplace_back(self, \1, \2);', count='+', regex=True),
                   Rule('""', 'C17_empty()', count='+'),
                   Rule(r"arg\.find\(('[^']*'), ([^()]+)\)", r'C17_find(arg, \1, \2)', count=None, regex=True),
                   Rule(r'\bstring::npos\b', 'VSTR_NPOS', count=None, regex=True),
                   Rule('arg.empty()', '(arg->size == 0)', count=None),
                   Rule('arg.size()', 'arg->size', count=None),
                   Rule(r'\barg\[([^\]]+)\]', r'arg->data[\1]', count='+', regex=True)],
            nloops=1, loops={1: FLAGS_LOOP})
    u.write()
    return u


UNUSED_LOOPS = {
    1: """
__CPROVER_assigns(z)
__CPROVER_loop_invariant(z <= self->positional.size && verif_exc == EXC_none && g_wit_kind == 0)
__CPROVER_loop_invariant(g_pk < z ==> self->positional.data[g_pk].used)
__CPROVER_decreases(self->positional.size - z)
""",
    2: """
__CPROVER_assigns(verif_i)
__CPROVER_loop_invariant(verif_i <= g_nmap && verif_exc == EXC_none && g_wit_kind == 0)
__CPROVER_loop_invariant((g_ni < verif_i && g_nj < g_nsz) ==> g_nused)
__CPROVER_decreases(g_nmap - verif_i)
""",
    3: """
__CPROVER_assigns(verif_j, index)
__CPROVER_loop_invariant(verif_j <= named_it->second.size && verif_exc == EXC_none && g_wit_kind == 0)
__CPROVER_loop_invariant((verif_i == g_ni && g_nj < verif_j) ==> g_nused)
__CPROVER_decreases(named_it->second.size - verif_j)
"""}


def unused_unit(ctx, src):
    u = Unit(ctx, 'assert_none_unused')
    THROW = r'\{ verif_exc = EXC_(\w+);\s*return\s*;\s*\}'
    u.function(src, CC, r'void Arguments::assert_none_unused\(\) const', new_header='void Arguments_assert_none_unused(const Arguments* self)',
               ret_zero='',
               rules=[Rule('self->positional.size()', 'self->positional.size', count='+'),
                      Rule(r'const auto& (\w+) = self->positional\[(\w+)\];', r'const ArgText* \1 = &self->positional.data[\2];', count=1, regex=True),
                      Rule(r'\barg\.used\b', 'arg->used', count='+', regex=True),
                      # range-for over the map / over one entry's vector: visit every element once, in container order
                      Rule(r'for \(const auto& (\w+) : self->named\) \{',
                           r'for (size_t verif_i = 0; verif_i < C17_map_size(&self->named); verif_i++) { const ArgMapEntry* \1 = C17_map_entry((ArgMap*)&self->named, verif_i);',
                           count=1, regex=True),
                      Rule(r'for \(const auto& (\w+) : named_it\.second\) \{',
                           r'for (size_t verif_j = 0; verif_j < named_it->second.size; verif_j++) { const ArgText* \1 = &named_it->second.data[verif_j];',
                           count=1, regex=True),
                      Rule(r'\binstance_it\.used\b', 'instance_it->used', count='+', regex=True),
                      # witness of "throws => some argument was never read": which element the throw is about
                      NthRule(THROW, [r'{ g_wit_kind = 1; g_wit_i = z; g_wit_used = arg->used; verif_exc = EXC_\1; return; }',
                                      r'{ g_wit_kind = 2; g_wit_i = verif_i; g_wit_j = verif_j; g_wit_used = instance_it->used; verif_exc = EXC_\1; return; }'])],
               nloops=3, loops=UNUSED_LOOPS)
    u.write()
    return u


REPLAY_SOURCES = ['src/Arguments.cc', 'src/Strings.cc', 'src/Filesystem.cc', 'src/Process.cc', 'src/Time.cc']
OOR = ['const out_of_range&']
RAISE = ' if (verif_exc) VERIF_RAISE;'


def getter_units(ctx, src):
    """get<std::string> (named / positional), get<bool>, get_values_multi  -> x_getters_str.c;
    the typed single-value getters, templates on RetT and IdentT -> x_getters_typed.inc (macro names)."""
    us = Unit(ctx, 'getters_str')
    us.function(src, HH, r'const RetT& get\(const std::string& name, bool throw_if_missing = false\)', scope=ARGS,
                new_header='const vstr* Arguments_get_string_named(Arguments* self, const vstr* name, bool throw_if_missing)',
                rules=[Rule('auto& values = self->named.at(name);', 'ArgVec* values; C17_map_at(&values, &self->named, name);' + RAISE, count=1),
                       Rule('values.empty()', '(values->size == 0)', count=1),
                       Rule('values.size()', 'values->size', count='+'),
                       Rule(r'\bvalues\[(\w+)\]\.used\b', r'values->data[\1].used', regex=True),
                       Rule(r'return values\[(\w+)\]\.text;', r'return &values->data[\1].text;', count=1, regex=True),
                       Rule('return empty_string;', 'return &C17_empty_string;', count=1),
                       LowerExc(OOR, ['C17_map_at'], [])])
    us.function(src, HH, r'const RetT& get\(size_t position, bool throw_if_missing = true\)', scope=ARGS,
                new_header='const vstr* Arguments_get_string_pos(Arguments* self, size_t position, bool throw_if_missing)',
                rules=[Rule('auto& arg = self->positional.at(position);', 'ArgText* arg; C17_vec_at(&arg, &self->positional, position);' + RAISE, count=1),
                       Rule(r'\barg\.used\b', 'arg->used', regex=True),
                       Rule('return arg.text;', 'return &arg->text;', count=1),
                       Rule('return empty_string;', 'return &C17_empty_string;', count=1),
                       LowerExc(OOR, ['C17_vec_at'], [])])
    us.function(src, HH, r'RetT get\(const char\* id\)', scope=ARGS,
                new_header='bool Arguments_get_bool(Arguments* self, const vstr* id)',
                rules=[Rule(r'self->get<string>\(id, (\w+)\);', r'Arguments_get_string_named(self, id, \1);' + RAISE, count=1, regex=True),
                       LowerExc(OOR, ['Arguments_get_string_named'], [])])
    us.function(src, HH, r'inline std::vector<ArgText>& get_values_multi\(const std::string& name\)', scope=ARGS,
                new_header='ArgVec* Arguments_get_values_multi(Arguments* self, const vstr* name)',
                rules=[Rule('return self->named.at(name);', '{ ArgVec* verif_r; C17_map_at(&verif_r, &self->named, name);' + RAISE + ' return verif_r; }', count=1),
                       Rule(r'static vector<ArgText> empty_vec;\s*return empty_vec;', 'return &C17_empty_vec;', regex=True),
                       LowerExc(OOR, ['C17_map_at'], [])])
    us.write()
    ut = Unit(ctx, 'getters_typed')
    ut.raw('#if !C17_FLOAT')
    ut.function(src, HH, r'RetT get\(const IdentT& id, IntFormat format = IntFormat::DEFAULT\)', scope=ARGS,
                new_header='RetT GI_NAME(Arguments* self, IdentT id, int format)',
                rules=[Rule(r'return self->parse_int<RetT>\(id, self->get<string>\(id, (\w+)\), format\);',
                            r'{ const vstr* verif_t = GET_STRING(self, id, \1);' + RAISE + ' return PI_NAME(ID_PTR(id), verif_t, format); }', count=1, regex=True),
                       LowerExc([], ['GET_STRING', 'PI_NAME'], ['ID_PTR'])])
    ut.function(src, HH, r'RetT get\(const IdentT& id, RetT default_value, IntFormat format = IntFormat::DEFAULT\)', scope=ARGS,
                new_header='RetT GID_NAME(Arguments* self, IdentT id, RetT default_value, int format)',
                rules=[Rule('return self->get<RetT>(id, format);', '{ RetT verif_r = GI_NAME(self, id, format);' + RAISE + ' return verif_r; }', count=1),
                       LowerExc(OOR, ['GI_NAME'], [])])
    ut.raw('#else')
    ut.function(src, HH, r'RetT get\(const IdentT& id, std::optional<RetT> default_value = std::nullopt\)', scope=ARGS,
                new_header='RetT GF_NAME(Arguments* self, IdentT id, C17_OPT default_value)',
                rules=[Rule('const string* text;', 'const vstr* text;', count=1),
                       Rule(r'text = &self->get<string>\(id, (\w+)\);', r'text = GET_STRING(self, id, \1);' + RAISE, count=1, regex=True),
                       Rule('default_value.has_value()', 'default_value.has_value', count=1),
                       Rule('*default_value', 'default_value.value', count=1),
                       Rule('return self->parse_float<RetT>(id, *text);', 'return PF_NAME(ID_PTR(id), text);', count=1),
                       LowerExc(OOR, ['GET_STRING', 'PF_NAME'], ['ID_PTR'])])
    ut.raw('#endif')
    ut.write(suffix='.inc')
    return us, ut


GM_LOOP = """
__CPROVER_assigns(verif_j, verif_exc, ret->size, g_out_written, g_out_val, g_out_ptr, g_wit_j; verif_vals->size > 0: __CPROVER_object_whole(verif_vals->data))
__CPROVER_loop_invariant(verif_j <= verif_vals->size && verif_exc == EXC_none && ret->size == verif_j)
__CPROVER_loop_invariant((verif_vals == g_vals && g_nj < verif_j) ==> (C17_GM_ELEM_OK && verif_vals->data[g_nj].used))
__CPROVER_loop_invariant((verif_vals == g_vals && g_nj >= verif_j && g_nj < verif_vals->size) ==> (verif_vals->data[g_nj].used == g_njused && !g_out_written))
__CPROVER_decreases(verif_vals->size - verif_j)
"""


def multi_unit(ctx, src):
    """get_multi<std::string|integral|floating>(name[, format]): one loop over get_values_multi(name); the result vector is the
    out-parameter `ret` (ghost element view), parse_int / parse_float are called through GM_PARSE (abstract outcome per element)."""
    u = Unit(ctx, 'get_multi')
    FOR = Rule(r'for \(auto& (\w+) : self->get_values_multi\(name\)\) \{',
               r'ArgVec* verif_vals = Arguments_get_values_multi(self, name);\n    for (size_t verif_j = 0; verif_j < verif_vals->size; verif_j++) { ArgText* \1 = &verif_vals->data[verif_j];',
               count=1, regex=True)
    # the vector may also be bound to a local first: `auto& X = get_values_multi(name)` is a reference (the same vector), `auto X = ...`
    # a COPY (C++ deduction drops the reference): a distinct vector object with equal elements (stubs/C17_args.h: C17_argvec_copy)
    BIND = [Rule(r'\bauto& (\w+) = self->get_values_multi\(name\);', r'ArgVec* \1 = Arguments_get_values_multi(self, name);', count=None, regex=True),
            Rule(r'\b(?:const )?auto (\w+) = self->get_values_multi\(name\);',
                 r'ArgVec verif_copy_\1; ArgVec* \1 = &verif_copy_\1; C17_argvec_copy(\1, Arguments_get_values_multi(self, name));', count=None, regex=True),
            Rule(r'\bret\.reserve\([^;]*\);', '', count=None, regex=True),
            Rule(r'for \(auto& (\w+) : (\w+)\) \{',
                 r'ArgVec* verif_vals = \2;\n    for (size_t verif_j = 0; verif_j < verif_vals->size; verif_j++) { ArgText* \1 = &verif_vals->data[verif_j];',
                 count=None, regex=True)]
    FOR = Rule(FOR.pat, FOR.rep, count=None, regex=True)
    common = [Rule(r'vector<(\w+)> ret;', '', count=1, regex=True)] + BIND + [FOR, Rule('return ret;', 'return;', count=1)]
    gate = LowerExc([], ['GM_PARSE'], ['Arguments_get_values_multi', 'C17_out_emplace_back', 'C17_out_emplace_back_str', 'C17_argvec_copy'], ret='')
    u.raw('#if C17_GM_KIND == 0')
    u.function(src, HH, r'requires\(std::is_same_v<RetT, std::string>\)\s*std::vector<RetT> get_multi\(const std::string& name\)', scope=ARGS,
               new_header='void GM_NAME(Arguments* self, C17_outvec* ret, const vstr* name)',
               rules=common + [Rule('ret.emplace_back(value.text);', 'C17_out_emplace_back_str(ret, &value->text);', count=1),
                               Rule(r'\bvalue\.used\b', 'value->used', regex=True), gate],
               nloops=1, loops={1: GM_LOOP})
    u.raw('#elif C17_GM_KIND == 1')
    u.function(src, HH, r'std::vector<RetT> get_multi\(const std::string& name, IntFormat format = IntFormat::DEFAULT\)', scope=ARGS,
               new_header='void GM_NAME(Arguments* self, C17_outvec* ret, const vstr* name, int format)',
               rules=common + [Rule(r'ret\.emplace_back\(self->parse_int<RetT>\(name, v\.text, format\)\);',
                                    '{ g_wit_j = verif_j; RetT verif_e = GM_PARSE(name, &v->text, format);' + RAISE + ' C17_out_emplace_back(ret, verif_e); }', count=1, regex=True),
                               Rule(r'\bv\.used\b', 'v->used', regex=True), gate],
               nloops=1, loops={1: GM_LOOP})
    u.raw('#else')
    u.function(src, HH, r'requires\(std::is_floating_point_v<RetT>\)\s*std::vector<RetT> get_multi\(const std::string& name\)', scope=ARGS,
               new_header='void GM_NAME(Arguments* self, C17_outvec* ret, const vstr* name)',
               rules=common + [Rule(r'ret\.emplace_back\(self->parse_float<RetT>\(name, v\.text\)\);',
                                    '{ g_wit_j = verif_j; RetT verif_e = GM_PARSE(name, &v->text, 0);' + RAISE + ' C17_out_emplace_back(ret, verif_e); }', count=1, regex=True),
                               Rule(r'\bv\.used\b', 'v->used', regex=True), gate],
               nloops=1, loops={1: GM_LOOP})
    u.raw('#endif')
    u.write(suffix='.inc')
    return u


SPLIT_LOOP = """
__CPROVER_assigns(z, verif_exc, current_quote, in_space_between_args, ret->ntok, ret->curlen, g_plain, g_ref_words, g_ref_start, g_ref_chars, g_snap_words, g_snap_start, g_rec, g_rec_tok, g_rec_off, g_rec_ch, g_npush)
__CPROVER_loop_invariant(z <= s->size && verif_exc == EXC_none && ret->ntok <= z && (in_space_between_args || ret->ntok > 0))
__CPROVER_loop_invariant(g_plain ==> (current_quote == 0 && in_space_between_args == (z == 0 || C17_BLANK(s->data[z - 1])) && ret->ntok == g_ref_words && g_npush == g_ref_chars))
__CPROVER_loop_invariant((g_plain && !in_space_between_args) ==> (g_ref_start < z && ret->curlen == z - g_ref_start))
__CPROVER_loop_invariant((g_plain && g_ck < z) ==> (C17_BLANK(s->data[g_ck]) ? !g_rec : C17_SPLIT_REC_OK(s)))
__CPROVER_loop_invariant(g_ck >= z ==> !g_rec)
__CPROVER_decreases(s->size - z)
"""


def split_unit(ctx, src):
    u = Unit(ctx, 'split_args')
    u.function(src, STR, r'vector<string> split_args\(const string& s\)', new_header='void split_args(C17_tokvec* ret, const vstr* s)', ret_zero='',
               rules=[Rule('vector<string> ret;', '', count=1),
                      Rule('s.size()', 's->size', count='+'),
                      Rule(r'\bs\[z\]', 's->data[z]', count='+', regex=True),
                      Rule('ret.emplace_back();', 'C17_tok_new(ret);', count='+'),
                      Rule(r'ret\.back\(\)\.push_back\((\w+)\);', r'C17_tok_push(ret, \1);', count='+', regex=True),
                      Rule(r'\bisblank\(', 'C17_isblank(', count='+', regex=True),
                      Rule('return ret;', 'return;', count=1),
                      # lock-step ghost specification, advanced once per iteration before the code looks at s[z]
                      Rule(r'(for \(size_t z = [^{]*\{)', r'\1 C17_SPLIT_GHOST_STEP;', count=1, regex=True)],
               nloops=1, loops={1: SPLIT_LOOP})
    u.write()
    return u


def plan(ctx):
    src = Source(ctx.src)
    groups = []
    ufmt = intformat_unit(ctx, src)
    umask = mask_unit(ctx, src)
    ui, uf = parse_units(ctx, src)
    ctx.functions_under_contract = ui.functions + uf.functions
    RP = dict(driver='C17/arguments.cc', sources=REPLAY_SOURCES)
    classes = [(1, '')] + ([(2, '.embedded_nul')] if EMBEDDED_NUL_IN_SCOPE else [])
    for ty, w, sg in INT_TYPES:
        for cls, sfx in classes:
            groups.append(Group(name='Arguments.parse_int[%s]%s' % (ty, sfx), harness='harness/C17/parse_int.c', entry='h_parse_int',
                                function='Arguments::parse_int<%s> (all IntFormat values)' % ty, enforce='parse_int__' + ty,
                                defines=['RetT=' + ty, 'C17_W=%d' % w, 'C17_SIGNED=%d' % sg, 'C17_FLOAT=0', 'PI_NAME=parse_int__' + ty,
                                         'C17_TEXT_CLASS=%d' % cls], min_post=5,
                                clause_note='contracts/C17_parse.h: returns iff the text is one complete numeral whose mathematical value fits RetT '
                                            '(64-bit: every magnitude < 2^63), else invalid_argument; result == the value; scanned once in the requested base',
                                replay=Replay(mode='parse_int', extra=[ty], **RP)))
    for ty in ('float', 'double'):
        for cls, sfx in classes:
            groups.append(Group(name='Arguments.parse_float[%s]%s' % (ty, sfx), harness='harness/C17/parse_float.c', entry='h_parse_float',
                                function='Arguments::parse_float<%s>' % ty, enforce='parse_float__' + ty,
                                defines=['RetT=' + ty, 'C17_FLOAT=1', 'PF_NAME=parse_float__' + ty, 'C17_TEXT_CLASS=%d' % cls], min_post=4,
                                clause_note='contracts/C17_parse.h: returns iff the text is one complete floating-point literal (the scanner consumed all of it), '
                                            'else invalid_argument; result == (RetT) of the double the scanner reports',
                                replay=Replay(mode='parse_float', extra=[ty], **RP)))
    ua = argtext_unit(ctx, src)
    ut = token_unit(ctx, src)
    uu = unused_unit(ctx, src)
    ctx.functions_under_contract += ua.functions + ut.functions + uu.functions
    groups.append(Group(name='Arguments.parse.token_shapes', harness='harness/C17/token.c', entry='l_shapes', function='token grammar',
                        kind='lemma', clause_note='the shapes POSITIONAL / OPTION / FLAGS of contracts/C17_args.h partition all strings'))
    groups.append(Group(name='Arguments.parse.token', harness='harness/C17/token.c', entry='h_parse_token',
                        function='Arguments::parse (per-token body)', enforce='Arguments_parse_token', replace=['C17_find'], loops=True,
                        kind='loop-contract', min_post=10, fallback_unwind=12,
                        clause_note='contracts/C17_args.h: the token produces exactly the events of its shape (one positional / one name[=value] / one flag per '
                                    'character), in order, slices exact, used = false; earlier events untouched',
                        replay=Replay(mode='token', small_define='VERIF_SMALL', **RP)))
    groups.append(Group(name='Arguments.assert_none_unused', harness='harness/C17/unused.c', entry='h_assert_none_unused',
                        function='Arguments::assert_none_unused', enforce='Arguments_assert_none_unused', replace=['C17_map_entry'], loops=True,
                        kind='loop-contract', min_post=6,
                        clause_note='contracts/C17_args.h: returns normally => every positional / named element has used == true (ghost indices); '
                                    'throws invalid_argument => the witness element exists and has used == false',
                        replay=Replay(mode='unused', **RP)))
    us, utyped = getter_units(ctx, src)
    ctx.functions_under_contract += us.functions + utyped.functions
    HS = 'harness/C17/getters_str.c'
    for fn, rep, note in [('get_string_named', [], 'get<std::string>(name, throw_if_missing)'),
                          ('get_string_pos', [], 'get<std::string>(position, throw_if_missing)'),
                          ('get_bool', ['Arguments_get_string_named'], 'get<bool>(id)'),
                          ('get_values_multi', [], 'get_values_multi(name)')]:
        groups.append(Group(name='Arguments.' + fn, harness=HS, entry='h_' + fn, function='Arguments::' + note, enforce='Arguments_' + fn,
                            replace=rep, min_post=4,
                            clause_note='contracts/C17_getters.h: present => the text and used = true; absent => out_of_range or the empty default; '
                                        'no other used flag changes',
                            replay=Replay(mode='getter', extra=[fn], **RP)))
    groups.append(Group(name='Arguments.used_bookkeeping[<=2 positional]', harness='harness/C17/bookkeeping.c', entry='l_bookkeeping',
                        function='get<std::string>(position) ; assert_none_unused', replace=['Arguments_get_string_pos', 'Arguments_assert_none_unused'],
                        kind='bounded', bound='command lines of at most 2 positional arguments and no options, every subset of reads (composition of the two contracts)',
                        min_post=3, replay=Replay(mode='unused', **RP)))
    usp = split_unit(ctx, src)
    ctx.functions_under_contract += usp.functions
    groups.append(Group(name='Strings.split_args.plain', harness='harness/C17/split.c', entry='h_split_args', function='split_args',
                        enforce='split_args', loops=True, kind='loop-contract', min_post=5, fallback_unwind=10, timeout=300,
                        clause_note='contracts/C17_split.h: a command line without quotes, backslashes and NULs is split into exactly its maximal '
                                    'non-blank runs, in order, byte for byte, without throwing; any input: only runtime_error',
                        replay=Replay(mode='split', small_define='VERIF_SMALL', **RP)))
    um = multi_unit(ctx, src)
    ctx.functions_under_contract += um.functions
    for kind, ty in [(0, 'std::string'), (1, 'int32_t'), (1, 'uint8_t'), (2, 'double')]:
        cty = 'int' if kind == 0 else ty
        groups.append(Group(name='Arguments.get_multi[%s]' % ty, harness='harness/C17/get_multi.c', entry='h_get_multi',
                            function='Arguments::get_multi<%s>' % ty, enforce='get_multi__' + cty, replace=(['GM_PARSE'] if kind else []),
                            loops=True, kind='loop-contract', defines=['C17_GM_KIND=%d' % kind, 'RetT=' + cty, 'GM_NAME=get_multi__' + cty], min_post=5,
                            clause_note='contracts/C17_getters.h: every value of the option is converted in order and marked read; the first invalid text '
                                        'stops with invalid_argument (later values stay unread); an absent option yields the empty vector',
                            replay=Replay(mode='getter', extra=['get_multi', ty], **RP)))
    HT = 'harness/C17/getters_typed.c'
    for named in (1, 0):
        idn = 'name' if named else 'position'
        gs = 'Arguments_get_string_named' if named else 'Arguments_get_string_pos'
        for present in (1, 0):
            case = 'present' if present else 'absent'
            for ty, w, sg in INT_TYPES:
                base = ['RetT=' + ty, 'C17_W=%d' % w, 'C17_SIGNED=%d' % sg, 'C17_FLOAT=0', 'PI_NAME=parse_int__' + ty, 'C17_TEXT_CLASS=1',
                        'GI_NAME=get_int__' + ty, 'GID_NAME=get_int_default__' + ty, 'C17_IDENT_NAMED=%d' % named, 'C17_CASE_PRESENT=%d' % present]
                groups.append(Group(name='Arguments.get[%s](%s,format).%s' % (ty, idn, case), harness=HT, entry='h_get_int',
                                    function='Arguments::get<%s>(%s, format)' % (ty, idn), enforce='get_int__' + ty,
                                    replace=['parse_int__' + ty], defines=base, min_post=2,
                                    clause_note='contracts/C17_getters.h: present => parse_int outcome on the argument text, argument marked read; '
                                                'absent => out_of_range; no other flag changes',
                                    replay=Replay(mode='getter', extra=['get_int', ty, idn, case], **RP)))
                groups.append(Group(name='Arguments.get[%s](%s,default,format).%s' % (ty, idn, case), harness=HT, entry='h_get_int_default',
                                    function='Arguments::get<%s>(%s, default_value, format)' % (ty, idn), enforce='get_int_default__' + ty,
                                    replace=['get_int__' + ty], defines=base, min_post=2,
                                    clause_note='contracts/C17_getters.h: present => as get(id, format); absent => the supplied default, no exception',
                                    replay=Replay(mode='getter', extra=['get_int_default', ty, idn, case], **RP)))
            for ty in ('float', 'double'):
                base = ['RetT=' + ty, 'C17_FLOAT=1', 'PF_NAME=parse_float__' + ty, 'C17_TEXT_CLASS=1', 'GF_NAME=get_float__' + ty,
                        'C17_IDENT_NAMED=%d' % named, 'C17_CASE_PRESENT=%d' % present]
                groups.append(Group(name='Arguments.get[%s](%s,optional).%s' % (ty, idn, case), harness=HT, entry='h_get_float',
                                    function='Arguments::get<%s>(%s, std::optional default)' % (ty, idn), enforce='get_float__' + ty,
                                    replace=['parse_float__' + ty], defines=base, min_post=2,
                                    clause_note='contracts/C17_getters.h: present => parse_float outcome, argument marked read; absent => the default if supplied, else out_of_range',
                                    replay=Replay(mode='getter', extra=['get_float', ty, idn, case], **RP)))
    # "a command line given as one string is first tokenised like a shell would": the quote/escape state machine of split_args is
    # proved by C08's group (lock-step reference automaton, loop contract); it is run here too so that a change to the tokeniser is
    # reported under C17 as well (the quote-free group above is this module's own, weaker, statement)
    from props import C08 as c08
    saved = list(ctx.functions_under_contract)
    for g in c08.plan(ctx):
        if g.name == 'split_args':
            g.name = 'Strings.split_args[C08 automaton]'
            groups.append(g)
    ctx.functions_under_contract = saved
    return groups


EXPLANATION = ('parse_int<RetT> (8 integer types, the IntFormat symbolic) and parse_float<float|double> are loop-free: each contract is enforced with '
               'goto-instrument --dfcc over an abstract scanner (strtoull/strtod reduced to what ISO C says they report: consumed length, sign, '
               'magnitude, overflow) and bit-blasted over all 2^64 magnitudes x sign x overflow x "what follows the numeral", so "accepts iff the '
               'mathematical value fits" is decided at every boundary of every type. The per-token body of Arguments::parse (flag loop under a loop '
               'contract), assert_none_unused (three loops under loop contracts), the exception-lowered getters (try/catch -> if-chain), get_multi '
               '(loop contract) and split_args on quote-free command lines (loop contract with a lock-step ghost specification) are proved for '
               'tokens / vectors / command lines of any length (< 2^16 bytes / elements); universals are ghost indices.')
TRUSTED = [
    'stubs/C17_strto.h: the abstract model of strtoull / strtoll / strtod / errno (ISO C 7.22.1.3-4: value negated in the return type, ULLONG_MAX + '
    'ERANGE when not representable, 0 and endptr == nptr when no conversion; endptr never beyond the first NUL) and "a complete numeral contains a '
    '\'-\' iff it is negative"',
    'stubs/C17_args.h: the container models -- positional/named as an append-only event log on the construction side (named[k].emplace_back(v) = append '
    'v to the values of k), vectors as {data,size} and the unordered_map as an abstract collection with one distinguished entry on the reading side '
    '(at(k) finds the entry or throws out_of_range; iteration visits every entry once); std::string::substr / find semantics; std::optional as {has_value, value}',
    'props/C17.py LowerExc: the try/catch lowering of the getters (raise inside the protected block -> goto handler chain; VERIF_CATCHES subtype table of '
    'stubs/C17_args.h transcribed from the C++ standard; a raise inside a handler leaves the function)',
    'contracts/C17_parse.h, C17_args.h, C17_getters.h, C17_split.h: the specification macros (mathematical range predicate, token shapes, word starts)',
    'stubs/vstr.h (std::string as {data,size,cap} with the terminator at data[size])',
]
ASSUMPTIONS = [
    'token / text / command-line lengths below 2^16 bytes, vectors below 2^16 elements (object-size limit of the model)',
    'allocation succeeds (bad_alloc / length_error from std::string and std::vector growth are not modelled)',
    'the "C" locale for isblank (space and tab)',
    'single-value typed getters: the option was given exactly once (or not at all); see NOT_DECIDED for repeated options',
]
DROPS = ('template<RetT, IdentT> instantiated textually (RetT via -D; IdentT = const std::string& / size_t as vstr* / size_t); exception message arguments '
         '(exc_prefix(id) + "...") dropped with the throw lowering; std::string -> vstr, references -> pointers; std::move(arg) -> the whole-token slice; '
         'substr results -> slices of the token (no copy); range-for over a container -> index loop over the model; returned std::vector -> out-parameter '
         'with one ghost element; the function-local static of get_values_multi hoisted to a global; static member empty_string -> global; '
         'is_unsigned_v / mask_for_type / bits_for_type variable templates -> function-like macros with the expression text of Encoding.hh; '
         'enum class IntFormat -> enum with prefixed enumerators')
NOT_DECIDED = [
    'what strtoull / strtod accept as a numeral or literal (leading white space, "+", "0x", "inf"/"nan", hex floats, locale) and which double a literal '
    'denotes, including the double rounding of parse_float<float> through strtod: libc, assumed = ISO C',
    '64-bit target types on numerals of magnitude 2^63 or more: the statement only promises magnitudes below 2^63 (observed after C17-1: int64_t rejects '
    'them, uint64_t accepts magnitudes up to 2^64-1 and wraps negative numerals)',
    'the quoting dialect of split_args (what quotes, backslashes and NUL bytes mean): only command lines without them are decided. Observed, not judged: '
    'an empty quoted string yields no token (a shell yields an empty argument), a backslash also escapes inside single quotes, NUL bytes are dropped',
    'the outer loop of Arguments::parse (range-for: every token once, in order -- C++ semantics) and the plumbing of the four constructors '
    '(argv copy loop; split_args then parse)',
    'std::unordered_map itself (hashing, key equality, find-or-insert of operator[], iteration order): trusted model',
    'single-value getters on an option that was given more than once: get<T>(name) then behaves as if the option were absent (its own '
    'out_of_range("multiple values") is caught by its own handler), so get<bool>("v") is false after "-vv" -- the statement does not say what should happen',
    'which used flags are set when a getter leaves with invalid_argument (the statement only speaks of arguments that were read)',
    'exception message texts; IntFormat values outside the enum (logic_error); conversion of a negative int position to size_t',
    'used-flag bookkeeping across whole call sequences: decided per getter (marks exactly what it delivers, frame by ghost index / assigns clause, any '
    'number of arguments) and per assert_none_unused (throws iff some flag is false); their composition is checked only as a bounded lemma (<= 2 positional)',
]
CLAIMED = True
MANIFEST = dict(
    category='proof',
    text=('Arguments::parse_int<RetT> for the eight integer types (format symbolic, so all four IntFormat values) and parse_float<float|double> are put '
          'under function contracts over an abstract strtoull/strtod (consumed length, sign, magnitude, overflow as ghosts) and discharged by cbmc over the '
          'whole domain: returns iff the text is one complete numeral whose mathematical value fits RetT (64-bit: every magnitude < 2^63), else '
          'invalid_argument; result == the value; scanned once in the base the format names. The per-token body of Arguments::parse is proved against the '
          'three token shapes (exactly the events of its shape, slices exact, order and earlier events preserved, used = false), assert_none_unused against '
          '"throws iff some used flag is false" (witness), the exception-lowered getters get<string>/get<bool>/get<int>(id[,default],format)/get<float>(id,optional) '
          'for name and position identifiers (present: parse outcome and marked read; absent: out_of_range or the supplied default), get_multi, and split_args '
          'on quote-free command lines (tokens = maximal non-blank runs) with loop contracts for inputs of any length.'),
    note=('Trusted: cbmc/goto-instrument, the answering solver, the extractor, the models of strtoull/strtod/errno (stubs/C17_strto.h) and of the two containers '
          '(stubs/C17_args.h), the try/catch lowering (props/C17.py LowerExc). Confirmed defects (native replay): numerals of magnitude >= 2^63 are accepted by the '
          '8/16/32-bit getters with a wrapped value (get<int8_t>("18446744073709551615") == -1), and texts with an embedded NUL are accepted ("5\\0abc" -> 5); '
          'fixes/C17-1, C17-2. Not decided: what libc accepts as a numeral, 64-bit targets beyond 2^63, the quoting dialect of split_args, repeated options with '
          'single-value getters, unordered_map internals, the outer parse loop.'),
    technique='function and loop contracts (requires/ensures/assigns, invariants/decreases) enforced with goto-instrument --dfcc on mechanically extracted, exception-lowered C text; discharged by cbmc (SAT/SMT portfolio); one bounded lemma over the contracts',
)
