/* C03: harness entries for the leaf helpers. The function text is x_Encoding_leaf.c (extracted each run). */
#include "contracts/C03_leaf.h"
#include "x_Encoding_leaf.c"

#define H1(fn, T) void h_##fn(void) { T in_a; fn(in_a); VERIF_REACH(); }
H1(ext24, uint32_t)
H1(ext48, uint64_t)
H1(bswap8, uint8_t)
H1(bswap16, uint16_t)
H1(bswap24, uint32_t)
H1(bswap24s, int32_t)
H1(bswap32, uint32_t)
H1(bswap48, uint64_t)
H1(bswap48s, int64_t)
H1(bswap64, uint64_t)
H1(bswap32f_u2f, uint32_t)
H1(bswap32f_f2u, float)
H1(bswap64f_u2d, uint64_t)
H1(bswap64f_d2u, double)

/* Involution lemmas, proved over the *contracts* (callee replaced by its contract): they also show that the
 * contracts pin the functions down completely. */
#define INV(fn, T, MASK) void l_##fn##_involution(void) { T in_a; T r = fn(fn(in_a)); \
    __CPROVER_assert(r == (T)(in_a & (MASK)), #fn "(" #fn "(x)) == x & mask"); VERIF_REACH(); }
INV(bswap8, uint8_t, 0xFF)
INV(bswap16, uint16_t, 0xFFFF)
INV(bswap24, uint32_t, 0xFFFFFFu)
INV(bswap32, uint32_t, 0xFFFFFFFFu)
INV(bswap48, uint64_t, 0xFFFFFFFFFFFFull)
INV(bswap64, uint64_t, 0xFFFFFFFFFFFFFFFFull)

/* signed 24/48-bit forms: involution on values that are sign-extended 24/48-bit numbers */
void l_bswap24s_involution(void) {
  int32_t in_a;
  __CPROVER_assume(in_a >= -0x800000 && in_a <= 0x7FFFFF);
  int32_t r = bswap24s(bswap24s(in_a));
  __CPROVER_assert(r == in_a, "bswap24s(bswap24s(x)) == x for sign-extended 24-bit x");
  VERIF_REACH();
}
void l_bswap48s_involution(void) {
  int64_t in_a;
  __CPROVER_assume(in_a >= -0x800000000000ll && in_a <= 0x7FFFFFFFFFFFll);
  int64_t r = bswap48s(bswap48s(in_a));
  __CPROVER_assert(r == in_a, "bswap48s(bswap48s(x)) == x for sign-extended 48-bit x");
  VERIF_REACH();
}
void l_bswap32f_roundtrip(void) {
  float in_a;
  float r = bswap32f_u2f(bswap32f_f2u(in_a));
  __CPROVER_assert(F2U(r) == F2U(in_a), "bswap32f(bswap32f(x)) is bit-identical to x");
  VERIF_REACH();
}
void l_bswap64f_roundtrip(void) {
  double in_a;
  double r = bswap64f_u2d(bswap64f_d2u(in_a));
  __CPROVER_assert(D2U(r) == D2U(in_a), "bswap64f(bswap64f(x)) is bit-identical to x");
  VERIF_REACH();
}
