/* C09 O-3: format_data_string(const void*, size_t, const void*, flags) as a whole (side-car contract; the definition is extracted
 * text with loop contracts injected by the extractor).  C view: the result string is the out-parameter `ret` (empty on entry).
 *   - the quoted form is chosen iff strings are not suppressed and EVERY byte is in the printable set (ghost index g_k for the
 *     universal, ghost witness g_w for the existential),
 *   - the quoted form is bracketed by double quotes; size bounds of both forms (5 characters per byte at most: "?" + escape),
 *   - data and mask are only read inside [0, size) (cbmc pointer checks).
 * The result string is the append-only model of stubs/C09_str.h (first byte + the bytes of the last loop iteration). */
#ifndef C09_FORMAT_H
#define C09_FORMAT_H
#include "stubs/C09_str.h"
#include "contracts/C09_glue.h"
#ifndef C09_TAIL_MODEL
#error "the contract is written over the append-only string model (compile with -DC09_TAIL_MODEL)"
#endif

#define FDS_MAXDATA 0xFFFFFFFFull
#define FDS_DATA(k) (((const uint8_t*)vdata)[k])

#ifdef MASK_NULL
#define FDS_MASK_REQ __CPROVER_requires(vmask == 0)
#else
#define FDS_MASK_REQ __CPROVER_requires(__CPROVER_is_fresh(vmask, size))
#endif

void format_data_string(OUT_STR* ret, const void* vdata, size_t size, const void* vmask, uint64_t flags)
__CPROVER_requires(size <= FDS_MAXDATA)
__CPROVER_requires(__CPROVER_is_fresh(vdata, size))
FDS_MASK_REQ
__CPROVER_requires(__CPROVER_is_fresh(ret, sizeof(OUT_STR)))
__CPROVER_requires(ret->size == 0 && ret->nw == 0 && ret->cap <= VSTR_MAXCAP && ret->cap >= 2 + 5 * size)
__CPROVER_ensures(g_quoted ==> ((flags & FormatDataFlags_SKIP_STRINGS) == 0 && (g_k < size ==> FDS_PRINTABLE(FDS_DATA(g_k)))))
__CPROVER_ensures((!g_quoted && (flags & FormatDataFlags_SKIP_STRINGS) == 0) ==> (g_w < size && !FDS_PRINTABLE(FDS_DATA(g_w))))
__CPROVER_ensures(g_quoted ==> (ret->size >= 2 && ret->size <= 2 + 5 * size && ret->first == '"' && ret->nw >= 1 && ret->w[ret->nw - 1] == '"'))
__CPROVER_ensures(!g_quoted ==> (ret->size >= 2 * size && ret->size <= 3 * size))
__CPROVER_ensures(vmask == 0 ==> (g_quoted ? ret->size <= 2 + 2 * size : ret->size == 2 * size))
__CPROVER_assigns(g_quoted, g_w, ret->size, ret->nw, ret->first, __CPROVER_object_upto(ret->w, C09_WIN));

#endif
