/* C14: Poll::add / remove / empty under contract (vector of any length, described around the key). */
#include "contracts/C14_poll.h"
int verif_exc; C14_GHOSTS
int g_key, g_present, g_pfd; short g_pev; size_t g_lb, g_pk, g_pn;
#include "x_poll.c"

#ifdef VERIF_SMALL
#define SMALL __CPROVER_assume(in_pn <= 6)
#else
#define SMALL
#endif
#define IN_POLL int in_key, in_present, in_pfd; short in_pev; size_t in_lb, in_pk, in_pn; unsigned in_closes, in_closes_other; SMALL; \
  g_key = in_key; g_present = in_present; g_pfd = in_pfd; g_pev = in_pev; g_lb = in_lb; g_pk = in_pk; g_pn = in_pn; \
  g_fd = in_key; g_closes = in_closes; g_closes_other = in_closes_other; verif_exc = 0
void h_add(void) { IN_POLL; Poll* p; short in_events; Poll_add(p, in_key, in_events); VERIF_REACH(); }
void h_remove(void) { IN_POLL; Poll* p; bool in_close_fd; Poll_remove(p, in_key, in_close_fd); VERIF_REACH(); }
void h_empty(void) { IN_POLL; Poll* p; Poll_empty(p); VERIF_REACH(); }
void h_add_pred(void) { const c14_pollfd* x; const c14_pollfd* y; verif_exc = 0; Poll_add_pred(x, y); VERIF_REACH(); }
void h_remove_pred(void) { const c14_pollfd* x; const c14_pollfd* y; verif_exc = 0; Poll_remove_pred(x, y); VERIF_REACH(); }
