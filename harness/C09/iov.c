/* C09: the iovec cursor loops of format_data */
#include "contracts/C09_iov.h"
int verif_exc;
#include "x_iov_cursors.c"
#define ARGS uint8_t* buf; const struct iovec *a, *p; size_t in_n, in_np; size_t *ci, *cb, *pi, *pb; uint8_t in_line_bytes, in_start
void h_read_current(void) { ARGS; format_data_read_current(buf, a, in_n, p, in_np, ci, cb, pi, pb, in_line_bytes, in_start); VERIF_REACH(); }
void h_read_prev(void) { ARGS; format_data_read_prev(buf, a, in_n, p, in_np, ci, cb, pi, pb, in_line_bytes, in_start); VERIF_REACH(); }
