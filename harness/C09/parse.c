/* C09 O-1: parse_data_string as a whole under its totality contract (loop contract injected by the extractor). */
#include "contracts/C03_leaf.h"
#include "x_Encoding_leaf.c"
#include "x_c09_prelude.c"
#include "contracts/C09_parse.h"
int verif_exc; size_t g_vk, g_k, g_w; bool g_quoted, g_returned;
const char* g_end; unsigned g_st_calls; const char* g_st_arg; const char* g_st_end; int g_st_base; int g_st_kind;
unsigned long long g_num; double g_dbl; float g_flt; unsigned g_load_calls;
#include "x_pds_full.c"

void h_parse(void)
{
  vstr* data; const char* s; vstr* mask; size_t in_size; uint64_t in_flags; size_t in_vk;
  g_vk = in_vk;
  parse_data_string(data, s, in_size, mask, in_flags);
  VERIF_REACH();
}
