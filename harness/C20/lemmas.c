/* C20: outcome of the Lean 4 check of the number-theoretic lemmas behind the abstract-predicate proof of gcd (x_lemmas.h is written by
 * props/C20.py on every run after running `lean spec/lemmas/EuclidStep.lean`). */
#include "contracts/verif.h"
#include "x_lemmas.h"
int verif_exc;
void h_lemmas(void)
{
  __CPROVER_assert(C20_EUCLID_STEP_BY_LEAN, "d | 0 and the Euclid step lemma are theorems of the Lean 4 kernel: " C20_LEAN_SAYS);
  VERIF_REACH();
}
