/* C17: the per-token body of Arguments::parse (the brace block of `for (string& arg : args)`, extracted as a function of
 * one token) against the event-log model of the two containers (stubs/C17_args.h).  The token is any std::string
 * (length < 2^16, any bytes); in_ek is the observed event, in_ck the observed character position, in_nev / in_npos the
 * log counters before the token (append-only frame). */
#include "contracts/C17_args.h"
#include "x_parse_token.c"

int verif_exc, verif_errno, g_base; unsigned g_ncalls;
size_t g_endoff, g_vk; bool g_neg, g_ovf; uint64_t g_mag; double g_fval;
size_t g_size, g_ck, g_nev, g_npos, g_nev0, g_npos0, g_ek;
bool g_ev_written; int g_ev_kind; const vstr* g_ev_src; size_t g_ev_koff, g_ev_klen, g_ev_toff, g_ev_tlen, g_ev_index; bool g_ev_used;
#ifdef VERIF_SMALL
char g_t0, g_t1, g_t2, g_t3, g_t4, g_t5, g_t6, g_t7, g_t8;
#endif

void h_parse_token(void) {
  Arguments_log* self; vstr* arg;
  size_t in_size, in_ek, in_ck, in_nev, in_npos;
  g_size = in_size; g_ek = in_ek; g_ck = in_ck; g_nev = g_nev0 = in_nev; g_npos = g_npos0 = in_npos;
  g_ev_written = 0; g_ev_kind = C17_EV_NONE; g_ev_used = 1;
#ifdef VERIF_SMALL
  char in_t0, in_t1, in_t2, in_t3, in_t4, in_t5, in_t6, in_t7, in_t8;
  g_t0 = in_t0; g_t1 = in_t1; g_t2 = in_t2; g_t3 = in_t3; g_t4 = in_t4; g_t5 = in_t5; g_t6 = in_t6; g_t7 = in_t7; g_t8 = in_t8;
#endif
  verif_exc = EXC_none;
  Arguments_parse_token(self, arg);
  VERIF_REACH();
}

/* Lemma: the three shapes partition the tokens (exactly one holds for every string) */
void l_shapes(void) {
  vstr in_a; size_t in_size; char in_c0, in_c1;
  char buf[4];
  __CPROVER_assume(in_size < 0x10000);
  in_a.size = in_size; in_a.cap = in_size + 1; in_a.data = buf; buf[0] = in_c0; buf[1] = in_c1;
  if (in_size == 0) buf[0] = 0;
  if (in_size == 1) buf[1] = 0;
  const vstr* a = &in_a;
  int n = (TOK_POSITIONAL(a) ? 1 : 0) + (TOK_OPTION(a) ? 1 : 0) + (TOK_FLAGS(a) ? 1 : 0);
  __CPROVER_assert(n == 1, "assertion: every token has exactly one of the shapes POSITIONAL / OPTION / FLAGS");
  VERIF_REACH();
}
