/* C04: containers (piece 6 of DESIGN.md C04), one container kind per compilation (-DC04_DICT=0|1).
 *   -DC04_EMIT_ABSTRACT : the list / dict arm of serialize under contract over the token emitters (element count, indentation
 *                         and child sizes unbounded, options symbolic)
 *   otherwise           : bounded end-to-end run, real bytes: serialize arm -> dispatch -> container branch of parse, with the
 *                         recursive calls (child->serialize / JSON::parse) replaced by the one-byte value token 'V'. */
#include "harness/C04/prelude.h"
#include "contracts/C04_container.h"
size_t g_ek, g_p0, g_p1, g_base; char g_ech; unsigned g_gl, g_cl; char g_g0, g_g1, g_g2, g_g3, g_g4, g_g5, g_c0, g_c1, g_c2, g_c3, g_c4, g_c5;
int g_q; size_t g_count, g_indent; uint32_t g_options; int g_mode; bool g_args_ok, g_format;

#ifdef C04_EMIT_ABSTRACT
#include "x_json_containers.c"
#define IN_GHOSTS uint32_t in_options; size_t in_indent; int in_mode; g_options = in_options; g_indent = in_indent; g_mode = in_mode; \
  g_format = (in_options & SerializeOption_FORMAT) != 0; g_args_ok = 1; g_q = 0; g_count = 0; verif_exc = 0
void h_ser_list(void) { const JSONV* v; vstr* ret; IN_GHOSTS; JSON_ser_list(v, ret, in_options, in_indent, in_mode); VERIF_REACH(); }
void h_ser_dict(void) { const JSONV* v; vstr* ret; IN_GHOSTS; JSON_ser_dict(v, ret, in_options, in_indent, in_mode); VERIF_REACH(); }
void h_add_key(void) {
  vstr* ret; IN_GHOSTS; int in_q; size_t in_count, in_value; const vstr* key;
  g_q = in_q; g_count = in_count;
  __CPROVER_assume(in_count < 0x7FFFFFFFFFFFFFFFull);
  JSON_ser_dict_add_key(ret, g_format, in_options, in_indent, in_mode, key, in_value);
  VERIF_REACH();
}
#else
/* the recursive JSON::parse(r, disable_extensions) at a position where the serialiser put a child or a key: whitespace, then
 * either a string (keys of the bounded run are at most one plain letter; escaping is pieces 1 and 2) or the value token */
vstr g_keys[2]; char g_keybuf[2][4];
static void skip_whitespace_and_comments(StringReader* r, bool disable_extensions);
static void C04_parse_child(StringReader* r, bool disable_extensions, JSONV* out)
{
  skip_whitespace_and_comments(r, disable_extensions); if (verif_exc) return;
  int d = JSON_parse_dispatch(r); if (verif_exc) return;
  char c = StringReader_get_s8(r, false); if (verif_exc) return;
  if (d == 4) {                       /* a string without escapes: through the closing quotation mark */
    StringReader_get_s8(r, true);
    for (int k = 0; k < 3; k++) {
      c = StringReader_get_s8(r, true); if (verif_exc) return;
      if (c == '"') { out->kind = JK_string; return; }
    }
    verif_exc = EXC_parse_error; return;
  }
  if (c == 'V') { StringReader_get_s8(r, true); out->kind = JK_int64_t; return; }
  verif_exc = EXC_parse_error;      /* ] } , : and the like: "unknown root sentinel" */
}
#include "x_json_containers.c"

#ifndef C04_NMAX
#define C04_NMAX 2
#endif
void h_container_bounded(void) {
  size_t in_n, in_indent; uint32_t in_options; C04_IN_BOOL(in_strict); char in_k0, in_k1; size_t in_kn0, in_kn1;
  __CPROVER_assume(in_n <= C04_NMAX && in_indent <= 1 && in_kn0 <= 1 && in_kn1 <= 1);
  __CPROVER_assume(C04_MODE_OK(in_strict, in_options));
  __CPROVER_assume(in_kn0 != in_kn1 || (in_kn0 == 1 && in_k0 != in_k1));      /* keys of a dictionary are pairwise distinct */
  __CPROVER_assume(in_k0 >= 'a' && in_k0 <= 'z' && in_k1 >= 'a' && in_k1 <= 'z');
  g_keybuf[0][0] = in_k0; g_keybuf[1][0] = in_k1;
  g_keys[0].data = g_keybuf[0]; g_keys[0].size = in_kn0; g_keys[0].cap = 4;
  g_keys[1].data = g_keybuf[1]; g_keys[1].size = in_kn1; g_keys[1].cap = 4;
  int esc = JSON_ser_escape_mode(in_options);
  g_options = in_options; g_indent = in_indent; g_mode = esc; g_format = (in_options & SerializeOption_FORMAT) != 0; g_args_ok = 1; g_q = 0; g_count = 0;
  verif_exc = 0;
  JSONV v; v.kind = C04_DICT ? JK_dict_type : JK_list_type; v.n = in_n;
  char obuf[64]; vstr out = {obuf, 0, 64};
#if C04_DICT
  JSON_ser_dict(&v, &out, in_options, in_indent, esc);
#else
  JSON_ser_list(&v, &out, in_options, in_indent, esc);
#endif
  __CPROVER_assert(verif_exc == 0 && out.size >= 2, "serialize(container) does not throw");
  __CPROVER_assert(g_q == C04_Q_ACCEPT && g_count == in_n && g_args_ok, "serialize(container) is accepted by the RFC 8259 grammar automaton with one value per element (standard JSON)");
  StringReader r = {(const uint8_t*)out.data, out.size, 0};
  __CPROVER_assert(JSON_parse_dispatch(&r) == (C04_DICT ? 1 : 2), "the first character of serialize(container) selects the matching container branch of parse");
  JSONV ret; ret.kind = -1; ret.n = 0;
#if C04_DICT
  JSON_parse_dict(&r, in_strict, &ret);
#else
  JSON_parse_list(&r, in_strict, &ret);
#endif
  __CPROVER_assert(verif_exc == 0, "parse(serialize(container)) does not throw");
  __CPROVER_assert(r.offset == r.length, "parse consumes the serialized container entirely");
  __CPROVER_assert(ret.kind == v.kind && ret.n == in_n, "parse(serialize(container)) is a container of the same kind with the same number of elements");
  VERIF_REACH();
}
#endif
