/* StringReader::pget<W>(offset, size) used as a VALUE inside another accessor, W one of the byte-order wrapper types
 * (be_/le_ [u]int16/32/64_t): `*(const W*)pgetv(offset, size)` converted to the exposed integer.  The dereference reads sizeof(W)
 * bytes at the returned pointer whatever `size` was checked by pgetv -- exactly what the C++ expression does -- assembled in the
 * wrapper's byte order.  (The typed one-liners get_u16b ... are not lowered through this model: they instantiate the template text
 * itself, harness/RW/typed.c.) */
#ifndef RW_PGET_H
#define RW_PGET_H
const void* StringReader_pgetv(const StringReader* self, size_t offset, size_t size);
#define RW_PGET_MODEL(W, RT, UT, N, BE) \
  static inline RT verif_pget_##W(const StringReader* self, size_t offset, size_t size) { \
    const uint8_t* verif_p = (const uint8_t*)StringReader_pgetv(self, offset, size); \
    if (verif_exc) return 0; \
    UT verif_v = 0; \
    for (unsigned verif_k = 0; verif_k < (N); verif_k++) \
      verif_v |= (UT)((UT)verif_p[verif_k] << (8 * ((BE) ? (N) - 1 - verif_k : verif_k))); \
    return (RT)verif_v; }
RW_PGET_MODEL(be_uint16_t, uint16_t, uint16_t, 2, 1) RW_PGET_MODEL(le_uint16_t, uint16_t, uint16_t, 2, 0)
RW_PGET_MODEL(be_int16_t, int16_t, uint16_t, 2, 1)   RW_PGET_MODEL(le_int16_t, int16_t, uint16_t, 2, 0)
RW_PGET_MODEL(be_uint32_t, uint32_t, uint32_t, 4, 1) RW_PGET_MODEL(le_uint32_t, uint32_t, uint32_t, 4, 0)
RW_PGET_MODEL(be_int32_t, int32_t, uint32_t, 4, 1)   RW_PGET_MODEL(le_int32_t, int32_t, uint32_t, 4, 0)
RW_PGET_MODEL(be_uint64_t, uint64_t, uint64_t, 8, 1) RW_PGET_MODEL(le_uint64_t, uint64_t, uint64_t, 8, 0)
RW_PGET_MODEL(be_int64_t, int64_t, uint64_t, 8, 1)   RW_PGET_MODEL(le_int64_t, int64_t, uint64_t, 8, 0)
#endif
