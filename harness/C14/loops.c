/* C14: read-to-end loops and the line reader (loop contracts). */
#include "contracts/C14_loops.h"
int verif_exc; C14_GHOSTS
uint8_t g_cval; char* g_vsv_buf; size_t g_vsv_cap; size_t g_it_next, g_it_prefix;
#include "x_read_all.c"

/* VERIF_SMALL / VERIF_SMALL_LINE: only used when the verifier is asked again for a counterexample that can be replayed
 * natively (and by the bounded fallback); never in the verdict run */
#if defined(VERIF_SMALL)
#define SMALL __CPROVER_assume(in_src_len <= 40000)
#elif defined(VERIF_SMALL_LINE)
#define SMALL __CPROVER_assume(in_src_len <= 700)
#else
#define SMALL
#endif
#define IN_GHOSTS size_t in_src_len, in_vk; uint8_t in_sval; int in_has_nl; SMALL; \
  g_src_len = in_src_len; g_pos = 0; g_vk = in_vk; g_sval = in_sval; g_has_nl = in_has_nl; g_wpos = 0; g_wval = 0; \
  g_eof_seen = 0; g_err_seen = 0; g_chunk = 0; g_overrun = 0; g_fg_buf = 0; g_fg_len = 0; g_cval = 0; g_it_next = 0; g_it_prefix = 0; g_stream_fd_taken = 0; verif_exc = 0

void h_read_all_fd(void) { IN_GHOSTS; int in_fd; vstr* r; phosg_read_all_fd(r, in_fd); VERIF_REACH(); }
void h_read_all_file(void) { IN_GHOSTS; C14_FILE* f; vstr* r; phosg_read_all_file(r, f); VERIF_REACH(); }
void h_fgets(void) { IN_GHOSTS; C14_FILE* f; vstr* r; phosg_fgets(r, f); VERIF_REACH(); }
