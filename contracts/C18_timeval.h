/* C18: "the microsecond/timeval conversions are exact inverses" (property statement; quantifier: durations up to 2^63 us).
 * The two function contracts say what each conversion computes; the inverse laws are lemmas proved over the contracts.
 * Domain of timeval_to_usecs: the represented time tv_sec * 10^6 + tv_usec fits a signed 64-bit microsecond count
 * (tv_sec is a signed time_t and the function multiplies it as such: beyond that bound the C++ multiplication is undefined). */
#ifndef CONTRACTS_C18_TIMEVAL_H
#define CONTRACTS_C18_TIMEVAL_H
#include "contracts/verif.h"
#include <sys/time.h>

#define TV_MAX_SEC 9223372036854ll            /* floor(INT64_MAX / 10^6) */
#define TV_MAX_SEC_USEC 775807ll              /* INT64_MAX - TV_MAX_SEC * 10^6 */
#define TV_IN_DOMAIN(sec, usec) ((sec) >= 0 && (usec) >= 0 && (usec) < 1000000 && \
                                 ((sec) < TV_MAX_SEC || ((sec) == TV_MAX_SEC && (usec) <= TV_MAX_SEC_USEC)))

struct timeval usecs_to_timeval(uint64_t usecs)
__CPROVER_requires(1)
__CPROVER_ensures(__CPROVER_return_value.tv_usec >= 0 && __CPROVER_return_value.tv_usec < 1000000)          /* normalised */
__CPROVER_ensures(__CPROVER_return_value.tv_sec >= 0 && __CPROVER_return_value.tv_sec <= 18446744073709ll)
__CPROVER_ensures((unsigned __int128)__CPROVER_return_value.tv_sec * 1000000 + (unsigned __int128)__CPROVER_return_value.tv_usec == usecs)   /* exact: 128-bit, no wrap-around */
__CPROVER_assigns();

extern long g_tv_sec, g_tv_usec;      /* ghost copies of the argument (so that a counterexample carries it) */
uint64_t timeval_to_usecs(struct timeval* tv)
__CPROVER_requires(__CPROVER_is_fresh(tv, sizeof(struct timeval)))
__CPROVER_requires(tv->tv_sec == g_tv_sec && tv->tv_usec == g_tv_usec)
__CPROVER_requires(TV_IN_DOMAIN(tv->tv_sec, tv->tv_usec))
__CPROVER_ensures(__CPROVER_return_value == (uint64_t)tv->tv_sec * 1000000 + (uint64_t)tv->tv_usec)
__CPROVER_ensures(__CPROVER_return_value <= 9223372036854775807ull)
__CPROVER_assigns();
#endif
