/* C06: contracts of the PNG scan-line block and of the COLOR_PPM case of Image::save_helper.
 *
 * PNG (ISO/IEC 15948): the data handed to zlib is, for each row top to bottom, one filter-type byte followed by the row's
 * pixels; filter type 0 (None) leaves the bytes unchanged; colour type 2 = R,G,B, colour type 6 = R,G,B,A, 8 bits each.
 * PPM "P6" / PAM "P7": after the text header the samples follow in row-major order, 3 (4) per pixel; phosg writes its
 * memory image, so that the loader (C06_ppm.h) gets the same bytes back.
 */
#ifndef C06_SAVE_H
#define C06_SAVE_H
#include "stubs/C06_io.h"
#include "stubs/libc.h"
#include "x_image_types.h"
#ifndef C06_DIM
#define C06_DIM 8
#endif

size_t g_x, g_y;        /* ghost pixel */
#ifndef C06_PPM_H
size_t g_c;             /* ghost channel */
#endif
size_t g_w, g_h;        /* ghost copies of the dimensions */
size_t g_k;             /* ghost byte index in the Image buffer */
uint8_t g_pv;           /* the value there */
#define C06_PS(alpha) ((size_t)3 + (size_t)(alpha))
#define C06_LINE(w, alpha) ((size_t)1 + (size_t)(w) * C06_PS(alpha))

/* ---- zlib call protocol of the IDAT chunk.  compressBound is abstract: some value >= its argument, MONOTONE in it (true of zlib's formula
 * sourceLen + (sourceLen >> 12) + (sourceLen >> 14) + (sourceLen >> 25) + 13); the ghosts record for which argument the bound was computed. */
typedef unsigned char Bytef; typedef unsigned long uLongf; typedef unsigned long uLong;
extern size_t g_zb_arg, g_zb_ret, g_z_len, g_z_out, g_chunk_size; extern const void* g_z_src; extern const void* g_chunk_data; extern int g_z_ret, g_chunk_calls;
size_t C06_compressBound(size_t n)
__CPROVER_ensures(__CPROVER_return_value >= n && g_zb_arg == n && g_zb_ret == __CPROVER_return_value)
__CPROVER_assigns(g_zb_arg, g_zb_ret);
int C06_compress2(Bytef* dest, uLongf* destLen, const Bytef* source, uLong sourceLen, int level)
__CPROVER_requires(__CPROVER_w_ok(destLen, sizeof(uLongf)))
/* zlib.h: "Upon entry, destLen is the total size of the destination buffer, which must be at least the value returned by compressBound(sourceLen)" */
__CPROVER_requires(*destLen >= g_zb_ret && g_zb_arg >= sourceLen)
__CPROVER_requires(*destLen == 0 || __CPROVER_w_ok(dest, *destLen))
__CPROVER_requires(sourceLen == 0 || __CPROVER_r_ok(source, sourceLen))
__CPROVER_requires(level >= -1 && level <= 9)
__CPROVER_ensures(g_z_src == source && g_z_len == sourceLen && g_z_ret == __CPROVER_return_value)
__CPROVER_ensures(__CPROVER_return_value == 0 ==> (*destLen <= __CPROVER_old(*destLen) && g_z_out == *destLen))
__CPROVER_assigns(*destLen, g_z_src, g_z_len, g_z_ret, g_z_out; *destLen != 0: __CPROVER_object_from(dest));
void C06_png_chunk_call(const char* type, const void* data, size_t size)
__CPROVER_ensures(g_chunk_calls == __CPROVER_old(g_chunk_calls) + 1 && g_chunk_data == data && g_chunk_size == size)
__CPROVER_assigns(g_chunk_calls, g_chunk_data, g_chunk_size);

void Image_save_png_idat(const Image* self, void* image_data, size_t image_size)
__CPROVER_requires(__CPROVER_is_fresh(self, sizeof(Image)))
__CPROVER_requires(1 <= self->width && self->width <= C06_DIM && 1 <= self->height && self->height <= C06_DIM)
__CPROVER_requires(image_size == (size_t)self->height * C06_LINE(self->width, self->has_alpha))
__CPROVER_requires(__CPROVER_is_fresh(image_data, image_size))
__CPROVER_requires(verif_exc == 0 && g_chunk_calls == 0)
/* the whole scan-line buffer is compressed */
__CPROVER_ensures(g_z_src == image_data && g_z_len == image_size)
/* success: one IDAT chunk with exactly the bytes compress2 produced; failure of compress2: runtime_error, no chunk */
__CPROVER_ensures(g_z_ret == 0 ? (verif_exc == 0 && g_chunk_calls == 1 && g_chunk_size == g_z_out) : (verif_exc == EXC_runtime_error && g_chunk_calls == 0))
__CPROVER_assigns(verif_exc, g_zb_arg, g_zb_ret, g_z_src, g_z_len, g_z_ret, g_z_out, g_chunk_calls, g_chunk_data, g_chunk_size);

void Image_save_png_scanlines(const Image* self, void** out_image_data, size_t* out_image_size)
__CPROVER_requires(__CPROVER_is_fresh(self, sizeof(Image)))
__CPROVER_requires(__CPROVER_is_fresh(out_image_data, sizeof(void*)))
__CPROVER_requires(__CPROVER_is_fresh(out_image_size, sizeof(size_t)))
__CPROVER_requires(1 <= self->width && self->width <= C06_DIM && 1 <= self->height && self->height <= C06_DIM && self->has_alpha == C06_ALPHA)
__CPROVER_requires(g_w == (size_t)self->width && g_h == (size_t)self->height)
__CPROVER_requires(__CPROVER_is_fresh(self->data.raw, (size_t)self->width * (size_t)self->height * C06_PS(C06_ALPHA)))
__CPROVER_requires(g_x < g_w && g_y < g_h && g_c < C06_PS(C06_ALPHA) && g_mk == g_x * C06_PS(C06_ALPHA) + g_c)
__CPROVER_requires(g_pv == ((const uint8_t*)self->data.raw)[(g_y * g_w + g_x) * C06_PS(C06_ALPHA) + g_c])
__CPROVER_assigns(*out_image_data, *out_image_size)
/* h scan lines of 1 + w*pixel_size bytes */
__CPROVER_ensures(*out_image_size == g_h * C06_LINE(g_w, C06_ALPHA))
__CPROVER_ensures(__CPROVER_is_fresh(*out_image_data, g_h * C06_LINE(g_w, C06_ALPHA)))
/* every line starts with filter type 0 and carries the row's bytes unchanged */
__CPROVER_ensures(((const uint8_t*)*out_image_data)[g_y * C06_LINE(g_w, C06_ALPHA)] == 0)
__CPROVER_ensures(((const uint8_t*)*out_image_data)[g_y * C06_LINE(g_w, C06_ALPHA) + 1 + g_x * C06_PS(C06_ALPHA) + g_c] == g_pv);

#define C06_PNG_INV                                                                                          \
  (y <= (size_t)self->height &&                                                                              \
   (g_y < (size_t)y ==> (((const uint8_t*)image_data)[g_y * C06_LINE(g_w, C06_ALPHA)] == 0 &&                \
                         ((const uint8_t*)image_data)[g_y * C06_LINE(g_w, C06_ALPHA) + 1 + g_x * C06_PS(C06_ALPHA) + g_c] == g_pv)))

#ifdef C06_CW
void Image_save_ppm(const Image* self)
__CPROVER_requires(__CPROVER_is_fresh(self, sizeof(Image)))
__CPROVER_requires(1 <= self->width && self->width <= C06_DIM && 1 <= self->height && self->height <= C06_DIM)
__CPROVER_requires(self->has_alpha == C06_ALPHA && self->channel_width == C06_CW)
__CPROVER_requires(g_w == (size_t)self->width && g_h == (size_t)self->height)
__CPROVER_requires(__CPROVER_is_fresh(self->data.raw, g_w * g_h * C06_PS(C06_ALPHA) * (C06_CW / 8)))
__CPROVER_requires(verif_exc == 0 && g_wpos == 0 && g_wcalls == 0 && !g_wseen)
__CPROVER_requires(g_k < g_w * g_h * C06_PS(C06_ALPHA) * (C06_CW / 8) && g_pv == ((const uint8_t*)self->data.raw)[g_k])
__CPROVER_assigns(g_wpos, g_wcalls, g_first_size, g_wv, g_wseen, g_hdr_len)
/* never throws (any channel width can be saved); header text, then exactly the w*h*(3+alpha) samples */
__CPROVER_ensures(verif_exc == 0 && g_wcalls == 2 && g_first_size == g_hdr_len && g_hdr_len < 256)
__CPROVER_ensures(g_wpos == g_first_size + g_w * g_h * C06_PS(C06_ALPHA) * (C06_CW / 8))
/* byte k of the buffer is byte k after the header */
__CPROVER_ensures(g_wk == g_first_size + g_k ==> (g_wseen && g_wv == g_pv));
#endif

#endif
