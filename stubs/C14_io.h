/* C14 TRUSTED stubs: contract-only models of the system calls and stdio functions src/Filesystem.cc uses for its
 * read/write helpers (DESIGN.md 4 "C14", Appendix B).  Written from POSIX.1-2017 (read, pread, write, pwrite, close)
 * and ISO C 7.21 (fread, fwrite, fgetc, fgets, feof); never from phosg code.  Every function is a *declaration with a
 * contract* bound with --replace-call-with-contract; its requires clauses are the memory-safety obligations of the
 * call site.
 *
 * GHOST SOURCE STREAM (what a descriptor / FILE* will deliver):
 *     g_src_len   total number of bytes the source delivers before end-of-file
 *     g_pos       bytes delivered so far                      (g_pos <= g_src_len always)
 *     g_eof_seen  an end-of-file indication has been returned (read() == 0 / short fread / NULL fgets with feof)
 *     g_err_seen  an error indication has been returned       (read() == -1 / ferror)
 *     content     ONE ghost position g_vk (the ghost index of stubs/vstr.h): "byte g_vk of the stream is g_sval".
 *                 A reader that copies stream bytes [p, p+k) into buf promises  p <= g_vk < p+k ==> buf[g_vk-p] == g_sval.
 *     g_chunk     return value of the last read-like call (so that a counterexample shows the delivery plan)
 * How the bytes arrive is unconstrained: each read() may return ANY count in [1, min(n, remaining)], which covers pipes
 * with delayed writers, sockets and short reads of every shape; 0 is returned only at end-of-file and is sticky.
 *
 * GHOST SINK (what a descriptor / FILE* accepted): g_wpos bytes accepted so far; "byte g_vk of the sink is g_wval"
 * is established by the write that covers position g_vk. */
#ifndef STUBS_C14_IO_H
#define STUBS_C14_IO_H
#include "contracts/verif.h"

extern size_t g_vk;
extern size_t g_src_len, g_pos, g_wpos;
extern int g_eof_seen, g_err_seen;
extern uint8_t g_sval, g_wval;
extern ssize_t g_chunk;

typedef struct c14_file C14_FILE;     /* opaque FILE */
#ifndef EOF
#define EOF (-1)
#endif
#define C14_SSIZE_MAX ((size_t)0x7FFFFFFFFFFFFFFFull)
#define C14_REMAINING (g_src_len - g_pos)
#define C14_STREAM_OK (g_pos <= g_src_len)
#define C14_U8(p) ((const uint8_t*)(p))

/* read(2): "-1 and errno | 0 at end-of-file | the number of bytes read, which may be less than nbyte" */
extern int g_stream_fd_taken, g_stream_fd;
#define C14_NOT_THE_STREAM_FD(fd) (!(g_stream_fd_taken && (fd) == g_stream_fd))   /* POSIX 2.5.1, see c14_fileno */
ssize_t c14_read(int fd, void* buf, size_t n)
__CPROVER_requires(n == 0 || __CPROVER_w_ok(buf, n))
__CPROVER_requires(C14_STREAM_OK)
__CPROVER_requires(C14_NOT_THE_STREAM_FD(fd))
__CPROVER_ensures(__CPROVER_return_value >= -1 && __CPROVER_return_value == g_chunk)
__CPROVER_ensures(__CPROVER_return_value >= 0 ==> ((size_t)__CPROVER_return_value <= n && (size_t)__CPROVER_return_value <= (g_src_len - __CPROVER_old(g_pos))))
__CPROVER_ensures(g_pos == __CPROVER_old(g_pos) + (__CPROVER_return_value > 0 ? (size_t)__CPROVER_return_value : 0))
__CPROVER_ensures((__CPROVER_return_value == 0 && n > 0) ==> g_pos == g_src_len)                    /* 0 only at end-of-file */
__CPROVER_ensures(g_eof_seen == (__CPROVER_old(g_eof_seen) || (__CPROVER_return_value == 0 && n > 0)))
__CPROVER_ensures(g_err_seen == (__CPROVER_old(g_err_seen) || __CPROVER_return_value == -1))
__CPROVER_ensures((g_vk >= __CPROVER_old(g_pos) && g_vk < g_pos) ==> C14_U8(buf)[g_vk - __CPROVER_old(g_pos)] == g_sval)
__CPROVER_assigns(g_pos, g_eof_seen, g_err_seen, g_chunk; n != 0: __CPROVER_object_from(buf));

/* pread(2): like read at a given offset of a file of g_src_len bytes; the file offset (g_pos) is not changed */
ssize_t c14_pread(int fd, void* buf, size_t n, off_t offset)
__CPROVER_requires(n == 0 || __CPROVER_w_ok(buf, n))
__CPROVER_ensures(__CPROVER_return_value >= -1 && __CPROVER_return_value == g_chunk)
__CPROVER_ensures(offset < 0 ==> __CPROVER_return_value == -1)                                        /* EINVAL */
__CPROVER_ensures(__CPROVER_return_value >= 0 ==> ((size_t)__CPROVER_return_value <= n &&
                  ((size_t)offset >= g_src_len ? __CPROVER_return_value == 0 : (size_t)__CPROVER_return_value <= g_src_len - (size_t)offset)))
__CPROVER_ensures((__CPROVER_return_value == 0 && n > 0) ==> (size_t)offset >= g_src_len)
__CPROVER_ensures(g_err_seen == (__CPROVER_old(g_err_seen) || __CPROVER_return_value == -1))
__CPROVER_ensures((__CPROVER_return_value > 0 && g_vk >= (size_t)offset && g_vk < (size_t)offset + (size_t)__CPROVER_return_value) ==> C14_U8(buf)[g_vk - (size_t)offset] == g_sval)
__CPROVER_assigns(g_err_seen, g_chunk; n != 0: __CPROVER_object_from(buf));

/* write(2): "-1 | the number of bytes written, which may be less than nbyte" */
ssize_t c14_write(int fd, const void* buf, size_t n)
__CPROVER_requires(n == 0 || __CPROVER_r_ok(buf, n))
__CPROVER_ensures(__CPROVER_return_value >= -1 && __CPROVER_return_value == g_chunk)
__CPROVER_ensures(__CPROVER_return_value >= 0 ==> (size_t)__CPROVER_return_value <= n)
__CPROVER_ensures(g_wpos == __CPROVER_old(g_wpos) + (__CPROVER_return_value > 0 ? (size_t)__CPROVER_return_value : 0))
__CPROVER_ensures(g_err_seen == (__CPROVER_old(g_err_seen) || __CPROVER_return_value == -1))
__CPROVER_ensures((g_vk >= __CPROVER_old(g_wpos) && g_vk < g_wpos) ==> g_wval == C14_U8(buf)[g_vk - __CPROVER_old(g_wpos)])
__CPROVER_ensures(!(g_vk >= __CPROVER_old(g_wpos) && g_vk < g_wpos) ==> g_wval == __CPROVER_old(g_wval))
__CPROVER_assigns(g_wpos, g_wval, g_err_seen, g_chunk);

/* pwrite(2): the k accepted bytes land at [offset, offset+k); ghost: sink byte g_vk */
ssize_t c14_pwrite(int fd, const void* buf, size_t n, off_t offset)
__CPROVER_requires(n == 0 || __CPROVER_r_ok(buf, n))
__CPROVER_ensures(__CPROVER_return_value >= -1 && __CPROVER_return_value == g_chunk)
__CPROVER_ensures(offset < 0 ==> __CPROVER_return_value == -1)
__CPROVER_ensures(__CPROVER_return_value >= 0 ==> (size_t)__CPROVER_return_value <= n)
__CPROVER_ensures(g_err_seen == (__CPROVER_old(g_err_seen) || __CPROVER_return_value == -1))
__CPROVER_ensures((__CPROVER_return_value > 0 && g_vk >= (size_t)offset && g_vk < (size_t)offset + (size_t)__CPROVER_return_value)
                  ? g_wval == C14_U8(buf)[g_vk - (size_t)offset] : g_wval == __CPROVER_old(g_wval))
__CPROVER_assigns(g_wval, g_err_seen, g_chunk);

/* fread (ISO C 7.21.8.1), element size 1 only (the only form phosg uses): returns the number of elements read, "which may
 * be less than nmemb if a read error or end-of-file is encountered" -- a short count therefore implies eof or error */
size_t c14_fread(void* buf, size_t size, size_t n, C14_FILE* f)
__CPROVER_requires(size == 1)
__CPROVER_requires(n == 0 || __CPROVER_w_ok(buf, n))
__CPROVER_requires(C14_STREAM_OK)
__CPROVER_ensures(__CPROVER_return_value <= n && __CPROVER_return_value <= (g_src_len - __CPROVER_old(g_pos)) && (ssize_t)__CPROVER_return_value == g_chunk)
__CPROVER_ensures(g_pos == __CPROVER_old(g_pos) + __CPROVER_return_value)
__CPROVER_ensures(__CPROVER_return_value < n ==> ((g_pos == g_src_len && g_eof_seen) || g_err_seen))
__CPROVER_ensures(__CPROVER_return_value == n ==> (g_eof_seen == __CPROVER_old(g_eof_seen) && g_err_seen == __CPROVER_old(g_err_seen)))
__CPROVER_ensures((__CPROVER_old(g_eof_seen) ==> g_eof_seen) && (__CPROVER_old(g_err_seen) ==> g_err_seen))
__CPROVER_ensures((g_eof_seen && !__CPROVER_old(g_eof_seen)) ==> g_pos == g_src_len)
__CPROVER_ensures((g_vk >= __CPROVER_old(g_pos) && g_vk < g_pos) ==> C14_U8(buf)[g_vk - __CPROVER_old(g_pos)] == g_sval)
__CPROVER_assigns(g_pos, g_eof_seen, g_err_seen, g_chunk; n != 0: __CPROVER_object_from(buf));

/* fwrite (7.21.8.2), element size 1: returns the number of elements written, less than nmemb only on a write error */
size_t c14_fwrite(const void* buf, size_t size, size_t n, C14_FILE* f)
__CPROVER_requires(size == 1)
__CPROVER_requires(n == 0 || __CPROVER_r_ok(buf, n))
__CPROVER_ensures(__CPROVER_return_value <= n && (ssize_t)__CPROVER_return_value == g_chunk)
__CPROVER_ensures(g_wpos == __CPROVER_old(g_wpos) + __CPROVER_return_value)
__CPROVER_ensures(__CPROVER_return_value < n ==> g_err_seen)
__CPROVER_ensures(__CPROVER_old(g_err_seen) ==> g_err_seen)
__CPROVER_ensures((g_vk >= __CPROVER_old(g_wpos) && g_vk < g_wpos) ? g_wval == C14_U8(buf)[g_vk - __CPROVER_old(g_wpos)] : g_wval == __CPROVER_old(g_wval))
__CPROVER_assigns(g_wpos, g_wval, g_err_seen, g_chunk);

/* fgetc (7.21.7.1): next character as unsigned char converted to int, or EOF with the eof / error indicator set */
int c14_fgetc(C14_FILE* f)
__CPROVER_requires(C14_STREAM_OK)
__CPROVER_ensures(__CPROVER_return_value == EOF || (__CPROVER_return_value >= 0 && __CPROVER_return_value <= 255))
__CPROVER_ensures(__CPROVER_return_value != EOF ==> (__CPROVER_old(g_pos) < g_src_len && g_pos == __CPROVER_old(g_pos) + 1 &&
                  g_eof_seen == __CPROVER_old(g_eof_seen) && g_err_seen == __CPROVER_old(g_err_seen)))
__CPROVER_ensures((__CPROVER_return_value != EOF && g_vk == __CPROVER_old(g_pos)) ==> __CPROVER_return_value == g_sval)
__CPROVER_ensures(__CPROVER_return_value == EOF ==> (g_pos == __CPROVER_old(g_pos) && ((g_pos == g_src_len && g_eof_seen) || g_err_seen)))
__CPROVER_ensures((__CPROVER_old(g_eof_seen) ==> g_eof_seen) && (__CPROVER_old(g_err_seen) ==> g_err_seen))
__CPROVER_ensures((g_eof_seen && !__CPROVER_old(g_eof_seen)) ==> g_pos == g_src_len)
__CPROVER_assigns(g_pos, g_eof_seen, g_err_seen);

/* feof (7.21.10.2): nonzero iff the end-of-file indicator is set;  fileno: some descriptor, no effect */
int c14_feof(C14_FILE* f)
__CPROVER_ensures((__CPROVER_return_value != 0) == (g_eof_seen != 0))
__CPROVER_assigns();
/* ferror (7.21.10.3): nonzero iff the error indicator is set */
int c14_ferror(C14_FILE* f)
__CPROVER_ensures((__CPROVER_return_value != 0) == (g_err_seen != 0))
__CPROVER_assigns();
/* fileno (POSIX): the descriptor underlying the stream.  POSIX.1-2017 2.5.1 "Interaction of File Descriptors and Standard I/O Streams":
 * a stream that is open for reading may hold bytes it has already fetched from the descriptor in its buffer; reading the descriptor
 * directly (without the fflush/fseek hand-over, which an arbitrary caller-supplied stream does not allow) skips those bytes.
 * The stub records that the descriptor of the stream has been taken (g_stream_fd); read / pread on exactly that descriptor
 * is a precondition failure of the read stubs below. */
extern int g_stream_fd_taken, g_stream_fd;
int c14_fileno(C14_FILE* f)
__CPROVER_ensures(__CPROVER_return_value >= -1)
__CPROVER_ensures(g_stream_fd_taken == 1 && g_stream_fd == __CPROVER_return_value)
__CPROVER_assigns(g_stream_fd_taken, g_stream_fd);

/* fgets (7.21.7.2) on a source whose remaining bytes [g_pos, g_src_len) form ONE LINE: no '\n' except possibly the very
 * last byte (g_has_nl), no NUL byte (the C interface cannot report a length, so text without NUL is assumed).
 *   "reads at most one less than n characters; no additional characters are read after a new-line character (which is
 *    retained) or after end-of-file; a null character is written immediately after the last character read."
 *   "If end-of-file is encountered and no characters have been read, the array is unchanged and a null pointer is
 *    returned. If a read error occurs, a null pointer is returned."
 * So a successful call stores exactly k = min(n-1, remaining) characters -- fgets is never "short" -- and buf[k] = 0.
 * The stub remembers (g_fg_buf, g_fg_len) so that strlen() of that buffer can be answered (= k, as the line has no NUL).
 * Calling fgets again after the new-line was consumed would read the NEXT line: flagged by g_overrun. */
extern int g_has_nl, g_overrun;
extern const char* g_fg_buf;
extern size_t g_fg_len;
#define C14_FGETS_K(n) (((size_t)(n) - 1 < (g_src_len - __CPROVER_old(g_pos))) ? (size_t)(n) - 1 : (g_src_len - __CPROVER_old(g_pos)))
char* c14_fgets(char* buf, int n, C14_FILE* f)
__CPROVER_requires(n >= 2 && __CPROVER_w_ok(buf, (size_t)n))
__CPROVER_requires(C14_STREAM_OK)
__CPROVER_ensures(__CPROVER_return_value == 0 || __CPROVER_return_value == buf)
__CPROVER_ensures((__CPROVER_old(g_pos) == g_src_len && g_src_len > 0 && g_has_nl) ==> g_overrun)        /* would consume the next line */
__CPROVER_ensures(!(__CPROVER_old(g_pos) == g_src_len && g_src_len > 0 && g_has_nl) ==> g_overrun == __CPROVER_old(g_overrun))
__CPROVER_ensures((__CPROVER_return_value == 0) ==> (g_pos == __CPROVER_old(g_pos) && ((g_pos == g_src_len && g_eof_seen) || g_err_seen)))
__CPROVER_ensures((__CPROVER_old(g_pos) < g_src_len && !g_err_seen) ==> __CPROVER_return_value == buf)
__CPROVER_ensures((__CPROVER_old(g_eof_seen) ==> g_eof_seen) && (__CPROVER_old(g_err_seen) ==> g_err_seen))
__CPROVER_ensures((g_eof_seen && !__CPROVER_old(g_eof_seen)) ==> (__CPROVER_return_value == 0 && g_pos == g_src_len))   /* the eof indicator is only set at end-of-file */
__CPROVER_ensures((__CPROVER_return_value != 0 && !g_overrun) ==> (__CPROVER_old(g_pos) < g_src_len && g_pos == __CPROVER_old(g_pos) + C14_FGETS_K(n) &&
                  g_fg_buf == buf && g_fg_len == C14_FGETS_K(n) && buf[C14_FGETS_K(n)] == 0 &&
                  g_eof_seen == __CPROVER_old(g_eof_seen) && g_err_seen == __CPROVER_old(g_err_seen)))
__CPROVER_ensures((__CPROVER_return_value != 0 && !g_overrun) ==> ((buf[C14_FGETS_K(n) - 1] == '\n') == (g_has_nl && g_pos == g_src_len)))
__CPROVER_ensures((__CPROVER_return_value != 0 && !g_overrun && g_vk >= __CPROVER_old(g_pos) && g_vk < g_pos) ==> (uint8_t)buf[g_vk - __CPROVER_old(g_pos)] == g_sval)
__CPROVER_assigns(g_pos, g_eof_seen, g_err_seen, g_overrun, g_fg_buf, g_fg_len, __CPROVER_object_from(buf));

/* strlen of the buffer fgets filled last (see above) */
size_t c14_strlen(const char* s)
__CPROVER_requires(s == g_fg_buf)
__CPROVER_ensures(__CPROVER_return_value == g_fg_len)
__CPROVER_assigns();

/* close(2): the ghost counter counts close calls on the ghost descriptor g_fd; closing a negative descriptor is EBADF */
extern int g_fd;
extern unsigned g_closes, g_closes_other;
int c14_close(int fd)
__CPROVER_ensures(g_closes == __CPROVER_old(g_closes) + (fd == g_fd ? 1u : 0u))
__CPROVER_ensures(g_closes_other == __CPROVER_old(g_closes_other) + (fd != g_fd ? 1u : 0u))
__CPROVER_assigns(g_closes, g_closes_other);

/* scoped_fd(filename, flags): open(2) succeeded (a descriptor) or cannot_open_file was thrown;  phosg::fstat(fd).st_size:
 * the size the file system reports (g_stat_size >= 0, independent of what read() will deliver) or cannot_stat_file */
extern ssize_t g_stat_size;
/* the flags the caller passes to open(2) are recorded in the ghost g_open_flags: what POSIX promises about the file afterwards
 * depends on them (O_TRUNC: the previous content is discarded; O_APPEND: writes go to the end; access mode) */
extern int g_open_flags;
int c14_open(const void* filename, int flags)
__CPROVER_requires(verif_exc == 0)
__CPROVER_ensures((verif_exc == 0 && __CPROVER_return_value >= 0) || verif_exc == EXC_cannot_open_file)
__CPROVER_ensures(g_open_flags == flags)
__CPROVER_assigns(verif_exc, g_open_flags);
ssize_t c14_fstat_size(int fd)
__CPROVER_requires(verif_exc == 0)
__CPROVER_ensures((verif_exc == 0 && __CPROVER_return_value == g_stat_size) || verif_exc == EXC_runtime_error)
__CPROVER_assigns(verif_exc);

#define C14_GHOSTS int g_stream_fd_taken, g_stream_fd; int g_open_flags; ssize_t g_stat_size; size_t g_vk, g_src_len, g_pos, g_wpos; int g_eof_seen, g_err_seen; uint8_t g_sval, g_wval; ssize_t g_chunk; \
                   int g_has_nl, g_overrun; const char* g_fg_buf; size_t g_fg_len; int g_fd; unsigned g_closes, g_closes_other;
#endif
