/* C04: common prelude -- the StringReader accessors (shared extraction of C01/C02, real bodies, inlined), the JSON value
 * model, the extracted serializer arms and parser branches. */
#include "harness/RW/common.h"
#include "stubs/C04_libc.h"
#include "x_reader_core.c"
#include "x_writer_core.c"
#define T int8_t
#define NATIVE 1
#define CONVT(p) (*(p))
#define CTORT(w, v) (*(w) = (v))
#include "x_rw_tmpl.inc"
#include "x_one__int8_t.inc"
#include "x_json_model.h"
#include "spec/C04_rfc8259.h"
#include "contracts/C04_string.h"
#include "contracts/C04_number.h"
#include "x_json_access.c"
#include "x_json_serialize.c"
#include "x_json_parse.c"

const char* g_gtext; size_t g_glen; unsigned g_ndigits; size_t g_dstart; uint64_t g_mag; uint64_t g_pref[20]; int g_c04_dummy;

/* the option bits the header documents as "not standard-compliant" */
#define C04_NONSTANDARD (SerializeOption_HEX_INTEGERS | SerializeOption_ONE_CHARACTER_TRIVIAL_CONSTANTS | SerializeOption_HEX_ESCAPE_CODES | SerializeOption_ESCAPE_CONTROLS_ONLY)
/* strict mode (disable_extensions) is only required to accept text produced without the non-standard options */
#define C04_MODE_OK(strict, options) (!(strict) || ((options) & C04_NONSTANDARD) == 0)
/* a nondet _Bool may carry a non-canonical byte in cbmc's model: inputs of type bool are made canonical */
unsigned nondet_C04_bits(void);
#define C04_IN_BOOL(name) bool name = (nondet_C04_bits() & 1u) != 0
