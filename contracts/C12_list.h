/* C12: separation-style *local* contracts of the intrusive recency list of LRUSet / LRUMap (DESIGN.md A.7).
 *
 * Included after build/C12/x_LRU{Set,Map}_types.h (types, stub, prototypes).  LRU is the container struct, M(f) the
 * C name of member f.  Everything here is written from the property statement ("behaves like a recency list": an item
 * that is touched becomes the most recently used one, every other item keeps its relative position; evict/peek look at
 * the least recently used one) phrased on the *neighbourhood* of the item concerned:
 *
 *      head -> ... -> P <-> i <-> N -> ... -> tail           P = prev(i), N = next(i), H = head, T = tail
 *
 *  unlink i        : P.next = N, N.prev = P, head/tail step over i, i is detached; nothing else is written
 *  push i in front : i.next = H, H.prev = i, head = i, (tail = i if the list was empty); nothing else is written
 *  move to front   : unlink then push, or nothing at all if i already is the head
 *
 * "Nothing else is written" is the assigns clause (the frame): together with the mirror-link invariant of the
 * neighbours this is the separation-logic footprint of the operation, so the rest of the list -- of any length -- is
 * unchanged.  The neighbourhood has finitely many alias configurations; CFG selects one per obligation group, because
 * __CPROVER_is_fresh is only reliable as a positive requires clause of its own (no disjunction):
 */
#ifndef C12_LIST_H
#define C12_LIST_H

#define CFG_NONE 0         /* no stored item is involved (key absent); the list is arbitrary                         */
#define CFG_ONLY 1         /* i is the only element:            H = T = i                                            */
#define CFG_HEAD 2         /* i is the head of >= 2 elements:   P = 0, N fresh                                       */
#define CFG_SECOND_TAIL 3  /* two elements, i is the tail:      P = H fresh, N = 0                                   */
#define CFG_SECOND_MID 4   /* i is second of >= 3:              P = H fresh, N fresh                                 */
#define CFG_TAIL 5         /* i is the tail of >= 3:            P fresh, H fresh, P != H, N = 0                      */
#define CFG_MID 6          /* i is interior, not second:        P, N, H fresh and pairwise distinct                  */
#define CFG_EMPTY 7        /* key absent, list empty (H = T = 0): a new item is pushed                               */
#define CFG_NONEMPTY 8     /* key absent, list non-empty (H fresh): a new item is pushed                             */
#define CFG_PEEK 9         /* the tail item alone (peek only reads it)                                               */
#ifndef CFG
#define CFG CFG_NONE
#endif
#define CFG_HAS_ITEM (CFG >= CFG_ONLY && CFG <= CFG_MID)

#define CAT_(a, b) a##_##b
#define CAT(a, b) CAT_(a, b)
#define M(f) CAT(PFX, f)
#define LRU PFX

/* ghosts: the entry state of the neighbourhood, bound by a requires clause (instead of __CPROVER_old on compound expressions) */
extern Item* g_i;
extern Item* g_P;
extern Item* g_N;
extern Item* g_H;
extern Item* g_T;
extern size_t g_tot0;   /* total_size at entry */
extern size_t g_sz0;    /* size of the item at entry */
#ifdef C12_MAP
extern ValueT g_val0;   /* value of the item at entry */
#define BIND_VAL(it) && g_val0 == (it)->value
#else
#define BIND_VAL(it)
#endif

#define REQ_SELF(self) __CPROVER_requires(__CPROVER_is_fresh(self, sizeof(LRU))) __CPROVER_requires(verif_exc == 0)
#define BIND_LIST(self) __CPROVER_requires(g_H == (self)->head && g_T == (self)->tail && g_tot0 == (self)->total_size)
#define BIND_ITEM(self, it) BIND_LIST(self) \
  __CPROVER_requires(g_i == (it) && g_P == (it)->prev && g_N == (it)->next && g_sz0 == (it)->size BIND_VAL(it))

/* the list invariant restricted to the neighbourhood of `it` (an item that is linked into the list of self) */
#if CFG == CFG_ONLY
#define NB_REQ(self, it) \
  __CPROVER_requires((it)->prev == 0 && (it)->next == 0 && (self)->head == (it) && (self)->tail == (it)) BIND_ITEM(self, it)
#elif CFG == CFG_HEAD
#define NB_REQ(self, it) \
  __CPROVER_requires((it)->prev == 0 && (self)->head == (it)) \
  __CPROVER_requires(__CPROVER_is_fresh((it)->next, sizeof(Item))) \
  __CPROVER_requires((it)->next->prev == (it) && (self)->tail != (it) && (self)->tail != 0) BIND_ITEM(self, it)
#elif CFG == CFG_SECOND_TAIL
#define NB_REQ(self, it) \
  __CPROVER_requires(__CPROVER_is_fresh((it)->prev, sizeof(Item))) \
  __CPROVER_requires((it)->prev->next == (it) && (it)->prev->prev == 0 && (self)->head == (it)->prev) \
  __CPROVER_requires((it)->next == 0 && (self)->tail == (it)) BIND_ITEM(self, it)
#elif CFG == CFG_SECOND_MID
#define NB_REQ(self, it) \
  __CPROVER_requires(__CPROVER_is_fresh((it)->prev, sizeof(Item))) \
  __CPROVER_requires(__CPROVER_is_fresh((it)->next, sizeof(Item))) \
  __CPROVER_requires((it)->prev->next == (it) && (it)->prev->prev == 0 && (self)->head == (it)->prev) \
  __CPROVER_requires((it)->next->prev == (it) && (self)->tail != (it) && (self)->tail != (it)->prev && (self)->tail != 0) BIND_ITEM(self, it)
#elif CFG == CFG_TAIL
#define NB_REQ(self, it) \
  __CPROVER_requires(__CPROVER_is_fresh((it)->prev, sizeof(Item))) \
  __CPROVER_requires(__CPROVER_is_fresh((self)->head, sizeof(Item))) \
  __CPROVER_requires((it)->prev->next == (it) && (self)->head->prev == 0 && (self)->head->next != 0 && (self)->head->next != (it)) \
  __CPROVER_requires((it)->next == 0 && (self)->tail == (it)) BIND_ITEM(self, it)
#elif CFG == CFG_MID
#define NB_REQ(self, it) \
  __CPROVER_requires(__CPROVER_is_fresh((it)->prev, sizeof(Item))) \
  __CPROVER_requires(__CPROVER_is_fresh((it)->next, sizeof(Item))) \
  __CPROVER_requires(__CPROVER_is_fresh((self)->head, sizeof(Item))) \
  __CPROVER_requires((it)->prev->next == (it) && (it)->next->prev == (it) && (self)->head->prev == 0) \
  __CPROVER_requires((self)->head->next != 0 && (self)->head->next != (it) && (self)->tail != (it) && (self)->tail != 0) BIND_ITEM(self, it)
#else
#define NB_REQ(self, it) BIND_LIST(self)
#endif

/* the list as seen by a push of a *new* (detached) item */
#if CFG == CFG_EMPTY
#define PUSH_REQ(self) __CPROVER_requires((self)->head == 0 && (self)->tail == 0) BIND_LIST(self)
#elif CFG == CFG_NONEMPTY
#define PUSH_REQ(self) __CPROVER_requires(__CPROVER_is_fresh((self)->head, sizeof(Item))) \
  __CPROVER_requires((self)->head->prev == 0 && (self)->tail != 0) BIND_LIST(self)
#else
#define PUSH_REQ(self) BIND_LIST(self)
#endif

/* ---- postconditions (uniform over the configurations: the ghosts say which neighbours exist) ---- */
/* i has been taken out: its neighbours are joined, head/tail step over it */
#define ENS_UNLINK_NB(self) \
  __CPROVER_ensures((self)->head == (g_P == 0 ? g_N : g_H)) \
  __CPROVER_ensures((self)->tail == (g_N == 0 ? g_P : g_T)) \
  __CPROVER_ensures(g_P != 0 ==> g_P->next == g_N) \
  __CPROVER_ensures(g_N != 0 ==> g_N->prev == g_P)
#define ENS_UNLINK_SELF() __CPROVER_ensures(g_i->prev == 0 && g_i->next == 0)
/* `it` (detached before) is the new head in front of the old head g_H */
#define ENS_PUSHED(self, it) \
  __CPROVER_ensures((self)->head == (it) && (it)->prev == 0 && (it)->next == g_H) \
  __CPROVER_ensures(g_H != 0 ==> g_H->prev == (it)) \
  __CPROVER_ensures((self)->tail == (g_T == 0 ? (it) : g_T))
/* i has been moved to the front (nothing changes when it was the head already) */
#define ENS_FRONT(self) \
  __CPROVER_ensures((self)->head == g_i && g_i->prev == 0) \
  __CPROVER_ensures(g_i->next == (g_P == 0 ? g_N : g_H)) \
  __CPROVER_ensures(g_P != 0 ==> (g_H->prev == g_i && g_P->next == g_N)) \
  __CPROVER_ensures(g_N != 0 ==> g_N->prev == (g_P == 0 ? g_i : g_P)) \
  __CPROVER_ensures((self)->tail == ((g_N == 0 && g_P != 0) ? g_P : g_T))
/* the list is untouched */
#define ENS_LIST_SAME(self) __CPROVER_ensures((self)->head == g_H && (self)->tail == g_T)
#define ENS_ITEM_LINKS_SAME() __CPROVER_ensures(g_i->prev == g_P && g_i->next == g_N)

/* ---- frames ---- */
#define ASSIGNS_UNLINK_NB(self) \
  __CPROVER_assigns((self)->head, (self)->tail) \
  __CPROVER_assigns(g_P != 0: g_P->next) \
  __CPROVER_assigns(g_N != 0: g_N->prev)
#define ASSIGNS_ITEM_LINKS() __CPROVER_assigns(g_i->prev, g_i->next)
#define ASSIGNS_PUSH(self, it) \
  __CPROVER_assigns((self)->head, (self)->tail, (it)->next) \
  __CPROVER_assigns(g_H != 0: g_H->prev)
#define ASSIGNS_FRONT(self) ASSIGNS_UNLINK_NB(self) ASSIGNS_ITEM_LINKS() \
  __CPROVER_assigns((g_H != 0 && g_P != 0): g_H->prev)

/* ================================================================================================ list primitives */
void M(unlink_item)(LRU* self, Item* i)
REQ_SELF(self)
__CPROVER_requires(__CPROVER_is_fresh(i, sizeof(Item)))
NB_REQ(self, i)
ENS_UNLINK_NB(self) ENS_UNLINK_SELF()
__CPROVER_ensures(i->size == g_sz0 && self->total_size == g_tot0)
ASSIGNS_UNLINK_NB(self) ASSIGNS_ITEM_LINKS();

/* link_item pushes a detached item (prev == next == 0: fresh from the constructor, or just unlinked) */
void M(link_item)(LRU* self, Item* i)
REQ_SELF(self)
__CPROVER_requires(__CPROVER_is_fresh(i, sizeof(Item)))
__CPROVER_requires(i->prev == 0 && i->next == 0)
PUSH_REQ(self)
ENS_PUSHED(self, i)
__CPROVER_ensures(self->total_size == g_tot0)
ASSIGNS_PUSH(self, i);

#endif
