"""C12 -- LRUSet / LRUMap behave as a reference recency list under every operation history (DESIGN.md section 4, C12)."""
import itertools
import os
import re
import subprocess
import tempfile

from vf import lex
from vf.extract import Source, Unit
from vf.lex import Rule, ExtractionBreak
from vf.pipeline import Group, Replay

ID = 'C12'
LEVEL = 'proof'
EXPLANATION = (
    'LRUSet<K> and LRUMap<KeyT,ValueT> are instantiated textually with int keys/values; std::unordered_map is replaced by stubs/C12_umap.h. '
    'PROOF part (unbounded, any container size): link_item / unlink_item / touch_item carry separation-style local contracts over the '
    'neighbourhood {i, prev(i), next(i), head, tail} (is_fresh neighbours, mirror links, conditional assigns), one obligation group per alias '
    'configuration (item is the only element / head / second / interior / tail); every public operation is then enforced against its local '
    'specification (pointer rewiring of exactly that neighbourhood, total_size arithmetic, which map calls are made, return value, exception) '
    'with the hash map abstracted to contracts driven by ghost variables; the assigns clauses are the frame: no other item is written. '
    'BOUNDED part (kind=bounded, never counted as proved): for every concrete list shape with <= 3 entries (quick; <= 4 thorough) in a pool '
    'with stable node addresses, symbolic keys / values / sizes / arguments: the constructor establishes and every operation preserves the '
    'representation invariant (acyclic head->tail chain == the pool\'s live nodes, prev/next mirror, key pointer, total_size == sum) and refines '
    'the step of an abstract recency list (MRU first) written from the property statement: return values, exceptions, size(), count(), evicted == last. '
    'One inductive step from an arbitrary invariant state => all histories over containers of that size. '
    'In both parts link_item / unlink_item / touch_item / change_item_size / after_emplace are inlined into their callers (the real text, not their '
    'contracts; their own contracts are separate obligation groups); only the hash-map operations are replaced by contracts.')
TRUSTED = [
    'stubs/C12_umap.h: the std::unordered_map model. Concrete mode: a pool of nodes {first, second, used} with stable addresses (find/at/emplace/'
    'erase/clear/swap/size/empty; erase and clear poison the freed node and assert liveness; swap exchanges the pool handles so node addresses '
    'survive, as the standard guarantees; find accepts a lookup hint from the harness that is asserted before it is relied on). Abstract mode: contracts over ghosts (g_node = the node stored for the key under discussion, g_new = the '
    'node the next successful emplace hands out; erase havocs the freed node).',
    'contracts/C12_list.h: the local list contracts and the neighbourhood configurations; harness/C12/shapes.c: the reference recency list '
    '(transcription of the property statement) and the representation invariant',
    'props/C12.py LowerTryCatch: `try { B } catch (const std::out_of_range&) { H }` -> B with `if (verif_exc) goto verif_catch;` after every '
    'statement that calls unordered_map::at, handler guarded by verif_exc == EXC_out_of_range, other exceptions propagate',
    'props/C12.py instantiation gate: g++ -std=c++20 -fsyntax-only on `template class LRUSet<int>; template class LRUMap<int,int>;` against the '
    'tree under check (C++ type checking of the templates is outside cbmc\'s reach)',
]
ASSUMPTIONS = [
    'K = KeyT = ValueT = int: key hashing/equality, copy/move of keys and values are those of int (no user-defined operations, no allocation)',
    'const K& / K&& / ValueT&& parameters are passed by value (an argument that aliases a key stored in the container is not modelled)',
    'std::unordered_map never throws bad_alloc and keeps node addresses stable across insert/erase/swap (guaranteed by the standard)',
    'bounded part: keys stored in the container are pairwise distinct (the map invariant); one spare pool node is always free for an insertion',
]
DROPS = ('template<K> instantiated textually (K=int); methods -> C functions with explicit self; references -> pointers (auto& i = x -> Item* i = &x); '
         'std::pair / iterator -> {first, second} structs whose member names make `it->second`, `emplace_ret.first->first` valid C verbatim; '
         'piecewise_construct/forward_as_tuple/make_tuple/std::move are macros that pass their arguments through; member-initialiser lists -> '
         'assignments; try/catch -> goto + flag; throw -> flag; `mutable`, `virtual ~`, const-qualification of methods dropped')
NOT_DECIDED = [
    'use-after-free / double free / leaks *inside* libstdc++\'s unordered_map (the map is a stub); node lifetime is modelled (freed nodes are '
    'poisoned, erase of a dead node is an assertion) but the allocator is not',
    'containers with more entries than the shape bound (3 quick / 4 thorough): covered only by the unbounded local contracts plus the stated '
    'induction over the frame, which is an argument, not a query',
    'whole histories are decided as one inductive step from an arbitrary invariant state; "across swap of two instances" is decided for the pairs '
    '(every shape, {empty, one rotated shape, itself})',
    'copy construction / copy assignment of LRUSet / LRUMap (implicitly generated, copies head/tail pointers into the other instance\'s nodes) is '
    'not among the operations of the statement and is not checked',
    'key/value types with non-trivial copy, move, hash or equality (std::string ...): exception safety of the containers under throwing key '
    'operations is not decided',
]

SET_HH, SET_INL, MAP_HH = 'src/LRUSet.hh', 'src/LRUSet-inl.hh', 'src/LRUMap.hh'
H_LOCAL, H_SHAPES = 'harness/C12/local.c', 'harness/C12/shapes.c'


# ------------------------------------------------------------------------------------------------ extraction helpers

def ref_rules(var, ty, decl_count=1):
    """`T& var = e;` -> `T* var = &e;`, `&var` -> `var`, `var.f` -> `var->f` (bare `var` as an argument already is the pointer)."""
    return [Rule(r'\b%s&\s+%s\s*=\s*' % (ty, var), '%s* %s = &' % ('Item' if ty == 'auto' else ty, var), count=decl_count, regex=True),
            Rule(r'&%s\b(?!\s*->)' % var, var, regex=True),
            Rule(r'(?<![\w.>])%s\.' % var, var + '->', regex=True)]


def method_rules(pfx):
    return [
        # members used without this->
        Rule(r'(?<![\w.>])(total_size|head|tail|items)\b(?!\s*\()', r'self->\1', regex=True),
        # the unordered_map member: method calls -> stub calls
        Rule(r'self->items\.(\w+)\(\s*\)', r'umap_\1(&self->items)', regex=True),
        Rule(r'self->items\.(\w+)\(', r'umap_\1(&self->items, ', regex=True),
        # other methods of the class
        Rule(r'self->(\w+)\(\s*\)', pfx + r'_\1(self)', regex=True),
        Rule(r'self->(\w+)\(', pfx + r'_\1(self, ', regex=True),
        # unordered_map::at returns a reference: the stub returns the pointer
        Rule(r'=\s*&\s*umap_at\(', '= umap_at(', regex=True),
    ]


class AutoUmap(Rule):
    """Type-directed lowering of `auto NAME = <initialiser>;` for the unordered_map member, whatever the variable is called:
    items.emplace(...) -> umap_emplace_ret;  items.find/begin/end(...), items.emplace(...).first, RET.first (RET an emplace
    result declared before) -> umap_iter.  Any other `auto` is left alone (and then stops the extraction as C++ residue)."""

    def __init__(self):
        self.pat = 'auto -> umap_iter / umap_emplace_ret (type-directed)'

    def apply(self, text, where=''):
        rets = set()

        def ty(mo):
            name, init = mo.group(1), mo.group(2)
            flat = ' '.join(init.split())
            t = None
            if re.search(r'\bitems\s*\.\s*emplace\s*\(', flat):
                t = 'umap_iter' if re.search(r'\)\s*\.\s*first$', flat) else 'umap_emplace_ret'
            elif re.search(r'\bitems\s*\.\s*(find|begin|end)\s*\(', flat):
                t = 'umap_iter'
            elif re.fullmatch(r'(\w+)\s*\.\s*first', flat) and flat.split('.')[0].strip() in rets:
                t = 'umap_iter'
            if t is None:
                return mo.group(0)
            if t == 'umap_emplace_ret':
                rets.add(name)
            return '%s %s = %s;' % (t, name, init)
        return re.sub(r'\bauto\s+(\w+)\s*=\s*([^;]*);', ty, text)


class LowerTryCatch(Rule):
    """Structural lowering of the single try statement of a function whose handler catches one std class by const reference."""

    def __init__(self, maythrow, ret, optional=False):
        self.maythrow, self.ret, self.optional = maythrow, ret, optional
        self.pat = 'try/catch lowering'

    def apply(self, text, where=''):
        m = lex.mask(text)
        tries = [mo.start() for mo in re.finditer(r'\btry\b', m)]
        if not tries and self.optional:
            return text          # no handler in this version of the function: nothing to lower (an exception of a callee propagates)
        if len(tries) != 1:
            raise ExtractionBreak('%s: expected exactly one try statement, found %d' % (where, len(tries)))
        t = tries[0]
        b = t + 3
        while m[b] in ' \t\r\n':
            b += 1
        if m[b] != '{':
            raise ExtractionBreak('%s: try without block' % where)
        be = lex.match_close(m, b)
        mo = re.match(r'\s*catch\s*\(\s*const\s+(\w+)\s*&\s*\w*\s*\)\s*', m[be + 1:])
        if not mo:
            raise ExtractionBreak('%s: expected `catch (const T& e)` after the try block' % where)
        h = be + 1 + mo.end()
        if m[h] != '{':
            raise ExtractionBreak('%s: catch without block' % where)
        he = lex.match_close(m, h)
        if re.match(r'\s*catch\b', m[he + 1:]):
            raise ExtractionBreak('%s: more than one handler' % where)
        cls = mo.group(1)
        block, n = lex.propagate_exc(text[b:be + 1], self.maythrow, '@CATCH@')
        if n < 1:
            raise ExtractionBreak('%s: the protected block calls none of %s' % (where, self.maythrow))
        block = block.replace('if (verif_exc) return @CATCH@;', 'if (verif_exc) goto verif_catch;')
        out = (text[:t] + block[:-1] + ' goto verif_end; }\n  verif_catch:\n  if (verif_exc == EXC_%s) { verif_exc = 0; %s }\n'
               '  else { return %s; }\n  verif_end:;' % (cls, text[h:he + 1], self.ret) + text[he + 1:])
        return out


def init_list(text, umap_member='items'):
    """member-initialiser list `a(x), b(y)` -> `self->a = x; self->b = y;` (an empty initialiser of the map member is its default constructor)."""
    out, pos = [], 0
    m = lex.mask(text)
    while True:
        mo = re.compile(r'\s*(\w+)\s*\(').match(m, pos)
        if not mo:
            break
        pe = lex.match_close(m, mo.end() - 1)
        name, expr = mo.group(1), text[mo.end():pe].strip()
        if name == umap_member and expr == '':
            out.append('umap_ctor(&self->%s);' % name)
        elif expr == '':
            raise ExtractionBreak('empty initialiser for member %s' % name)
        else:
            out.append('self->%s = %s;' % (name, expr))
        pos = pe + 1
        mo = re.compile(r'\s*,').match(m, pos)
        if not mo:
            break
        pos = mo.end()
    if m[pos:].strip():
        raise ExtractionBreak('cannot lower member-initialiser list: %r' % text)
    return '\n  '.join(out)


def fields(text, where):
    """data member declarations of a struct/class body fragment: `[mutable] T name;` lines only."""
    out = []
    for line in text.split(';'):
        line = ' '.join(line.split())
        if not line:
            continue
        mo = re.fullmatch(r'(?:mutable )?((?:const )?[\w:<>, ]+?[\s*&]+)(\w+)', line)
        if not mo:
            raise ExtractionBreak('%s: unexpected member declaration %r' % (where, line))
        out.append('%s %s;' % (mo.group(1).strip(), mo.group(2)))
    return out


# ------------------------------------------------------------------------------------------------ LRUSet

def set_units(ctx, src):
    P = 'LRUSet'
    th = Unit(ctx, 'LRUSet_types')
    th.raw('#include "contracts/verif.h"\ntypedef int K;\n#define C12_SET 1\n#define PFX LRUSet\n#define UMAP_EMPLACE_ARGS size_t size\n'
           '#define UMAP_ITEM_CTOR(it) LRUSet_Item_ctor(it, size)')
    item = th.snippet(src, SET_HH, r'struct Item \{(.*?)Item\(size_t size\);\s*\};', group=1)
    th.raw('typedef struct Item Item;\nstruct Item {\n  %s\n};' % '\n  '.join(fields(item, 'LRUSet::Item')))
    th.raw('static inline void LRUSet_Item_ctor(Item* self, size_t size);\n#include "stubs/C12_umap.h"')
    cls = th.snippet(src, SET_HH, r'\};\s*(Item\* head;.*?size_t total_size;)', group=1,
                     rules=[Rule(r'unordered_map<K, Item>', 'umap', count=1)])
    th.raw('typedef struct LRUSet {\n  %s\n} LRUSet;' % '\n  '.join(fields(cls, 'LRUSet')))
    th.raw('typedef struct { K first; size_t second; } pair_K_size;\n#define make_pair(a, b) ((pair_K_size){(a), (b)})\n'
           '#define PAIR_ZERO ((pair_K_size){0, 0})')
    u = Unit(ctx, 'LRUSet')
    protos = []

    def F(sig, hdr, rules=(), **kw):
        protos.append(hdr + ';')
        u.function(src, SET_INL, sig, new_header=hdr, rules=list(rules) + method_rules(P), **kw)

    ictor = u.snippet(src, SET_INL, r'LRUSet<K>::Item::Item\(size_t size\)\s*:\s*([^{]*?)\s*\{\s*\}', group=1)
    u.raw('static inline void LRUSet_Item_ctor(Item* self, size_t size)\n{\n  %s\n}' % init_list(ictor))
    u.functions.append({'file': SET_INL, 'cxx_header': 'LRUSet<K>::Item::Item(size_t size) : ...', 'c_header': 'void LRUSet_Item_ctor(Item* self, size_t size)', 'line': 0})
    cctor = u.snippet(src, SET_INL, r'LRUSet<K>::LRUSet\(\)\s*:\s*([^{]*?)\s*\{\s*\}', group=1)
    protos.append('void LRUSet_ctor(LRUSet* self);')
    u.raw('void LRUSet_ctor(LRUSet* self)\n{\n  %s\n}' % init_list(cctor))
    u.functions.append({'file': SET_INL, 'cxx_header': 'LRUSet<K>::LRUSet() : ...', 'c_header': 'void LRUSet_ctor(LRUSet* self)', 'line': 0})

    F(r'bool LRUSet<K>::after_emplace\([^)]*\)', 'bool LRUSet_after_emplace(LRUSet* self, umap_emplace_ret emplace_ret, size_t size)',
      [Rule(r'auto&\s+k\s*=\s*', 'const K* k = &', count=1, regex=True), Rule(r'&k\b', 'k', regex=True)] + ref_rules('i', 'auto'))
    EM = [Rule(r'auto\s+emplace_ret\s*=', 'umap_emplace_ret emplace_ret =', count=1, regex=True)]
    F(r'bool LRUSet<K>::insert\(const K& key, size_t size\)', 'bool LRUSet_insert(LRUSet* self, K key, size_t size)', EM)
    F(r'bool LRUSet<K>::emplace\(K&& key, size_t size\)', 'bool LRUSet_emplace(LRUSet* self, K key, size_t size)', EM)
    F(r'bool LRUSet<K>::erase\(const K& k\)', 'bool LRUSet_erase(LRUSet* self, K k)',
      [Rule(r'auto\s+item_it\s*=', 'umap_iter item_it =', count=1, regex=True)] + ref_rules('item', 'Item')
      + [Rule(r'items\.erase\(', 'items.erase_it(', count='+', regex=True)])
    F(r'void LRUSet<K>::clear\(\)', 'void LRUSet_clear(LRUSet* self)')
    F(r'bool LRUSet<K>::change_size\(const K& k, size_t new_size\)', 'bool LRUSet_change_size(LRUSet* self, K k, size_t new_size)',
      ref_rules('i', 'Item', None) + method_rules(P) + [LowerTryCatch(['umap_at'], '0', optional=True)])
    F(r'bool LRUSet<K>::touch\(const K& k, ssize_t new_size\)', 'bool LRUSet_touch(LRUSet* self, K k, ssize_t new_size)',
      ref_rules('i', 'Item') + method_rules(P) + [LowerTryCatch(['umap_at'], '0')])
    F(r'void LRUSet<K>::unlink_item\(Item\* i\)', 'void LRUSet_unlink_item(LRUSet* self, Item* i)')
    F(r'void LRUSet<K>::link_item\(Item\* i\)', 'void LRUSet_link_item(LRUSet* self, Item* i)')
    F(r'size_t LRUSet<K>::size\(\) const', 'size_t LRUSet_size(const LRUSet* self)')
    F(r'size_t LRUSet<K>::count\(\) const', 'size_t LRUSet_count(const LRUSet* self)')
    PR = [Rule(r'\bpair<K, size_t>\s+ret\b', 'pair_K_size ret', regex=True)]
    F(r'std::pair<K, size_t> LRUSet<K>::evict_object\(\)', 'pair_K_size LRUSet_evict_object(LRUSet* self)',
      PR + [Rule(r'items\.erase\(', 'items.erase_key(', count='+', regex=True)], ret_zero='PAIR_ZERO')
    F(r'std::pair<K, size_t> LRUSet<K>::peek\(\)', 'pair_K_size LRUSet_peek(LRUSet* self)', PR, ret_zero='PAIR_ZERO')
    F(r'void LRUSet<K>::swap\(LRUSet<K>& other\)', 'void LRUSet_swap(LRUSet* self, LRUSet* other)',
      [Rule(r'\bother\.', 'other->', count='+', regex=True), Rule(r'swap\(other->items\)', 'swap(&other->items)', count=1, regex=True)])
    th.raw('\n'.join(protos))
    th.write(suffix='.h', scan=True)
    u.write()
    return th, u


# ------------------------------------------------------------------------------------------------ LRUMap

def map_units(ctx, src, with_insert_const):
    P = 'LRUMap'
    CLS = r'class LRUMap'
    th = Unit(ctx, 'LRUMap_types')
    th.raw('#include "contracts/verif.h"\ntypedef int KeyT;\ntypedef int ValueT;\ntypedef KeyT K;\ntypedef ValueT V;\n#define C12_MAP 1\n#define PFX LRUMap\n'
           '#define UMAP_EMPLACE_ARGS ValueT value, size_t size\n#define UMAP_ITEM_CTOR(it) LRUMap_Item_ctor_move(it, value, size)')
    item = th.snippet(src, MAP_HH, r'struct Item \{(.*?)Item\(const ValueT& value, size_t size\)', group=1)
    th.raw('typedef struct Item Item;\nstruct Item {\n  %s\n};' % '\n  '.join(fields(item, 'LRUMap::Item')))
    th.raw('static inline void LRUMap_Item_ctor_move(Item* self, ValueT value, size_t size);\n#include "stubs/C12_umap.h"')
    cls = th.snippet(src, MAP_HH, r'\};\s*(mutable Item\* head;.*?size_t total_size;)', group=1,
                     rules=[Rule(r'unordered_map<KeyT, Item>', 'umap', count=1)])
    th.raw('typedef struct LRUMap {\n  %s\n} LRUMap;' % '\n  '.join(fields(cls, 'LRUMap')))
    ev = th.snippet(src, MAP_HH, r'struct EvictedObject \{(.*?)\};', group=1)
    th.raw('typedef struct EvictedObject {\n  %s\n} EvictedObject;\n#define EVICTED_ZERO ((EvictedObject){0, 0, 0})' % '\n  '.join(fields(ev, 'EvictedObject')))
    u = Unit(ctx, 'LRUMap')
    protos = []

    def F(sig, hdr, rules=(), unit=None, **kw):
        protos.append(hdr + ';')
        (unit or u).function(src, MAP_HH, sig, new_header=hdr, rules=list(rules) + method_rules(P), scope=CLS, **kw)

    for sfx, par in (('copy', r'const ValueT& value'), ('move', r'ValueT&& value')):
        il = u.snippet(src, MAP_HH, r'Item\(%s, size_t size\)\s*:\s*([^{]*?)\s*\{\s*\}' % par, group=1)
        hdr = 'static inline void LRUMap_Item_ctor_%s(Item* self, ValueT value, size_t size)' % sfx
        if sfx == 'copy':
            protos.append(hdr + ';')
        u.raw('%s\n{\n  %s\n}' % (hdr, init_list(il)))
        u.functions.append({'file': MAP_HH, 'cxx_header': 'LRUMap::Item::Item(%s, size_t size) : ...' % par.replace('\\', ''), 'c_header': hdr, 'line': 0})
    cctor = u.snippet(src, MAP_HH, r'LRUMap\(\)\s*:\s*([^{]*?)\s*\{\s*\}', group=1)
    protos.append('void LRUMap_ctor(LRUMap* self);')
    u.raw('void LRUMap_ctor(LRUMap* self)\n{\n  %s\n}' % init_list(cctor))
    u.functions.append({'file': MAP_HH, 'cxx_header': 'LRUMap() : ...', 'c_header': 'void LRUMap_ctor(LRUMap* self)', 'line': 0})

    F(r'void link_item\(Item\* i\) const', 'void LRUMap_link_item(LRUMap* self, Item* i)')
    F(r'void unlink_item\(Item\* i\) const', 'void LRUMap_unlink_item(LRUMap* self, Item* i)')
    F(r'void touch_item\(Item& item\) const', 'void LRUMap_touch_item(LRUMap* self, Item* item)', [Rule(r'&item\b', 'item', count='+', regex=True)])
    F(r'void change_item_size\(Item& item, size_t new_size\)', 'void LRUMap_change_item_size(LRUMap* self, Item* item, size_t new_size)',
      [Rule(r'(?<![\w.>])item\.', 'item->', count='+', regex=True)])
    AT = ref_rules('item', 'Item') + [Rule(r'return\s+item->value\s*;', 'return &item->value;', count=1, regex=True)]
    # a const_cast<Item&>(...) around the lookup (the repair of the const overload) is the identity on the C model
    CC = [Rule(r'\(\(Item&\)\((.*?)\)\);', r'\1;', regex=True)]
    F(r'ValueT& at\(const KeyT& k\)', 'ValueT* LRUMap_at(LRUMap* self, KeyT k)', AT, ret_zero='0', may_throw=['umap_at'])
    # (the const overload may also return the member of the looked-up element directly: `return items.at(k).value;`)
    AT_DIRECT = [Rule(r'\breturn\s+self->items\.at\(k\)\.value\s*;', 'const Item* verif_item = self->items.at(k); return &verif_item->value;', count=None, regex=True)]
    AT_C = ref_rules('item', 'Item', decl_count=None) + [Rule(r'return\s+item->value\s*;', 'return &item->value;', count=None, regex=True)]
    F(r'const ValueT& at\(const KeyT& k\) const', 'const ValueT* LRUMap_at_const(LRUMap* self, KeyT k)', AT_DIRECT + CC + AT_C, ret_zero='0', may_throw=['umap_at'])
    F(r'size_t item_size\(const KeyT& k\) const', 'size_t LRUMap_item_size(const LRUMap* self, KeyT k)',
      [Rule(r'return\s+self->items\.at\(k\)\.(.*?);', r'const Item* item = self->items.at(k); return item->\1;', count=1, regex=True)],
      ret_zero='0', may_throw=['umap_at'])
    IT = [AutoUmap()]
    INS = IT + ref_rules('i', 'auto')
    F(r'bool insert\(KeyT&& k, ValueT&& v, size_t size = [^,)]+\)', 'bool LRUMap_insert(LRUMap* self, KeyT k, ValueT v, size_t size)', INS)
    F(r'bool emplace\(KeyT&& k, ValueT&& v, size_t size = [^,)]+\)', 'bool LRUMap_emplace(LRUMap* self, KeyT k, ValueT v, size_t size)',
      IT + ref_rules('i', 'auto'))
    F(r'bool erase\(const KeyT& k\)', 'bool LRUMap_erase(LRUMap* self, KeyT k)',
      IT + ref_rules('item', 'Item') + [Rule(r'items\.erase\(', 'items.erase_it(', count='+', regex=True)])
    F(r'void clear\(\)', 'void LRUMap_clear(LRUMap* self)')
    F(r'bool change_size\(const KeyT& k, size_t new_size, bool touch = [^,)]+\)', 'bool LRUMap_change_size(LRUMap* self, KeyT k, size_t new_size, bool touch)',
      ref_rules('i', 'Item', None) + method_rules(P) + [LowerTryCatch(['umap_at'], '0', optional=True)])
    F(r'bool touch\(const KeyT& k, ssize_t new_size = [^,)]+\)', 'bool LRUMap_touch(LRUMap* self, KeyT k, ssize_t new_size)',
      ref_rules('i', 'Item') + method_rules(P) + [LowerTryCatch(['umap_at'], '0')])
    F(r'size_t size\(\) const', 'size_t LRUMap_size(const LRUMap* self)')
    F(r'size_t count\(\) const', 'size_t LRUMap_count(const LRUMap* self)')
    F(r'bool empty\(\) const', 'bool LRUMap_empty(const LRUMap* self)')
    F(r'EvictedObject evict_object\(\)', 'EvictedObject LRUMap_evict_object(LRUMap* self)',
      [Rule(r'items\.erase\(', 'items.erase_key(', count='+', regex=True)], ret_zero='EVICTED_ZERO')
    F(r'void swap\(LRUMap<KeyT, ValueT>& other\)', 'void LRUMap_swap(LRUMap* self, LRUMap* other)',
      [Rule(r'\bother\.', 'other->', count='+', regex=True), Rule(r'swap\(other->items\)', 'swap(&other->items)', count=1, regex=True)])
    uc = None
    if with_insert_const:
        uc = Unit(ctx, 'LRUMap_insert_const')
        F(r'bool insert\(const KeyT& k, const ValueT& v, size_t size = [^,)]+\)', 'bool LRUMap_insert_const(LRUMap* self, KeyT k, ValueT v, size_t size)', INS, unit=uc)
        uc.write()
    th.raw('\n'.join(protos))
    th.write(suffix='.h', scan=True)
    u.write()
    return th, u, uc


# ------------------------------------------------------------------------------------------------ default arguments

def defaults_unit(ctx, src):
    """default arguments are dropped from the C functions (call sites pass them explicitly); their values are part of the API
    ("touch(k)" must not change the size, "change_size(k, s)" touches) and are cut out here as macros"""
    u = Unit(ctx, 'defaults')
    D = [('LRUSet_insert_size', SET_HH, r'bool insert\(const K& k, size_t size = ([^,)]+)\);'),
         ('LRUSet_emplace_size', SET_HH, r'bool emplace\(K&& k, size_t size = ([^,)]+)\);'),
         ('LRUSet_touch_new_size', SET_HH, r'bool touch\(const K& k, ssize_t new_size = ([^,)]+)\);'),
         ('LRUMap_insert_size', MAP_HH, r'bool insert\(KeyT&& k, ValueT&& v, size_t size = ([^,)]+)\)'),
         ('LRUMap_insert_const_size', MAP_HH, r'bool insert\(const KeyT& k, const ValueT& v, size_t size = ([^,)]+)\)'),
         ('LRUMap_emplace_size', MAP_HH, r'bool emplace\(KeyT&& k, ValueT&& v, size_t size = ([^,)]+)\)'),
         ('LRUMap_change_size_touch', MAP_HH, r'bool change_size\(const KeyT& k, size_t new_size, bool touch = ([^,)]+)\)'),
         ('LRUMap_touch_new_size', MAP_HH, r'bool touch\(const KeyT& k, ssize_t new_size = ([^,)]+)\)')]
    for name, f, rx in D:
        u.raw('#define DEF_%s (%s)' % (name, u.snippet(src, f, rx, group=1).strip()))
    # no other defaulted parameter may exist in the two classes
    for f in (SET_HH, MAP_HH):
        n = len(re.findall(r'\b[\w:]+[\s&*]+\w+\s*=\s*[^=,;(){}]+[,)]', src.text(f)))      # `T name = value,` / `T name = value)`
        want = sum(1 for _, ff, _ in D if ff == f)
        if n != want:
            raise ExtractionBreak('%s: %d defaulted parameters found, the table covers %d' % (f, n, want))
    u.write(suffix='.h', scan=False)
    return u


# ------------------------------------------------------------------------------------------------ instantiation gate

def instantiates(ctx):
    """C++ type checking of the two templates at the instantiation the check uses. Returns {member-ish key: diagnostic}."""
    d = tempfile.mkdtemp(prefix='verif-c12-')
    try:
        tu = os.path.join(d, 'inst.cc')
        with open(tu, 'w') as f:
            f.write('#include "LRUSet.hh"\n#include "LRUMap.hh"\ntemplate class phosg::LRUSet<int>;\ntemplate class phosg::LRUMap<int, int>;\n')
        p = subprocess.run(['g++', '-std=c++20', '-fsyntax-only', '-I', os.path.join(ctx.src, 'src'), tu], capture_output=True, text=True,
                           env=dict(os.environ, LC_ALL='C', LANG='C'))
        errs = {}
        cur = None
        for line in p.stderr.split('\n'):
            mo = re.search(r"In instantiation of '(.*?) \[with", line)
            if mo:
                cur = mo.group(1)
            mo = re.search(r'(LRU\w+(?:-inl)?\.hh:\d+:\d+): error: (.*)', line)
            if mo and cur:
                errs.setdefault(cur, []).append('%s: %s' % (mo.group(1), mo.group(2)[:300]))
        if p.returncode != 0 and not errs:
            errs['?'] = [p.stderr[-600:]]
        return errs
    finally:
        import shutil
        shutil.rmtree(d, ignore_errors=True)


# ------------------------------------------------------------------------------------------------ obligation groups

CFG = dict(none=0, only=1, head=2, second_tail=3, second_mid=4, tail=5, mid=6, empty=7, nonempty=8, peek=9)
ITEM_CFGS = ['only', 'head', 'second_tail', 'second_mid', 'tail', 'mid']
NEW_CFGS = ['empty', 'nonempty']
TAIL_CFGS = ['only', 'second_tail', 'tail']

# op -> [(configurations, callees of the map stub that are replaced by their abstract contract)]
SET_LOCAL = [
    ('Item_ctor', [(['none'], [])]),
    ('ctor', [(['none'], ['umap_ctor'])]),
    ('unlink_item', [(ITEM_CFGS, [])]),
    ('link_item', [(NEW_CFGS, [])]),
    ('after_emplace', [(ITEM_CFGS + NEW_CFGS, [])]),
    ('insert', [(ITEM_CFGS + NEW_CFGS, ['umap_emplace_fn'])]),
    ('emplace', [(ITEM_CFGS + NEW_CFGS, ['umap_emplace_fn'])]),
    ('erase', [(['none'] + ITEM_CFGS, ['umap_find', 'umap_erase_it'])]),
    ('clear', [(['none'], ['umap_clear'])]),
    ('change_size', [(['none', 'mid'], ['umap_at'])]),
    ('touch', [(['none'] + ITEM_CFGS, ['umap_at'])]),
    ('size', [(['none'], [])]),
    ('count', [(['none'], ['umap_size'])]),
    ('evict_object', [(['empty'] + TAIL_CFGS, ['umap_erase_key'])]),
    ('peek', [(['empty', 'peek'], [])]),
    ('swap', [(['none'], ['umap_swap'])]),
]
MAP_LOCAL = [
    ('Item_ctor_copy', [(['none'], [])]),
    ('Item_ctor_move', [(['none'], [])]),
    ('ctor', [(['none'], ['umap_ctor'])]),
    ('unlink_item', [(ITEM_CFGS, [])]),
    ('link_item', [(NEW_CFGS, [])]),
    ('touch_item', [(ITEM_CFGS, [])]),
    ('change_item_size', [(['none'], [])]),
    ('at', [(['none'] + ITEM_CFGS, ['umap_at'])]),
    ('at_const', [(['none'] + ITEM_CFGS, ['umap_at'])]),
    ('item_size', [(['none', 'mid'], ['umap_at'])]),
    ('insert', [(ITEM_CFGS, ['umap_find', 'umap_emplace_fn']), (NEW_CFGS, ['umap_find', 'umap_emplace_fn'])]),
    ('insert_const', [(ITEM_CFGS + NEW_CFGS, ['umap_find', 'umap_emplace_fn'])]),
    ('emplace', [(['mid'] + NEW_CFGS, ['umap_emplace_fn'])]),
    ('erase', [(['none'] + ITEM_CFGS, ['umap_find', 'umap_erase_it'])]),
    ('clear', [(['none'], ['umap_clear'])]),
    ('change_size', [(['none'] + ITEM_CFGS, ['umap_at'])]),
    ('touch', [(['none'] + ITEM_CFGS, ['umap_at'])]),
    ('size', [(['none'], [])]),
    ('count', [(['none'], ['umap_size'])]),
    ('empty', [(['none'], ['umap_empty'])]),
    ('evict_object', [(['empty'] + TAIL_CFGS, ['umap_erase_key'])]),
    ('swap', [(['none'], ['umap_swap'])]),
]
CXX = {'Item_ctor': 'Item::Item(size_t)', 'Item_ctor_copy': 'Item::Item(const ValueT&, size_t)', 'Item_ctor_move': 'Item::Item(ValueT&&, size_t)',
       'ctor': '{C}()', 'at_const': 'at(const KeyT&) const', 'insert_const': 'insert(const KeyT&, const ValueT&, size_t)',
       'insert': 'insert', 'emplace': 'emplace'}
NOTE = {
    'unlink_item': 'P.next == N, N.prev == P, head/tail step over i, i detached; assigns exactly {head, tail, i.prev, i.next, P.next, N.prev}',
    'link_item': 'i.next == H, H.prev == i, head == i, tail == i iff the list was empty; assigns exactly {head, tail, i.next, H.prev}',
    'touch_item': 'i moved to the front (nothing written when it is the head); frame = the neighbourhood',
}


def local_groups(cont, table, skip, extra_defs, driver):
    gs = []
    for op, rows in table:
        if op in skip:
            continue
        for cfgs, repl in rows:
            for cfg in cfgs:
                d = ['C12_ABSTRACT=1', 'CFG=%d' % CFG[cfg]] + extra_defs
                # the local groups have no heap to replay; the size arithmetic of "insert/emplace on an existing key" has
                rp = (Replay(driver=driver, mode='local_insert_existing', extra=[cont], sources=[])
                      if op in ('after_emplace', 'insert', 'emplace') and cont == 'LRUSet' and cfg in ITEM_CFGS else
                      Replay(driver=driver, mode='local_sweep', extra=[cont, op], sources=[])
                      if op in ('insert', 'insert_const', 'emplace', 'erase', 'clear', 'change_size', 'touch', 'evict_object', 'peek', 'at', 'at_const', 'item_size') and not (cont == 'LRUSet' and op in ('at', 'at_const', 'item_size', 'insert_const')) else None)
                gs.append(Group(name='%s.%s[%s]' % (cont, op, cfg), harness=H_LOCAL, entry='h_' + op,
                                function='%s::%s' % (cont, CXX.get(op, op).replace('{C}', cont)), enforce='%s_%s' % (cont, op),
                                replace=list(repl), defines=d, kind='loop-free', object_bits=12, timeout=180, stage1=20, replay=rp,
                                clause_note=NOTE.get(op, 'contracts/C12_ops.h: local specification of the operation for the alias configuration "%s" '
                                                     'of the neighbourhood of the item concerned' % cfg)))
    return gs


def shapes(nmax):
    """every list shape with <= nmax entries over nmax pool nodes: which nodes are live and in which recency order (MRU first)"""
    out = []
    for n in range(nmax + 1):
        out += list(itertools.permutations(range(nmax), n))
    return out


SET_OPS = ['insert', 'emplace', 'erase', 'clear', 'change_size', 'touch', 'evict_object', 'peek', 'observe', 'swap_self']
MAP_OPS = ['insert', 'insert_const', 'emplace', 'erase', 'clear', 'change_size', 'touch', 'evict_object', 'observe', 'swap_self',
           'at', 'at_const', 'item_size']
REPLAY_INPUTS = 'in_key in_size in_val in_total in_k in_v in_sz in_nsz in_touch in_hit'


def shape_groups(cont, ops, skip, nmax, tier, extra_defs, driver):
    gs = []
    sh = shapes(nmax)
    ns = nmax + 1
    base = ['C12_NSLOT=%d' % ns] + extra_defs
    unw = ['--unwind', str(ns + 2), '--unwinding-assertions']
    bound = ('list shape fixed: %%d entries in nodes (%%s) of a pool of %d nodes (<= %d entries%s); symbolic keys, values, sizes, total and arguments; '
             'one step from an arbitrary state of that shape' % (ns, nmax, '' if tier == 'quick' else ', thorough tier'))

    def sdef(tag, s):
        return ['CNT_%s=%d' % (tag, len(s)), 'SHAPE_%s={%s}' % (tag, ','.join(map(str, s + (-1,))))]

    def G(name, op, a, b=None):
        d = base + sdef('A', a) + (sdef('B', b) if b is not None else []) + ['OP=OP_' + op]
        extra = [cont, str(ns), ','.join(map(str, a)) or '-', (','.join(map(str, b)) or '-') if b is not None else '-']
        return Group(name=name, harness=H_SHAPES, entry='h_step', function='%s::%s' % (cont, CXX.get(op, op).replace('{C}', cont)),
                     defines=d, kind='bounded', bound=bound % (len(a), ','.join(map(str, a))), cbmc_flags=unw, tier=tier,
                     timeout=300, stage1=25, min_post=3, first='cadical',      # minisat has pathological runs here (99 s on 1.8k clauses)
                     clause_note='harness/C12/shapes.c: representation invariant + refinement of the reference recency list',
                     replay=Replay(driver=driver, mode=op, extra=extra, sources=[]))

    for i, a in enumerate(sh):
        tag = ','.join(map(str, a)) or 'empty'
        for op in ops:
            if op in skip:
                continue
            gs.append(G('%s.%s{%d:%s}' % (cont, op, nmax, tag), op, a))
        for b in sorted({(), sh[(i * 7 + 5) % len(sh)]}):
            gs.append(G('%s.swap{%d:%s<->%s}' % (cont, nmax, tag, ','.join(map(str, b)) or 'empty'), 'swap', a, b))
    gs.append(G('%s.ctor{%d}' % (cont, nmax), 'ctor', ()))
    if cont == 'LRUSet':     # the reference list is the same code for both containers
        g = G('reference.total_is_sum{%d}' % nmax, 'observe', ())
        g.entry, g.function, g.replay, g.min_post = 'h_model_total', 'reference recency list (harness/C12/shapes.c)', None, 2
        g.first, g.stage1, g.timeout = 'cvc5', 150, 900          # closed 64-bit sum identities: an SMT job (cvc5 8 s / 60 s; SAT minutes)
        g.bound = 'reference lists of <= %d entries: the maintained total is the sum of the sizes after every model primitive' % nmax
        gs.append(g)
    return gs


def gate_group(member, key, ok, diag):
    text = re.sub(r'[^A-Za-z0-9 _.:,()<>=&*-]', ' ', '; '.join(diag))[:240] if diag else 'accepted'
    return Group(name='LRUMap.%s.instantiates' % key, harness='harness/C12/gate.c', entry='h_gate', function='LRUMap::' + member,
                 defines=['C12_GATE_OK=%d' % (1 if ok else 0), 'C12_GATE_DIAG="%s"' % text], kind='bounded',
                 bound='compile gate, not a cbmc proof: g++ -std=c++20 -fsyntax-only `template class phosg::LRUMap<int,int>;` accepts the member'
                       + ('' if ok else ' -- REJECTED: ' + '; '.join(diag)[:600]),
                 clause_note='the member function can be instantiated at all', min_post=1,
                 replay=Replay(driver='C12/instantiate.cc', mode=key, sources=[]))


def plan(ctx):
    src = Source(ctx.src)
    errs = instantiates(ctx)
    K_INS, K_AT = 'insert(const KeyT&, const ValueT&', 'at(const KeyT&) const'
    bad_insert = [v for k, v in errs.items() if K_INS in k]
    bad_at = [v for k, v in errs.items() if K_AT in k]
    other = {k: v for k, v in errs.items() if K_INS not in k and K_AT not in k}
    if other:
        raise ExtractionBreak('LRUSet<int> / LRUMap<int,int> do not instantiate: %r' % other)
    ths, us = set_units(ctx, src)
    thm, um, uc = map_units(ctx, src, not bad_insert)
    ctx.functions_under_contract = us.functions + um.functions + (uc.functions if uc else [])
    groups = [gate_group('insert(const KeyT&, const ValueT&, size_t)', 'insert_const', not bad_insert, sum(bad_insert, [])),
              gate_group('at(const KeyT&) const', 'at_const', not bad_at, sum(bad_at, []))]
    defaults_unit(ctx, src)
    groups.append(Group(name='LRUSet+LRUMap.default_arguments', harness='harness/C12/defaults.c', entry='h_defaults',
                        function='default arguments of insert / emplace / touch / change_size', kind='loop-free', min_post=6,
                        clause_note='touch(k) leaves the size alone (new_size default < 0), LRUMap::change_size(k, s) touches (default true), '
                                    'sizes default to 0 (LRUSet) / 1 (LRUMap)',
                        replay=Replay(driver='C12/lru.cc', mode='defaults', extra=['-'], sources=[])))
    # members that g++ rejects have no meaning to verify: their groups are left out (the gate group above reports them)
    skip = set()
    if bad_insert:
        skip.add('insert_const')
    if bad_at:
        skip.add('at_const')
    mdefs = ['C12_USE_MAP=1'] + ([] if bad_insert else ['C12_INSERT_CONST=1'])
    drv = 'C12/lru.cc' if (bad_insert or bad_at) else 'C12/lru_all.cc'
    groups += local_groups('LRUSet', SET_LOCAL, skip, [], drv)
    groups += local_groups('LRUMap', MAP_LOCAL, skip, mdefs, drv)
    for nmax, tier in ((3, 'quick'), (4, 'thorough')):
        if tier == 'thorough' and ctx.tier != 'thorough':
            continue
        groups += shape_groups('LRUSet', SET_OPS, skip, nmax, tier, [], drv)
        groups += shape_groups('LRUMap', MAP_OPS, skip, nmax, tier, mdefs, drv)
    return groups


CLAIMED = True
MANIFEST = dict(
    category='proof',
    text=('LRUSet<int> and LRUMap<int,int> are cut from the headers on every run (templates instantiated textually, std::unordered_map replaced by a '
          'stub). Unbounded part (counted): link_item / unlink_item / touch_item / change_item_size, both constructors and every public operation '
          '(insert, emplace, erase, clear, change_size, touch, at, item_size, size, count, empty, evict_object, peek, swap) are enforced against local '
          'separation-style contracts -- the exact rewiring of the neighbourhood {item, prev, next, head, tail}, the total_size arithmetic modulo 2^64, '
          'the calls made on the map (exactly one erase of exactly the node of the key, emplace only for an absent key), the boolean result and the '
          'out_of_range cases -- with one obligation group per alias configuration of the neighbourhood (only / head / second / interior / tail, list '
          'empty or not) and assigns clauses as the frame (no other item, key pointer or value is written), for containers of any size. Bounded part '
          '(reported separately, never counted): from every concrete list shape with <= 3 entries (quick; <= 4 thorough) with symbolic keys, values, '
          'sizes and arguments, the constructor establishes and each operation preserves the representation invariant (acyclic chain == live nodes, '
          'prev/next mirror, key pointers, total_size == sum, no dangling link, no erase of a dead node, no leaked node) and refines one step of a '
          'reference recency list written from the property statement (return values, exceptions, size(), count(), empty(), evicted/peeked == least '
          'recently used, swap of two instances incl. an empty one and itself). C++ type-checking of the two templates is a g++ -fsyntax-only gate.'),
    note=('Trusted: cbmc/goto-instrument/solvers, the extractor, stubs/C12_umap.h (unordered_map model: stable node addresses, freed nodes poisoned, '
          'erase of a dead node asserted), the contracts and the reference list. Histories are covered by one inductive step per shape (bounded part) '
          'and by the local contracts plus the frame (unbounded part); containers larger than the shape bound rest on the local contracts and the '
          'stated induction. K = V = int only; arguments by value; libstdc++ internals, copy construction of the containers and throwing key types are '
          'not decided.'),
    technique=('function contracts with is_fresh neighbourhoods and conditional assigns (goto-instrument --dfcc, callee map operations replaced by '
               'ghost-driven contracts), one harness per alias configuration; shape-enumerated bounded refinement (cbmc --unwind, concrete shape, '
               'symbolic data) labelled bounded'),
)
