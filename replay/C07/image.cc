// Native replay for C07 (Image canvas operations): driver <mode> name=0xHEX...
// Builds small canvases from the counterexample (shapes g_dw/g_dh/g_dalpha/g_dcw, g_s*, g_m*; ghost pixel values g_d*/g_s*/g_m* are
// planted at their coordinates, every other pixel is pseudo-random), runs the REAL phosg operation and compares EVERY pixel of the
// destination with a straightforward per-pixel model written here (independent of the contracts' macros).
// exit 1 = a pixel differs from the model / out_of_range escaped / memory error (ASan); 0 = agrees on this input; 2 = not replayable.
#include "replay/common/args.hh"
#include "Image.hh"
#include "ImageTextFont.hh" // the glyph table (static uint8_t font[96][35]); the geometry of a cell is modelled below
#include <algorithm>
#include <cstdlib>
#include <functional>
#include <stdexcept>
#include <vector>
using namespace phosg;
using namespace std;

typedef __int128 I;
struct Px { uint64_t c[4]; bool operator==(const Px& o) const { return c[0] == o.c[0] && c[1] == o.c[1] && c[2] == o.c[2] && c[3] == o.c[3]; } };
static uint64_t maskw(int cw) { return 0xFFFFFFFFFFFFFFFFULL >> (64 - cw); }
static const ssize_t LIM = 64;

struct Shape { ssize_t w, h; bool alpha; int cw; };
static bool shape_ok(const Shape& s) { return s.w >= 0 && s.h >= 0 && s.w <= LIM && s.h <= LIM && (s.cw == 8 || s.cw == 16 || s.cw == 32 || s.cw == 64); }
static Shape shape(const Args& A, const char* p, ssize_t dw, ssize_t dh) {
  string k(p);
  Shape s;
  s.w = A.has(("g_" + k + "w").c_str()) ? (ssize_t)A.u(("g_" + k + "w").c_str()) : dw;
  s.h = A.has(("g_" + k + "h").c_str()) ? (ssize_t)A.u(("g_" + k + "h").c_str()) : dh;
  s.alpha = A.u(("g_" + k + "alpha").c_str(), 1) != 0;
  s.cw = A.has(("g_" + k + "cw").c_str()) ? (int)A.u(("g_" + k + "cw").c_str()) : 8;
  return s;
}
static Px get(const Image& im, ssize_t x, ssize_t y) { Px p; im.read_pixel(x, y, &p.c[0], &p.c[1], &p.c[2], &p.c[3]); return p; }
static Px stored(const Shape& s, uint64_t r, uint64_t g, uint64_t b, uint64_t a) {   // what a pixel looks like after write_pixel(r,g,b,a)
  uint64_t m = maskw(s.cw);
  return Px{{r & m, g & m, b & m, s.alpha ? (a & m) : m}};
}
// pseudo-random but "interesting" content: alpha among {0, 0xFF, max, random}, colours sometimes the key colour / white
static void fill_canvas(Image& im, const Shape& s, uint64_t seed, const Px* key) {
  uint64_t m = maskw(s.cw);
  for (ssize_t y = 0; y < s.h; y++) for (ssize_t x = 0; x < s.w; x++) {
    uint64_t h = (uint64_t)(x * 7919 + y * 104729 + 13) * 0x9E3779B97F4A7C15ULL + seed * 0xD1B54A32D192ED03ULL;
    h ^= h >> 29;
    uint64_t r = (h >> 3) & m, g = (h >> 17) & m, b = (h >> 31) & m, a;
    switch ((h >> 50) & 3) { case 0: a = 0; break; case 1: a = 0xFF & m; break; case 2: a = m; break; default: a = (h >> 7) & m; }
    if (((h >> 55) & 3) == 0 && key) { r = key->c[0] & m; g = key->c[1] & m; b = key->c[2] & m; }
    if (((h >> 57) & 7) == 1) { r = g = b = 0xFF & m; }
    im.write_pixel(x, y, r, g, b, a);
  }
}
static void plant(Image& im, const Shape& s, const Args& A, const char* p) {
  string k(p);
  ssize_t x = (ssize_t)A.u(("g_" + k + "x").c_str()), y = (ssize_t)A.u(("g_" + k + "y").c_str());
  if (!A.has(("g_" + k + "r").c_str()) || x < 0 || y < 0 || x >= s.w || y >= s.h) return;
  im.write_pixel(x, y, A.u(("g_" + k + "r").c_str()), A.u(("g_" + k + "g").c_str()), A.u(("g_" + k + "b").c_str()), A.u(("g_" + k + "a").c_str()));
}
static uint64_t bl8(uint64_t a, uint64_t c, uint64_t d) { return (a * (uint64_t)(uint32_t)c + (0xFF - a) * (uint64_t)(uint32_t)d) / 0xFF; }
static uint64_t blm(uint64_t c, uint64_t al, uint64_t d, uint64_t mx) { return (c * al + d * (mx - al)) / mx; }
static uint32_t pack(const Px& p) { return (uint32_t)(((p.c[0] & 0xFF) << 24) | ((p.c[1] & 0xFF) << 16) | ((p.c[2] & 0xFF) << 8) | (p.c[3] & 0xFF)); }

enum Exc { NONE, OOR, RUNTIME, OTHER };
template <typename F> static Exc run(F&& f) {
  try { f(); return NONE; } catch (const out_of_range&) { return OOR; } catch (const runtime_error&) { return RUNTIME; } catch (...) { return OTHER; }
}
static const char* excname(Exc e) { return e == NONE ? "returned" : e == OOR ? "threw out_of_range" : e == RUNTIME ? "threw runtime_error" : "threw something else"; }

// compare the whole destination with model(px, py, old) ; returns 1 on the first difference
static int compare(const Image& im, const Shape& ds, const vector<Px>& old, const function<Px(ssize_t, ssize_t, const Px&)>& model, const char* what) {
  for (ssize_t y = 0; y < ds.h; y++) for (ssize_t x = 0; x < ds.w; x++) {
    Px want = model(x, y, old[y * ds.w + x]), got = get(im, x, y);
    if (!(want == got)) {
      printf("POSTCONDITION VIOLATED on the real code: %s: pixel (%zd,%zd) is (%llx,%llx,%llx,%llx), the per-pixel model prescribes (%llx,%llx,%llx,%llx); before: (%llx,%llx,%llx,%llx)\n",
             what, x, y, (unsigned long long)got.c[0], (unsigned long long)got.c[1], (unsigned long long)got.c[2], (unsigned long long)got.c[3],
             (unsigned long long)want.c[0], (unsigned long long)want.c[1], (unsigned long long)want.c[2], (unsigned long long)want.c[3],
             (unsigned long long)old[y * ds.w + x].c[0], (unsigned long long)old[y * ds.w + x].c[1], (unsigned long long)old[y * ds.w + x].c[2], (unsigned long long)old[y * ds.w + x].c[3]);
      return 1;
    }
  }
  return 0;
}

int main(int argc, char** argv) {
  Args A(argc, argv);
  string m = A.mode;
  // groups that are about the same operation replay through the same mode
  if (m == "clamp" || m == "blit_rule" || m == "blit_clip") m = "blit";
  if (m == "fill_rect_rule" || m == "fill_rect_clip") m = "fill_rect";
  if (m == "blend_blit_rule") m = "blend_blit";
  if (m == "blend_blit_alpha_rule") m = "blend_blit_alpha";
  ssize_t x = (ssize_t)A.u("in_x"), y = (ssize_t)A.u("in_y"), w = (ssize_t)A.u("in_w"), h = (ssize_t)A.u("in_h"), sx = (ssize_t)A.u("in_sx"), sy = (ssize_t)A.u("in_sy");
  uint64_t r = A.u("in_r"), g = A.u("in_g"), b = A.u("in_b"), a = A.u("in_a"), alpha = A.u("in_alpha");
  uint32_t c = (uint32_t)A.u("in_c");

  // ---- outlined arithmetic expressions: replay through the operation on 1x1 canvases with 64-bit channels (no truncation)
  if (m.rfind("x_", 0) == 0) {
    const vector<uint64_t>& p = A.arr("in_p");
    if (p.size() < 8) { printf("no in_p\n"); return 2; }
    if (m.rfind("x_fill_bl", 0) == 0) { m = "fill_rect"; x = y = 0; w = h = 1; a = p[0]; r = p[1]; g = p[2]; b = p[3];
      A.kv["g_dw"] = {1}; A.kv["g_dh"] = {1}; A.kv["g_dalpha"] = {1}; A.kv["g_dcw"] = {64}; A.kv["g_dx"] = {0}; A.kv["g_dy"] = {0};
      A.kv["g_dr"] = {p[4]}; A.kv["g_dg"] = {p[5]}; A.kv["g_db"] = {p[6]}; A.kv["g_da"] = {p[7]}; }
    else {
      int cw = 64;
      if (m.rfind("x_blend", 0) == 0) { uint64_t mx = A.u("in_max"); cw = mx == 0xFF ? 8 : mx == 0xFFFF ? 16 : mx == 0xFFFFFFFF ? 32 : mx == ~0ULL ? 64 : 0;
        if (!cw) { printf("max_value 0x%llx is not the mask of a channel width\n", (unsigned long long)mx); return 2; } }
      bool blenda = m.rfind("x_blenda", 0) == 0;
      uint64_t s4[4], d4[4];
      if (m == "x_blenda_bl1") { for (int i = 0; i < 4; i++) { s4[i] = p[1 + i]; d4[i] = 0; } alpha = p[0]; }
      else if (blenda) { for (int i = 0; i < 4; i++) { s4[i] = p[i]; d4[i] = p[4 + i]; } alpha = A.u("in_sa"); }
      else { for (int i = 0; i < 4; i++) { s4[i] = p[i]; d4[i] = p[4 + i]; } }
      m = blenda ? "blend_blit_alpha" : m.rfind("x_blend", 0) == 0 ? "blend_blit" : "blit";
      x = y = sx = sy = 0; w = h = 1;
      for (const char* k : {"d", "s"}) { string K(k); A.kv["g_" + K + "w"] = {1}; A.kv["g_" + K + "h"] = {1}; A.kv["g_" + K + "alpha"] = {1}; A.kv["g_" + K + "cw"] = {(uint64_t)cw};
        A.kv["g_" + K + "x"] = {0}; A.kv["g_" + K + "y"] = {0}; }
      A.kv["g_sr"] = {s4[0]}; A.kv["g_sg"] = {s4[1]}; A.kv["g_sb"] = {s4[2]}; A.kv["g_sa"] = {s4[3]};
      A.kv["g_dr"] = {d4[0]}; A.kv["g_dg"] = {d4[1]}; A.kv["g_db"] = {d4[2]}; A.kv["g_da"] = {d4[3]};
    }
  }

  Shape ds = shape(A, "d", 8, 8), ss = shape(A, "s", 8, 8), ms = shape(A, "m", 8, 8);
  // canvases a mode does not use carry arbitrary ghost values in the counterexample: fall back to a default shape for them
  bool uses_src = m.find("blit") != string::npos || m.rfind("copy_", 0) == 0 || m.rfind("move_", 0) == 0, uses_mask = m == "mask_blit_mask";
  if (!uses_src || (!shape_ok(ss) && false)) { if (!shape_ok(ss)) ss = Shape{8, 8, true, 8}; }
  if (!uses_mask && !shape_ok(ms)) ms = Shape{8, 8, true, 8};
  if (m.rfind("copy_", 0) == 0 || m.rfind("move_", 0) == 0) { if (!shape_ok(ds)) ds = Shape{8, 8, true, 8}; }
  if (!shape_ok(ds) || !shape_ok(ss) || !shape_ok(ms)) { printf("canvas shape not replayable natively (dimension > %zd or invalid channel width)\n", LIM); return 2; }
  Px key{{r, g, b, 0}};
  if (m == "mask_blit_c" || m == "mask_blit_dst_c") key = Px{{(c >> 24) & 0xFFu, (c >> 16) & 0xFFu, (c >> 8) & 0xFFu, 0}};
  Image dst(ds.w, ds.h, ds.alpha, ds.cw), src(ss.w, ss.h, ss.alpha, ss.cw), msk(ms.w, ms.h, ms.alpha, ms.cw);
  fill_canvas(dst, ds, 1, &key); fill_canvas(src, ss, 2, &key); fill_canvas(msk, ms, 3, nullptr);
  plant(dst, ds, A, "d"); plant(src, ss, A, "s"); plant(msk, ms, A, "m");
  vector<Px> old((size_t)(ds.w * ds.h));
  for (ssize_t yy = 0; yy < ds.h; yy++) for (ssize_t xx = 0; xx < ds.w; xx++) old[yy * ds.w + xx] = get(dst, xx, yy);
  uint64_t dm = maskw(ds.cw);
  printf("%s: dst %zdx%zd a=%d cw=%d, src %zdx%zd a=%d cw=%d, mask %zdx%zd; x=%zd y=%zd w=%zd h=%zd sx=%zd sy=%zd rgba=(%llx,%llx,%llx,%llx) c=%08x alpha=%llx\n",
         m.c_str(), ds.w, ds.h, ds.alpha, ds.cw, ss.w, ss.h, ss.alpha, ss.cw, ms.w, ms.h, x, y, w, h, sx, sy,
         (unsigned long long)r, (unsigned long long)g, (unsigned long long)b, (unsigned long long)a, c, (unsigned long long)alpha);

  auto in_rect = [&](ssize_t px, ssize_t py, ssize_t W, ssize_t H) { return (I)px >= (I)x && (I)px < (I)x + W && (I)py >= (I)y && (I)py < (I)y + H; };
  // blit family: destination pixel (px,py) is fed by source pixel (sx+px-x, sy+py-y) iff it is in the requested rectangle and that pixel exists
  auto feed = [&](ssize_t px, ssize_t py, Px* sp, ssize_t* spx, ssize_t* spy) {
    ssize_t W = w < 0 ? ss.w : w, H = h < 0 ? ss.h : h;
    if (!in_rect(px, py, W, H)) return false;
    I qx = (I)sx + ((I)px - x), qy = (I)sy + ((I)py - y);
    if (qx < 0 || qy < 0 || qx >= ss.w || qy >= ss.h) return false;
    *sp = get(src, (ssize_t)qx, (ssize_t)qy); if (spx) { *spx = (ssize_t)qx; *spy = (ssize_t)qy; }
    return true;
  };
  auto blit_like = [&](const function<void()>& op, const function<Px(const Px&, const Px&, ssize_t, ssize_t)>& rule, bool runtime_ok, const char* what) -> int {
    Exc e = run(op);
    RCHECK(e != OOR, "%s: out_of_range escaped", what);
    RCHECK(e == NONE || (runtime_ok && e == RUNTIME), "%s %s", what, excname(e));
    if (e != NONE) return compare(dst, ds, old, [&](ssize_t, ssize_t, const Px& o) { return o; }, "canvas changed although the call was refused");
    return compare(dst, ds, old, [&](ssize_t px, ssize_t py, const Px& o) { Px s; ssize_t qx, qy; return feed(px, py, &s, &qx, &qy) ? rule(s, o, qx, qy) : o; }, what);
  };
  auto blend8 = [&](uint64_t al, uint64_t cr, uint64_t cg, uint64_t cb, uint64_t ca, const Px& o) {
    return stored(ds, bl8(al, cr, o.c[0]), bl8(al, cg, o.c[1]), bl8(al, cb, o.c[2]), bl8(al, ca, o.c[3])); };

  if (m == "fill_rect" || m == "fill_rect_c") {
    if (m == "fill_rect_c") { r = (c >> 24) & 0xFF; g = (c >> 16) & 0xFF; b = (c >> 8) & 0xFF; a = c & 0xFF; }
    Exc e = run([&] { if (m == "fill_rect_c") dst.fill_rect(x, y, w, h, c); else dst.fill_rect(x, y, w, h, r, g, b, a); });
    RCHECK(e == NONE, "fill_rect %s", excname(e));
    return compare(dst, ds, old, [&](ssize_t px, ssize_t py, const Px& o) {
      if (!in_rect(px, py, w, h)) return o;
      return a == 0xFF ? stored(ds, r, g, b, a) : blend8(a, r, g, b, a, o); }, "fill_rect");
  }
  if (m == "clear" || m == "clear_c") {
    if (m == "clear_c") { r = (c >> 24) & 0xFF; g = (c >> 16) & 0xFF; b = (c >> 8) & 0xFF; a = c & 0xFF; }
    Exc e = run([&] { if (m == "clear_c") dst.clear(c); else dst.clear(r, g, b, a); });
    RCHECK(e == NONE, "clear %s", excname(e));
    return compare(dst, ds, old, [&](ssize_t, ssize_t, const Px&) { return stored(ds, r, g, b, a); }, "clear");
  }
  if (m == "blit")
    return blit_like([&] { dst.blit(src, x, y, w, h, sx, sy); }, [&](const Px& s, const Px& o, ssize_t, ssize_t) {
      if (s.c[3] == 0) return o;
      if (s.c[3] == 0xFF) return stored(ds, s.c[0], s.c[1], s.c[2], s.c[3]);
      return blend8(s.c[3], s.c[0], s.c[1], s.c[2], s.c[3], o); }, false, "blit");
  if (m == "mask_blit_rgb" || m == "mask_blit_c")
    return blit_like([&] { if (m == "mask_blit_c") dst.mask_blit(src, x, y, w, h, sx, sy, c); else dst.mask_blit(src, x, y, w, h, sx, sy, r, g, b); },
      [&](const Px& s, const Px& o, ssize_t, ssize_t) { return (s.c[0] != key.c[0] || s.c[1] != key.c[1] || s.c[2] != key.c[2]) ? stored(ds, s.c[0], s.c[1], s.c[2], s.c[3]) : o; }, false, "mask_blit");
  if (m == "mask_blit_dst_rgb" || m == "mask_blit_dst_c")
    return blit_like([&] { if (m == "mask_blit_dst_c") dst.mask_blit_dst(src, x, y, w, h, sx, sy, c); else dst.mask_blit_dst(src, x, y, w, h, sx, sy, r, g, b); },
      [&](const Px& s, const Px& o, ssize_t, ssize_t) { return (o.c[0] == key.c[0] && o.c[1] == key.c[1] && o.c[2] == key.c[2]) ? stored(ds, s.c[0], s.c[1], s.c[2], s.c[3]) : o; }, false, "mask_blit_dst");
  if (m == "mask_blit_mask")
    return blit_like([&] { dst.mask_blit(src, x, y, w, h, sx, sy, msk); }, [&](const Px& s, const Px& o, ssize_t qx, ssize_t qy) {
      // a successful call implies that the mask covers the copied area; the mask is indexed in source space
      if (qx >= ms.w || qy >= ms.h) { printf("(mask does not cover source pixel (%zd,%zd) of a successful call)\n", qx, qy); return Px{{~0ULL, ~0ULL, ~0ULL, ~0ULL}}; }
      Px k = get(msk, qx, qy);
      return (k.c[0] == 0xFF && k.c[1] == 0xFF && k.c[2] == 0xFF) ? o : stored(ds, s.c[0], s.c[1], s.c[2], s.c[3]); }, true, "mask_blit(mask)");
  if (m == "blend_blit")
    return blit_like([&] { dst.blend_blit(src, x, y, w, h, sx, sy); }, [&](const Px& s, const Px& o, ssize_t, ssize_t) {
      if (s.c[3] == dm) return stored(ds, s.c[0], s.c[1], s.c[2], s.c[3]);
      if (s.c[3] == 0) return o;
      return stored(ds, blm(s.c[0], s.c[3], o.c[0], dm), blm(s.c[1], s.c[3], o.c[1], dm), blm(s.c[2], s.c[3], o.c[2], dm), blm(s.c[3], s.c[3], o.c[3], dm)); }, false, "blend_blit");
  if (m == "blend_blit_alpha")
    return blit_like([&] { dst.blend_blit(src, x, y, w, h, sx, sy, alpha); }, [&](const Px& s, const Px& o, ssize_t, ssize_t) {
      uint64_t ea = (alpha * s.c[3]) / dm;
      if (ea == dm) return stored(ds, s.c[0], s.c[1], s.c[2], ea);
      if (ea == 0) return o;
      return stored(ds, blm(s.c[0], ea, o.c[0], dm), blm(s.c[1], ea, o.c[1], dm), blm(s.c[2], ea, o.c[2], dm), o.c[3]); }, false, "blend_blit(alpha)");
  if (m == "custom_blit_c") {
    // an arbitrary but fixed function; at the sampled point it returns the counterexample's value
    uint32_t cd = (uint32_t)A.u("g_cb_d"), cs = (uint32_t)A.u("g_cb_s"), co = (uint32_t)A.u("g_cb_out");
    auto f = [&](uint32_t d, uint32_t s) -> uint32_t { return (d == cd && s == cs) ? co : (d * 2654435761u) ^ (s + 0x9E3779B9u) ^ (d >> 7); };
    return blit_like([&] { dst.custom_blit(src, x, y, w, h, sx, sy, [&](uint32_t& d, uint32_t s) { d = f(d, s); }); },
      [&](const Px& s, const Px& o, ssize_t, ssize_t) { uint32_t v = f(pack(o), pack(s)); return stored(ds, (v >> 24) & 0xFF, (v >> 16) & 0xFF, (v >> 8) & 0xFF, v & 0xFF); }, false, "custom_blit(uint32)");
  }
  if (m == "custom_blit_rgba") {
    auto f = [&](const Px& d, const Px& s) { Px o; for (int i = 0; i < 4; i++) o.c[i] = d.c[i] * 3 + s.c[(i + 1) & 3] + i; return o; };
    return blit_like([&] { dst.custom_blit(src, x, y, w, h, sx, sy, [&](uint64_t& dr, uint64_t& dg, uint64_t& db, uint64_t& da, uint64_t sr, uint64_t sg, uint64_t sb, uint64_t sa) {
        Px o = f(Px{{dr, dg, db, da}}, Px{{sr, sg, sb, sa}}); dr = o.c[0]; dg = o.c[1]; db = o.c[2]; da = o.c[3]; }); },
      [&](const Px& s, const Px& o, ssize_t, ssize_t) { Px v = f(o, s); return stored(ds, v.c[0], v.c[1], v.c[2], v.c[3]); }, false, "custom_blit(rgba)");
  }
  // ---- direct pixel access: out_of_range iff outside; exactly pixel (x,y) changes / is reported
  if (m == "mem_write_pixel" || m == "write_pixel_c" || m == "model_write_pixel") {
    bool outside = x < 0 || y < 0 || x >= ds.w || y >= ds.h;
    if (m == "write_pixel_c") { r = (c >> 24) & 0xFF; g = (c >> 16) & 0xFF; b = (c >> 8) & 0xFF; a = c & 0xFF; }
    Exc e = run([&] { if (m == "write_pixel_c") dst.write_pixel(x, y, c); else dst.write_pixel(x, y, r, g, b, a); });
    RCHECK((e == OOR) == outside && (e == OOR || e == NONE), "write_pixel(%zd,%zd) on %zdx%zd %s", x, y, ds.w, ds.h, excname(e));
    return compare(dst, ds, old, [&](ssize_t px, ssize_t py, const Px& o) { return (px == x && py == y) ? stored(ds, r, g, b, a) : o; }, "write_pixel");
  }
  if (m == "mem_read_pixel" || m == "read_pixel_c" || m == "model_read_pixel") {
    bool outside = x < 0 || y < 0 || x >= ds.w || y >= ds.h;
    Px p{{0, 0, 0, 0}}; uint32_t pc = 0;
    Exc e = run([&] { if (m == "read_pixel_c") pc = dst.read_pixel(x, y); else dst.read_pixel(x, y, &p.c[0], &p.c[1], &p.c[2], &p.c[3]); });
    RCHECK((e == OOR) == outside && (e == OOR || e == NONE), "read_pixel(%zd,%zd) on %zdx%zd %s", x, y, ds.w, ds.h, excname(e));
    if (!outside) { if (m == "read_pixel_c") RCHECK(pc == pack(old[y * ds.w + x]), "read_pixel colour %08x", pc); else RCHECK(p == old[y * ds.w + x], "read_pixel value"); }
    return compare(dst, ds, old, [&](ssize_t, ssize_t, const Px& o) { return o; }, "read_pixel changed the canvas");
  }
  // ---- whole-image transforms
  auto oldat = [&](ssize_t px, ssize_t py) { return old[py * ds.w + px]; };
  if (m == "invert" || m == "invert_twice") {
    Exc e = run([&] { dst.invert(); if (m == "invert_twice") dst.invert(); });
    RCHECK(e == NONE, "invert %s", excname(e));
    return compare(dst, ds, old, [&](ssize_t, ssize_t, const Px& o) { return m == "invert_twice" ? o : Px{{dm - o.c[0], dm - o.c[1], dm - o.c[2], ds.alpha ? dm - o.c[3] : dm}}; }, m.c_str());
  }
  if (m == "set_alpha_from_mask_color" || m == "set_alpha_from_mask_color_c") {
    Exc e = run([&] { if (m == "set_alpha_from_mask_color_c") dst.set_alpha_from_mask_color(c); else dst.set_alpha_from_mask_color(r, g, b); });
    if (m == "set_alpha_from_mask_color_c") { r = (c >> 24) & 0xFF; g = (c >> 16) & 0xFF; b = (c >> 8) & 0xFF; }
    RCHECK(e == NONE, "set_alpha_from_mask_color %s", excname(e));
    return compare(dst, ds, old, [&](ssize_t, ssize_t, const Px& o) { return Px{{o.c[0], o.c[1], o.c[2], !ds.alpha ? dm : (o.c[0] == r && o.c[1] == g && o.c[2] == b) ? 0 : dm}}; }, m.c_str());
  }
  if (m.rfind("reverse_", 0) == 0) {
    bool hz = m.find("horizontal") != string::npos, twice = m.find("twice") != string::npos;
    Exc e = run([&] { for (int i = 0; i < (twice ? 2 : 1); i++) { if (hz) dst.reverse_horizontal(); else dst.reverse_vertical(); } });
    RCHECK(e == NONE, "%s %s", m.c_str(), excname(e));
    return compare(dst, ds, old, [&](ssize_t px, ssize_t py, const Px& o) { return twice ? o : hz ? oldat(ds.w - 1 - px, py) : oldat(px, ds.h - 1 - py); }, m.c_str());
  }
  // ---- axis-aligned lines
  if (m.rfind("draw_horizontal_line", 0) == 0 || m.rfind("draw_vertical_line", 0) == 0 || m == "x_h_div1" || m == "x_v_div1") {
    bool hz = m.find("horizontal") != string::npos || m == "x_h_div1", col = m.size() > 2 && m.substr(m.size() - 2) == "_c";
    ssize_t lo = (ssize_t)A.u(hz ? "in_x1" : "in_y1"), hi = (ssize_t)A.u(hz ? "in_x2" : "in_y2"), at = (ssize_t)A.u(hz ? "in_y" : "in_x"), dash = (ssize_t)A.u("in_dash");
    if (m[0] == 'x') { lo = hi = (ssize_t)A.u("in_x"); at = 0; }
    if ((I)hi - (I)lo > 1000000) { printf("line too long to replay natively\n"); return 2; }
    if (col) { r = (c >> 24) & 0xFF; g = (c >> 16) & 0xFF; b = (c >> 8) & 0xFF; a = c & 0xFF; }
    Exc e = run([&] { if (hz) { if (col) dst.draw_horizontal_line(lo, hi, at, dash, c); else dst.draw_horizontal_line(lo, hi, at, dash, r, g, b, a); }
                      else { if (col) dst.draw_vertical_line(at, lo, hi, dash, c); else dst.draw_vertical_line(at, lo, hi, dash, r, g, b, a); } });
    RCHECK(e == NONE, "%s %s", m.c_str(), excname(e));
    Px colour = stored(ds, r, g, b, a);
    bool solid_inside = dash == 0 && lo >= 0 && at >= 0 && (hz ? (hi < ds.w && at < ds.h) : (hi < ds.h && at < ds.w));
    for (ssize_t py = 0; py < ds.h; py++) for (ssize_t px = 0; px < ds.w; px++) {
      Px now = get(dst, px, py), was = oldat(px, py);
      bool on = hz ? (py == at && px >= lo && px <= hi) : (px == at && py >= lo && py <= hi);
      RCHECK(on || now == was, "pixel (%zd,%zd) off the segment changed", px, py);
      RCHECK(now == was || now == colour, "pixel (%zd,%zd) changed to something else than the colour", px, py);
      RCHECK(!(on && solid_inside) || now == colour, "pixel (%zd,%zd) of a solid in-canvas line is not coloured", px, py);
    }
    return 0;
  }
  if (m == "draw_line" || m == "draw_line_c") {
    ssize_t x0 = (ssize_t)A.u("in_x0"), y0 = (ssize_t)A.u("in_y0"), x1 = (ssize_t)A.u("in_x1"), y1 = (ssize_t)A.u("in_y1");
    if (m == "draw_line_c") { r = (c >> 24) & 0xFF; g = (c >> 16) & 0xFF; b = (c >> 8) & 0xFF; a = c & 0xFF; }
    Exc e = run([&] { if (m == "draw_line_c") dst.draw_line(x0, y0, x1, y1, c); else dst.draw_line(x0, y0, x1, y1, r, g, b, a); });
    RCHECK(e == NONE, "draw_line %s", excname(e));
    Px colour = stored(ds, r, g, b, a);
    ssize_t marked = 0;
    for (ssize_t py = 0; py < ds.h; py++) for (ssize_t px = 0; px < ds.w; px++) {
      Px now = get(dst, px, py);
      RCHECK(now == oldat(px, py) || now == colour, "pixel (%zd,%zd) changed to something else than the colour", px, py);
      marked += !(now == oldat(px, py));
    }
    bool inside = x0 >= 0 && y0 >= 0 && x1 >= 0 && y1 >= 0 && x0 < ds.w && x1 < ds.w && y0 < ds.h && y1 < ds.h;
    if (inside) {   // the statement's line clause, natively (not a verification result): both ends marked, at most max(|dx|,|dy|)+1 pixels
      ssize_t n = std::max(std::abs(x1 - x0), std::abs(y1 - y0)) + 1;
      RCHECK(get(dst, x0, y0) == colour && get(dst, x1, y1) == colour, "an end point of an in-canvas line is not marked");
      RCHECK(marked <= n, "%zd pixels marked, at most %zd expected", marked, n);
    }
    return 0;
  }
  // ---- one text cell: a single character at any cursor position against the per-pixel model of a cell
  if (m == "draw_text_cell") {
    ssize_t xp = (ssize_t)A.u("in_xpos"), yp = (ssize_t)A.u("in_ypos");
    if (xp < -100000 || xp > 100000 || yp < -100000 || yp > 100000) { xp %= 64; yp %= 64; }
    uint8_t ch = (uint8_t)A.u("in_ch");
    uint64_t br = A.u("in_br"), bg = A.u("in_bg"), bb = A.u("in_bb"), ba = A.u("in_ba");
    if (ba != 0) ba = 0xFF;                          // the contract decides the background colour for an opaque background only
    if (ch == 0 || ch == '\r') { printf("a text of one NUL / CR draws no cell\n"); return 2; }
    printf("cell '%c' (0x%02X) at (%zd,%zd) on a %zd x %zd canvas, ba=0x%llX\n", (ch >= 0x20 && ch < 0x7F) ? ch : '?', ch, xp, yp, ds.w, ds.h, (unsigned long long)ba);
    Exc e = run([&] { dst.draw_text(xp, yp, r, g, b, a, br, bg, bb, ba, "%c", (int)ch); });
    RCHECK(e == NONE, "draw_text %s", excname(e));
    auto in = [](ssize_t px, ssize_t py, ssize_t rx, ssize_t ry, ssize_t rw, ssize_t rh) { return px >= rx && px < rx + rw && py >= ry && py < ry + rh; };
    uint8_t gi = (uint8_t)(((ch < 0x20 || ch > 0x7F) ? 0x7F : ch) - 0x20);
    return compare(dst, ds, old, [&](ssize_t px, ssize_t py, const Px& o) {
      Px v = o;
      if (ch == '\n') {   // strip of the line break, then the closing strip of the (empty) next line
        if (ba && (in(px, py, xp - 1, yp - 1, 1, 9) || in(px, py, xp - 1, yp + 8 - 1, 1, 9))) v = stored(ds, br, bg, bb, ba);
        return v;
      }
      if (ba && (in(px, py, xp - 1, yp - 1, 6, 9) || in(px, py, xp + 5, yp - 1, 1, 9))) v = stored(ds, br, bg, bb, ba);
      ssize_t cx = px - xp, cy = py - yp;
      if (cx >= 0 && cx < 5 && cy >= 0 && cy < 7 && font[gi][cy * 5 + cx]) v = stored(ds, r, g, b, a);
      return v; }, "draw_text (one cell)");
  }
  // ---- text: no exception for any byte; clipping invariance against a larger canvas
  if (m == "draw_text_v") {
    string text;
    for (int i = 1; i < 256; i++) { text.push_back((char)i); if (i % 37 == 0) text.push_back('\n'); }
    x = (ssize_t)A.u("in_x"); y = (ssize_t)A.u("in_y");
    uint64_t br = A.u("in_br"), bg = A.u("in_bg"), bb = A.u("in_bb"), ba = A.u("in_ba");
    if (x < -100000 || x > 100000 || y < -100000 || y > 100000) { x %= 64; y %= 64; }
    const ssize_t M = 24;
    Image big(ds.w + 2 * M, ds.h + 2 * M, ds.alpha, ds.cw);
    for (ssize_t py = 0; py < ds.h + 2 * M; py++) for (ssize_t px = 0; px < ds.w + 2 * M; px++) {
      bool in = px >= M && py >= M && px < M + ds.w && py < M + ds.h;
      Px o = in ? oldat(px - M, py - M) : Px{{1, 2, 3, 4}};
      big.write_pixel(px, py, o.c[0], o.c[1], o.c[2], o.c[3]);
    }
    Exc e = run([&] { dst.draw_text(x, y, nullptr, nullptr, r, g, b, a, br, bg, bb, ba, "%s", text.c_str()); big.draw_text(x + M, y + M, nullptr, nullptr, r, g, b, a, br, bg, bb, ba, "%s", text.c_str()); });
    RCHECK(e == NONE, "draw_text %s", excname(e));
    for (ssize_t py = 0; py < ds.h; py++) for (ssize_t px = 0; px < ds.w; px++)
      RCHECK(get(dst, px, py) == get(big, px + M, py + M), "text is not clipping-invariant at pixel (%zd,%zd)", px, py);
    return 0;
  }
  // ---- whole-buffer operations
  if (m == "set_channel_width") {
    int nw = (int)A.u("in_new_width");
    if (nw != 8 && nw != 16 && nw != 32 && nw != 64) return 2;
    Exc e = run([&] { dst.set_channel_width(nw); });
    RCHECK(e == NONE, "set_channel_width %s", excname(e));
    RCHECK(dst.get_channel_width() == nw && (ssize_t)dst.get_width() == ds.w && (ssize_t)dst.get_height() == ds.h && dst.get_has_alpha() == ds.alpha, "shape after set_channel_width");
    auto conv = [&](uint64_t v) { if (nw == ds.cw) return v; if (nw < ds.cw) return v >> (ds.cw - nw); uint64_t o = 0; for (int s = 0; s < nw; s += ds.cw) o |= v << s; return o & maskw(nw); };
    Shape ns = ds; ns.cw = nw;
    return compare(dst, ns, old, [&](ssize_t, ssize_t, const Px& o) { return Px{{conv(o.c[0]), conv(o.c[1]), conv(o.c[2]), ds.alpha ? conv(o.c[3]) : maskw(nw)}}; }, "set_channel_width");
  }
  if (m == "set_has_alpha") {
    bool na = A.u("in_new_alpha") != 0;
    Exc e = run([&] { dst.set_has_alpha(na); });
    RCHECK(e == NONE, "set_has_alpha %s", excname(e));
    RCHECK(dst.get_has_alpha() == na && dst.get_channel_width() == ds.cw && (ssize_t)dst.get_width() == ds.w && (ssize_t)dst.get_height() == ds.h, "shape after set_has_alpha");
    Shape ns = ds; ns.alpha = na;
    return compare(dst, ns, old, [&](ssize_t, ssize_t, const Px& o) { return Px{{o.c[0], o.c[1], o.c[2], (na && ds.alpha) ? o.c[3] : dm}}; }, "set_has_alpha");
  }
  if (m == "copy_ctor" || m == "copy_assign") {
    Image cp(3, 2, false, 8);
    Exc e = run([&] { if (m == "copy_ctor") { Image c2(src); cp = std::move(c2); } else cp = src; });
    RCHECK(e == NONE, "copy %s", excname(e));
    RCHECK(cp == src && cp.get_data() != src.get_data(), "copy differs from the original or shares its buffer");
    if (ss.w > 0 && ss.h > 0) { Px o = get(src, 0, 0); cp.write_pixel(0, 0, ~o.c[0], ~o.c[1], ~o.c[2], ~o.c[3]); RCHECK(get(src, 0, 0) == o, "writing to the copy changed the original (shallow copy)"); }
    return 0;
  }
  if (m == "move_ctor" || m == "move_assign") {
    const void* buf = src.get_data(); Image ref(src);
    Image mv(2, 2, false, 8);
    if (m == "move_ctor") { Image m2(std::move(src)); RCHECK(m2 == ref && m2.get_data() == buf, "moved-to image"); }
    else { mv = std::move(src); RCHECK(mv == ref && mv.get_data() == buf, "moved-to image"); }
    RCHECK(src.get_width() == 0 && src.get_height() == 0 && !src.get_has_alpha() && src.get_channel_width() == 8 && src.get_data() == nullptr, "moved-from image is not the empty canvas");
    return 0;
  }
  if (m == "widen_narrow") return 0;
  printf("unknown mode %s\n", m.c_str());
  return 2;
}
