/* C04: the pieces of the JSON grammar (RFC 8259) and of the C `%g` output format (ISO C 7.21.6.1p8) that the obligations
 * mention, written from the standards' text.  Specification, TRUSTED BASE. */
#ifndef SPEC_C04_RFC8259_H
#define SPEC_C04_RFC8259_H
#include <stddef.h>
#include <stdbool.h>
#include <stdint.h>

#define SPEC_ISDIGIT(c) ((c) >= '0' && (c) <= '9')
#define SPEC_ISDIGIT19(c) ((c) >= '1' && (c) <= '9')
#define SPEC_ISHEX(c) (SPEC_ISDIGIT(c) || ((c) >= 'A' && (c) <= 'F') || ((c) >= 'a' && (c) <= 'f'))

/* RFC 8259 section 6:  number = [ minus ] int [ frac ] [ exp ];  int = zero / ( digit1-9 *DIGIT );  frac = "." 1*DIGIT;
 * exp = e [ minus / plus ] 1*DIGIT.   `*is_int` : neither frac nor exp is present. */
static inline bool spec_rfc_number(const char* t, size_t n, bool* has_frac, bool* has_exp)
{
  size_t i = 0;
  *has_frac = false;
  *has_exp = false;
  if (i < n && t[i] == '-') i++;
  if (i >= n) return false;
  if (t[i] == '0') i++;
  else if (SPEC_ISDIGIT19(t[i])) {
    while (i < n && SPEC_ISDIGIT(t[i])) i++;
  } else return false;
  if (i < n && t[i] == '.') {
    i++;
    if (i >= n || !SPEC_ISDIGIT(t[i])) return false;
    while (i < n && SPEC_ISDIGIT(t[i])) i++;
    *has_frac = true;
  }
  if (i < n && (t[i] == 'e' || t[i] == 'E')) {
    i++;
    if (i < n && (t[i] == '-' || t[i] == '+')) i++;
    if (i >= n || !SPEC_ISDIGIT(t[i])) return false;
    while (i < n && SPEC_ISDIGIT(t[i])) i++;
    *has_exp = true;
  }
  return i == n;
}

/* RFC 8259 section 7: inside the quotation marks a string is a sequence of
 *   unescaped = %x20-21 / %x23-5B / %x5D-10FFFF   (for single bytes: 0x20..0x7F except '"' and '\'; bytes >= 0x80 only as
 *                                                  part of a UTF-8 sequence, which a lone byte is not)
 *   escape ( %x22 / %x5C / %x2F / %x62 / %x66 / %x6E / %x72 / %x74 / %x75 4HEXDIG )
 * SPEC_RFC_CHAR_GROUP(p, n): the n bytes at p are exactly one such item made of ASCII bytes. */
#define SPEC_RFC_UNESCAPED_ASCII(c) ((uint8_t)(c) >= 0x20 && (uint8_t)(c) <= 0x7F && (c) != '"' && (c) != '\\')
#define SPEC_RFC_SIMPLE_ESC(c) ((c) == '"' || (c) == '\\' || (c) == '/' || (c) == 'b' || (c) == 'f' || (c) == 'n' || (c) == 'r' || (c) == 't')
#define SPEC_RFC_CHAR_GROUP(p, n) \
  (((n) == 1 && SPEC_RFC_UNESCAPED_ASCII((p)[0])) || \
   ((n) == 2 && (p)[0] == '\\' && SPEC_RFC_SIMPLE_ESC((p)[1])) || \
   ((n) == 6 && (p)[0] == '\\' && (p)[1] == 'u' && SPEC_ISHEX((p)[2]) && SPEC_ISHEX((p)[3]) && SPEC_ISHEX((p)[4]) && SPEC_ISHEX((p)[5])))
/* the code unit a group denotes (RFC 8259 section 7: \b \f \n \r \t = U+0008 U+000C U+000A U+000D U+0009; \uXXXX = U+XXXX) */
#define SPEC_HEXVAL(c) ((unsigned)(SPEC_ISDIGIT(c) ? (c) - '0' : (c) >= 'a' ? (c) - 'a' + 10 : (c) - 'A' + 10))
#define SPEC_RFC_GROUP_VALUE(p, n) \
  ((n) == 1 ? (unsigned)(uint8_t)(p)[0] : \
   (n) == 2 ? ((p)[1] == 'b' ? 8u : (p)[1] == 'f' ? 12u : (p)[1] == 'n' ? 10u : (p)[1] == 'r' ? 13u : (p)[1] == 't' ? 9u : (unsigned)(uint8_t)(p)[1]) : \
   ((SPEC_HEXVAL((p)[2]) << 12) | (SPEC_HEXVAL((p)[3]) << 8) | (SPEC_HEXVAL((p)[4]) << 4) | SPEC_HEXVAL((p)[5])))

/* ISO C 7.21.6.1p8, conversion g with the default precision P = 6, finite non-zero argument with decimal exponent X:
 *   P > X >= -4 : style f with precision P - 1 - X;  otherwise style e with precision P - 1;
 *   then "trailing zeros are removed from the fractional portion of the result and the decimal-point character is removed
 *   if there is no fractional portion remaining".   Style e: [-]d.ddd e(+|-)dd, "the exponent always contains at least two
 *   digits, and only as many more digits as necessary".  IEEE-754 binary64 finite values: |X| <= 308 (normal numbers).
 * Hence the language (no locale other than "C"):
 *   fixed, |x| >= 1  : [-] D1 D{0,5} [ . D{1,} ]      with (integer digits + fraction digits) <= 6, last fraction digit != 0
 *   fixed, |x| <  1  : [-] 0 . 0{0,3} D1 D{0,5}        last digit != 0
 *   zero             : [-] 0
 *   exponent         : [-] D1 [ . D{1,5} ] e (+|-) DD[D]   last fraction digit != 0; exponent >= 6 after '+', >= 5 after '-',
 *                                                        <= 308, three digits only when >= 100
 * spec_g_text recognises exactly this language (n <= 13 = strlen("-1.23457e+308")). */
static inline bool spec_g_text(const char* t, size_t n)
{
  size_t i = 0;
  if (i < n && t[i] == '-') i++;
  if (i >= n || !SPEC_ISDIGIT(t[i])) return false;
  bool int_zero = t[i] == '0';
  size_t nint = 0;
  while (i < n && SPEC_ISDIGIT(t[i])) { i++; nint++; }
  if (int_zero && nint != 1) return false;
  if (nint > 6) return false;
  size_t nfrac = 0, lead0 = 0;
  bool seen_nz = false;
  char last = '1';
  if (i < n && t[i] == '.') {
    i++;
    while (i < n && SPEC_ISDIGIT(t[i])) {
      if (t[i] != '0') seen_nz = true;
      if (!seen_nz) lead0++;
      last = t[i];
      i++; nfrac++;
    }
    if (nfrac == 0 || last == '0') return false;
  }
  if (i == n) {                       /* fixed notation */
    if (int_zero) return nfrac == 0 || (lead0 <= 3 && nfrac - lead0 <= 6);
    return nint + nfrac <= 6;
  }
  if (t[i] != 'e') return false;      /* exponent notation */
  if (int_zero || nint != 1 || nfrac > 5) return false;
  i++;
  if (i >= n || (t[i] != '+' && t[i] != '-')) return false;
  bool eneg = t[i] == '-';
  i++;
  size_t nexp = 0;
  unsigned e = 0;
  char first = '0';
  while (i < n && SPEC_ISDIGIT(t[i])) {
    if (nexp == 0) first = t[i];
    e = e * 10 + (unsigned)(t[i] - '0');
    i++; nexp++;
    if (nexp > 3) return false;
  }
  if (i != n) return false;
  if (nexp < 2 || (nexp == 3 && first == '0')) return false;
  if ((e >= 100) != (nexp == 3)) return false;
  return e <= 308 && e >= (eneg ? 5u : 6u);
}

#endif
