/* C07: whole-buffer operations (set_channel_width, set_has_alpha, copy / move) at memory level.  Function text: x_color.c, x_reshape.c. */
#include "contracts/C07_reshape.h"
int verif_exc; size_t g_mk, g_k; uint64_t g_v, g_v1, g_v2;
const Image *g_dimg, *g_simg, *g_mimg;
ssize_t g_dw, g_dh, g_sw, g_sh, g_mw, g_mh;
bool g_dalpha, g_salpha, g_malpha;
uint8_t g_dcw, g_scw, g_mcw;
ssize_t g_dx, g_dy, g_sx, g_sy, g_mx, g_my, g_ex, g_ey;
uint64_t g_dr, g_dg, g_db, g_da, g_sr, g_sg, g_sb, g_sa, g_mr, g_mg, g_mb, g_ma, g_er, g_eg, g_eb, g_ea;
#include "x_color.c"
#include "x_reshape.c"
#define GH(T, n) { T in_gh_##n; g_##n = in_gh_##n; }
#define IN_SHAPE_D GH(ssize_t, dw) GH(ssize_t, dh) GH(bool, dalpha) GH(uint8_t, dcw)
#define IN_SHAPE_S GH(ssize_t, sw) GH(ssize_t, sh) GH(bool, salpha) GH(uint8_t, scw)
#define IN_K GH(size_t, k) GH(uint64_t, v) GH(uint64_t, v1) GH(uint64_t, v2) GH(size_t, mk)
#if defined(OW) && defined(NW)
void h_set_channel_width(void) { Image* self; IN_SHAPE_D IN_K uint8_t in_new_width; Image_set_channel_width(self, in_new_width); VERIF_REACH(); }
#endif
#if defined(CWA)
void h_set_has_alpha(void) { Image* self; IN_SHAPE_D IN_K bool in_new_alpha; Image_set_has_alpha(self, in_new_alpha); VERIF_REACH(); }
#endif
void h_copy_ctor(void) { Image* self; const Image* im; IN_SHAPE_S IN_K Image_copy_ctor(self, im); VERIF_REACH(); }
void h_copy_assign(void) { Image* self; const Image* im; IN_SHAPE_S IN_K Image_copy_assign(self, im); VERIF_REACH(); }
void h_move_ctor(void) { Image* self; Image* im; Image_move_ctor(self, im); VERIF_REACH(); }
void h_move_assign(void) { Image* self; Image* im; Image_move_assign(self, im); VERIF_REACH(); }
/* widen-then-narrow is the identity on every sample value (lemma over the conversion of the set_channel_width contract) */
#if defined(OW) && defined(NW)
void l_widen_narrow(void) { uint64_t in_v; uint64_t v = in_v & MASKW(OW); uint64_t wide = CONVW(v, OW, NW) & MASKW(NW);
  __CPROVER_assert((CONVW(wide, NW, OW) & MASKW(OW)) == v, "narrow(widen(v)) == v"); VERIF_REACH(); }
#endif
