/* C19: expect_generic + the lowered expectation_failed constructor. The function text is x_expect_generic.c
 * (extracted from src/UnitTest.cc on every run). */
#include "x_unittest_base.h"
#include "contracts/C19_unittest.h"
#include "x_expect_generic.c"

int verif_exc;
const char* g_exc_msg; const char* g_exc_file; uint64_t g_exc_line;
const char* g_what_msg; const char* g_what_file; uint64_t g_what_line;

void h_expect_generic(void) {
  bool in_pred;
  uint64_t in_line;
  const char *msg, *file;                 /* arbitrary pointers: never dereferenced by the code under contract */
  const char *m0, *f0, *wm0, *wf0; uint64_t in_old_line, in_old_what_line;
  g_exc_msg = m0; g_exc_file = f0; g_exc_line = in_old_line;          /* payload of some earlier failure */
  g_what_msg = wm0; g_what_file = wf0; g_what_line = in_old_what_line;
  verif_exc = EXC_none;
  expect_generic(in_pred, msg, file, in_line);
  VERIF_REACH();
}
