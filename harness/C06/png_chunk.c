/* C06: write_png_chunk (chunk framing and CRC chain), loop-free, unbounded in the data length up to C6P_MAXDATA */
#define C6P_MAXDATA 0x7fffffffu
#include "contracts/C06_png.h"
int verif_exc;
unsigned g_pw_calls, g_crc_bad; const void* g_pw_ptr[C6P_MAXCALLS]; size_t g_pw_len[C6P_MAXCALLS]; uint32_t g_pw_be[C6P_MAXCALLS]; size_t g_pw_total;
const char* g_png_type; const void* g_png_data; uint32_t g_png_size, g_crc_type, g_crc_full;
#include "x_png_chunk.c"
void h_png_chunk(void) {
  uint32_t in_size, in_crc_type, in_crc_full; const char* type; const void* data;
  g_crc_type = in_crc_type; g_crc_full = in_crc_full;
  g_png_type = type; g_png_data = data; g_png_size = in_size;
  g_pw_calls = 0; g_pw_total = 0; g_crc_bad = 0;
  write_png_chunk(type, data, in_size);
  VERIF_REACH();
}
