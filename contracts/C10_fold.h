/* C10 side-car contracts for the byte folds of src/Hash.cc: crc32, fnv1a32, fnv1a64 (definitions are extracted text).
 *
 * Lock-step ghost specification (DESIGN.md 3.4): the ghost accumulator (g_crc / g_h32 / g_h64) is advanced by the
 * *standard's* step (spec/C10_crc32.h: RFC 1952, spec/C10_fnv.h: FNV definition) on octet number g_i of the argument
 * buffer, once per loop iteration, by ghost statements injected at loop-body start (props/C10.py); the ghost statements
 * read the buffer through their own counter g_i (not through the loop variable of the code) and g_n counts every octet
 * the specification has consumed.  The loop invariant is real accumulator == ghost accumulator.
 *
 * The contracts are in *running* form, which is the form both definitions have (RFC 1952 update_crc(crc, buf, len);
 * FNV "hash = offset_basis; for each octet ..."): the caller states which specification run the call continues
 *      requires  ghost register == register that the seed argument denotes
 * and the call extends that run by exactly `size` octets
 *      ensures   result == value the specification returns after those octets,  g_n == old g_n + size.
 * A fresh hash is the case ghost = INIT(0) / offset basis (harness h_*, h_*_default).  Chaining (second call seeded
 * with the first result) is the lemma l_*_chain over these contracts. */
#ifndef C10_FOLD_H
#define C10_FOLD_H
#include "contracts/verif.h"
#include "spec/C10_crc32.h"
#include "spec/C10_fnv.h"

uint32_t g_crc;   /* RFC 1952 register c of the specification run */
uint32_t g_t;     /* scratch: crc_table entry computed bit-serially */
uint32_t g_h32;   /* FNV-1a 32 hash of the specification run */
uint64_t g_h64;   /* FNV-1a 64 hash of the specification run */
size_t g_n;       /* octets consumed by the specification run so far (over all calls) */
size_t g_i;       /* octets of the current argument buffer consumed by the specification */

uint32_t crc32(const void* vdata, size_t size, uint32_t cs)
__CPROVER_requires(__CPROVER_is_fresh(vdata, size))
__CPROVER_requires(g_crc == C10_CRC32_INIT(cs))
__CPROVER_ensures(__CPROVER_return_value == C10_CRC32_FINAL(g_crc))
__CPROVER_ensures(g_n == __CPROVER_old(g_n) + size)
__CPROVER_ensures(g_i == size)
__CPROVER_assigns(g_crc, g_t, g_n, g_i);

uint32_t fnv1a32(const void* data, size_t size, uint32_t hash)
__CPROVER_requires(__CPROVER_is_fresh(data, size))
__CPROVER_requires(g_h32 == hash)
__CPROVER_ensures(__CPROVER_return_value == g_h32)
__CPROVER_ensures(g_n == __CPROVER_old(g_n) + size)
__CPROVER_ensures(g_i == size)
__CPROVER_assigns(g_h32, g_n, g_i);

uint64_t fnv1a64(const void* data, size_t size, uint64_t hash)
__CPROVER_requires(__CPROVER_is_fresh(data, size))
__CPROVER_requires(g_h64 == hash)
__CPROVER_ensures(__CPROVER_return_value == g_h64)
__CPROVER_ensures(g_n == __CPROVER_old(g_n) + size)
__CPROVER_ensures(g_i == size)
__CPROVER_assigns(g_h64, g_n, g_i);

/* std::string overloads: the string is the pair (data(), size()) */
typedef struct {
  const char* data;
  size_t size;
} C10_str;

uint32_t fnv1a32_str(const C10_str* data, uint32_t hash)
__CPROVER_requires(__CPROVER_is_fresh(data, sizeof(C10_str)) && __CPROVER_is_fresh(data->data, data->size))
__CPROVER_requires(g_h32 == hash)
__CPROVER_ensures(__CPROVER_return_value == g_h32)
__CPROVER_ensures(g_n == __CPROVER_old(g_n) + data->size && g_i == data->size)
__CPROVER_assigns(g_h32, g_n, g_i);

uint64_t fnv1a64_str(const C10_str* data, uint64_t hash)
__CPROVER_requires(__CPROVER_is_fresh(data, sizeof(C10_str)) && __CPROVER_is_fresh(data->data, data->size))
__CPROVER_requires(g_h64 == hash)
__CPROVER_ensures(__CPROVER_return_value == g_h64)
__CPROVER_ensures(g_n == __CPROVER_old(g_n) + data->size && g_i == data->size)
__CPROVER_assigns(g_h64, g_n, g_i);

#endif
