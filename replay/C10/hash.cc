// Native replay for C10: the real phosg hash functions (src/Hash.cc, src/Strings.cc of the working tree) against
// independent reference implementations written here from RFC 1952 / the FNV definition / RFC 1321 / FIPS 180-4.
//
//   driver <mode> [name=0xHEX ...]      exit 1 = the real code disagrees with the reference, 0 = agrees, 2 = usage
//   modes: crc32 fnv1a32 fnv1a64 md5 sha1 sha256 (plus the suffixes _bin / _hex, same sweep)
//          spec_<alg>   prints "<len> <hexdigest>" for lengths 0..300 computed with the *specification macros* of
//                       /verif/spec/C10_*.h (used by tools/C10_validate_spec.sh to compare them with hashlib / zlib)
//
// The C10 obligations are loop-contract proofs: a counterexample of the verifier is a state at an arbitrary loop
// iteration (havocked accumulator, symbolic length, is_fresh buffer that is not visible in the trace), so it rarely
// yields a complete concrete input.  The driver therefore uses what the trace does give (in_size, in_cs / in_hash /
// in_seed, in_na, in_nb) as *additional* sweep points and otherwise runs a small deterministic sweep in the given mode:
// lengths 0..200 (plus 247..264 and in_size), five fill patterns, several seeds, the std::string overloads, the
// one-argument (default seed) forms, bin() and hex() renderings and -- for crc32 / fnv1a -- every chaining split point
// of every input up to 48 bytes.  It stops with exit 1 at the first disagreement.
#include "replay/common/args.hh"
#include "Hash.hh"
#include <unistd.h>

#include "spec/C10_crc32.h"
#include "spec/C10_fnv.h"
#include "spec/C10_md5.h"
#include "spec/C10_sha1.h"
#include "spec/C10_sha256.h"
#include "spec/C10_md_padding.h"

// Hash.cc pulls in Strings.cc, which references these two symbols of Process.cc / Filesystem.cc on paths that the hash
// functions never take; defining them here keeps the replay build to two translation units.
namespace phosg {
pid_t getpid_cached() { return getpid(); }
std::string load_file(const std::string&) { abort(); }
} // namespace phosg

using std::string;
typedef std::vector<uint8_t> Bytes;

// ---------------------------------------------------------------------------------------------- references
static uint32_t ref_crc32(const uint8_t* p, size_t n, uint32_t crc) { // bit-serial, reflected, poly 0x04C11DB7 reversed
  crc = ~crc;
  for (size_t i = 0; i < n; i++) {
    crc ^= p[i];
    for (int k = 0; k < 8; k++) crc = (crc >> 1) ^ ((crc & 1) ? 0xEDB88320u : 0);
  }
  return ~crc;
}
static uint32_t ref_fnv32(const uint8_t* p, size_t n, uint32_t h) {
  for (size_t i = 0; i < n; i++) { h ^= p[i]; h += (h << 1) + (h << 4) + (h << 7) + (h << 8) + (h << 24); } // * 16777619
  return h;
}
static uint64_t ref_fnv64(const uint8_t* p, size_t n, uint64_t h) {
  for (size_t i = 0; i < n; i++) { h ^= p[i]; h += (h << 1) + (h << 4) + (h << 5) + (h << 7) + (h << 8) + (h << 40); } // * 1099511628211
  return h;
}
static inline uint32_t rol(uint32_t x, int n) { return (x << n) | (x >> (32 - n)); }
static inline uint32_t ror(uint32_t x, int n) { return (x >> n) | (x << (32 - n)); }
static Bytes md_pad(const uint8_t* p, size_t n, bool big) {
  Bytes m(p, p + n);
  m.push_back(0x80);
  while (m.size() % 64 != 56) m.push_back(0);
  uint64_t bits = (uint64_t)n * 8;
  for (int i = 0; i < 8; i++) m.push_back((uint8_t)(bits >> (big ? 8 * (7 - i) : 8 * i)));
  return m;
}
static Bytes ref_md5(const uint8_t* p, size_t n) {
  static const int S[4][4] = {{7, 12, 17, 22}, {5, 9, 14, 20}, {4, 11, 16, 23}, {6, 10, 15, 21}};
  uint32_t T[64];
  for (int i = 0; i < 64; i++) T[i] = (uint32_t)(uint64_t)(4294967296.0L * __builtin_fabsl(__builtin_sinl((long double)(i + 1))));
  uint32_t h[4] = {0x67452301u, 0xefcdab89u, 0x98badcfeu, 0x10325476u};
  Bytes m = md_pad(p, n, false);
  for (size_t o = 0; o < m.size(); o += 64) {
    uint32_t X[16];
    for (int i = 0; i < 16; i++) X[i] = m[o + 4 * i] | (m[o + 4 * i + 1] << 8) | (m[o + 4 * i + 2] << 16) | ((uint32_t)m[o + 4 * i + 3] << 24);
    uint32_t a = h[0], b = h[1], c = h[2], d = h[3];
    for (int i = 0; i < 64; i++) {
      uint32_t f; int g;
      switch (i / 16) {
        case 0: f = (b & c) | (~b & d); g = i; break;
        case 1: f = (d & b) | (~d & c); g = (5 * i + 1) % 16; break;
        case 2: f = b ^ c ^ d; g = (3 * i + 5) % 16; break;
        default: f = c ^ (b | ~d); g = (7 * i) % 16; break;
      }
      uint32_t tmp = d; d = c; c = b; b = b + rol(a + f + T[i] + X[g], S[i / 16][i % 4]); a = tmp;
    }
    h[0] += a; h[1] += b; h[2] += c; h[3] += d;
  }
  Bytes out;
  for (int i = 0; i < 4; i++) for (int k = 0; k < 4; k++) out.push_back((uint8_t)(h[i] >> (8 * k)));
  return out;
}
static Bytes ref_sha1(const uint8_t* p, size_t n) {
  uint32_t h[5] = {0x67452301u, 0xEFCDAB89u, 0x98BADCFEu, 0x10325476u, 0xC3D2E1F0u};
  Bytes m = md_pad(p, n, true);
  for (size_t o = 0; o < m.size(); o += 64) {
    uint32_t w[80];
    for (int i = 0; i < 16; i++) w[i] = ((uint32_t)m[o + 4 * i] << 24) | (m[o + 4 * i + 1] << 16) | (m[o + 4 * i + 2] << 8) | m[o + 4 * i + 3];
    for (int i = 16; i < 80; i++) w[i] = rol(w[i - 3] ^ w[i - 8] ^ w[i - 14] ^ w[i - 16], 1);
    uint32_t a = h[0], b = h[1], c = h[2], d = h[3], e = h[4];
    for (int i = 0; i < 80; i++) {
      uint32_t f, k;
      if (i < 20) { f = (b & c) ^ (~b & d); k = 0x5A827999u; }
      else if (i < 40) { f = b ^ c ^ d; k = 0x6ED9EBA1u; }
      else if (i < 60) { f = (b & c) ^ (b & d) ^ (c & d); k = 0x8F1BBCDCu; }
      else { f = b ^ c ^ d; k = 0xCA62C1D6u; }
      uint32_t t = rol(a, 5) + f + e + k + w[i];
      e = d; d = c; c = rol(b, 30); b = a; a = t;
    }
    h[0] += a; h[1] += b; h[2] += c; h[3] += d; h[4] += e;
  }
  Bytes out;
  for (int i = 0; i < 5; i++) for (int k = 3; k >= 0; k--) out.push_back((uint8_t)(h[i] >> (8 * k)));
  return out;
}
static uint32_t frac_root(unsigned p, int root) { // first 32 bits of the fractional part of p^(1/root), integer arithmetic
  // find y = floor(p^(1/root) * 2^32) by bisection on y^root <= p * 2^(32*root), with 128-bit / long double free arithmetic
  unsigned __int128 lo = 0, hi = ((unsigned __int128)1) << 40;
  while (hi - lo > 1) {
    unsigned __int128 mid = (lo + hi) / 2;
    // compare mid^root with p << (32*root) using long multiplication in base 2^32 limbs (root = 2 or 3, mid < 2^40)
    unsigned __int128 sq = mid * mid; // < 2^80
    bool le;
    if (root == 2) le = sq <= ((unsigned __int128)p << 64);
    else {
      // mid^3 <= p * 2^96  <=>  sq * mid <= p << 96 ; sq*mid < 2^120 fits
      le = sq * mid <= ((unsigned __int128)p << 96);
    }
    if (le) lo = mid; else hi = mid;
  }
  return (uint32_t)lo;
}
static Bytes ref_sha256(const uint8_t* p, size_t n) {
  static uint32_t K[64], H0[8];
  static bool init = false;
  if (!init) {
    int cnt = 0;
    for (unsigned q = 2; cnt < 64; q++) {
      bool prime = true;
      for (unsigned d = 2; d * d <= q; d++) if (q % d == 0) prime = false;
      if (!prime) continue;
      if (cnt < 8) H0[cnt] = frac_root(q, 2);
      K[cnt++] = frac_root(q, 3);
    }
    init = true;
  }
  uint32_t h[8];
  memcpy(h, H0, sizeof(h));
  Bytes m = md_pad(p, n, true);
  for (size_t o = 0; o < m.size(); o += 64) {
    uint32_t w[64];
    for (int i = 0; i < 16; i++) w[i] = ((uint32_t)m[o + 4 * i] << 24) | (m[o + 4 * i + 1] << 16) | (m[o + 4 * i + 2] << 8) | m[o + 4 * i + 3];
    for (int i = 16; i < 64; i++) {
      uint32_t s0 = ror(w[i - 15], 7) ^ ror(w[i - 15], 18) ^ (w[i - 15] >> 3), s1 = ror(w[i - 2], 17) ^ ror(w[i - 2], 19) ^ (w[i - 2] >> 10);
      w[i] = s1 + w[i - 7] + s0 + w[i - 16];
    }
    uint32_t v[8];
    memcpy(v, h, sizeof(v));
    for (int i = 0; i < 64; i++) {
      uint32_t t1 = v[7] + (ror(v[4], 6) ^ ror(v[4], 11) ^ ror(v[4], 25)) + ((v[4] & v[5]) ^ (~v[4] & v[6])) + K[i] + w[i];
      uint32_t t2 = (ror(v[0], 2) ^ ror(v[0], 13) ^ ror(v[0], 22)) + ((v[0] & v[1]) ^ (v[0] & v[2]) ^ (v[1] & v[2]));
      v[7] = v[6]; v[6] = v[5]; v[5] = v[4]; v[4] = v[3] + t1; v[3] = v[2]; v[2] = v[1]; v[1] = v[0]; v[0] = t1 + t2;
    }
    for (int i = 0; i < 8; i++) h[i] += v[i];
  }
  Bytes out;
  for (int i = 0; i < 8; i++) for (int k = 3; k >= 0; k--) out.push_back((uint8_t)(h[i] >> (8 * k)));
  return out;
}
static string hexs(const Bytes& b) {
  static const char* d = "0123456789ABCDEF";
  string s;
  for (uint8_t c : b) { s.push_back(d[c >> 4]); s.push_back(d[c & 15]); }
  return s;
}

// ---------------------------------------------------------------------------------------------- specification macros, natively
static uint32_t spec_crc32(const uint8_t* p, size_t n, uint32_t crc) {
  uint32_t c = C10_CRC32_INIT(crc), t;
  for (size_t i = 0; i < n; i++) { C10_CRC32_TABLE_ENTRY(t, C10_CRC32_INDEX(c, p[i])); c = C10_CRC32_UPDATE(c, t); }
  return C10_CRC32_FINAL(c);
}
static uint32_t spec_fnv32(const uint8_t* p, size_t n) { uint32_t h = C10_FNV32_OFFSET_BASIS; for (size_t i = 0; i < n; i++) h = C10_FNV1A32_STEP(h, p[i]); return h; }
static uint64_t spec_fnv64(const uint8_t* p, size_t n) { uint64_t h = C10_FNV64_OFFSET_BASIS; for (size_t i = 0; i < n; i++) h = C10_FNV1A64_STEP(h, p[i]); return h; }
// padded message per spec/C10_md_padding.h: total = least multiple of 64 >= n + 9
static Bytes spec_pad(const uint8_t* p, size_t n, bool big) {
  size_t nblk = 0;
  while (!(C10_MD_TOTAL(nblk) >= n + 9)) nblk++;
  size_t total = C10_MD_TOTAL(nblk);
  Bytes m(total, 0);
  for (size_t k = 0; k < total; k++)
    m[k] = k < n ? p[k] : k == n ? 0x80 : k < total - 8 ? 0 : big ? C10_MD_LEN_BYTE_BE(n, k - (total - 8)) : C10_MD_LEN_BYTE_LE(n, k - (total - 8));
  return m;
}
static Bytes spec_md5(const uint8_t* p, size_t n) {
  uint32_t H[4] = {C10_MD5_A0, C10_MD5_B0, C10_MD5_C0, C10_MD5_D0};
  Bytes m = spec_pad(p, n, false);
  for (size_t o = 0; o < m.size(); o += 64) {
    const uint8_t* block = &m[o];
    uint32_t v[4] = {H[0], H[1], H[2], H[3]};
    for (size_t r = 0; r < 64; r++) {
      uint32_t xk = C10_LE32_AT(block, C10_MD5_K[r]), s = C10_MD5_S[r], ti = C10_MD5_T[r];
      C10_MD5_STEP(r, v[0], v[1], v[2], v[3], xk, s, ti);
    }
    for (int i = 0; i < 4; i++) H[i] = v[i] + H[i];
  }
  Bytes out;
  for (size_t j = 0; j < 16; j++) out.push_back(C10_MD5_DIGEST_BYTE(H[0], H[1], H[2], H[3], j));
  return out;
}
static Bytes spec_sha1(const uint8_t* p, size_t n) {
  uint32_t H[5] = {C10_SHA1_H0, C10_SHA1_H1, C10_SHA1_H2, C10_SHA1_H3, C10_SHA1_H4};
  Bytes m = spec_pad(p, n, true);
  for (size_t o = 0; o < m.size(); o += 64) {
    uint32_t W[80], v[5];
    for (size_t t = 0; t < 16; t++) W[t] = C10_BE32_AT(&m[o], t);
    for (size_t t = 16; t < 80; t++) W[t] = C10_SHA1_W(W, t);
    for (int i = 0; i < 5; i++) v[i] = H[i];
    for (size_t t = 0; t < 80; t++) {
      uint32_t T = C10_SHA1_T(t, v[0], v[1], v[2], v[3], v[4], W[t]);
      v[4] = v[3]; v[3] = v[2]; v[2] = C10_SHA_ROTL(v[1], 30); v[1] = v[0]; v[0] = T;
    }
    for (int i = 0; i < 5; i++) H[i] = v[i] + H[i];
  }
  Bytes out;
  for (size_t j = 0; j < 20; j++) out.push_back(C10_BE_DIGEST_BYTE(H[j >> 2], j));
  return out;
}
static Bytes spec_sha256(const uint8_t* p, size_t n) {
  uint32_t H[8];
  for (int i = 0; i < 8; i++) H[i] = C10_SHA256_H0[i];
  Bytes m = spec_pad(p, n, true);
  for (size_t o = 0; o < m.size(); o += 64) {
    uint32_t W[64], v[8];
    for (size_t t = 0; t < 16; t++) W[t] = C10_BE32_AT(&m[o], t);
    for (size_t t = 16; t < 64; t++) W[t] = C10_SHA256_W(W, t);
    for (int i = 0; i < 8; i++) v[i] = H[i];
    for (size_t t = 0; t < 64; t++) {
      uint32_t T1 = C10_SHA256_T1(v[4], v[5], v[6], v[7], C10_SHA256_K[t], W[t]), T2 = C10_SHA256_T2(v[0], v[1], v[2]);
      v[7] = v[6]; v[6] = v[5]; v[5] = v[4]; v[4] = v[3] + T1; v[3] = v[2]; v[2] = v[1]; v[1] = v[0]; v[0] = T1 + T2;
    }
    for (int i = 0; i < 8; i++) H[i] = v[i] + H[i];
  }
  Bytes out;
  for (size_t j = 0; j < 32; j++) out.push_back(C10_BE_DIGEST_BYTE(H[j >> 2], j));
  return out;
}

// ---------------------------------------------------------------------------------------------- sweep
static Bytes fill(size_t n, int pat) {
  Bytes b(n);
  uint32_t s = 0x9E3779B9u * (uint32_t)(pat + 1);
  for (size_t i = 0; i < n; i++) {
    switch (pat) {
      case 0: b[i] = 0; break;
      case 1: b[i] = 0xFF; break;
      case 2: b[i] = (uint8_t)i; break;
      default: s = s * 1664525u + 1013904223u; b[i] = (uint8_t)(s >> 24); break;
    }
  }
  return b;
}
static std::vector<size_t> lengths(const Args& A) {
  std::vector<size_t> l;
  for (size_t n = 0; n <= 200; n++) l.push_back(n);
  for (size_t n = 247; n <= 264; n++) l.push_back(n);
  for (const char* k : {"in_size", "in_na", "in_nb"})
    if (A.has(k) && A.u(k) <= (1u << 20)) l.push_back((size_t)A.u(k));
  return l;
}
#define FAIL(...) do { printf("POSTCONDITION VIOLATED on the real code: "); printf(__VA_ARGS__); printf("\n"); return 1; } while (0)

template <typename T, typename F, typename R, typename FS>
static int sweep_fold(const Args& A, const char* name, F real, FS real_str, R ref, T dflt, std::vector<T> seeds) {
  for (const char* k : {"in_cs", "in_hash", "in_seed"}) if (A.has(k)) seeds.push_back((T)A.u(k));
  for (size_t n : lengths(A)) for (int pat = 0; pat < 5; pat++) {
    Bytes b = fill(n, pat);
    const uint8_t* p = b.empty() ? (const uint8_t*)"" : b.data();
    string s((const char*)p, n);
    for (T seed : seeds) {
      T r = real(p, n, seed), e = ref(p, n, seed);
      if (r != e) FAIL("%s(len=%zu, pattern %d, seed=0x%llX) = 0x%llX, reference 0x%llX", name, n, pat, (unsigned long long)seed, (unsigned long long)r, (unsigned long long)e);
      T rs = real_str(s, seed, false);
      if (rs != e) FAIL("%s(std::string len=%zu, pattern %d, seed=0x%llX) = 0x%llX, reference 0x%llX", name, n, pat, (unsigned long long)seed, (unsigned long long)rs, (unsigned long long)e);
      if (n <= 48) for (size_t m = 0; m <= n; m++) { // chaining: every split point
        T c = real(p + m, n - m, real(p, m, seed));
        if (c != e) FAIL("%s chaining: len=%zu split=%zu pattern %d seed=0x%llX: h(b, seed=h(a)) = 0x%llX, h(a||b) reference 0x%llX", name, n, m, pat, (unsigned long long)seed, (unsigned long long)c, (unsigned long long)e);
      }
    }
    T d1 = real(p, n, dflt), e1 = ref(p, n, dflt), d2 = real_str(s, dflt, true);
    (void)d1;
    if (d2 != e1) FAIL("%s one-argument form (len=%zu, pattern %d) = 0x%llX, reference 0x%llX", name, n, pat, (unsigned long long)d2, (unsigned long long)e1);
  }
  printf("%s: sweep agrees with the reference\n", name);
  return 0;
}

template <typename H, typename R>
static int sweep_md(const Args& A, const char* name, R ref) {
  for (size_t n : lengths(A)) for (int pat = 0; pat < 5; pat++) {
    Bytes b = fill(n, pat);
    const uint8_t* p = b.empty() ? (const uint8_t*)"" : b.data();
    Bytes e = ref(p, n);
    H h(p, n);
    string bin = h.bin(), hx = h.hex();
    if (bin != string((const char*)e.data(), e.size())) FAIL("%s(len=%zu, pattern %d).bin() = %s, reference %s", name, n, pat, hexs(Bytes(bin.begin(), bin.end())).c_str(), hexs(e).c_str());
    if (hx != hexs(e)) FAIL("%s(len=%zu, pattern %d).hex() = %s, reference %s", name, n, pat, hx.c_str(), hexs(e).c_str());
    H hs(string((const char*)p, n));
    if (hs.bin() != bin) FAIL("%s(std::string) differs from %s(ptr, size) at len=%zu", name, name, n);
    // the same message hashed from an address that is not 4-byte aligned (offsets 1..3 into a buffer)
    for (size_t off = 1; off <= 3; off++) {
      Bytes shifted(n + off + 1);
      for (size_t i = 0; i < n; i++) shifted[off + i] = p[i];
      H hu(shifted.data() + off, n);
      if (hu.bin() != string((const char*)e.data(), e.size()))
        FAIL("%s(len=%zu, pattern %d) hashed from buffer offset %zu = %s, reference %s", name, n, pat, off, hu.hex().c_str(), hexs(e).c_str());
    }
  }
  printf("%s: sweep agrees with the reference\n", name);
  return 0;
}

template <typename F>
static int print_spec(F f) {
  for (size_t n = 0; n <= 300; n++) {
    Bytes b(n);
    for (size_t i = 0; i < n; i++) b[i] = (uint8_t)(i * 7 + n);   // same formula in tools/C10_validate_spec.sh
    Bytes d = f(b.empty() ? (const uint8_t*)"" : b.data(), n);
    printf("%zu %s\n", n, hexs(d).c_str());
  }
  return 0;
}
static Bytes be_bytes(uint64_t v, int n) { Bytes b; for (int k = n - 1; k >= 0; k--) b.push_back((uint8_t)(v >> (8 * k))); return b; }

int main(int argc, char** argv) {
  Args A(argc, argv);
  string m = A.mode;
  for (const char* suf : {"_bin", "_hex"}) {
    size_t l = strlen(suf);
    if (m.size() > l && m.compare(m.size() - l, l, suf) == 0) m = m.substr(0, m.size() - l);
  }
  printf("mode=%s\n", A.mode.c_str());
  if (m == "crc32")
    return sweep_fold<uint32_t>(A, "crc32", [](const uint8_t* p, size_t n, uint32_t s) { return phosg::crc32(p, n, s); },
        [](const string& s, uint32_t seed, bool dflt) { return dflt ? phosg::crc32(s.data(), s.size()) : phosg::crc32(s.data(), s.size(), seed); },
        ref_crc32, 0u, {0u, 0xFFFFFFFFu, 0x12345678u});
  if (m == "fnv1a32")
    return sweep_fold<uint32_t>(A, "fnv1a32", [](const uint8_t* p, size_t n, uint32_t s) { return phosg::fnv1a32(p, n, s); },
        [](const string& s, uint32_t seed, bool dflt) { return dflt ? phosg::fnv1a32(s) : phosg::fnv1a32(s, seed); },
        ref_fnv32, 2166136261u, {2166136261u, 0u, 0xDEADBEEFu});
  if (m == "fnv1a64")
    return sweep_fold<uint64_t>(A, "fnv1a64", [](const uint8_t* p, size_t n, uint64_t s) { return phosg::fnv1a64(p, n, s); },
        [](const string& s, uint64_t seed, bool dflt) { return dflt ? phosg::fnv1a64(s) : phosg::fnv1a64(s, seed); },
        ref_fnv64, 14695981039346656037ull, {14695981039346656037ull, 0ull, 0x0123456789ABCDEFull});
  if (m == "md5") return sweep_md<phosg::MD5>(A, "MD5", ref_md5);
  if (m == "sha1") return sweep_md<phosg::SHA1>(A, "SHA1", ref_sha1);
  if (m == "sha256") return sweep_md<phosg::SHA256>(A, "SHA256", ref_sha256);
  if (m == "spec_crc32") return print_spec([](const uint8_t* p, size_t n) { return be_bytes(spec_crc32(p, n, C10_CRC32_START), 4); });
  if (m == "spec_fnv1a32") return print_spec([](const uint8_t* p, size_t n) { return be_bytes(spec_fnv32(p, n), 4); });
  if (m == "spec_fnv1a64") return print_spec([](const uint8_t* p, size_t n) { return be_bytes(spec_fnv64(p, n), 8); });
  if (m == "spec_md5") return print_spec(spec_md5);
  if (m == "spec_sha1") return print_spec(spec_sha1);
  if (m == "spec_sha256") return print_spec(spec_sha256);
  fprintf(stderr, "unknown mode %s\n", A.mode.c_str());
  return 2;
}
