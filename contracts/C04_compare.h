/* C04: the comparison operators of JSON (src/JSON.cc, src/JSON.hh) -- "parsing the text ... yields a value EQUAL to the original",
 * "copies compare equal to their source": equality is JSON::operator==, i.e. operator<=> == equivalent.
 *
 * Value model: stubs/C04_json.h (alternative index + scalar payloads).  std::partial_ordering is the int PO_*.
 * Strings are abstracted to what the comparison can observe of them: std::string::compare(const std::string&) compares the two
 * byte sequences over their FULL lengths (NUL bytes included), std::string::compare(const char*) compares with the C string,
 * i.e. with the bytes of the argument up to its first NUL ([string.compare], [char.traits]).  Two ghost facts describe the pair
 * (stored string, argument string) of a call:
 *     g_cmp_full in {-1, 0, 1}: sign of the full-length comparison,     g_cmp_cstr: sign of the comparison with the C-string prefix,
 *     g_arg_has_nul: the argument contains a NUL byte before its end.
 * They are tied together by what holds for every pair of strings (CMP_FACTS): without an embedded NUL the two comparisons agree;
 * with one, the argument's C-string prefix is strictly shorter than the argument, so the two cannot BOTH report equality.
 * Lists / dictionaries: the element-wise overloads are contract-only here (their result is the ghost g_cmp_list / g_cmp_dict). */
#ifndef C04_COMPARE_H
#define C04_COMPARE_H
#include "contracts/verif.h"
#include "stubs/C04_json.h"
enum { PO_less = -1, PO_equivalent = 0, PO_greater = 1, PO_unordered = 2 };
extern int g_cmp_full, g_cmp_cstr, g_cmp_list, g_cmp_dict; extern bool g_arg_has_nul;
#define CMP_SIGN(r) ((r) < 0 ? -1 : (r) > 0 ? 1 : 0)
#define CMP_FACTS (g_cmp_full >= -1 && g_cmp_full <= 1 && g_cmp_cstr >= -1 && g_cmp_cstr <= 1 && \
                   (g_arg_has_nul ? !(g_cmp_full == 0 && g_cmp_cstr == 0) : g_cmp_cstr == g_cmp_full))
#define PO_OF_SIGN(s) ((s) < 0 ? PO_less : (s) > 0 ? PO_greater : PO_equivalent)
/* three-way comparison of two arithmetic values (for doubles: unordered when either is a NaN) */
#define PO_3WAY(a, b) ((a) < (b) ? PO_less : (a) > (b) ? PO_greater : (a) == (b) ? PO_equivalent : PO_unordered)

/* std::string::compare: contract-only models over the ghost facts */
int C04_compare_str(const vstr* a, const vstr* b)
__CPROVER_ensures(CMP_SIGN(__CPROVER_return_value) == g_cmp_full)
__CPROVER_assigns();
int C04_compare_cstr(const vstr* a, const char* b)
__CPROVER_ensures(CMP_SIGN(__CPROVER_return_value) == g_cmp_cstr)
__CPROVER_assigns();
/* v.c_str(): the C-string view of the argument (opaque pointer; what it denotes is g_cmp_cstr / g_arg_has_nul) */
static inline const char* C04_c_str(const vstr* v) { return v->data; }

#define SELF_REQ __CPROVER_requires(__CPROVER_is_fresh(self, sizeof(JSONV))) __CPROVER_requires(self->kind >= 0 && self->kind <= 6) __CPROVER_requires(CMP_FACTS)

int partial_ordering_for_string_compare_result(int res)
__CPROVER_ensures(__CPROVER_return_value == PO_OF_SIGN(res))
__CPROVER_assigns();

int JSON_cmp_null(const JSONV* self)
SELF_REQ
__CPROVER_ensures(__CPROVER_return_value == (self->kind == JK_nullptr_t ? PO_equivalent : PO_unordered))
__CPROVER_assigns();
int JSON_cmp_bool(const JSONV* self, bool v)
SELF_REQ
__CPROVER_ensures(__CPROVER_return_value == (self->kind == JK_bool ? PO_3WAY((int)self->b, (int)v) : PO_unordered))
__CPROVER_assigns();
/* the string overloads: ordering of the FULL byte strings (std::string argument) / of the stored string and the C string (const char*) */
int JSON_cmp_str(const JSONV* self, const vstr* v)
SELF_REQ __CPROVER_requires(__CPROVER_is_fresh(v, sizeof(vstr)))
__CPROVER_ensures(__CPROVER_return_value == (self->kind == JK_string ? PO_OF_SIGN(g_cmp_full) : PO_unordered))
__CPROVER_assigns();
int JSON_cmp_cstr(const JSONV* self, const char* v)
SELF_REQ
__CPROVER_ensures(__CPROVER_return_value == (self->kind == JK_string ? PO_OF_SIGN(g_cmp_cstr) : PO_unordered))
__CPROVER_assigns();
/* operator<=>(T) for arithmetic T, instantiated for int64_t and double: an int or float value is compared numerically
 * (usual arithmetic conversions of the built-in <=>), anything else is unordered */
int JSON_cmp_int(const JSONV* self, int64_t v)
SELF_REQ
__CPROVER_ensures(__CPROVER_return_value == (self->kind == JK_int64_t ? PO_3WAY(self->i, v) : self->kind == JK_double ? PO_3WAY(self->f, (double)v) : PO_unordered))
__CPROVER_assigns();
int JSON_cmp_double(const JSONV* self, double v)
SELF_REQ
__CPROVER_ensures(__CPROVER_return_value == (self->kind == JK_int64_t ? PO_3WAY((double)self->i, v) : self->kind == JK_double ? PO_3WAY(self->f, v) : PO_unordered))
__CPROVER_assigns();
/* element-wise overloads: contract-only (children are opaque in this model) */
int JSON_cmp_list(const JSONV* self, const JSONV* other)
__CPROVER_ensures(__CPROVER_return_value == (self->kind == JK_list_type ? g_cmp_list : PO_unordered))
__CPROVER_assigns();
int JSON_cmp_dict(const JSONV* self, const JSONV* other)
__CPROVER_ensures(__CPROVER_return_value == (self->kind == JK_dict_type ? g_cmp_dict : PO_unordered))
__CPROVER_assigns();

/* operator<=>(const JSON&): values of different alternatives are unordered, except int / float which compare numerically;
 * same alternative: null == null, bools / numbers by value, strings over their full byte sequences, containers element-wise */
#define CMP_JSON_SPEC(xa, xb) ( \
  ((xa)->kind == JK_int64_t && (xb)->kind == JK_double) ? PO_3WAY((double)(xa)->i, (xb)->f) : \
  ((xa)->kind == JK_double && (xb)->kind == JK_int64_t) ? PO_3WAY((xa)->f, (double)(xb)->i) : \
  (xa)->kind != (xb)->kind ? PO_unordered : \
  (xa)->kind == JK_nullptr_t ? PO_equivalent : \
  (xa)->kind == JK_bool ? PO_3WAY((int)(xa)->b, (int)(xb)->b) : \
  (xa)->kind == JK_int64_t ? PO_3WAY((xa)->i, (xb)->i) : \
  (xa)->kind == JK_double ? PO_3WAY((xa)->f, (xb)->f) : \
  (xa)->kind == JK_string ? PO_OF_SIGN(g_cmp_full) : \
  (xa)->kind == JK_list_type ? g_cmp_list : g_cmp_dict)
int JSON_cmp(const JSONV* self, const JSONV* other)
SELF_REQ __CPROVER_requires(__CPROVER_is_fresh(other, sizeof(JSONV))) __CPROVER_requires(other->kind >= 0 && other->kind <= 6)
__CPROVER_requires(verif_exc == 0)
__CPROVER_ensures(verif_exc == 0)
__CPROVER_ensures(__CPROVER_return_value == CMP_JSON_SPEC(self, other))
__CPROVER_assigns(verif_exc);
/* operator==(T), instantiated for T = const JSON& */
bool JSON_eq(const JSONV* self, const JSONV* other)
SELF_REQ __CPROVER_requires(__CPROVER_is_fresh(other, sizeof(JSONV))) __CPROVER_requires(other->kind >= 0 && other->kind <= 6)
__CPROVER_requires(verif_exc == 0)
__CPROVER_ensures(verif_exc == 0 && __CPROVER_return_value == (CMP_JSON_SPEC(self, other) == PO_equivalent))
__CPROVER_assigns(verif_exc);
#endif
