// Argument parsing shared by the native replay drivers: driver <mode> [extra...] name=0xHEX[,0xHEX...] ...
#pragma once
#include <cstdint>
#include <cstdio>
#include <cstdlib>
#include <cstring>
#include <map>
#include <string>
#include <vector>

struct Args {
  std::string mode;
  std::vector<std::string> extra;
  std::map<std::string, std::vector<uint64_t>> kv;
  Args(int argc, char** argv) {
    if (argc < 2) { fprintf(stderr, "usage: driver mode [extra] k=v...\n"); exit(2); }
    mode = argv[1];
    for (int i = 2; i < argc; i++) {
      std::string a = argv[i];
      size_t eq = a.find('=');
      if (eq == std::string::npos) { extra.push_back(a); continue; }
      std::vector<uint64_t> vals;
      std::string rest = a.substr(eq + 1);
      size_t p = 0;
      while (p <= rest.size()) {
        size_t c = rest.find(',', p);
        if (c == std::string::npos) c = rest.size();
        vals.push_back(strtoull(rest.substr(p, c - p).c_str(), nullptr, 0));
        p = c + 1;
      }
      kv[a.substr(0, eq)] = vals;
    }
  }
  bool has(const char* k) const { return kv.count(k) != 0; }
  uint64_t u(const char* k, uint64_t dflt = 0) const {
    auto it = kv.find(k);
    return (it == kv.end() || it->second.empty()) ? dflt : it->second[0];
  }
  const std::vector<uint64_t>& arr(const char* k) const {
    static std::vector<uint64_t> empty;
    auto it = kv.find(k);
    return it == kv.end() ? empty : it->second;
  }
};

#define RCHECK(cond, ...) do { if (!(cond)) { printf("POSTCONDITION VIOLATED on the real code: %s\n  ", #cond); printf(__VA_ARGS__); printf("\n"); return 1; } } while (0)
