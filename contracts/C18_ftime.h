/* C18: format_time.  "format_time renders any timestamp as the correct UTC calendar date and time with exact microseconds".
 * The calendar and the digits are libc's (gmtime_r / strftime / snprintf: not decided by this technique).  What phosg's own
 * code decides, and what this contract states: the second count handed to gmtime_r is floor(t / 10^6); the broken-down time it
 * returns is rendered with "%Y-%m-%d %H:%M:%S" into the whole string (g_ft_str_n bytes); the microsecond field ".%06u" with the value
 * t mod 10^6 is written right behind that text with the remaining room as its bound; the result has the length of both
 * (capped at the string size); runtime_error iff libc reports a failure. */
#ifndef CONTRACTS_C18_FTIME_H
#define CONTRACTS_C18_FTIME_H
#include "stubs/C18_ftime.h"

extern c18_fstr g_ft_out;

void format_time(c18_fstr* ret, uint64_t t)
__CPROVER_requires(ret == &g_ft_out && verif_exc == 0 && g_ft_gm_calls == 0 && g_ft_sf_calls == 0 && g_ft_sn_calls == 0)
__CPROVER_assigns(verif_exc, g_ft_out, g_ft_gm_calls, g_ft_sf_calls, g_ft_sn_calls, g_ft_secs, g_ft_tm, g_ft_sf_dst, g_ft_sf_max, g_ft_sf_fmt_ok,
                  g_ft_sf_tm_ok, g_ft_len, g_ft_sn_dst, g_ft_sn_n, g_ft_sn_zero, g_ft_sn_width, g_ft_sn_val, g_ft_sn_ret, g_ft_str_n)
/* seconds since the epoch: floor(t / 10^6), converted exactly once */
__CPROVER_ensures(g_ft_gm_calls == 1 && g_ft_secs >= 0 && (uint64_t)g_ft_secs == t / 1000000)
/* date and time text: ISO-like format, of the struct gmtime_r filled, into the whole string */
__CPROVER_ensures(g_ft_sf_calls == 1 && g_ft_sf_fmt_ok && g_ft_sf_tm_ok && g_ft_sf_dst == g_ft_out.buf && g_ft_sf_max == g_ft_str_n)
/* throws exactly when libc reports a failure, and then runtime_error */
__CPROVER_ensures((verif_exc != 0) == (g_ft_len == 0 || g_ft_sn_ret < 0))
__CPROVER_ensures(verif_exc == 0 || verif_exc == EXC_runtime_error)
/* microsecond field: '.' + six zero-padded digits of t mod 10^6, directly behind the date/time text, bounded by the remaining room */
__CPROVER_ensures(g_ft_len != 0 ==> (g_ft_sn_calls == 1 && g_ft_sn_dst == g_ft_out.buf + g_ft_len && g_ft_sn_n == g_ft_str_n - g_ft_len &&
                                     g_ft_sn_zero == 1 && g_ft_sn_width == 6 && g_ft_sn_val == t % 1000000))
/* length of the result: both parts (7 characters for the microsecond field), capped at the string size */
__CPROVER_ensures(verif_exc == 0 ==> ret->size == (g_ft_len + 7 < g_ft_str_n ? g_ft_len + 7 : g_ft_str_n))
;
#endif
