"""C14 -- file and stream reads are complete regardless of how data is delivered (DESIGN.md section 4, C14)."""
import re
from vf.extract import Source, Unit
from vf.lex import Rule, ExtractionBreak
from vf.pipeline import Group, Replay, ALL_LIB

ID = 'C14'
LEVEL = 'proof'
CC = 'src/Filesystem.cc'
HH = 'src/Filesystem.hh'

# every libc / syscall name Filesystem.cc's readers use is bound to its contract-only stub (stubs/C14_io.h)
SYS_NAMES = 'read|pread|write|pwrite|fread|fwrite|fgetc|fgets|feof|ferror|fileno|strlen|close'


def SYS(count='+'):
    return Rule(r'(?<![\w.>])(?:::)?\b(%s)\(' % SYS_NAMES, r'c14_\1(', count=count, regex=True)


def exact_unit(ctx, src):
    """readx/writex/preadx/pwritex/freadx/fwritex (both overloads), fgetcx, read(int,size_t), fread(FILE*,size_t)."""
    u = Unit(ctx, 'exact')
    u.raw('#include "stubs/vstr.h"\n#include "stubs/C14_io.h"\n')
    for nm, a1, a1c in (('readx', 'int fd', 'int fd'), ('preadx', 'int fd', 'int fd'), ('freadx', r'FILE\* f', 'C14_FILE* f')):
        off = ', off_t offset' if nm == 'preadx' else ''
        u.function(src, CC, r'void %s\(%s, void\* data, size_t size%s\)' % (nm, a1, off),
                   new_header='void phosg_%s(%s, void* data, size_t size%s)' % (nm, a1c, off), rules=[SYS()], ret_zero='')
        u.function(src, CC, r'string %s\(%s, size_t size%s\)' % (nm, a1, off),
                   new_header='void phosg_%s_str(vstr* ret, %s, size_t size%s)' % (nm, a1c, off),
                   rules=[Rule(r'string ret\(size, 0\);', "vstr_resize(ret, size, 0);", count=1, regex=True),
                          Rule(r'\b%s\((\w+), ret\.data\(\), size' % nm, r'phosg_%s(\1, vstr_data(ret), size' % nm, count=1, regex=True),
                          Rule('return ret;', 'return;', count=1)],
                   may_throw=['phosg_' + nm], ret_zero='')
    for nm, a1, a1c in (('writex', 'int fd', 'int fd'), ('pwritex', 'int fd', 'int fd'), ('fwritex', r'FILE\* f', 'C14_FILE* f')):
        off = ', off_t offset' if nm == 'pwritex' else ''
        u.function(src, CC, r'void %s\(%s, const void\* data, size_t size%s\)' % (nm, a1, off),
                   new_header='void phosg_%s(%s, const void* data, size_t size%s)' % (nm, a1c, off), rules=[SYS()], ret_zero='')
        u.function(src, CC, r'void %s\(%s, const string& data%s\)' % (nm, a1, off),
                   new_header='void phosg_%s_str(%s, const vstr* data%s)' % (nm, a1c, off),
                   rules=[Rule(r'\b%s\((\w+), data\.data\(\), data\.size\(\)' % nm, r'phosg_%s(\1, data->data, data->size' % nm, count=1, regex=True)],
                   ret_zero='')
    u.function(src, CC, r'uint8_t fgetcx\(FILE\* f\)', new_header='uint8_t phosg_fgetcx(C14_FILE* f)', rules=[SYS()], ret_zero='0')
    for nm, a1, a1c in (('read', 'int fd', 'int fd'), ('fread', r'FILE\* f', 'C14_FILE* f')):
        u.function(src, CC, r'string %s\(%s, size_t size\)' % (nm, a1),
                   new_header='void phosg_%s_str(vstr* data, %s, size_t size)' % (nm, a1c),
                   rules=[Rule(r"string data\(size, '\\0'\);", "vstr_resize(data, size, '\\\\0');", count=1, regex=True),
                          SYS(), Rule('data.data()', 'vstr_data(data)', count=1),
                          Rule(r'data\.resize\((\w+)\);', r"vstr_resize(data, \1, '\\\\0');", count=1, regex=True),
                          Rule('return data;', 'return;', count=1)], ret_zero='')
    return u


READ_ALL_LOOP1 = """
__CPROVER_assigns(total_size, verif_exc, g_pos, g_eof_seen, g_err_seen, g_chunk, g_cval, buffers.count, buffers.total, buffers.live, buffers.has_live, __CPROVER_object_whole(buffers.buf))
__CPROVER_loop_invariant(verif_exc == 0 && g_err_seen == 0 && g_pos <= g_src_len)
__CPROVER_loop_invariant(buffers.total == g_pos && total_size == g_pos && buffers.count <= g_pos && VSV_INV(&buffers))
__CPROVER_loop_invariant(g_vk < buffers.total ==> VSV_CONCAT(&buffers, g_vk) == g_sval)
__CPROVER_decreases(g_src_len - g_pos)
"""
READ_ALL_LOOP2 = """
__CPROVER_assigns(verif_i, g_it_next, g_it_prefix, ret->size, __CPROVER_object_whole(ret->data))
__CPROVER_loop_invariant(verif_i <= buffers.count && g_it_next == verif_i && ret->size == g_it_prefix && g_it_prefix <= buffers.total)
__CPROVER_loop_invariant(verif_i < buffers.count ==> g_it_prefix <= VSV_FROZEN(&buffers))
__CPROVER_loop_invariant(verif_i == buffers.count ==> g_it_prefix == buffers.total)
__CPROVER_loop_invariant(g_vk < ret->size ==> (uint8_t)ret->data[g_vk] == VSV_CONCAT(&buffers, g_vk))
__CPROVER_decreases(buffers.count - verif_i)
"""


def read_all_rules():
    return [
        # function-local `static const` -> constant (dfcc would havoc the static)
        Rule(r'static const ssize_t read_size = ([^;]+);', r'enum { read_size = \1 };', count=1, regex=True),
        Rule(r'vector<string> buffers;', 'vsv buffers; vsv_init(&buffers, read_size);', count=1, regex=True),
        Rule(r'buffers\.emplace_back\(', 'vsv_emplace_back(&buffers, ', count=1, regex=True),
        Rule('buffers.back().data()', 'vsv_back_data(&buffers)', count=1),
        SYS('+'),
        Rule(r'buffers\.back\(\)\.resize\(', 'vsv_back_resize(&buffers, ', count=1, regex=True),
        Rule('buffers.size()', 'vsv_size(&buffers)', count=1),
        Rule('return buffers.back();', '{ vsv_copy_back(ret, &buffers); return; }', count=1),
        Rule(r'string ret;', '', count=1, regex=True),
        Rule(r'ret\.reserve\(', 'vsv_reserve(ret, ', count=1, regex=True),
        Rule(r'for \(const string& (\w+) : buffers\) \{',
             r'g_it_next = 0; g_it_prefix = 0; for (size_t verif_i = 0; verif_i < vsv_size(&buffers); verif_i++) { const vstr* \1 = vsv_at(&buffers, verif_i);',
             count=1, regex=True),
        Rule(r'ret \+= (\w+);', r'vstr_append(ret, \1->data, \1->size);', count=1, regex=True),
        Rule('return ret;', 'return;', count=1),
    ]


def loops_unit(ctx, src):
    u = Unit(ctx, 'read_all')
    u.raw('#include "stubs/C14_io.h"\n#include "stubs/C14_vsv.h"\n')
    u.function(src, CC, r'string read_all\(int fd\)', new_header='void phosg_read_all_fd(vstr* ret, int fd)',
               rules=read_all_rules(), ret_zero='', nloops=2, loops={1: READ_ALL_LOOP1, 2: READ_ALL_LOOP2})
    u.function(src, CC, r'string read_all\(FILE\* f\)', new_header='void phosg_read_all_file(vstr* ret, C14_FILE* f)',
               rules=read_all_rules(), ret_zero='', nloops=2, loops={1: READ_ALL_LOOP1, 2: READ_ALL_LOOP2})
    return u


def plan(ctx):
    src = Source(ctx.src)
    groups = []
    ue = exact_unit(ctx, src)
    ue.write()
    ctx.functions_under_contract = list(ue.functions)
    H = 'harness/C14/exact.c'

    def E(fn, cxx, replace, mode='exact'):
        groups.append(Group(name='Filesystem.' + fn, harness=H, entry='h_' + fn, function=cxx, enforce='phosg_' + fn, replace=replace,
                            clause_note='returns normally iff the one underlying call transferred exactly `size` bytes; then the buffer holds '
                                        'exactly those stream bytes (ghost index); otherwise io_error',
                            replay=Replay(driver='C14/fs.cc', mode=mode, extra=[fn], sources=ALL_LIB)))
    E('readx', 'readx(int, void*, size_t)', ['c14_read'])
    E('readx_str', 'readx(int, size_t)', ['phosg_readx', 'vstr_resize'])
    E('writex', 'writex(int, const void*, size_t)', ['c14_write'])
    E('writex_str', 'writex(int, const string&)', ['phosg_writex'])
    E('preadx', 'preadx(int, void*, size_t, off_t)', ['c14_pread'])
    E('preadx_str', 'preadx(int, size_t, off_t)', ['phosg_preadx', 'vstr_resize'])
    E('pwritex', 'pwritex(int, const void*, size_t, off_t)', ['c14_pwrite'])
    E('pwritex_str', 'pwritex(int, const string&, off_t)', ['phosg_pwritex'])
    E('freadx', 'freadx(FILE*, void*, size_t)', ['c14_fread'])
    E('freadx_str', 'freadx(FILE*, size_t)', ['phosg_freadx', 'vstr_resize'])
    E('fwritex', 'fwritex(FILE*, const void*, size_t)', ['c14_fwrite'])
    E('fwritex_str', 'fwritex(FILE*, const string&)', ['phosg_fwritex'])
    E('fgetcx', 'fgetcx(FILE*)', ['c14_fgetc', 'c14_feof'])
    E('read_str', 'read(int, size_t)', ['c14_read', 'vstr_resize'])
    E('fread_str', 'fread(FILE*, size_t)', ['c14_fread', 'vstr_resize'])
    ul = loops_unit(ctx, src)
    ul.write()
    ctx.functions_under_contract += ul.functions
    HL = 'harness/C14/loops.c'
    VS = ['vstr_assign', 'vstr_append', 'vsv_at']
    groups.append(Group(name='Filesystem.read_all(fd)', harness=HL, entry='h_read_all_fd', function='read_all(int)', enforce='phosg_read_all_fd',
                        replace=['c14_read'] + VS, loops=True, kind='loop-contract', timeout=300,
                        clause_note='returns exactly the g_src_len bytes of the ghost stream, only after read() reported end-of-file; io_error iff read() failed',
                        replay=Replay(driver='C14/fs.cc', mode='read_all_fd', sources=ALL_LIB, small_define='VERIF_SMALL')))
    groups.append(Group(name='Filesystem.read_all(FILE*)', harness=HL, entry='h_read_all_file', function='read_all(FILE*)', enforce='phosg_read_all_file',
                        replace=['c14_fread'] + (['c14_ferror'] if 'c14_ferror(' in ul.text().split('phosg_read_all_file')[1] else []) + VS, loops=True, kind='loop-contract', timeout=300,
                        replay=Replay(driver='C14/fs.cc', mode='read_all_file', sources=ALL_LIB, small_define='VERIF_SMALL')))
    return groups


EXPLANATION = ''
TRUSTED = []
ASSUMPTIONS = []
DROPS = ''
NOT_DECIDED = []
CLAIMED = True
MANIFEST = dict(category='proof', text='', note='', technique='')
