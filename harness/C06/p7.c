/* C06: P7 header loop (termination + rejection of truncated headers) */
#include "contracts/C06_p7.h"
int verif_exc; size_t g_rem;
#include "x_p7_header.c"
void h_p7_header(void) {
  size_t in_rem; g_rem = in_rem;
  C6FILE* f; size_t *w, *h, *d; uint64_t* mv; C6Format* fmt;
  Image_load_p7_header(f, w, h, mv, d, fmt);
  VERIF_REACH();
}
