/* C17: trusted models of the containers inside phosg::Arguments (DESIGN.md 3.2, 3.4 "abstract view = one ghost element").
 *
 *   std::vector<ArgText> positional;  std::unordered_map<std::string, std::vector<ArgText>> named;
 *
 * (a) Construction side (Arguments::parse): the two containers are an append-only EVENT LOG.  `positional.emplace_back(t)`
 *     is event (POSITIONAL, text t) and gets the next positional index; `named[k].emplace_back(t)` is event (NAMED, key k,
 *     text t): operator[] finds or creates the entry of k and emplace_back appends to *its* vector, so the values of
 *     an option are the log's NAMED events with that key, in log order (this reading of operator[]/emplace_back is the
 *     trusted part).  Strings are not copied in the model: a std::string built by substr() is the slice
 *     (source token, offset, length), "" is the empty slice.  One event, the one with symbolic index g_ek, is recorded in
 *     the ghost view g_ev_*; every ArgText is constructed with the `used` initialiser cut from
 *     Arguments::ArgText::ArgText (x_argtext.h).
 * (b) Reading side (assert_none_unused, getters): vectors are {data, size} in real memory; the unordered_map is
 *     abstract: it has g_nmap entries, iteration visits entry 0 .. g_nmap-1 once each (any order of the real container
 *     is some numbering), entry i is delivered as a fresh object with arbitrary contents except that entry g_ni is the
 *     distinguished one the harness can talk about; at(k) finds the entry of k or throws std::out_of_range. */
#ifndef STUBS_C17_ARGS_H
#define STUBS_C17_ARGS_H
#include <stdlib.h>
#include "stubs/C17_strto.h"
#include "x_argtext.h"            /* C17_ARGTEXT_USED_INIT, cut from src/Arguments.cc */

/* ---------------------------------------------------------------------------------------------- strings as slices */
typedef struct { const vstr* s; size_t off; size_t len; } C17_slice;

/* std::string::substr(pos, count): throws std::out_of_range if pos > size(); length min(count, size() - pos) */
static inline C17_slice C17_substr(const vstr* s, size_t pos, size_t count)
{
  __CPROVER_assert(pos <= s->size, "assertion: std::string::substr position is within the string (std::out_of_range escapes otherwise)");
  C17_slice r; r.s = s; r.off = pos; r.len = (count < s->size - pos) ? count : s->size - pos;
  return r;
}
/* std::move(arg): the whole token */
static inline C17_slice C17_whole(const vstr* s) { C17_slice r; r.s = s; r.off = 0; r.len = s->size; return r; }
/* "" */
static inline C17_slice C17_empty(void) { C17_slice r; r.s = 0; r.off = 0; r.len = 0; return r; }

/* std::string::find(char c, size_t pos): first position >= pos holding c, npos if there is none (ghost index g_ck) */
extern size_t g_ck;
size_t C17_find(const vstr* s, char c, size_t pos)
__CPROVER_ensures(__CPROVER_return_value == VSTR_NPOS || (pos <= __CPROVER_return_value && __CPROVER_return_value < s->size && s->data[__CPROVER_return_value] == c))
__CPROVER_ensures((g_ck >= pos && g_ck < s->size && (__CPROVER_return_value == VSTR_NPOS || g_ck < __CPROVER_return_value)) ==> s->data[g_ck] != c)
__CPROVER_assigns();

/* phosg::split(text, c, max_splits) on a slice (contract of split, property C08: the pieces tile the text, separated by c, none of the
 * first max_splits pieces contains c): only the first two pieces and "one / two / more pieces" are modelled */
typedef struct { size_t count; C17_slice p0, p1; } C17_parts;
static inline C17_parts C17_split(C17_slice sl, char c, size_t max_splits)
{
  C17_parts r; size_t end = sl.off + sl.len;
  r.p1 = C17_empty();
  size_t a = C17_find(sl.s, c, sl.off);
  if (a == VSTR_NPOS || a >= end) { r.count = 1; r.p0 = sl; return r; }
  r.p0.s = sl.s; r.p0.off = sl.off; r.p0.len = a - sl.off;
  r.p1.s = sl.s; r.p1.off = a + 1;
  size_t b = (max_splits == 1) ? VSTR_NPOS : C17_find(sl.s, c, a + 1);
  if (b == VSTR_NPOS || b >= end) { r.count = 2; r.p1.len = end - (a + 1); } else { r.count = 3; r.p1.len = b - (a + 1); }
  return r;
}
static inline C17_slice C17_part(const C17_parts* p, size_t k)
{
  __CPROVER_assert(k < p->count, "vector::operator[] beyond the number of pieces is undefined");
  __CPROVER_assert(k < 2, "model restriction: only the first two pieces of a split are modelled");
  return k == 0 ? p->p0 : p->p1;
}

/* ---------------------------------------------------------------------------------------- (a) append-only event log */
typedef struct Arguments_log { int unused_; } Arguments_log;
enum { C17_EV_NONE = 0, C17_EV_POSITIONAL = 1, C17_EV_NAMED = 2 };
extern size_t g_nev, g_npos;      /* events so far / positional events so far */
extern size_t g_ek;               /* index of the observed event */
extern bool g_ev_written; extern int g_ev_kind; extern const vstr* g_ev_src;
extern size_t g_ev_koff, g_ev_klen;     /* key slice (NAMED) */
extern size_t g_ev_toff, g_ev_tlen;     /* text slice */
extern size_t g_ev_index;               /* positional index (POSITIONAL) */
extern bool g_ev_used;                  /* ArgText::used as constructed */

static inline void C17_positional_emplace_back(Arguments_log* self, C17_slice text)
{
  if (g_nev == g_ek) {
    g_ev_written = 1; g_ev_kind = C17_EV_POSITIONAL; g_ev_src = text.s; g_ev_koff = 0; g_ev_klen = 0;
    g_ev_toff = text.off; g_ev_tlen = text.len; g_ev_index = g_npos; g_ev_used = C17_ARGTEXT_USED_INIT;
  }
  g_nev++; g_npos++;
}
static inline void C17_named_emplace_back(Arguments_log* self, C17_slice key, C17_slice text)
{
  if (g_nev == g_ek) {
    g_ev_written = 1; g_ev_kind = C17_EV_NAMED; g_ev_src = key.s; g_ev_koff = key.off; g_ev_klen = key.len;
    g_ev_toff = text.off; g_ev_tlen = text.len; g_ev_index = 0; g_ev_used = C17_ARGTEXT_USED_INIT;
  }
  g_nev++;
}

/* --------------------------------------------------------------------------------------------- (b) reading side */
typedef struct { vstr text; bool used; } ArgText;
typedef struct { ArgText* data; size_t size; } ArgVec;
typedef struct { vstr first; ArgVec second; } ArgMapEntry;
typedef struct { int abstract_; } ArgMap;
typedef struct { ArgMap named; ArgVec positional; } Arguments;

#define C17_MAXVEC 0x10000
extern size_t g_nmap;             /* number of entries of `named` */
extern size_t g_ni, g_nj;         /* distinguished entry / element */
extern size_t g_nsz;              /* size of the distinguished entry's vector */
extern bool g_nused;              /* used flag of element g_nj of entry g_ni */

static inline size_t C17_map_size(const ArgMap* m) { return g_nmap; }
/* the i-th entry in iteration order */
ArgMapEntry* C17_map_entry(ArgMap* m, size_t i)
__CPROVER_requires(i < g_nmap)
__CPROVER_ensures(__CPROVER_is_fresh(__CPROVER_return_value, sizeof(ArgMapEntry)))
__CPROVER_ensures(__CPROVER_return_value->second.size <= C17_MAXVEC)
__CPROVER_ensures(__CPROVER_is_fresh(__CPROVER_return_value->second.data, __CPROVER_return_value->second.size * sizeof(ArgText)))
__CPROVER_ensures(i == g_ni ==> __CPROVER_return_value->second.size == g_nsz)
__CPROVER_ensures((i == g_ni && g_nj < g_nsz) ==> __CPROVER_return_value->second.data[g_nj].used == g_nused)
__CPROVER_assigns();

/* ------------------------------------------------------------------------------- (c) element access of the getters */
/* VERIF_PARENT17 / VERIF_CATCHES (exception class hierarchy): stubs/C17_strto.h */

extern bool g_present;            /* the looked-up name is a key of `named` */
extern ArgVec* g_vals;            /* its vector (the distinguished entry) */
extern vstr C17_empty_string;         /* Arguments::empty_string (initialised by the harness to a valid empty string) */
extern ArgVec C17_empty_vec;          /* the function-local static of get_values_multi (hoisted; never modified) */

/* copy construction of std::vector<ArgText> (`auto v = get_values_multi(name);`): a distinct vector object of the same size whose
 * elements are copies -- stated for the observed element g_nj (ghost index idiom); writes to the copy do not reach the original */
extern size_t g_nj;
static inline void C17_argvec_copy(ArgVec* dst, const ArgVec* src)
{
  dst->size = src->size;
  dst->data = (ArgText*)malloc((src->size ? src->size : 1) * sizeof(ArgText));
  __CPROVER_assume(dst->data != 0);
  if (g_nj < src->size) {
    dst->data[g_nj] = src->data[g_nj];
  }
}

/* std::unordered_map::at(key): reference to the mapped value, std::out_of_range if there is no such element.
 * Which strings are keys is abstracted to the flag g_present. */
static inline void C17_map_at(ArgVec** out, ArgMap* m, const vstr* key)
{
  if (!g_present) { verif_exc = EXC_out_of_range; *out = 0; return; }
  *out = g_vals;
}
/* std::vector::at(pos): std::out_of_range if pos >= size() */
static inline void C17_vec_at(ArgText** out, ArgVec* v, size_t pos)
{
  if (pos >= v->size) { verif_exc = EXC_out_of_range; *out = 0; return; }
  *out = &v->data[pos];
}
/* the std::vector a get_multi returns: only its length and one ghost element (index g_nj) are modelled */
typedef struct { size_t size; } C17_outvec;
extern bool g_out_written; extern uint64_t g_out_val; extern const vstr* g_out_ptr;
#define C17_out_emplace_back(ret, v) do { if ((ret)->size == g_nj) { g_out_written = 1; g_out_val = (uint64_t)C17_BITS(v); } (ret)->size++; } while (0)
#define C17_out_emplace_back_str(ret, p) do { if ((ret)->size == g_nj) { g_out_written = 1; g_out_ptr = (p); } (ret)->size++; } while (0)

/* std::optional<T> */
#define C17_OPTIONAL(T) struct { bool has_value; T value; }

#endif
