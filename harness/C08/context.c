/* C08: split_context and the join(split_context(s, d, m), d) == s lemma. */
#include "harness/C08/common.h"
#include "contracts/C08_context.h"
size_t g_depth, g_nops, g_kdepth, g_size0, g_cnt0, g_ls0, g_nconsumed; int g_lastop; char g_lastval, g_c, g_top0; bool g_esc0;
#include "x_context.c"
#define IN_CTX size_t in_depth, in_nops, in_kdepth; g_depth = in_depth; g_nops = in_nops; g_kdepth = in_kdepth
void h_split_context(void) { vvec* ret; const vstr* s; char in_delim; size_t in_max_splits; IN_GHOSTS; IN_CTX; split_context(ret, s, in_delim, in_max_splits); VERIF_REACH(); }

#define SPLITFN split_context
#define LEMMA_NAME l_join_split_context
#include "harness/C08/lemma.h"
