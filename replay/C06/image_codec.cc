// Native replay for C06: builds the witness file from the verifier's in_* values, runs the REAL phosg::Image loader /
// saver on it (ASan + UBSan are switched on by the framework) and evaluates the property's postcondition with an
// independent decoder written from the format definitions (Netpbm PGM/PPM/PAM, Windows BMP, PNG + zlib).
// exit 1 = postcondition violated on the real code (a sanitizer report ends the process with its own non-zero code),
// 0 = holds on this input, 2 = usage.
//   gray_load      in_w in_h in_alpha in_cw [in_p7] [in_seed]     P5 / P7-GRAYSCALE[_ALPHA] file -> (v,v,v[,a]) per pixel
//   ppm_roundtrip  in_w in_h in_alpha in_cw [in_seed]             save(COLOR_PPM) -> load: everything identical
//   bmp_roundtrip  in_w in_h in_alpha [in_seed]                   save(WINDOWS_BITMAP): independent decode + load identical
//   bmp_load       in_w in_h in_depth in_comp in_rev in_mr in_mg in_mb in_ma [in_hsize] [in_seed]
//   png_save       in_w in_h in_alpha [in_seed]                   save(PNG): signature, chunk framing, CRCs, zlib stream, scan lines
//   truncate       in_fmt(0 ppm,1 bmp,2 gray) in_w in_h in_alpha in_cw in_len   prefix of a valid file: exception or identical decode
#include "replay/common/args.hh"
#include "Image.hh"
#include "Filesystem.hh"
#include <zlib.h>
#include <sanitizer/lsan_interface.h>
#include <stdexcept>
#include <string>
using namespace phosg;
using std::string;

static uint64_t g_seed = 0;
static uint64_t maskw(unsigned cw) { return cw >= 64 ? ~0ull : ((1ull << cw) - 1); }
// sample number i of the generated picture: high bytes are non-zero so that a truncation to 8 bits is visible
static uint64_t pat(uint64_t i, unsigned cw) { return ((0x0123456789ABCDEFull * (i + 1)) ^ (g_seed * 0x9E3779B97F4A7C15ull) ^ (i << 3)) & maskw(cw); }
static void put_sample(string& s, uint64_t v, unsigned cw) { s.append(reinterpret_cast<const char*>(&v), cw / 8); } // host order: what Image keeps in memory
static void put_le(string& s, uint64_t v, int n) { for (int k = 0; k < n; k++) s.push_back((char)((v >> (8 * k)) & 0xFF)); }
static uint64_t get_le(const string& s, size_t off, int n) { uint64_t v = 0; for (int k = 0; k < n; k++) v |= (uint64_t)(uint8_t)s.at(off + k) << (8 * k); return v; }
static uint64_t get_be(const string& s, size_t off, int n) { uint64_t v = 0; for (int k = 0; k < n; k++) v = (v << 8) | (uint8_t)s.at(off + k); return v; }

struct TmpFile {
  FILE* f;
  explicit TmpFile(const string& bytes) : f(tmpfile()) {
    if (!f) { perror("tmpfile"); exit(2); }
    if (!bytes.empty() && fwrite(bytes.data(), 1, bytes.size(), f) != bytes.size()) { perror("fwrite"); exit(2); }
    rewind(f);
  }
  ~TmpFile() { fclose(f); }
};

// a PPM-family file whose pixel data is cut short must be rejected with an exception AND leave nothing allocated behind
// (LeakSanitizer is on for the replays that call this: Replay(leaks=True))
static int truncated_load_is_clean(const string& file, const char* what) {
  if (file.size() < 2) return 0;
  string cut = file.substr(0, file.size() - 1);
  bool threw = false;
  {
    TmpFile t(cut);
    try { Image im(t.f); } catch (const std::exception&) { threw = true; }
  }
  if (!threw) { printf("POSTCONDITION VIOLATED on the real code: %s with the last byte of the pixel data missing was accepted\n", what); return 1; }
  if (__lsan_do_recoverable_leak_check()) {
    printf("POSTCONDITION VIOLATED on the real code: rejecting %s with truncated pixel data leaks the pixel buffer (LeakSanitizer report above)\n", what);
    return 1;
  }
  return 0;
}

static uint64_t mem_sample(const Image& im, size_t idx) {
  const uint8_t* p = static_cast<const uint8_t*>(im.get_data());
  uint64_t v = 0;
  memcpy(&v, p + idx * (im.get_channel_width() / 8), im.get_channel_width() / 8);
  return v;
}

static int check_meta(const Image& im, size_t w, size_t h, bool alpha, unsigned cw) {
  RCHECK(im.get_width() == w && im.get_height() == h, "dimensions %zux%zu, expected %zux%zu", im.get_width(), im.get_height(), w, h);
  RCHECK(im.get_has_alpha() == alpha, "alpha flag %d, expected %d", (int)im.get_has_alpha(), (int)alpha);
  RCHECK(im.get_channel_width() == cw, "channel width %u, expected %u", (unsigned)im.get_channel_width(), cw);
  return 0;
}

static string gray_file(size_t w, size_t h, bool alpha, unsigned cw, bool p7) {
  string s;
  char hdr[256];
  unsigned long long maxv = maskw(cw);
  if (p7 || alpha) {
    snprintf(hdr, sizeof(hdr), "P7\nWIDTH %zu\nHEIGHT %zu\nDEPTH %d\nMAXVAL %llu\nTUPLTYPE %s\nENDHDR\n", w, h, alpha ? 2 : 1, maxv,
        alpha ? "GRAYSCALE_ALPHA" : "GRAYSCALE");
  } else {
    snprintf(hdr, sizeof(hdr), "P5 %zu %zu %llu\n", w, h, maxv);
  }
  s = hdr;
  size_t S = alpha ? 2 : 1;
  for (size_t i = 0; i < w * h * S; i++) put_sample(s, pat(i, cw), cw);
  return s;
}

static int check_gray(const Image& im, size_t w, size_t h, bool alpha, unsigned cw) {
  if (int r = check_meta(im, w, h, alpha, cw)) return r;
  size_t S = alpha ? 2 : 1, D = alpha ? 4 : 3;
  for (size_t i = 0; i < w * h; i++) {
    uint64_t v = pat(i * S, cw);
    for (size_t c = 0; c < 3; c++)
      RCHECK(mem_sample(im, i * D + c) == v, "pixel (%zu,%zu) channel %zu = 0x%llX, the file's gray sample is 0x%llX", i % w, i / w, c,
          (unsigned long long)mem_sample(im, i * D + c), (unsigned long long)v);
    if (alpha)
      RCHECK(mem_sample(im, i * D + 3) == pat(i * S + 1, cw), "pixel (%zu,%zu) alpha = 0x%llX, the file's alpha sample is 0x%llX", i % w, i / w,
          (unsigned long long)mem_sample(im, i * D + 3), (unsigned long long)pat(i * S + 1, cw));
  }
  return 0;
}

static Image make_image(size_t w, size_t h, bool alpha, unsigned cw) {
  Image im(w, h, alpha, cw);
  uint8_t* p = static_cast<uint8_t*>(im.get_data());
  size_t n = w * h * (alpha ? 4 : 3);
  for (size_t i = 0; i < n; i++) { uint64_t v = pat(i, cw); memcpy(p + i * (cw / 8), &v, cw / 8); }
  return im;
}

static int same_pixels(const Image& a, const Image& b) {
  if (int r = check_meta(b, a.get_width(), a.get_height(), a.get_has_alpha(), a.get_channel_width())) return r;
  size_t n = a.get_width() * a.get_height() * (a.get_has_alpha() ? 4 : 3);
  for (size_t i = 0; i < n; i++)
    RCHECK(mem_sample(a, i) == mem_sample(b, i), "sample %zu differs after save+load: 0x%llX -> 0x%llX", i, (unsigned long long)mem_sample(a, i),
        (unsigned long long)mem_sample(b, i));
  return 0;
}

static int mask_byte(uint32_t m) { return m == 0xFFu ? 0 : m == 0xFF00u ? 1 : m == 0xFF0000u ? 2 : m == 0xFF000000u ? 3 : -1; }

// independent BMP decoder (BITMAPFILEHEADER + BITMAPINFOHEADER/V4/V5, BI_RGB 24/32 and BI_BITFIELDS 32 with byte masks)
static int decode_bmp(const string& s, size_t w, size_t h, bool alpha, const Image& expect) {
  RCHECK(s.size() >= 54 && s[0] == 'B' && s[1] == 'M', "no BM signature");
  uint32_t file_size = get_le(s, 2, 4), data_offset = get_le(s, 10, 4), hsize = get_le(s, 14, 4);
  int32_t bw = (int32_t)get_le(s, 18, 4), bh = (int32_t)get_le(s, 22, 4);
  uint32_t planes = get_le(s, 26, 2), depth = get_le(s, 28, 2), comp = get_le(s, 30, 4);
  RCHECK(file_size == s.size(), "file_size field %u, file has %zu bytes", file_size, s.size());
  RCHECK(hsize == 40 || hsize == 108 || hsize == 124, "info header size %u", hsize);
  RCHECK(data_offset == 14 + hsize, "data_offset %u but the headers end at %u", data_offset, 14 + hsize);
  RCHECK(planes == 1, "planes %u", planes);
  RCHECK(bw == (int32_t)w && (bh == (int32_t)h || bh == -(int32_t)h), "header dimensions %dx%d", bw, bh);
  RCHECK(depth == (alpha ? 32u : 24u) && comp == (alpha ? 3u : 0u), "depth %u compression %u", depth, comp);
  size_t pb = depth / 8, stride = (w * pb + 3) & ~(size_t)3;
  RCHECK(s.size() == data_offset + stride * h, "pixel array has %zu bytes, %zu rows of %zu expected", s.size() - data_offset, h, stride);
  int off[4] = {2, 1, 0, 3};
  if (comp == 3) {
    RCHECK(hsize >= 56, "BI_BITFIELDS without masks in the header");
    for (int c = 0; c < 4; c++) { off[c] = mask_byte(get_le(s, 54 + 4 * c, 4)); RCHECK(off[c] >= 0, "mask %d is not a byte mask", c); }
  }
  const uint8_t* p = static_cast<const uint8_t*>(expect.get_data());
  size_t C = alpha ? 4 : 3;
  for (size_t y = 0; y < h; y++) {
    size_t frow = bh < 0 ? y : h - 1 - y;
    for (size_t x = 0; x < w; x++)
      for (size_t c = 0; c < C; c++) {
        uint8_t got = s[data_offset + frow * stride + x * pb + off[c]];
        RCHECK(got == p[(y * w + x) * C + c], "independent decode: pixel (%zu,%zu) channel %zu = 0x%02X, image has 0x%02X", x, y, c, got, p[(y * w + x) * C + c]);
      }
  }
  return 0;
}

static int decode_png(const string& s, size_t w, size_t h, bool alpha, const Image& expect) {
  static const uint8_t SIG[8] = {137, 80, 78, 71, 13, 10, 26, 10};
  RCHECK(s.size() > 8 && !memcmp(s.data(), SIG, 8), "PNG signature");
  size_t pos = 8;
  string idat;
  bool seen_ihdr = false, seen_iend = false;
  while (pos < s.size()) {
    RCHECK(pos + 12 <= s.size(), "truncated chunk header at %zu", pos);
    uint32_t len = get_be(s, pos, 4);
    string type = s.substr(pos + 4, 4);
    RCHECK(pos + 12 + len <= s.size(), "chunk %s length %u runs past the end", type.c_str(), len);
    uint32_t crc = get_be(s, pos + 8 + len, 4);
    uint32_t want = crc32(0, reinterpret_cast<const Bytef*>(s.data() + pos + 4), 4 + len);
    RCHECK(crc == want, "chunk %s CRC 0x%08X, computed 0x%08X", type.c_str(), crc, want);
    if (type == "IHDR") {
      RCHECK(pos == 8 && len == 13, "IHDR must be first with 13 bytes");
      RCHECK(get_be(s, pos + 8, 4) == w && get_be(s, pos + 12, 4) == h, "IHDR dimensions");
      RCHECK((uint8_t)s[pos + 16] == 8 && (uint8_t)s[pos + 17] == (alpha ? 6 : 2) && s[pos + 18] == 0 && s[pos + 19] == 0 && s[pos + 20] == 0,
          "IHDR depth/colour type/compression/filter/interlace");
      seen_ihdr = true;
    } else if (type == "IDAT") idat += s.substr(pos + 8, len);
    else if (type == "IEND") { RCHECK(len == 0 && pos + 12 == s.size(), "IEND must be empty and last"); seen_iend = true; }
    pos += 12 + len;
  }
  RCHECK(seen_ihdr && seen_iend, "IHDR/IEND missing");
  size_t C = alpha ? 4 : 3, raw_len = h * (1 + w * C);
  string raw(raw_len + 16, '\0');
  uLongf got = raw.size();
  int zr = uncompress(reinterpret_cast<Bytef*>(raw.data()), &got, reinterpret_cast<const Bytef*>(idat.data()), idat.size());
  RCHECK(zr == Z_OK && got == raw_len, "zlib stream: rc %d, %lu bytes, expected %zu", zr, (unsigned long)got, raw_len);
  const uint8_t* p = static_cast<const uint8_t*>(expect.get_data());
  for (size_t y = 0; y < h; y++) {
    RCHECK(raw[y * (1 + w * C)] == 0, "scan line %zu filter byte %d", y, raw[y * (1 + w * C)]);
    for (size_t k = 0; k < w * C; k++)
      RCHECK((uint8_t)raw[y * (1 + w * C) + 1 + k] == p[y * w * C + k], "scan line %zu byte %zu", y, k);
  }
  return 0;
}

static string bmp_file(size_t w, size_t h, unsigned depth, unsigned comp, bool topdown, const uint32_t masks[4], uint32_t hsize) {
  string s;
  size_t pb = depth / 8, stride = (w * pb + 3) & ~(size_t)3;
  s += "BM"; put_le(s, 14 + hsize + stride * h, 4); put_le(s, 0, 4); put_le(s, 14 + hsize, 4);
  string ih;
  put_le(ih, hsize, 4); put_le(ih, w, 4); put_le(ih, topdown ? (uint32_t)(-(int32_t)h) : h, 4); put_le(ih, 1, 2); put_le(ih, depth, 2);
  put_le(ih, comp, 4); put_le(ih, stride * h, 4); put_le(ih, 2835, 4); put_le(ih, 2835, 4); put_le(ih, 0, 4); put_le(ih, 0, 4);
  for (int c = 0; c < 4; c++) put_le(ih, masks[c], 4);
  put_le(ih, 0x73524742, 4);
  while (ih.size() < 124) ih.push_back(0);
  if (hsize >= 4 && hsize <= 124) ih.resize(hsize); // otherwise: malformed header-size experiment, keep all 124 bytes
  s += ih;
  for (size_t r = 0; r < h; r++)
    for (size_t k = 0; k < stride; k++) s.push_back((char)pat(r * stride + k, 8));
  return s;
}

int main(int argc, char** argv) {
  Args A(argc, argv);
  const string& m = A.mode;
  size_t w = A.u("in_w", 1), h = A.u("in_h", 1);
  bool alpha = A.u("in_alpha") & 1;
  unsigned cw = A.u("in_cw", 8);
  g_seed = A.u("in_seed");
  if (w == 0 || h == 0 || w > 4096 || h > 4096 || (cw != 8 && cw != 16 && cw != 32 && cw != 64)) { printf("input outside the replayable range\n"); return 2; }
  printf("mode=%s w=%zu h=%zu alpha=%d cw=%u\n", m.c_str(), w, h, (int)alpha, cw);
  try {
    if (m == "gray_load") {
      string file = gray_file(w, h, alpha, cw, A.u("in_p7") & 1);
      printf("witness file: %zu bytes, header \"%s\"\n", file.size(), file.substr(0, 2).c_str());
      {
        TmpFile t(file);
        Image im(t.f);
        if (int r = check_gray(im, w, h, alpha, cw)) return r;
      }
      if (int r = truncated_load_is_clean(file, "a gray file")) return r;
    } else if (m == "p7_header") {
      // well-formed P7 (PAM) headers of the four tuple types (DEPTH = samples per tuple as the format defines): all must load;
      // the counterexample is over abstract line contents, so the driver builds the files itself
      for (int a = 0; a < 2; a++) {
        string file = gray_file(w < 2 ? 5 : w, h < 2 ? 3 : h, a, 8, true);
        printf("P7 %s, DEPTH %d: %zu bytes\n", a ? "GRAYSCALE_ALPHA" : "GRAYSCALE", a ? 2 : 1, file.size());
        TmpFile t(file);
        try {
          Image im(t.f);
          if (int r = check_gray(im, w < 2 ? 5 : w, h < 2 ? 3 : h, a, 8)) return r;
        } catch (const std::exception& e) {
          printf("POSTCONDITION VIOLATED on the real code: a well-formed P7 file with TUPLTYPE %s / DEPTH %d was rejected: %s\n", a ? "GRAYSCALE_ALPHA" : "GRAYSCALE", a ? 2 : 1, e.what());
          return 1;
        }
      }
      for (int a = 0; a < 2; a++) {
        size_t W = 4, H = 3;
        char hdr[256];
        snprintf(hdr, sizeof(hdr), "P7\nWIDTH %zu\nHEIGHT %zu\nDEPTH %d\nMAXVAL 255\nTUPLTYPE %s\nENDHDR\n", W, H, a ? 4 : 3, a ? "RGB_ALPHA" : "RGB");
        string file = hdr;
        for (size_t i = 0; i < W * H * (a ? 4 : 3); i++) file.push_back((char)pat(i, 8));
        printf("P7 %s, DEPTH %d: %zu bytes\n", a ? "RGB_ALPHA" : "RGB", a ? 4 : 3, file.size());
        TmpFile t(file);
        try {
          Image im(t.f);
          if (int r = check_meta(im, W, H, a, 8)) return r;
          for (size_t i = 0; i < W * H * (a ? 4 : 3); i++)
            RCHECK(mem_sample(im, i) == pat(i, 8), "sample %zu = 0x%llX, the file has 0x%llX", i, (unsigned long long)mem_sample(im, i), (unsigned long long)pat(i, 8));
        } catch (const std::exception& e) {
          printf("POSTCONDITION VIOLATED on the real code: a well-formed P7 file with TUPLTYPE %s / DEPTH %d was rejected: %s\n", a ? "RGB_ALPHA" : "RGB", a ? 4 : 3, e.what());
          return 1;
        }
      }
    } else if (m == "ppm_roundtrip") {
      Image a = make_image(w, h, alpha, cw);
      string bytes = a.save(Image::Format::COLOR_PPM);
      {
        TmpFile t(bytes);
        Image b(t.f);
        if (int r = same_pixels(a, b)) return r;
      }
      if (int r = truncated_load_is_clean(bytes, "a colour PPM file")) return r;
    } else if (m == "bmp_roundtrip") {
      Image a = make_image(w, h, alpha, 8);
      string bytes = a.save(Image::Format::WINDOWS_BITMAP);
      if (int r = decode_bmp(bytes, w, h, alpha, a)) return r;
      TmpFile t(bytes);
      Image b(t.f);
      if (int r = same_pixels(a, b)) return r;
    } else if (m == "png_save") {
      Image a = make_image(w, h, alpha, 8);
      string bytes = a.save(Image::Format::PNG);
      if (int r = decode_png(bytes, w, h, alpha, a)) return r;
      // incompressible (noise-like) content: zlib falls back to stored blocks and needs the full compressBound() of the scan-line buffer
      for (auto dims : {std::pair<size_t, size_t>{3, 5}, {7, 9}, {1, 40}, {16, 16}, {33, 3}}) {
        Image n(dims.first, dims.second, alpha);
        uint64_t st = 0x9E3779B97F4A7C15ull;
        for (size_t y = 0; y < dims.second; y++) for (size_t x = 0; x < dims.first; x++) {
          st = st * 6364136223846793005ull + 1442695040888963407ull;
          n.write_pixel(x, y, (st >> 56) & 0xFF, (st >> 48) & 0xFF, (st >> 40) & 0xFF, alpha ? ((st >> 32) & 0xFF) : 0xFF);
        }
        string nb;
        try { nb = n.save(Image::Format::PNG); }
        catch (const std::exception& e) { printf("POSTCONDITION VIOLATED on the real code: save(PNG) of a %zux%zu image with noise content threw: %s\n", dims.first, dims.second, e.what()); return 1; }
        if (int r = decode_png(nb, dims.first, dims.second, alpha, n)) return r;
      }
    } else if (m == "bmp_load") {
      unsigned depth = A.u("in_depth", 24), comp = A.u("in_comp", 0);
      bool topdown = A.u("in_rev") & 1;
      uint32_t masks[4] = {(uint32_t)A.u("in_mr", 0xFF), (uint32_t)A.u("in_mg", 0xFF00), (uint32_t)A.u("in_mb", 0xFF0000), (uint32_t)A.u("in_ma", 0xFF000000)};
      bool given = A.has("in_hsize") || A.has("g_hsize");
      uint32_t hsize = A.has("in_hsize") ? A.u("in_hsize") : A.has("g_hsize") ? A.u("g_hsize") : (comp == 3 ? 124 : 40);
      if (given && (hsize < 40 || hsize > 124)) {
        // not one of the info headers this parser lays its struct over (BITMAPINFOHEADER .. BITMAPV5HEADER): must be rejected, and safely
        string file = bmp_file(w, h, depth, comp, topdown, masks, hsize);
        TmpFile t(file);
        try {
          Image im(t.f);
        } catch (const std::exception& e) {
          printf("rejected: %s\nholds on this input\n", e.what());
          return 0;
        }
        printf("POSTCONDITION VIOLATED on the real code: info header size %u was accepted\n", hsize);
        return 1;
      }
      if ((depth != 24 && depth != 32) || (comp != 0 && comp != 3)) { printf("variant outside the supported set\n"); return 2; }
      string file = bmp_file(w, h, depth, comp, topdown, masks, hsize);
      TmpFile t(file);
      Image im(t.f);
      bool ea = comp == 3;
      if (int r = check_meta(im, w, h, ea, 8)) return r;
      size_t pb = depth / 8, stride = (w * pb + 3) & ~(size_t)3, C = ea ? 4 : 3, doff = 14 + ((hsize >= 4 && hsize <= 124) ? hsize : 124);
      int off[4] = {2, 1, 0, 3};
      if (comp == 3) for (int c = 0; c < 4; c++) off[c] = mask_byte(masks[c]);
      for (size_t y = 0; y < h; y++) {
        size_t frow = topdown ? y : h - 1 - y;
        for (size_t x = 0; x < w; x++)
          for (size_t c = 0; c < C; c++) {
            uint8_t want = file[doff + frow * stride + x * pb + off[c]];
            RCHECK(mem_sample(im, (y * w + x) * C + c) == want, "pixel (%zu,%zu) channel %zu = 0x%02llX, the format defines 0x%02X", x, y, c,
                (unsigned long long)mem_sample(im, (y * w + x) * C + c), want);
          }
      }
    } else if (m == "truncate") {
      unsigned fmt = A.u("in_fmt");
      size_t len = A.u("in_len");
      Image a = make_image(w, h, alpha, fmt == 1 ? 8 : cw);
      string full = fmt == 0 ? a.save(Image::Format::COLOR_PPM) : fmt == 1 ? a.save(Image::Format::WINDOWS_BITMAP) : gray_file(w, h, alpha, cw, false);
      if (len > full.size()) len = full.size();
      TmpFile t(full.substr(0, len));
      try {
        Image b(t.f);
        if (fmt == 2) { if (int r = check_gray(b, w, h, alpha, cw)) return r; }
        else if (int r = same_pixels(a, b)) return r;
        printf("prefix of %zu/%zu bytes decoded identically\n", len, full.size());
      } catch (const std::exception& e) {
        printf("prefix of %zu/%zu bytes rejected: %s\n", len, full.size(), e.what());
      }
    } else {
      fprintf(stderr, "unknown mode %s\n", m.c_str());
      return 2;
    }
  } catch (const std::exception& e) {
    printf("POSTCONDITION VIOLATED on the real code: a well-formed file / image was rejected: %s\n", e.what());
    return 1;
  }
  printf("holds on this input\n");
  return 0;
}
