/* C17: used-flag bookkeeping, composed over the contracts (lemma; bounded: <= 2 positional arguments, no options).
 * The arguments start unread (ArgText is constructed with used = false: group Arguments.parse.token); a subset in_mask of
 * the positions is read with get<std::string>(position) (contract), then assert_none_unused (contract) runs:
 * it throws iff some position was not read. */
#include "contracts/C17_getters.h"
#include "x_getters_str.c"
#include "x_assert_none_unused.c"
#include <stdlib.h>

int verif_exc, verif_errno, g_base; unsigned g_ncalls;
size_t g_endoff, g_vk; bool g_neg, g_ovf; uint64_t g_mag; double g_fval;
size_t g_size, g_ck, g_nev, g_npos, g_nev0, g_npos0, g_ek;
bool g_ev_written; int g_ev_kind; const vstr* g_ev_src; size_t g_ev_koff, g_ev_klen, g_ev_toff, g_ev_tlen, g_ev_index; bool g_ev_used;
size_t g_nmap, g_ni, g_nj, g_nsz, g_pk; bool g_nused;
int g_wit_kind; size_t g_wit_i, g_wit_j; bool g_wit_used;
bool g_present, g_pkused, g_njused; ArgVec* g_vals;
vstr C17_empty_string; char C17_empty_chars[1]; ArgVec C17_empty_vec;

void l_bookkeeping(void) {
  size_t in_n; unsigned in_mask; size_t in_p;
  __CPROVER_assume(in_n <= 2 && in_mask < 4 && in_p < 2);
  Arguments* self = malloc(sizeof(Arguments)); __CPROVER_assume(self != 0);
  ArgText* elems = malloc(2 * sizeof(ArgText)); __CPROVER_assume(elems != 0);
  ArgVec* vals = malloc(sizeof(ArgVec)); __CPROVER_assume(vals != 0);
  ArgText* velems = malloc(sizeof(ArgText)); __CPROVER_assume(velems != 0);
  self->positional.data = elems; self->positional.size = in_n;
  elems[0].used = C17_ARGTEXT_USED_INIT; elems[1].used = C17_ARGTEXT_USED_INIT;
  vals->data = velems; vals->size = 1; velems[0].used = 1;
  g_vals = vals; g_present = 0; g_nj = 0; g_njused = 1;
  g_nmap = 0; g_ni = 0; g_nsz = 0; g_nused = 1;                 /* no options */
  g_pk = in_p; g_pkused = C17_ARGTEXT_USED_INIT;                   /* the observed position */
  g_wit_kind = 0; g_wit_used = 1; verif_exc = EXC_none;
  C17_empty_vec.size = 0; C17_empty_vec.data = 0;
  if ((in_mask & 1) && in_n > 0) { Arguments_get_string_pos(self, 0, true); g_pkused = elems[g_pk < 2 ? g_pk : 0].used; }
  if ((in_mask & 2) && in_n > 1) { Arguments_get_string_pos(self, 1, true); g_pkused = elems[g_pk < 2 ? g_pk : 0].used; }
  __CPROVER_assert(verif_exc == EXC_none, "assertion: reading supplied positional arguments does not throw");
  bool all_read = (in_n < 1 || (in_mask & 1)) && (in_n < 2 || (in_mask & 2));
  bool p_unread = in_p < in_n && !((in_mask >> in_p) & 1);
  Arguments_assert_none_unused(self);
  __CPROVER_assert(!all_read || verif_exc == EXC_none, "assertion: every argument was read => assert_none_unused returns normally");
  __CPROVER_assert(!p_unread || verif_exc == EXC_invalid_argument, "assertion: position in_p was not read => assert_none_unused throws invalid_argument");
  VERIF_REACH();
}
