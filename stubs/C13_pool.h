/* C13 trusted stub: `new Node(...)` / `delete n` as a small registry of heap nodes with a ghost state per node.
 * Every node is its own malloc object (cbmc's pointer checks then flag every access to a deleted node, every null or
 * invalid dereference); the registry turns double delete, delete of a non-node and leaks into assertions.
 * `struct Node` must be complete before this header.  Allocation never fails (run with --no-malloc-may-fail). */
#ifndef C13_POOL_H
#define C13_POOL_H
#include <stdlib.h>
#ifndef KD_POOL
#define KD_POOL 6
#endif
enum { KD_UNUSED = 0, KD_LIVE = 1, KD_FREED = 2 };
static struct Node* kd_slot[KD_POOL];
static unsigned char kd_state[KD_POOL];
static size_t kd_used;

static inline struct Node* node_alloc(void) {
  __CPROVER_assert(kd_used < KD_POOL, "node pool stub capacity suffices for the bounded shape");
  __CPROVER_assume(kd_used < KD_POOL); /* assert-then-assume: the overflow is reported, execution beyond it is not modelled */
  struct Node* n = (struct Node*)malloc(sizeof(struct Node));
  kd_slot[kd_used] = n;
  kd_state[kd_used] = KD_LIVE;
  kd_used++;
  return n;
}
static inline void node_delete(struct Node* n) {
  if (!n) {
    return; /* delete nullptr is a no-op */
  }
  int found = 0;
  for (size_t i = 0; i < KD_POOL; i++) {
    if (i < kd_used && kd_slot[i] == n) {
      found = 1;
      __CPROVER_assert(kd_state[i] == KD_LIVE, "delete of a node that was already deleted (double free)");
      kd_state[i] = KD_FREED;
    }
  }
  __CPROVER_assert(found, "delete of a pointer that is not a node");
  free(n);
}
/* index of a live node in the registry, -1 if p is not a live node */
static inline int kd_live_index(const struct Node* p) {
  int r = -1;
  for (size_t i = 0; i < KD_POOL; i++) {
    if (i < kd_used && kd_slot[i] == p && kd_state[i] == KD_LIVE) {
      r = (int)i;
    }
  }
  return r;
}
#endif
