/* C10 specification of the SHA-256 block operation, written from FIPS 180-4 sections 4.1.2, 4.2.2, 5.3.3, 6.2.2.
 *
 *   H(0) = 6a09e667 bb67ae85 3c6ef372 a54ff53a 510e527f 9b05688c 1f83d9ab 5be0cd19
 *          (first 32 bits of the fractional parts of the square roots of the first 8 primes)
 *   K_0..K_63: first 32 bits of the fractional parts of the cube roots of the first 64 primes
 *   Ch, Maj as in SHA-1;  SIGMA0(x) = ROTR2 ^ ROTR13 ^ ROTR22;  SIGMA1(x) = ROTR6 ^ ROTR11 ^ ROTR25;
 *   sigma0(x) = ROTR7 ^ ROTR18 ^ SHR3;  sigma1(x) = ROTR17 ^ ROTR19 ^ SHR10
 *   W_t = M_t (big-endian)                                                    0 <= t <= 15
 *       = sigma1(W_{t-2}) + W_{t-7} + sigma0(W_{t-15}) + W_{t-16}            16 <= t <= 63
 *   T1 = h + SIGMA1(e) + Ch(e,f,g) + K_t + W_t;  T2 = SIGMA0(a) + Maj(a,b,c)
 *   h = g; g = f; f = e; e = d + T1; d = c; c = b; b = a; a = T1 + T2
 *   H_i(next) = working variable + H_i */
#ifndef C10_SHA256_SPEC_H
#define C10_SHA256_SPEC_H
#include <stdint.h>
#include "spec/C10_sha1.h" /* Ch, Maj, big-endian word load */

#define C10_SHA_ROTR(x, n) ((uint32_t)((((uint32_t)(x)) >> (n)) | (((uint32_t)(x)) << (32 - (n)))))
#define C10_SHA_SHR(x, n) (((uint32_t)(x)) >> (n))
#define C10_SHA256_BSIG0(x) (C10_SHA_ROTR(x, 2) ^ C10_SHA_ROTR(x, 13) ^ C10_SHA_ROTR(x, 22))
#define C10_SHA256_BSIG1(x) (C10_SHA_ROTR(x, 6) ^ C10_SHA_ROTR(x, 11) ^ C10_SHA_ROTR(x, 25))
#define C10_SHA256_SSIG0(x) (C10_SHA_ROTR(x, 7) ^ C10_SHA_ROTR(x, 18) ^ C10_SHA_SHR(x, 3))
#define C10_SHA256_SSIG1(x) (C10_SHA_ROTR(x, 17) ^ C10_SHA_ROTR(x, 19) ^ C10_SHA_SHR(x, 10))

/* value form: operands W_{t-2}, W_{t-7}, W_{t-15}, W_{t-16} */
#define C10_SHA256_WV(w2, w7, w15, w16) \
  ((uint32_t)(C10_SHA256_SSIG1(w2) + ((uint32_t)(w7)) + C10_SHA256_SSIG0(w15) + ((uint32_t)(w16))))
#define C10_SHA256_W(W, t) C10_SHA256_WV((W)[(t) - 2], (W)[(t) - 7], (W)[(t) - 15], (W)[(t) - 16])
#define C10_SHA256_T1(e, f, g, h, kt, wt) \
  ((uint32_t)(((uint32_t)(h)) + C10_SHA256_BSIG1(e) + C10_SHA_CH(e, f, g) + ((uint32_t)(kt)) + ((uint32_t)(wt))))
#define C10_SHA256_T2(a, b, c) ((uint32_t)(C10_SHA256_BSIG0(a) + C10_SHA_MAJ(a, b, c)))

static const uint32_t C10_SHA256_H0[8] = {
  0x6a09e667u, 0xbb67ae85u, 0x3c6ef372u, 0xa54ff53au, 0x510e527fu, 0x9b05688cu, 0x1f83d9abu, 0x5be0cd19u,
};
/* recomputed from the cube roots by tools/C10_validate_spec.sh */
static const uint32_t C10_SHA256_K[64] = {
  0x428a2f98u, 0x71374491u, 0xb5c0fbcfu, 0xe9b5dba5u, 0x3956c25bu, 0x59f111f1u, 0x923f82a4u, 0xab1c5ed5u,
  0xd807aa98u, 0x12835b01u, 0x243185beu, 0x550c7dc3u, 0x72be5d74u, 0x80deb1feu, 0x9bdc06a7u, 0xc19bf174u,
  0xe49b69c1u, 0xefbe4786u, 0x0fc19dc6u, 0x240ca1ccu, 0x2de92c6fu, 0x4a7484aau, 0x5cb0a9dcu, 0x76f988dau,
  0x983e5152u, 0xa831c66du, 0xb00327c8u, 0xbf597fc7u, 0xc6e00bf3u, 0xd5a79147u, 0x06ca6351u, 0x14292967u,
  0x27b70a85u, 0x2e1b2138u, 0x4d2c6dfcu, 0x53380d13u, 0x650a7354u, 0x766a0abbu, 0x81c2c92eu, 0x92722c85u,
  0xa2bfe8a1u, 0xa81a664bu, 0xc24b8b70u, 0xc76c51a3u, 0xd192e819u, 0xd6990624u, 0xf40e3585u, 0x106aa070u,
  0x19a4c116u, 0x1e376c08u, 0x2748774cu, 0x34b0bcb5u, 0x391c0cb3u, 0x4ed8aa4au, 0x5b9cca4fu, 0x682e6ff3u,
  0x748f82eeu, 0x78a5636fu, 0x84c87814u, 0x8cc70208u, 0x90befffau, 0xa4506cebu, 0xbef9a3f7u, 0xc67178f2u,
};

#endif
