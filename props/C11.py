"""C11 -- text encodings: base64, rot13, escapers, netloc (DESIGN.md section 4, C11)."""
import re

from vf import lex
from vf.extract import Source, Unit
from vf.lex import Rule, ExtractionBreak
from vf.pipeline import Group, Replay, ALL_LIB

ID = 'C11'
LEVEL = 'proof'

ENC = 'src/Encoding.cc'
STR = 'src/Strings.cc'
NET = 'src/Network.cc'


class Unroll:
    """Rule-like: complete unrolling of loop number `ordinal` (a `for (init; cond; step) { body }` without break/continue)
    into `times` guarded copies of body+step followed by an unwinding assertion `!(cond)`.  Exact (not a bound on the
    inputs): if the loop can run longer, the assertion fails.  Used for the 64-iteration table-building loop, which has
    no symbolic trip count; goto-instrument --apply-loop-contracts cannot leave a loop without contract alone."""

    def __init__(self, ordinal, times, label):
        self.ordinal, self.times, self.label = ordinal, times, label

    def apply(self, text, where=''):
        loops = lex.find_loops(text)
        if not (1 <= self.ordinal <= len(loops)):
            raise ExtractionBreak('%s: unroll of loop %d but only %d loops found' % (where, self.ordinal, len(loops)))
        kind, pos = loops[self.ordinal - 1]
        m = lex.mask(text)
        if kind != 'for':
            raise ExtractionBreak('%s: loop %d is not a for loop' % (where, self.ordinal))
        pe = pos - 1                                   # the ')' closing the header
        start = m.rfind('for', 0, pe)
        while start >= 0:
            ps = m.find('(', start)
            if ps >= 0 and lex.match_close(m, ps) == pe:
                break
            start = m.rfind('for', 0, start)
        if start < 0:
            raise ExtractionBreak('%s: cannot locate the header of loop %d' % (where, self.ordinal))
        hdr = text[ps + 1:pe]
        parts, depth, cur = [], 0, ''
        for ch, mc in zip(hdr, m[ps + 1:pe]):
            if mc in '([{':
                depth += 1
            elif mc in ')]}':
                depth -= 1
            if mc == ';' and depth == 0:
                parts.append(cur)
                cur = ''
            else:
                cur += ch
        parts.append(cur)
        if len(parts) != 3 or not parts[1].strip():
            raise ExtractionBreak('%s: loop %d is not of the form for (init; cond; step)' % (where, self.ordinal))
        init, cond, step = (x.strip() for x in parts)
        j = pos
        while m[j] in ' \t\r\n':
            j += 1
        if m[j] != '{':
            raise ExtractionBreak('%s: loop %d has no brace body' % (where, self.ordinal))
        be = lex.match_close(m, j)
        body = text[j:be + 1]
        if re.search(r'\b(break|continue|for|while|do)\b', m[j:be + 1]):
            raise ExtractionBreak('%s: loop %d contains break/continue/a nested loop: cannot unroll textually' % (where, self.ordinal))
        lab = 'verif_unrolled_' + self.label
        out = ['{ %s;' % init]
        for _ in range(self.times):
            out.append('  if (!(%s)) goto %s; %s %s;' % (cond, lab, body, step))
        out.append('  __CPROVER_assert(!(%s), "loop %s is completely unrolled by %d copies");' % (cond, self.label, self.times))
        out.append('  %s:; }' % lab)
        return text[:start] + '\n'.join(out) + text[be + 1:]


class Outline:
    """Rule-like: the brace block introduced by `intro_regex` (matched on the masked text, exactly once, ending right before
    the `{`) is replaced by `{ <call> }`.  The same intro regex is given to Unit.block(), which extracts that very block as
    a C function of its own; the enclosing function is then proved with the call replaced by the block's contract."""

    def __init__(self, intro_regex, call, new_intro=None):
        self.intro, self.call, self.new_intro = intro_regex, call, new_intro

    def apply(self, text, where=''):
        m = lex.mask(text)
        hits = []
        for mo in re.finditer(self.intro, m, re.S):
            j = mo.end()
            while j < len(m) and m[j] in ' \t\r\n':
                j += 1
            if j < len(m) and m[j] == '{':
                hits.append((mo.start(), mo.end(), j))
        if len(hits) != 1:
            raise ExtractionBreak('%s: outline /%s/: %d matches (exactly 1 required)' % (where, self.intro, len(hits)))
        s, he, b = hits[0]
        e = lex.match_close(m, b)
        intro = text[s:he] if self.new_intro is None else self.new_intro
        return text[:s] + intro + ' { ' + self.call + ' }' + text[e + 1:]


class LoopGhost:
    """Rule-like: ghost statements at the body start of loop number `ordinal` (textual order).  Independent of the wording
    of the loop header, so an edited header reaches the verifier instead of breaking the extraction."""

    def __init__(self, ordinal, ghost):
        self.ordinal, self.ghost = ordinal, ghost

    def apply(self, text, where=''):
        loops = lex.find_loops(text)
        if not (1 <= self.ordinal <= len(loops)):
            raise ExtractionBreak('%s: ghost for loop %d but only %d loops found' % (where, self.ordinal, len(loops)))
        kind, pos = loops[self.ordinal - 1]
        m = lex.mask(text)
        j = pos
        while j < len(m) and m[j] in ' \t\r\n':
            j += 1
        if kind == 'do' or j >= len(m) or m[j] != '{':
            raise ExtractionBreak('%s: loop %d has no brace body' % (where, self.ordinal))
        return text[:j + 1] + ' ' + self.ghost + ' ' + text[j + 1:]


# ---------------------------------------------------------------------------------------------------------------------
# src/Encoding.cc
# ---------------------------------------------------------------------------------------------------------------------
# ghosts: g_q == size / 3 (precondition), g_i = iterations begun (incremented at loop-body start)
ENCODE_LOOP = """
__CPROVER_assigns(offset, g_i, ret->size, __CPROVER_object_whole(ret->data))
__CPROVER_loop_invariant(g_i <= g_q && end_offset == 3 * g_q && offset == 3 * g_i && ret->size == 4 * g_i)
__CPROVER_loop_invariant(g_blk < g_i ==> (ret->data[4 * g_blk] == g_e0 && ret->data[4 * g_blk + 1] == g_e1 && ret->data[4 * g_blk + 2] == g_e2 && ret->data[4 * g_blk + 3] == g_e3))
__CPROVER_decreases(g_q - g_i)
"""

DECODE_LOOP = """
__CPROVER_assigns(@LOCALS@, verif_exc, g_wit, ret->size, __CPROVER_object_whole(ret->data))
__CPROVER_loop_invariant(verif_exc == 0 && offset <= end_offset && (offset & 3) == 0)
__CPROVER_loop_invariant(ret->size == 3 * (offset >> 2) - ((offset == end_offset && offset != 0) ? DEC_PADN : 0))
__CPROVER_loop_invariant(4 * g_blk < offset ==> DEC_OK)
__CPROVER_loop_invariant(4 * g_blk < offset ==> ret->data[3 * g_blk] == (char)B64_DEC0(g_c0, g_c1, g_url))
__CPROVER_loop_invariant((4 * g_blk < offset && DEC_NOUT >= 2) ==> ret->data[3 * g_blk + 1] == (char)B64_DEC1(g_c1, g_c2, g_url))
__CPROVER_loop_invariant((4 * g_blk < offset && DEC_NOUT >= 3) ==> ret->data[3 * g_blk + 2] == (char)B64_DEC2(g_c2, g_c3, g_url))
__CPROVER_decreases(end_offset - offset)
"""

ROT13_LOOP = """
__CPROVER_assigns(x, ret->size, __CPROVER_object_whole(ret->data))
__CPROVER_loop_invariant(x <= size && ret->size == x)
__CPROVER_loop_invariant(g_k < x ==> ret->data[g_k] == ROT13_SPEC(g_ch))
__CPROVER_decreases(size - x)
"""

PUSH = Rule('ret.push_back(', 'vstr_push_back(ret, ', count='+')
# (reserve() is a capacity hint without observable effect: the string model has its capacity from the precondition)
RETSTR = [Rule(r'\bstring ret;', '', count=1, regex=True), Rule(r'\breturn ret;', 'return;', count=1, regex=True),
          # an early `return string();` / `return "";` / `return {};`: the out-parameter is the empty string at entry (precondition)
          Rule(r'\breturn (?:(?:std::)?string\(\)|""|\{\});', '{ C11_RET_EMPTY(ret); return; }', count=None, regex=True),
          Rule(r'\bret\.reserve\([^;]*\);', '', count=None, regex=True)]

# where the blocks are cut (tolerant of edits inside the parentheses: an edited header reaches the verifier)
ENC_SIG = r'string base64_encode\(const void\* vdata, size_t size, const char\* alphabet\)'
DEC_SIG = r'string base64_decode\(const void\* vdata, size_t size, const char\* alphabet\)'
ENC_FOR = r'\bfor \([^{}]*\)'
ENC_IF2 = r'(?<!else )\bif \(size - end_offset[^{}]*\)'
ENC_IF1 = r'\belse if \(size - end_offset[^{}]*\)'
DEC_FOR = r'\bfor \(size_t offset[^{}]*\)'


def encoding_units(ctx, src):
    ua = Unit(ctx, 'b64_alphabets')
    for name in ('DEFAULT_ALPHABET', 'URLSAFE_ALPHABET'):
        lit = ua.snippet(src, ENC, r'const char\* %s = ("(?:[^"\\\n]|\\.)*");' % name, group=1)
        # the source declares a (mutable) pointer variable initialised with a literal; modelled as the constant array
        ua.raw('const char %s[] = %s;' % (name, lit))
    u = Unit(ctx, 'encoding')
    # the element type through which the functions read their input (`const T* data = reinterpret_cast<const T*>(vdata);`) is read from
    # the source: the blocks cut out of the functions take `data` as a parameter of exactly that type (char vs uint8_t decides sign extension)
    def data_type(sig):
        _, body, _, _ = __import__('vf.lex', fromlist=['x']).find_def(src.text(ENC), sig, 'function')
        mo = re.findall(r'\bconst (\w+)\* data = reinterpret_cast<const (\w+)\*>\(vdata\);', body)
        if len(mo) != 1 or mo[0][0] != mo[0][1] or mo[0][0] not in ('uint8_t', 'char', 'int8_t', 'unsigned char', 'signed char'):
            raise ExtractionBreak('%s: cannot read the element type of `data` (%r)' % (sig, mo))
        return mo[0][0]
    ET, DT = data_type(ENC_SIG), data_type(DEC_SIG)
    ua.raw('#include <stdint.h>\n#define C11_ENC_T %s\n#define C11_DEC_T %s' % (ET, DT))
    ua.write(suffix='.h', scan=False)
    # ---- base64_encode: loop body and the two tail branches (step contracts), and the whole function ----
    u.block(src, ENC, ENC_SIG, ENC_FOR, new_header='void base64_encode_block(vstr* ret, const %s* data, size_t offset, const char* alphabet)' % ET,
            rules=[PUSH])
    u.block(src, ENC, ENC_SIG, ENC_IF2, new_header='void base64_encode_tail2(vstr* ret, const %s* data, size_t end_offset, const char* alphabet)' % ET,
            rules=[PUSH])
    u.block(src, ENC, ENC_SIG, ENC_IF1, new_header='void base64_encode_tail1(vstr* ret, const %s* data, size_t end_offset, const char* alphabet)' % ET,
            rules=[PUSH])
    u.function(src, ENC, ENC_SIG,
               new_header='void base64_encode(vstr* ret, const void* vdata, size_t size, const char* alphabet)',
               body_prefix=' g_i = 0; ',
               rules=RETSTR + [PUSH, LoopGhost(1, 'g_i++;')], loops={1: ENCODE_LOOP}, nloops=1)
    # ---- base64_decode: loop body (step contract), and the whole function ----
    u.block(src, ENC, DEC_SIG, DEC_FOR,
            new_header='void base64_decode_block(vstr* ret, const %s* data, size_t offset, size_t end_offset, const char* inverse_alphabet)' % DT,
            rules=[PUSH], ret_zero='')
    u.function(src, ENC, DEC_SIG,
               new_header='void base64_decode(vstr* ret, const void* vdata, size_t size, const char* alphabet)',
               rules=RETSTR + [
                   # std::string(n, c) used as a 256-entry lookup table -> char array filled with c
                   Rule(r'\bstring inverse_alphabet\(([^,;()]+), ([^,;()]+)\);',
                        r'char inverse_alphabet[\1]; __CPROVER_array_set(inverse_alphabet, (char)(\2));', count=1, regex=True),
                   PUSH, LoopGhost(2, 'g_wit = offset;'),
                   # the table-building loop (64 iterations, no symbolic bound) is unrolled completely
                   Unroll(1, 65, 'table')],
               ret_zero='', loops={1: DECODE_LOOP}, nloops=1)
    u.function(src, ENC, r'string rot13\(const void\* vdata, size_t size\)',
               new_header='void rot13(vstr* ret, const void* vdata, size_t size)',
               rules=RETSTR + [PUSH], loops={1: ROT13_LOOP}, nloops=1)
    u.write()
    return [ua, u]


SAT = ['minisat', 'cadical']      # the SMT back ends do not finish on the loop-contract groups (measured); saves cores


def encoding_groups(ctx):
    H = 'harness/C11/encoding.c'
    gs = []
    RP = lambda mode, extra=(): Replay(driver='C11/encoding.cc', mode=mode, sources=ALL_LIB, extra=list(extra), small_define='VERIF_SMALL')
    # ALPHA=3: the alphabet argument is a symbolic choice among nullptr (default argument), DEFAULT_ALPHABET, URLSAFE_ALPHABET
    D = ['ALPHA=3']
    gs.append(Group(name='Encoding.base64.spec-tables-inverse', harness=H, entry='l_b64_tables', function='RFC 4648 tables (spec macros)',
                    kind='lemma', min_post=2, defines=D,
                    clause_note='B64_VAL(B64_CHAR(v)) == v for v < 64 and B64_CHAR(B64_VAL(c)) == c for alphabet characters, both tables'))
    for piece, what in (('block', 'loop body: one 24-bit group'), ('tail2', 'final quantum of 16 bits'), ('tail1', 'final quantum of 8 bits')):
        gs.append(Group(name='Encoding.base64_encode.' + piece, harness=H, entry='h_base64_encode_' + piece, function='base64_encode (%s)' % what,
                        enforce='base64_encode_' + piece, defines=D, timeout=300, stage1=20,
                        clause_note='contracts/C11_encoding.h: appends exactly the four characters RFC 4648 prescribes for the group',
                        replay=RP('base64_encode_' + piece)))
    gs.append(Group(name='Encoding.base64_encode', harness=H, entry='h_base64_encode', function='base64_encode',
                    enforce='base64_encode', loops=True, kind='loop-contract', defines=D, timeout=900, stage1=1, engines=SAT, first='cadical',
                    fallback_unwind=6,
                    clause_note='contracts/C11_encoding.h: length 4*ceil(size/3); characters of group g_blk equal RFC 4648 (spec/C11_base64.h)',
                    replay=RP('base64_encode')))
    gs.append(Group(name='Encoding.base64_encode[bounded]', harness=H, entry='h_base64_encode', function='base64_encode',
                    enforce='base64_encode', kind='bounded', bound='size <= 12 (loop unwound, --unwind 6)', defines=D + ['VERIF_SMALL'],
                    cbmc_flags=['--unwind', '6', '--unwinding-assertions'], timeout=300, stage1=30, replay=RP('base64_encode'),
                    clause_note='the same contract on the loop-unwound code: independent of the loop invariant'))
    gs.append(Group(name='Encoding.base64_decode.block', harness=H, entry='h_base64_decode_block', function='base64_decode (loop body: one block)',
                    enforce='base64_decode_block', defines=D, timeout=300, stage1=20, covered_by='Encoding.base64_decode',
                    clause_note='contracts/C11_encoding.h: no exception <=> the block is acceptable (B64_BLOCK_OK); appended octets equal RFC 4648',
                    replay=RP('base64_decode_block')))
    gs.append(Group(name='Encoding.base64_decode', harness=H, entry='h_base64_decode', function='base64_decode',
                    enforce='base64_decode', loops=True, kind='loop-contract', defines=D, timeout=900, stage1=1, engines=SAT, first='cadical',
                    fallback_unwind=5,
                    clause_note='contracts/C11_encoding.h: no exception <=> size%4==0 and every block acceptable; decoded octets equal RFC 4648',
                    replay=RP('base64_decode')))
    gs.append(Group(name='Encoding.base64_decode[bounded]', harness=H, entry='h_base64_decode', function='base64_decode',
                    enforce='base64_decode', kind='bounded', bound='size <= 12 (loop unwound, --unwind 5)', defines=D + ['VERIF_SMALL'],
                    cbmc_flags=['--unwind', '5', '--unwinding-assertions'], timeout=300, stage1=30, replay=RP('base64_decode'),
                    clause_note='the same contract on the loop-unwound code: independent of the loop invariant'))
    gs.append(Group(name='Encoding.base64.roundtrip', harness=H, entry='l_b64_roundtrip', function='base64_decode(base64_encode(x))',
                    replace=['base64_encode', 'base64_decode'], kind='lemma', defines=D, min_post=5, timeout=600, stage1=20,
                    clause_note='over the two contracts: decode(encode(x)) raises nothing at block k, has length |x| and octets 3k..3k+2 equal x'))
    gs.append(Group(name='Encoding.rot13', harness=H, entry='h_rot13', function='rot13', enforce='rot13', loops=True, kind='loop-contract',
                    defines=D, fallback_unwind=6, replay=RP('rot13'),
                    clause_note='contracts/C11_encoding.h: same length, byte g_k == ROT13_SPEC(input byte g_k)'))
    gs.append(Group(name='Encoding.rot13[bounded]', harness=H, entry='h_rot13', function='rot13', enforce='rot13', kind='bounded',
                    bound='size <= 12 (loop unwound, --unwind 14)', defines=D + ['VERIF_SMALL'], cbmc_flags=['--unwind', '14', '--unwinding-assertions'],
                    replay=RP('rot13'), clause_note='the same contract on the loop-unwound code: independent of the loop invariant'))
    gs.append(Group(name='Encoding.rot13.spec-involution', harness=H, entry='l_rot13_spec', function='rot13 (spec macro)', kind='lemma',
                    defines=D, min_post=3,
                    clause_note='ROT13_SPEC(ROT13_SPEC(c)) == c; non-letters unchanged; letters map to a different letter of the same case'))
    gs.append(Group(name='Encoding.rot13.involution', harness=H, entry='l_rot13_involution', function='rot13(rot13(x))', kind='lemma',
                    replace=['rot13'], defines=D, min_post=2,
                    clause_note='over the contract: rot13(rot13(x)) has the length of x and byte g_k equals x[g_k]'))
    return gs


# ---------------------------------------------------------------------------------------------------------------------
# src/Strings.cc: escapers
# ---------------------------------------------------------------------------------------------------------------------
def esc_loop(ix, ok):
    return """
__CPROVER_assigns(%(ix)s, g_sc, g_pos, g_pos1, g_olen, g_o0, g_o1, g_o2, g_o3, ret->size, __CPROVER_object_whole(ret->data))
__CPROVER_loop_invariant(%(ix)s <= s->size && ret->size <= 4 * %(ix)s)
__CPROVER_loop_invariant((g_k == 0 && %(ix)s != 0) ==> g_pos == 0)
__CPROVER_loop_invariant(g_k < %(ix)s ==> (g_olen >= 1 && g_olen <= 4 && g_pos <= ret->size && g_olen <= ret->size - g_pos && g_pos + g_olen == (g_k + 1 < %(ix)s ? g_pos1 : ret->size)))
__CPROVER_loop_invariant(g_k < %(ix)s ==> (ESC_AT(0) == g_o0 && (g_olen < 2 || ESC_AT(1) == g_o1) && (g_olen < 3 || ESC_AT(2) == g_o2) && (g_olen < 4 || ESC_AT(3) == g_o3)))
__CPROVER_loop_invariant(g_k < %(ix)s ==> %(ok)s(g_o0, g_o1, g_o2, g_o3, g_olen, g_kch, g_flag))
__CPROVER_decreases(s->size - %(ix)s)
""" % dict(ix=ix, ok=ok)


def esc_call(ix, call):
    """ghost bookkeeping around the step: where the code of octet g_k starts, where the next one starts, what was emitted"""
    return ('if (%(ix)s == g_k) g_pos = ret->size; if (%(ix)s == g_k + 1) g_pos1 = ret->size; g_sc = (uint8_t)s->data[%(ix)s]; '
            '%(call)s '
            'if (%(ix)s == g_k) { g_olen = ret->size - g_pos; g_o0 = (uint8_t)ret->data[g_pos]; g_o1 = g_olen >= 2 ? (uint8_t)ret->data[g_pos + 1] : 0; '
            'g_o2 = g_olen >= 3 ? (uint8_t)ret->data[g_pos + 2] : 0; g_o3 = g_olen >= 4 ? (uint8_t)ret->data[g_pos + 3] : 0; }') % dict(ix=ix, call=call)


LIT = r'"(?:[^"\\\n]|\\.)*"'
# `ret += <expr>;` forms of the escapers, most specific first
APPEND = [Rule(r'\bret \+= string_printf\((%s), ([^;]*?)\);' % LIT, r'c11_append_printf1(ret, \1, \2);', count=1, regex=True),
          Rule(r'\bret \+= (%s);' % LIT, r'c11_append_lit(ret, \1, sizeof(\1) - 1);', count=None, regex=True),
          Rule(r'\bret \+= ch;', 'vstr_push_back(ret, ch);', count=1, regex=True)]
ESC_FOR = r'\bfor \([^{}]*\)'


def _prelude(src, rel, sig, before):
    """constant local declarations of the enclosing function that precede the loop (`[static] const T name = init;`): a loop body cut
    out as a step function must still see them.  `static` is dropped (goto-instrument --dfcc havocs statics; they are constants)."""
    from vf.lex import find_def
    _, fbody, _, _ = find_def(src.text(rel), sig, 'function')
    mo = re.search(before, fbody)
    head = fbody[1:mo.start()] if mo else ''
    decls = re.findall(r'(?:static\s+)?const\s+[^;{}()]*?=\s*[^;{}]*;', head)
    out = ' '.join(re.sub(r'^static\s+', '', d) for d in decls)
    for r in __import__('vf.lex', fromlist=['x']).GENERIC:
        out = r.apply(out)
    return out


def escape_units(ctx, src):
    u = Unit(ctx, 'escape')
    SQ = r'string escape_quotes\(const string& s\)'
    SC = r'string escape_controls\(const string& s, bool escape_non_ascii\)'
    SU = r'string escape_url\(const string& s, bool escape_slash\)'
    SX = Rule('s[x]', 's->data[x]', count=1)
    u.block(src, STR, SQ, ESC_FOR, new_header='void escape_quotes_step(vstr* ret, const vstr* s, size_t x)', rules=[SX] + APPEND)
    u.function(src, STR, SQ, new_header='void escape_quotes(vstr* ret, const vstr* s)',
               rules=RETSTR + [Rule('s.size()', 'vstr_size(s)', count=1),
                               Outline(ESC_FOR, esc_call('x', 'escape_quotes_step(ret, s, x);'))],
               loops={1: esc_loop('x', 'ESC_Q_OK')}, nloops=1)
    u.block(src, STR, SC, ESC_FOR, new_header='void escape_controls_step(vstr* ret, const vstr* s, size_t x, bool escape_non_ascii)', rules=[SX] + APPEND)
    u.function(src, STR, SC, new_header='void escape_controls(vstr* ret, const vstr* s, bool escape_non_ascii)',
               rules=RETSTR + [Rule('s.size()', 'vstr_size(s)', count=1),
                               Outline(ESC_FOR, esc_call('x', 'escape_controls_step(ret, s, x, escape_non_ascii);'))],
               loops={1: esc_loop('x', 'ESC_C_OK')}, nloops=1)
    pre = _prelude(src, STR, SU, r'\bfor \(')
    u.block(src, STR, SU, ESC_FOR, new_header='void escape_url_step(vstr* ret, char ch, bool escape_slash)',
            rules=[Rule(r'\bisalnum\(', 'c11_isalnum(', count=None, regex=True), Rule(r'\bstrchr\(', 'c11_strchr(', count=None, regex=True),
                   Rule(r'\bmemchr\(', 'c11_memchr(', count=None, regex=True), Rule(r'^\{', lambda mo: '{ ' + pre, count=1, regex=True)] + APPEND)
    # range-for over the string lowered to an index loop (verif_i); `char ch` is the element copy
    u.function(src, STR, SU, new_header='void escape_url(vstr* ret, const vstr* s, bool escape_slash)',
               rules=RETSTR + [Outline(r'\bfor \(char ch : s\)', esc_call('verif_i', 'char ch = s->data[verif_i]; escape_url_step(ret, ch, escape_slash);'),
                                       new_intro='for (size_t verif_i = 0; verif_i < vstr_size(s); verif_i++)')],
               loops={1: esc_loop('verif_i', 'ESC_U_OK')}, nloops=1)
    u.write()
    return [u]


def escape_groups(ctx):
    H = 'harness/C11/escape.c'
    gs = []
    RP = lambda mode: Replay(driver='C11/encoding.cc', mode=mode, sources=ALL_LIB, small_define='VERIF_SMALL')
    gs.append(Group(name='Strings.escape.spec-prefix-free', harness=H, entry='l_escape_spec', function='reference unescapers (spec macros)', kind='lemma', min_post=2,
                    clause_note='the length the reference decoders assign to a code depends on its first two octets only (self-delimiting codes)'))
    for fn, ok in (('escape_quotes', 'ESC_Q_OK'), ('escape_controls', 'ESC_C_OK'), ('escape_url', 'ESC_U_OK')):
        gs.append(Group(name='Strings.%s.step' % fn, harness=H, entry='h_%s_step' % fn, function='%s (loop body: one input octet)' % fn,
                        enforce=fn + '_step', timeout=300, stage1=20, replay=RP(fn),
                        clause_note='contracts/C11_escape.h: the 1..4 octets appended for the input octet satisfy %s (spec/C11_escape.h)' % ok))
        gs.append(Group(name='Strings.%s' % fn, harness=H, entry='h_' + fn, function=fn, enforce=fn, replace=[fn + '_step'], loops=True,
                        kind='loop-contract', timeout=600, stage1=20, fallback_unwind=4, replay=RP(fn),
                        clause_note='contracts/C11_escape.h: the code of input octet g_k lies at g_pos, satisfies %s, and the codes tile the result in input order' % ok))
    return gs


# ---------------------------------------------------------------------------------------------------------------------
# src/Network.cc: render_netloc / parse_netloc  (BOUNDED check; the functions consist of std::string / to_string / stod calls)
# ---------------------------------------------------------------------------------------------------------------------
def netloc_units(ctx, src):
    u = Unit(ctx, 'netloc')
    u.function(src, NET, r'string render_netloc\(const string& addr, int port\)',
               new_header='void render_netloc(vstr* ret, const vstr* addr, int port)',
               rules=[Rule('addr.empty()', '(vstr_size(addr) == 0)', count=1),
                      Rule(r'\breturn addr \+ (%s) \+ to_string\(([^;()]+)\);' % LIT,
                           r'{ c11_assign_vstr(ret, addr); c11_append_cstr(ret, \1); c11_append_int(ret, \2); return; }', count=1, regex=True),
                      Rule(r'\breturn to_string\(([^;()]+)\);', r'{ ret->size = 0; c11_append_int(ret, \1); return; }', count=1, regex=True),
                      Rule(r'\breturn (%s);' % LIT, r'{ c11_assign_cstr(ret, \1); return; }', count=1, regex=True),
                      Rule(r'\breturn addr;', '{ c11_assign_vstr(ret, addr); return; }', count=1, regex=True)])
    u.function(src, NET, r'pair<string, uint16_t> parse_netloc\(const string& netloc, int default_port\)',
               new_header='void parse_netloc(vstr* ret_host, uint16_t* ret_port, const vstr* netloc, int default_port)',
               rules=[Rule(r"\bnetloc\.find\(('(?:[^'\\]|\\.)')\)", r'c11_find_char(netloc, \1)', count=1, regex=True),
                      Rule('string::npos', 'C11_NPOS', count='+'),
                      # type-directed std::string members / conversions on the parameter (whatever the body does with them)
                      Rule(r'\bnetloc\.empty\(\)', '(vstr_size(netloc) == 0)', count=None, regex=True),
                      Rule(r'\bnetloc\.(?:size|length)\(\)', 'vstr_size(netloc)', count=None, regex=True),
                      Rule(r'\bnetloc\.find_first_not_of\((%s)\)' % LIT, r'c11_find_first_not_of(netloc, \1)', count=None, regex=True),
                      Rule(r'\breturn make_pair\(string\(\), ([^;]+)\);', r'{ ret_host->size = 0; *ret_port = (uint16_t)(\1); return; }', count=None, regex=True),
                      Rule(r'\bsto(?:ul|i|l|ull)\(netloc\)', 'c11_stoul(netloc)', count=None, regex=True),
                      Rule(r'\breturn make_pair\(netloc, ([^;()]+)\);',
                           r'{ c11_assign_vstr(ret_host, netloc); *ret_port = (uint16_t)(\1); return; }', count=1, regex=True),
                      # pair<string,double> -> pair<string,uint16_t>: the double returned by stod is converted to uint16_t
                      Rule(r'\breturn make_pair\(netloc\.substr\(([^,()]+), ([^,()]+)\), stod\(netloc\.substr\(([^()]+)\)\)\);',
                           r'{ c11_substr(ret_host, netloc, \1, \2); if (verif_exc) return; *ret_port = (uint16_t)c11_stod_tail(netloc, \3); return; }',
                           count=1, regex=True)])
    u.write()
    return [u]


def netloc_groups(ctx):
    H = 'harness/C11/netloc.c'
    RP = Replay(driver='C11/encoding.cc', mode='netloc', sources=ALL_LIB)
    B = 'host length 1..3 (symbolic colon-free octets), every port 1..65535 / port 0; loops of the string models unwound (--unwind 12)'
    fl = ['--unwind', '12', '--unwinding-assertions']
    return [Group(name='Network.netloc.roundtrip[bounded]', harness=H, entry='b_netloc_roundtrip', function='parse_netloc(render_netloc(host, port))',
                  kind='bounded', bound=B, cbmc_flags=fl, min_post=3, timeout=300, stage1=30, replay=RP,
                  clause_note='parse_netloc(render_netloc(h, p), d) == (h, p) for non-empty colon-free h and 1 <= p <= 65535'),
            Group(name='Network.netloc.no-port[bounded]', harness=H, entry='b_netloc_noport', function='parse_netloc(render_netloc(host, 0), d)',
                  kind='bounded', bound=B, cbmc_flags=fl, min_post=2, timeout=300, stage1=30, replay=Replay(driver='C11/encoding.cc', mode='netloc_noport', sources=ALL_LIB),
                  clause_note='port 0 is rendered as the bare host and parsed back as (h, default_port)')]


def plan(ctx):
    src = Source(ctx.src)
    units = encoding_units(ctx, src)
    ctx.functions_under_contract = [f for u in units for f in u.functions]
    groups = encoding_groups(ctx)
    eunits = escape_units(ctx, src)
    ctx.functions_under_contract += [f for u in eunits for f in u.functions]
    groups += escape_groups(ctx)
    nunits = netloc_units(ctx, src)
    ctx.functions_under_contract += [f for u in nunits for f in u.functions]
    groups += netloc_groups(ctx)
    return groups


EXPLANATION = (
    'base64_encode, base64_decode and rot13 are proved against function contracts under loop contracts (goto-instrument --dfcc '
    '--apply-loop-contracts), for every input length up to 2^45 and for the three alphabet arguments (nullptr, DEFAULT_ALPHABET, '
    'URLSAFE_ALPHABET) at once. Universals use the ghost-index idiom: one symbolic group/block index g_blk whose octets are handed '
    'to the contract as ghost scalars; the RFC 4648 tables and the strictness predicate (spec/C11_base64.h) are evaluated over those '
    'scalars. base64_decode: "no exception <=> size % 4 == 0 and every block acceptable" is split into (=>) at the ghost block and '
    '(<=) through the witness offset g_wit of the block examined when the exception was raised; only invalid_argument can be raised; '
    'decoded octets and result length equal RFC 4648. The 64-iteration table-building loop is unrolled completely by the extractor '
    '(with an unwinding assertion), so the inverse table is a concrete value for the proof of the main loop. Each loop body / tail '
    'branch is additionally cut out as a function of its own and proved against a loop-free step contract. decode(encode(x)) == x is '
    'a lemma over the two contracts (for every group k: the decoder never rejects block k of an encoder output, the length is |x| '
    'and octets 3k..3k+2 are those of x). rot13: loop contract + involution both on the specification macro and over the contract. '
    'Escapers: the loop body (one input octet) is proved against a step contract -- permitted octets only; for escape_controls / '
    'escape_url the reference unescaper reads exactly the emitted code and returns the input octet; the whole function is proved with '
    'the body bound to that contract under a loop contract that locates the code of input octet g_k and shows that the codes tile the '
    'output in input order (so the left-to-right reference unescaper returns the input: induction over the input position, each step '
    'being one discharged obligation). render_netloc/parse_netloc: bounded check only.')
TRUSTED = [
    'spec/C11_base64.h (RFC 4648 tables, grouping, padding and strictness predicate), spec/C11_rot13.h, spec/C11_escape.h (permitted sets, reference unescapers)',
    'stubs/vstr.h (std::string model: data/size/capacity; push_back)',
    'stubs/C11_str.h: string_printf for the two formats "\\x%02X" / "%%%02hhX" (ISO C fprintf semantics), operator+=(const char*) for literals of <= 2 characters, isalnum in the "C" locale',
    'stubs/C11_net.h (bounded netloc check only): to_string(int), string::find(char), substr, copy/concatenation, stod restricted to plain decimal numerals',
    'props/C11.py Unroll / LoopGhost: complete textual unrolling of the table loop (with unwinding assertion), ghost statements that assign only g_* variables',
]
ASSUMPTIONS = [
    'input lengths are at most 2^45-1 octets (base64, rot13) / 2^44-1 (escapers): results stay below the cbmc object size limit',
    'the result std::string can be allocated (capacity model): the out-parameter is empty with capacity >= 2*size+4 (encode), size (decode, rot13), 4*size+4 (escapers)',
    'DEFAULT_ALPHABET / URLSAFE_ALPHABET are declared as mutable `const char*` globals in the source; they are modelled as constant arrays holding the initialiser text (nobody reassigns them)',
    'char is signed 8-bit (x86-64 ABI); isalnum follows the "C" locale and glibc semantics for negative char values (ISO C leaves isalnum of a negative value other than EOF undefined: escape_url passes a plain char)',
    'alphabet argument is one of nullptr / DEFAULT_ALPHABET / URLSAFE_ALPHABET (the property says "both alphabets"); caller-supplied tables are not covered',
]
DROPS = ('std::string result -> vstr out-parameter `ret`; `string ret;` / `return ret;` dropped; ret.push_back / ret += ch -> vstr_push_back; '
         'ret += "lit" -> c11_append_lit; ret += string_printf(fmt, a) -> c11_append_printf1; s[x] -> s->data[x]; s.size() -> vstr_size(s); '
         'range-for over the string (escape_url) lowered to an index loop; string(0x100, -1) lookup table -> char[0x100] filled with -1; '
         'the table-building for loop unrolled textually; throw -> verif_exc flag; loop bodies additionally emitted as functions whose '
         'parameters are the locals they use; const string& parameters -> const vstr*; pair<string,uint16_t> result -> two out-parameters (netloc)')
NOT_DECIDED = [
    'render_netloc/parse_netloc round trip: decided only as a BOUNDED check (host length 1..3, every port 0..65535) over trusted models of '
    'std::to_string / std::string::find / substr / std::stod -- the two functions consist of nothing but such calls; longer hosts, hosts containing NUL '
    'handling inside libstdc++, and stod on non-numeral text are not covered',
    'base64 with a caller-supplied alphabet table (any pointer other than the two library alphabets)',
    'non-canonical padding bits: "QR==" (trailing bits of the last sextet non-zero) is accepted by base64_decode; the statement lists length, alphabet and padding position as the rejection conditions, so this is not counted as a violation',
    'escape_quotes is not required (by the statement) to be invertible and is not: it leaves a backslash unescaped, so "\\" followed by a quote is emitted as \\" ; '
    '"no raw quote" is decided in the sense "every double quote in the output is immediately preceded by a backslash"',
    'behaviour of isalnum under a non-"C" locale, std::bad_alloc, and strings longer than the stated length bounds',
]
CLAIMED = True
MANIFEST = dict(
    category='proof',
    text=('base64_encode / base64_decode / rot13 and the three escapers are put under function + loop contracts and discharged by cbmc for all input '
          'lengths (up to 2^45) and all three alphabet arguments: encoded text equals RFC 4648 (tables written from the RFC as arithmetic macros) group by group '
          '(ghost group index), decode raises invalid_argument iff the length is not a multiple of four or some block is not acceptable (alphabet characters, '
          'padding only as xx== / xxx= in the last block) and otherwise returns the RFC octets; decode(encode(x)) == x is a lemma over the two contracts; '
          'rot13 equals the textbook definition and is an involution; every escaper step emits only permitted octets and (controls, url) a code that the '
          'reference unescaper maps back to the input octet, the loops concatenate exactly those codes in order. render_netloc/parse_netloc: bounded check '
          '(hosts of 1..3 octets, every port) over models of to_string/find/substr/stod.'),
    note=('Trusted: cbmc/goto-instrument, the answering SAT/SMT solver, the extractor (text cut from /repo/src on every run, must-fire rules; loop bodies are '
          'also emitted as step functions), the spec macros in spec/C11_*.h, the std::string / string_printf / isalnum / to_string / stod models in stubs/. '
          'The genuine defect found (an "xxx=" block with an invalid third character was accepted) is repaired by fixes/C11-1.patch. Bounded groups ([bounded]) '
          'are reported separately and never counted as proved.'),
    technique='function contracts + loop contracts (ghost index, ghost witness, step contracts bound with --replace-call-with-contract) enforced with goto-instrument --dfcc, discharged by cbmc (SAT/SMT portfolio)',
)
