/* C05: JSON::parse and its pieces. */
#include "harness/C05/common.h"
#include "x_json.c"

void h_hex(void) { char in_x; value_for_hex_char(in_x); VERIF_REACH(); }
void h_skip(void) { StringReader* r; bool in_de; IN_COMMON; g_de = in_de; int in_wc0, in_wc1; g_wc0 = in_wc0; g_wc1 = in_wc1; skip_whitespace_and_comments(r, in_de); VERIF_REACH(); }
void h_parse(void) { StringReader* r; JVal* ret; bool in_de; IN_COMMON; g_de = in_de; int in_pc; g_pc = in_pc; JSON_parse(r, in_de, ret); VERIF_REACH(); }
void h_list(void) { StringReader* r; JVal* ret; bool in_de; IN_COMMON; g_de = in_de; JSON_parse_list(r, in_de, ret); VERIF_REACH(); }
void h_dict(void) { StringReader* r; JVal* ret; bool in_de; IN_COMMON; g_de = in_de; JSON_parse_dict(r, in_de, ret); VERIF_REACH(); }
void h_number(void) { StringReader* r; JVal* ret; bool in_de; char in_root; IN_COMMON; g_de = in_de; JSON_parse_number(r, in_de, in_root, ret); VERIF_REACH(); }
void h_string(void) { StringReader* r; JVal* ret; IN_COMMON; JSON_parse_string(r, ret); VERIF_REACH(); }
void h_cstr(void) { const char* s; JVal* ret; size_t in_size; bool in_de; IN_COMMON; g_de = in_de; JSON_parse_cstr(s, in_size, in_de, ret); VERIF_REACH(); }
void h_str(void) { const vstr* s; JVal* ret; bool in_de; IN_COMMON; g_de = in_de; JSON_parse_str(s, in_de, ret); VERIF_REACH(); }
