/* C14, BOUNDED stand-in: Poll as a map on concrete vectors of at most PB_N descriptors (whole-vector view: strict
 * sortedness everywhere, every other entry kept, one entry per key), add then add again then remove. */
#include "contracts/C14_poll.h"
#include "stubs/C14_pvec_impl.h"
int verif_exc; C14_GHOSTS
int g_key, g_present, g_pfd; short g_pev; size_t g_lb, g_pk, g_pn;
int c14_close(int fd) { if (fd == g_fd) g_closes++; else g_closes_other++; return 0; }
#include "x_poll.c"
#ifndef PB_N
#define PB_N 3
#endif
#define PB_CAP (PB_N + 2)

static bool sorted(const Poll* p) { for (size_t i = 0; i + 1 < p->poll_fds.n; i++) if (!(p->poll_fds.data[i].fd < p->poll_fds.data[i + 1].fd)) return false; return true; }
static size_t count_key(const Poll* p, int fd) { size_t c = 0; for (size_t i = 0; i < p->poll_fds.n; i++) if (p->poll_fds.data[i].fd == fd) c++; return c; }
static bool has(const Poll* p, int fd, short ev) { for (size_t i = 0; i < p->poll_fds.n; i++) if (p->poll_fds.data[i].fd == fd && p->poll_fds.data[i].events == ev) return true; return false; }

void h_poll_bounded(void)
{
  c14_pollfd store[PB_CAP], old[PB_CAP];
  Poll p; p.poll_fds.data = store; p.poll_fds.cap = PB_CAP;
  size_t in_n; int in_fds[PB_N]; short in_evs[PB_N]; int in_fd; short in_ev1, in_ev2; bool in_close;
  __CPROVER_assume(in_n <= PB_N);
  for (size_t i = 0; i < PB_N; i++) { store[i].fd = in_fds[i]; store[i].events = in_evs[i]; store[i].revents = 0; old[i] = store[i]; }
  p.poll_fds.n = in_n;
  __CPROVER_assume(sorted(&p));                       /* representation invariant on entry */
  g_fd = in_fd; g_closes = 0; g_closes_other = 0; verif_exc = 0;
  size_t was = count_key(&p, in_fd);
  __CPROVER_assert(Poll_empty(&p) == (in_n == 0), "empty() iff no descriptors");
  Poll_add(&p, in_fd, in_ev1);
  __CPROVER_assert(sorted(&p), "add keeps the vector strictly sorted");
  __CPROVER_assert(p.poll_fds.n == in_n + (was ? 0 : 1), "add: size grows only for a new descriptor");
  __CPROVER_assert(count_key(&p, in_fd) == 1 && has(&p, in_fd, in_ev1), "add: the descriptor is registered once, with the given events");
  Poll_add(&p, in_fd, in_ev2);                        /* re-adding replaces */
  __CPROVER_assert(sorted(&p) && p.poll_fds.n == in_n + (was ? 0 : 1), "re-adding does not grow the set");
  __CPROVER_assert(count_key(&p, in_fd) == 1 && has(&p, in_fd, in_ev2), "re-adding replaces the events");
  for (size_t i = 0; i < PB_N; i++) if (i < in_n && old[i].fd != in_fd) __CPROVER_assert(has(&p, old[i].fd, old[i].events), "other descriptors are kept");
  __CPROVER_assert(!Poll_empty(&p), "not empty after add");
  Poll_remove(&p, in_fd, in_close);
  __CPROVER_assert(sorted(&p) && p.poll_fds.n == in_n - (was ? 1 : 0), "remove deletes exactly the one entry");
  __CPROVER_assert(count_key(&p, in_fd) == 0, "removed descriptor is gone");
  for (size_t i = 0; i < PB_N; i++) if (i < in_n && old[i].fd != in_fd) __CPROVER_assert(has(&p, old[i].fd, old[i].events), "other descriptors are kept by remove");
  __CPROVER_assert(g_closes == (in_close ? 1u : 0u) && g_closes_other == 0, "close_fd closes the descriptor once");
  __CPROVER_assert(Poll_empty(&p) == (p.poll_fds.n == 0), "empty() iff no descriptors");
  VERIF_REACH();
}
