/* C09 O-4 / O-1: ONE iteration of parse_data_string's loop (extracted with Unit.block as pds_step over the parser state) against
 * the transition function that the documented syntax defines.  Every state variable has its own next-state clause, so the
 * contract is a complete description of the step; the output clauses say which bytes each construct appends.
 *
 *   text position `in`: g_n >= 1 characters remain, in[g_n] == 0 is the terminator, in[0] != 0 on entry (= the loop condition)
 *   C0 = in[0], C1 = in[1] (C1 is only meaningful because C0 != 0), C2/C3 = in[2]/in[3] when the preceding characters are not NUL
 */
#ifndef C09_STEP_H
#define C09_STEP_H
#include "contracts/C09_glue.h"
#include "contracts/C03_leaf.h"

/* parser state: the locals of parse_data_string that live across iterations (names and types from the source) */
extern const char* in; extern uint8_t chr;
extern bool reading_string, reading_unicode_string, reading_comment, reading_multiline_comment, reading_high_nybble, reading_filename;
extern bool big_endian, mask_enabled, allow_files;
extern vstr* data; extern vstr* mask; extern vstr filename;

/* ghosts fixed by the preconditions */
extern size_t g_n;                                  /* remaining text: in[g_n] == 0 is the terminator (g_end) */
extern char g_c0, g_c1, g_c2, g_c3;                 /* the characters at in[0..3] (0 after the first NUL) */
extern size_t g_j;                                  /* ghost index into the bytes appended by this step */
extern uint8_t g_vval;                              /* value of data byte g_vk before the step (frame) */

#define O(x) __CPROVER_old(x)
#define C0 g_c0
#define C1 g_c1
#define C2 g_c2
#define C3 g_c3

/* ---- the syntax ------------------------------------------------------------------------------------------------------ */
#define IS_HEX(c) (((c) >= '0' && (c) <= '9') || ((c) >= 'A' && (c) <= 'F') || ((c) >= 'a' && (c) <= 'f'))
#define HEXVAL(c) ((uint8_t)((c) <= '9' ? (c) - '0' : (c) <= 'F' ? (c) - 'A' + 10 : (c) - 'a' + 10))
/* escapes inside "..." : \n \r \t are the control characters, any other character stands for itself (\" \' \\) */
#define UNESC(c) ((c) == 'n' ? '\n' : (c) == 'r' ? '\r' : (c) == 't' ? '\t' : (c))
/* number of '#' (1..4) and the width they select: # 8-bit, ## 16-bit, ### 32-bit, #### 64-bit */
#define NHASH (C1 != '#' ? 1 : C2 != '#' ? 2 : C3 != '#' ? 3 : 4)
#define WHASH (C1 != '#' ? 1 : C2 != '#' ? 2 : C3 != '#' ? 4 : 8)
/* % float (4 bytes), %% double (8 bytes) */
#define NPCT (C1 != '%' ? 1 : 2)
#define WPCT (C1 != '%' ? 4 : 8)

/* modes at entry */
#define M_RC O(reading_comment)
#define M_RMC O(reading_multiline_comment)
#define M_RS O(reading_string)
#define M_RUS O(reading_unicode_string)
#define M_N (!M_RC && !M_RMC && !M_RS && !M_RUS)        /* between constructs */
#define M_STR (M_RS || M_RUS)

/* characters consumed (for # and %: at least the markers, then whatever the number scanner takes) */
#define ADV (M_RC ? 1 : M_RMC ? ((C0 == '*' && C1 == '/') ? 2 : 1) : M_STR ? (C0 != '\\' ? 1 : C1 != 0 ? 2 : 0) : 1)
#define IS_NUM (M_N && (C0 == '#' || C0 == '%'))
/* bytes appended */
#define NOUT (M_RS ? ((C0 == '"' || (C0 == '\\' && C1 == 0)) ? 0 : 1) \
            : M_RUS ? ((C0 == '\'' || (C0 == '\\' && C1 == 0)) ? 0 : 2) \
            : !M_N ? 0 : C0 == '#' ? WHASH : C0 == '%' ? WPCT : (IS_HEX(C0) && !O(reading_high_nybble)) ? 1 : 0)
/* the value a numeric construct appends, as an integer of NOUT bytes */
#define NUMVAL (C0 == '#' ? (uint64_t)g_num : C1 == '%' ? D2U(g_dbl) : (uint64_t)F2U(g_flt))
/* the 16-bit code unit of a character inside '...' : the byte, zero-extended */
#define WIDE(c) ((uint16_t)(uint8_t)(c))
/* byte j of an n-byte numeral v in the selected byte order (big_endian is toggled by $; the default is little-endian) */
#define ORDERED_BYTE(v, n, j, be) VBYTE(v, (be) ? (n) - 1 - (j) : (j))
#define OUTBYTE(j) ((uint8_t)(M_RS ? (C0 == '\\' ? UNESC(C1) : C0) \
                  : M_RUS ? ORDERED_BYTE(WIDE(C0 == '\\' ? UNESC(C1) : C0), 2, j, O(big_endian)) \
                  : (C0 == '#' || C0 == '%') ? ORDERED_BYTE(NUMVAL, NOUT, j, O(big_endian)) \
                  : (O(chr) | HEXVAL(C0))))

#ifdef MASK_NULL
#define STEP_MASK_REQ __CPROVER_requires(mask == 0)
#define STEP_MASK_ENS
#define STEP_MASK_ASSIGNS
#else
#define STEP_MASK_REQ __CPROVER_requires(__CPROVER_is_fresh(mask, sizeof(vstr))) \
                      __CPROVER_requires(mask->cap <= VSTR_MAXCAP && mask->size <= mask->cap && mask->cap - mask->size >= 8) \
                      __CPROVER_requires(__CPROVER_is_fresh(mask->data, mask->cap))
#define STEP_MASK_ENS __CPROVER_ensures(mask->size == O(mask->size) + NOUT) \
                      __CPROVER_ensures((g_vk >= O(mask->size) && g_vk < mask->size) ==> (uint8_t)mask->data[g_vk] == PDS_MASK_BYTE(O(mask_enabled)))
#define STEP_MASK_ASSIGNS , mask->size, __CPROVER_object_from(mask->data + mask->size)
#endif

void pds_step(void)
/* the text, the position, the look-ahead ghosts */
__CPROVER_requires(g_n >= 1 && g_n <= PDS_MAXTEXT)
__CPROVER_requires(__CPROVER_is_fresh(in, g_n + 1))
__CPROVER_requires(in[g_n] == 0 && g_end == in + g_n)
__CPROVER_requires(g_c0 == in[0] && g_c0 != 0 && g_c1 == in[1])
__CPROVER_requires(g_c2 == (g_c1 == 0 ? 0 : in[2]))
__CPROVER_requires(g_c3 == (g_c2 == 0 ? 0 : in[3]))
/* output strings: room for one step (a step appends at most 8 bytes) */
__CPROVER_requires(__CPROVER_is_fresh(data, sizeof(vstr)))
__CPROVER_requires(data->cap <= VSTR_MAXCAP && data->size <= data->cap && data->cap - data->size >= 8)
__CPROVER_requires(__CPROVER_is_fresh(data->data, data->cap))
__CPROVER_requires(g_vk < data->size ==> g_vval == (uint8_t)data->data[g_vk])
STEP_MASK_REQ
/* state invariants */
__CPROVER_requires(!allow_files && !reading_filename && verif_exc == 0 && !g_returned && g_st_calls == 0 && g_load_calls == 0)
__CPROVER_requires(PDS_MODES_OK(reading_comment, reading_multiline_comment, reading_string, reading_unicode_string))
__CPROVER_requires(PDS_NYBBLE_OK(reading_high_nybble, chr))
/* ---- state invariants are kept, no exception, no file access -------------------------------------------------------- */
__CPROVER_ensures(!reading_filename && verif_exc == 0 && g_load_calls == 0)
__CPROVER_ensures(PDS_MODES_OK(reading_comment, reading_multiline_comment, reading_string, reading_unicode_string))
__CPROVER_ensures(PDS_NYBBLE_OK(reading_high_nybble, chr))
/* ---- next state, one clause per variable ----------------------------------------------------------------------------- */
__CPROVER_ensures(reading_comment == (M_RC ? C0 != '\n' : (M_N && C0 == '/' && C1 == '/')))                 /* // ... newline */
__CPROVER_ensures(reading_multiline_comment == (M_RMC ? !(C0 == '*' && C1 == '/') : (M_N && C0 == '/' && C1 == '*')))
__CPROVER_ensures(reading_string == (M_RS ? C0 != '"' : (M_N && C0 == '"')))                                 /* "..." */
__CPROVER_ensures(reading_unicode_string == (M_RUS ? C0 != '\'' : (M_N && C0 == '\'')))                     /* '...' */
__CPROVER_ensures(mask_enabled == (O(mask_enabled) != (M_N && C0 == '?')))                                   /* ? toggles the mask */
__CPROVER_ensures(big_endian == (O(big_endian) != (M_N && C0 == '$')))                                       /* $ toggles the byte order */
__CPROVER_ensures(reading_high_nybble == (O(reading_high_nybble) != (M_N && IS_HEX(C0))))
__CPROVER_ensures(chr == ((M_N && IS_HEX(C0)) ? (O(reading_high_nybble) ? HEXVAL(C0) << 4 : 0) : O(chr)))
__CPROVER_ensures(g_returned == (M_STR && C0 == '\\' && C1 == 0))                  /* a backslash at the very end stops the parser */
/* ---- position: stays inside the text, moves forward (except on the stop above) ------------------------------------ */
__CPROVER_ensures(__CPROVER_same_object(in, g_end) && __CPROVER_POINTER_OFFSET(in) <= __CPROVER_POINTER_OFFSET(g_end))
__CPROVER_ensures(!IS_NUM ==> (in == O(in) + ADV && g_st_calls == 0))
__CPROVER_ensures(IS_NUM ==> (g_st_calls == 1 && g_st_arg == O(in) + (C0 == '#' ? NHASH : NPCT) && in == g_st_end))
__CPROVER_ensures(IS_NUM ==> (g_st_kind == (C0 == '#' ? 1 : C1 == '%' ? 2 : 3) && (C0 == '#' ==> g_st_base == 0)))
__CPROVER_ensures(g_returned || __CPROVER_POINTER_OFFSET(in) > __CPROVER_POINTER_OFFSET(O(in)))
/* ---- output ---------------------------------------------------------------------------------------------------------- */
__CPROVER_ensures(data->size == O(data->size) + NOUT)
__CPROVER_ensures(NOUT <= 4 * (__CPROVER_POINTER_OFFSET(in) - __CPROVER_POINTER_OFFSET(O(in))))
__CPROVER_ensures((g_vk >= O(data->size) && g_vk < data->size) ==> (uint8_t)data->data[g_vk] == OUTBYTE(g_vk - O(data->size)))
__CPROVER_ensures(g_vk < O(data->size) ==> (uint8_t)data->data[g_vk] == g_vval)
STEP_MASK_ENS
__CPROVER_assigns(in, chr, reading_string, reading_unicode_string, reading_comment, reading_multiline_comment, reading_high_nybble,
                  big_endian, mask_enabled, g_returned,
                  g_st_calls, g_st_arg, g_st_end, g_st_base, g_st_kind, g_num, g_dbl, g_flt,
                  data->size, __CPROVER_object_from(data->data + data->size) STEP_MASK_ASSIGNS);

#endif
