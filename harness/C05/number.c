/* C05: h_number */
#include "harness/C05/common.h"
#include "x_json_rd.c"      /* eof / where / size / go: real bodies */
#include "x_json_number.c"

void h_number(void) { StringReader* r; JVal* ret; bool in_de; char in_root; IN_COMMON; g_j.de = in_de; size_t in_nw, in_nwx; g_nw = in_nw; g_nwx = in_nwx; JSON_parse_number(r, in_de, in_root, ret); VERIF_REACH(); }
