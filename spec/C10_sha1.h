/* C10 specification of the SHA-1 block operation, written from FIPS 180-4 sections 4.1.1, 4.2.1, 5.3.1, 6.1.2.
 *
 *   H(0) = 67452301 efcdab89 98badcfe 10325476 c3d2e1f0
 *   f_t(x,y,z) = Ch(x,y,z) = (x and y) xor (not x and z)                    0 <= t <= 19
 *              = Parity(x,y,z) = x xor y xor z                               20 <= t <= 39, 60 <= t <= 79
 *              = Maj(x,y,z) = (x and y) xor (x and z) xor (y and z)          40 <= t <= 59
 *   K_t = 5a827999 (0..19), 6ed9eba1 (20..39), 8f1bbcdc (40..59), ca62c1d6 (60..79)
 *   W_t = M_t (big-endian word t of the block)                               0 <= t <= 15
 *       = ROTL1(W_{t-3} xor W_{t-8} xor W_{t-14} xor W_{t-16})               16 <= t <= 79
 *   T = ROTL5(a) + f_t(b,c,d) + e + K_t + W_t;  e = d;  d = c;  c = ROTL30(b);  b = a;  a = T
 *   H_i(next) = working variable + H_i */
#ifndef C10_SHA1_SPEC_H
#define C10_SHA1_SPEC_H
#include <stdint.h>

#define C10_SHA1_H0 0x67452301u
#define C10_SHA1_H1 0xefcdab89u
#define C10_SHA1_H2 0x98badcfeu
#define C10_SHA1_H3 0x10325476u
#define C10_SHA1_H4 0xc3d2e1f0u

#define C10_SHA_ROTL(x, n) ((uint32_t)((((uint32_t)(x)) << (n)) | (((uint32_t)(x)) >> (32 - (n)))))
#define C10_SHA_CH(x, y, z) ((((uint32_t)(x)) & ((uint32_t)(y))) ^ ((~(uint32_t)(x)) & ((uint32_t)(z))))
#define C10_SHA_PARITY(x, y, z) (((uint32_t)(x)) ^ ((uint32_t)(y)) ^ ((uint32_t)(z)))
#define C10_SHA_MAJ(x, y, z) ((((uint32_t)(x)) & ((uint32_t)(y))) ^ (((uint32_t)(x)) & ((uint32_t)(z))) ^ (((uint32_t)(y)) & ((uint32_t)(z))))

#define C10_SHA1_F(t, x, y, z) \
  ((t) <= 19 ? C10_SHA_CH(x, y, z) : (t) <= 39 ? C10_SHA_PARITY(x, y, z) : (t) <= 59 ? C10_SHA_MAJ(x, y, z) : C10_SHA_PARITY(x, y, z))
#define C10_SHA1_K(t) ((t) <= 19 ? 0x5a827999u : (t) <= 39 ? 0x6ed9eba1u : (t) <= 59 ? 0x8f1bbcdcu : 0xca62c1d6u)

/* W_t for 16 <= t <= 79 from the earlier schedule words in array W */
/* value form: operands W_{t-3}, W_{t-8}, W_{t-14}, W_{t-16} */
#define C10_SHA1_WV(w3, w8, w14, w16) C10_SHA_ROTL(((uint32_t)(w3)) ^ ((uint32_t)(w8)) ^ ((uint32_t)(w14)) ^ ((uint32_t)(w16)), 1)
#define C10_SHA1_W(W, t) C10_SHA1_WV((W)[(t) - 3], (W)[(t) - 8], (W)[(t) - 14], (W)[(t) - 16])
/* T of step t */
#define C10_SHA1_T(t, a, b, c, d, e, wt) \
  ((uint32_t)(C10_SHA_ROTL(a, 5) + C10_SHA1_F(t, b, c, d) + ((uint32_t)(e)) + C10_SHA1_K(t) + ((uint32_t)(wt))))

/* M_t: big-endian word t of the 64-byte block p */
#define C10_BE32_AT(p, t) \
  ((uint32_t)((((uint32_t)((const uint8_t*)(p))[4 * (t)]) << 24) | (((uint32_t)((const uint8_t*)(p))[4 * (t) + 1]) << 16) | \
              (((uint32_t)((const uint8_t*)(p))[4 * (t) + 2]) << 8) | ((uint32_t)((const uint8_t*)(p))[4 * (t) + 3])))

/* digest byte j of a big-endian word sequence: byte j & 3 (most significant first) of word j >> 2 */
#define C10_BE_DIGEST_BYTE(word, j) ((uint8_t)(((uint32_t)(word)) >> (8 * (3 - ((j) & 3)))))

#endif
