"""C06 -- image codecs (DESIGN.md section 4, C06): index / padding / row-order arithmetic and memory safety of the load/save loops."""
import re
from vf.extract import Source, Unit
from vf import lex
from vf.lex import Rule, ExtractionBreak
from vf.pipeline import Group, Replay, ALL_LIB, DEFAULT_CHECKS

ID = 'C06'
LEVEL = 'other'

CC = 'src/Image.cc'
HH = 'src/Image.hh'
LOAD = r'void Image::load\(FILE\* f\)'
SAVE = r'void Image::save_helper\(Format format, Writer&& writer\) const'
RP = dict(driver='C06/image_codec.cc', sources=ALL_LIB)


# ---------------------------------------------------------------------------------------------------------------------
# extraction helpers (statement ranges inside a function; everything else is the framework's Unit API)
# ---------------------------------------------------------------------------------------------------------------------
def fbody(src, rel, sig):
    text = src.text(rel)
    _, body, s, e = lex.find_def(text, sig, 'enclosing function')
    return text, body, s


def one(pattern, text, what):
    ms = list(re.finditer(pattern, lex.mask(text), re.S))
    if len(ms) != 1:
        raise ExtractionBreak('%s /%s/: %d matches (exactly 1 required)' % (what, pattern, len(ms)))
    return ms[0]


def emit_range(u, src, rel, sig, start_re, end, new_header, *, rules=None, ret_zero='', loops=None, nloops=0, tail=''):
    """Cut the statement sequence that starts at the (single) match of start_re and ends at `end` inside the function `sig`
    and emit it as the body of a C function.  end = ('block', intro_regex): through the closing brace of that block;
    ('before', regex): up to (not including) the single match of regex."""
    text, body, fs = fbody(src, rel, sig)
    a = one(start_re, body, 'range start').start()
    if end[0] == 'block':
        _, _, bs, be = lex.find_block(body, end[1], 'range end block')
        b = be
    else:
        b = one(end[1], body, 'range end').start()
    if b <= a:
        raise ExtractionBreak('range /%s/ .. /%s/ is empty' % (start_re, end[1]))
    where = '%s:%s:%s' % (rel, sig, start_re)
    chunk = '{\n  ' + body[a:b] + tail + '\n}'
    chunk = u._post(chunk, where, rules, True, ret_zero, loops, nloops)
    u.parts.append(new_header.rstrip() + '\n' + chunk + '\n')
    u.functions.append({'file': rel, 'cxx_header': ' '.join((sig + ' :: statements from /' + start_re + '/').split()),
                        'c_header': ' '.join(new_header.split()), 'line': text.count('\n', 0, fs + a) + 1})


# cbmc's points-to analysis loses the target of a pointer that is written through one member of `union DataPtrs` and read through
# another (observed: reads through .as8 return unconstrained values while .raw is precise); the type pun is made explicit
UNION_RULE = Rule(r'\b((?:self->)?\w*data)\.as(8|16|32|64)\b', r'((uint\2_t*)\1.raw)', count='+', regex=True)
FORMAT_RULE = Rule(r'\bFormat::(\w+)', r'Format_\1', count='+', regex=True)


def types_unit(ctx, src):
    """enum Format, union DataPtrs and the data members of class Image, cut from Image.hh (so that a change of a member type
    or of the member list reaches the verified text)."""
    u = Unit(ctx, 'image_types')
    u.raw('#ifndef X_IMAGE_TYPES_H\n#define X_IMAGE_TYPES_H')
    u.raw('#include <stdint.h>\n#include <stddef.h>\n#include <stdbool.h>\n#include <stdio.h>\n#include <inttypes.h>\n#include <stdlib.h>\n#include <string.h>\n#include <sys/types.h>\n')
    en = u.snippet(src, HH, r'enum class Format \{(.*?)\};', group=1)
    names = [x.strip() for x in en.split(',') if x.strip()]
    u.raw('typedef enum {\n' + ',\n'.join('  Format_' + n for n in names) + '\n} Format;')
    un = u.snippet(src, HH, r'union DataPtrs \{[^{}]*\};')
    u.raw('typedef ' + un.rstrip().rstrip(';') + ' DataPtrs;')
    mem = u.snippet(src, HH, r'union DataPtrs \{[^{}]*\};\s*(.*?)\s*void load\(FILE\* f\);', group=1)
    if not re.fullmatch(r'(\s*[A-Za-z_]\w*\s+\w+;)+\s*', mem):
        raise ExtractionBreak('data members of class Image have an unexpected shape: %r' % mem)
    u.raw('typedef struct Image {\n' + mem + '\n} Image;')
    u.function(src, HH, r'inline size_t get_data_size\(\) const', scope=r'class Image',
               new_header='static inline size_t Image_get_data_size(const Image* self)')
    u.raw('#endif')
    u.write(suffix='.h')
    return u


# ---------------------------------------------------------------------------------------------------------------------
# PPM / PGM / PAM loader: allocation, read, commit, in-place gray -> RGB expansion
# ---------------------------------------------------------------------------------------------------------------------
PPM_OUTER = ('__CPROVER_assigns(y, __CPROVER_object_whole(self->data.raw))\n'
             '__CPROVER_loop_invariant(-1 <= y && y < self->height && C06_PPM_INV(self, (y + 1) * self->width))\n'
             '__CPROVER_decreases(y + 1)')
PPM_INNER = ('__CPROVER_assigns(x, __CPROVER_object_whole(self->data.raw))\n'
             '__CPROVER_loop_invariant(-1 <= x && x < self->width && C06_PPM_INV(self, y * self->width + x + 1))\n'
             '__CPROVER_decreases(x + 1)')


def ppm_load_unit(ctx, src):
    u = Unit(ctx, 'ppm_load')
    rules = [
        FORMAT_RULE,
        # try { freadx(..); } catch (const exception&) { free(..); throw; }   (the bare rethrow is already lowered to `{ return ; }`)
        # (any handler type that catches io_error -- the only exception the read stub raises; a rethrow as another type is the lowered
        #  `{ verif_exc = EXC_x; return ; }`)
        Rule(r'try\s*\{(.*?)\}\s*catch\s*\(const (?:std::)?(?:exception|runtime_error|io_error)&\s*\w*\)\s*\{(.*?)\{([^{}]*)return ; \}\s*\}',
             r'\1 if (verif_exc) {\2 \3 return; } C06_GHOST_AFTER_READ(new_data.raw);', count=1, regex=True),
        Rule(r'(?<![\w.>])free\(', 'C06_free(', count=None, regex=True),
        Rule(r'\bfreadx\(', 'C06_freadx(', count=1, regex=True),
        Rule(r'\bmalloc\(', 'C06_malloc(', count=1, regex=True),
        UNION_RULE,
    ]
    emit_range(u, src, CC, LOAD, r'DataPtrs new_data;', ('block', r'if \(format == Format::GRAYSCALE_PPM\)'),
               'void Image_load_ppm_tail(Image* self, FILE* f, Format format, size_t new_width, size_t new_height, '
               'bool new_has_alpha, uint8_t new_channel_width, uint64_t new_max_value)',
               rules=rules, ret_zero='', loops={1: PPM_OUTER, 2: PPM_INNER}, nloops=2)
    u.write()
    return u


def ppm_load_groups(ctx, dim_full):
    gs = []
    for fmt, fname in ((0, 'gray'), (1, 'colour')):
        for cw, alpha in [(c, a) for c in (8, 16, 32, 64) for a in (0, 1)]:
            # the four channel-width branches of the expansion are the same text up to the pointer type; the 8-bit branch gets the tier's
            # full bound, the wider ones (whose queries are 5x larger) half of it
            dim = dim_full if (cw == 8 or fmt == 1) else dim_full // 2
            gs.append(Group(
                name='Image.load.ppm[%s,cw=%d,alpha=%d]' % (fname, cw, alpha), harness='harness/C06/ppm_load.c', entry='h_ppm_tail',
                function='Image::load (PPM/PGM/PAM: allocation, read, commit, gray expansion)', enforce='Image_load_ppm_tail', loops=True,
                defines=['C06_DIM=%d' % dim, 'C06_CW=%d' % cw, 'C06_GRAY=%d' % (1 - fmt), 'C06_ALPHA=%d' % alpha], kind='bounded',
                bound='image width and height symbolic in 1..%d, all pixel contents' % dim,
                timeout=900, stage1=240, first='minisat', engines=['minisat', 'cadical'], object_bits=12,
                clause_note='contracts/C06_ppm.h: every index inside the allocation, Image buffer holds get_data_size() bytes, pixel (x,y) == '
                            '(v,v,v[,a]) of the file sample, consumed bytes == w*h*channels*width/8, members unchanged when the read throws',
                replay=Replay(mode='gray_load' if fmt == 0 else 'ppm_roundtrip', extra=['in_cw=0x%X' % cw, 'in_alpha=0x%X' % alpha], leaks=True, **RP)))
    return gs

# ---------------------------------------------------------------------------------------------------------------------
# BMP loader: the BI_RGB and the BI_BITFIELDS row loops
# ---------------------------------------------------------------------------------------------------------------------
RGB_INTRO = r'(?<!else )if \(header\.info_header\.compression == \w+\)'
BF_INTRO = r'else if \(header\.info_header\.compression == \w+\)'


def bmp_loops(pb, c):
    outer = ('__CPROVER_assigns(y, verif_exc, g_fpos, g_reads, __CPROVER_object_whole(new_data), __CPROVER_object_whole(row_data))\n'
             '__CPROVER_loop_invariant(C06_LOAD_OUTER_INV(%s, %s))\n__CPROVER_decreases((int64_t)y + 1)' % (pb, c))
    inner = ('__CPROVER_assigns(x, __CPROVER_object_whole(new_data))\n'
             '__CPROVER_loop_invariant(C06_LOAD_INNER_INV(%s, %s))\n__CPROVER_decreases((int64_t)w - x)' % (pb, c))
    return {1: outer, 2: inner}


def bmp_load_rules():
    return [
        Rule(r'\bheader\.info_header\.bit_depth\b', 'bit_depth', count='+', regex=True),
        Rule(r'\bhas_alpha = (false|true);', r'*has_alpha_out = \1;', count=1, regex=True),
        Rule('new_data_unique = malloc_unique(', '*new_data_unique = C06_malloc_unique(', count=1),
        Rule('new_data_unique.get()', '(*new_data_unique)', count=1),
        Rule('auto row_data_unique = malloc_unique(', 'void* row_data_unique = C06_malloc_unique(', count=1),
        Rule('row_data_unique.get()', 'row_data_unique', count=1),
        Rule(r'\bfreadx\(([^;]*)\);', r'C06_freadx(\1); if (verif_exc) return;', count='+', regex=True),
    ]


def bmp_load_unit(ctx, src):
    u = Unit(ctx, 'bmp_load')
    u.block(src, CC, LOAD, RGB_INTRO,
            new_header='void Image_load_bmp_rgb(FILE* f, uint16_t bit_depth, int32_t w, int32_t h, bool reverse_row_order, '
                       'bool* has_alpha_out, void** new_data_unique)',
            rules=bmp_load_rules() + [Rule(r'\bfseek\(f, ([^,;]*), SEEK_CUR\)', r'C06_fseek_cur(f, \1)', count=1, regex=True)],
            ret_zero='', loops=bmp_loops('bit_depth / 8', '3'), nloops=2)
    # the two row loops carry the loop contracts; they are found by their headers (`for (int32_t y ...)` and the x loop nested in it), so that
    # small constant-bound loops in front of them (e.g. a mask -> byte-offset search) do not shift the ordinals: those are unwound by cbmc
    from vf import lex
    _, lbody, _, _ = lex.find_def(src.text(CC), LOAD, 'Image::load')
    _, bfbody, _, _ = lex.find_block(lbody, BF_INTRO, 'BI_BITFIELDS block')
    bfm = lex.mask(bfbody)
    heads = [bfm[max(0, pos - 160):pos] for _, pos in lex.find_loops(bfbody)]
    rows = [k for k, h in enumerate(heads) if re.search(r'for \(int32_t y\b[^{};]*;[^{};]*;[^{};]*\)\s*$', h)]
    if len(rows) != 1 or rows[0] + 1 >= len(heads):
        raise ExtractionBreak('Image::load BI_BITFIELDS: cannot locate the row loop `for (int32_t y ...)` (found %r of %d loops)' % (rows, len(heads)))
    bf_loops = bmp_loops('4', '4')
    bf_loops = {rows[0] + 1: bf_loops[1], rows[0] + 2: bf_loops[2]}
    u.block(src, CC, LOAD, BF_INTRO,
            new_header='void Image_load_bmp_bitfields(FILE* f, uint16_t bit_depth, uint32_t bitmask_r, uint32_t bitmask_g, uint32_t bitmask_b, '
                       'uint32_t bitmask_a, int32_t w, int32_t h, bool reverse_row_order, bool* has_alpha_out, void** new_data_unique)',
            rules=bmp_load_rules() + [
                Rule(r'\bheader\.info_header\.bitmask_([rgba])\b', r'bitmask_\1', count='+', regex=True),
                # unordered_map<uint32_t, size_t> m({{k, v}, ...}); m.at(k)  ->  constant table + lookup stub (throws out_of_range)
                Rule(r'unordered_map<uint32_t, size_t> offset_for_bitmask\((\{.*?\})\);', r'const C06_kv offset_for_bitmask[] = \1;', count=None, regex=True),
                Rule(r'\boffset_for_bitmask\.at\(', 'C06_MAP_AT(offset_for_bitmask, ', count=None, regex=True),
                # try { 4 lookups } catch (const out_of_range&) { throw runtime_error(..); }   (the inner throw is already lowered)
                Rule(r'try\s*\{(.*?)\}\s*catch\s*\(const out_of_range&\)\s*\{(.*?)\}\s*\}',
                     r'\1 if (verif_exc == EXC_out_of_range) { verif_exc = 0; \2 } }', count=None, regex=True),
            ],
            ret_zero='', loops=bf_loops, nloops=len(heads))
    u.bf_extra_loops = len(heads) - 2
    u.write()
    return u


def bmp_load_groups(ctx, dim):
    gs = []
    common = dict(harness='harness/C06/bmp_load.c', loops=True, kind='bounded', timeout=600, stage1=120, first='minisat',
                  engines=['minisat', 'cadical'], object_bits=12,
                  bound='image width and height symbolic in 1..%d (every residue of width mod 4), bottom-up and top-down, all file contents' % dim)
    for depth in (24, 32):
        gs.append(Group(name='Image.load.bmp[BI_RGB,%d]' % depth, entry='h_bmp_rgb', function='Image::load (BMP, BI_RGB row loops)',
                        enforce='Image_load_bmp_rgb', defines=['C06_DIM=%d' % dim, 'C06_DEPTH=%d' % depth],
                        clause_note='contracts/C06_bmp.h: every row_data/new_data index inside its allocation; channel c of pixel (x,y) == file byte at '
                                    'frow(y)*stride + x*pb + (2-c); h*stride bytes consumed; io_error on a short file',
                        replay=Replay(mode='bmp_load', extra=['in_depth=0x%X' % depth, 'in_comp=0x0'], **RP), **common))
    gs.append(Group(name='Image.load.bmp[BI_BITFIELDS,32]', entry='h_bmp_bitfields', function='Image::load (BMP, BI_BITFIELDS row loops)',
                    enforce='Image_load_bmp_bitfields', defines=['C06_DIM=%d' % dim],
                    clause_note='contracts/C06_bmp.h: channel c of pixel (x,y) == file byte at frow(y)*4w + 4x + byte_of(mask_c); runtime_error iff a mask '
                                'is not a byte mask',
                    replay=Replay(mode='bmp_load', extra=['in_depth=0x20', 'in_comp=0x3'], **RP), **common))
    return gs

# ---------------------------------------------------------------------------------------------------------------------
# BMP saver: header structs, init_bmp_header, the WINDOWS_BITMAP case of save_helper
# ---------------------------------------------------------------------------------------------------------------------
def bmp_types_unit(ctx, src):
    """the three packed header structs, cut from Image.cc; le_* wrappers are plain integers under the little-endian host model"""
    u = Unit(ctx, 'bmp_types')
    u.raw('#ifndef X_BMP_TYPES_H\n#define X_BMP_TYPES_H')
    u.raw('typedef uint16_t le_uint16_t;\ntypedef uint32_t le_uint32_t;\ntypedef int32_t le_int32_t;')
    for name in ('WindowsBitmapFileHeader', 'WindowsBitmapInfoHeader', 'WindowsBitmapHeader'):
        rules = []
        if name == 'WindowsBitmapInfoHeader':
            size24 = u.snippet(src, CC, r'static const size_t SIZE24 = (\w+);', group=1)
            u.raw('#define WindowsBitmapInfoHeader_SIZE24 ((size_t)%s)' % size24)
            rules = [Rule(r'static const size_t SIZE24 = \w+;', '', count=1, regex=True)]
        s = u.snippet(src, CC, r'struct %s \{[^{}]*\} __attribute__\(\(packed\)\);' % name, rules=rules)
        u.raw(s)
        u.raw('typedef struct %s %s;' % (name, name))
    u.raw('#endif')
    u.write(suffix='.h')
    return u


SAVE_OUTER = ('__CPROVER_assigns(y, g_wpos, g_wcalls, g_wv, g_wseen%s)\n'
              '__CPROVER_loop_invariant(C06_SAVE_OUTER_INV)\n__CPROVER_decreases(y + 1)')
SAVE_INNER = ('__CPROVER_assigns(x, __CPROVER_object_whole(row_data))\n'
              '__CPROVER_loop_invariant(C06_SAVE_INNER_INV)\n__CPROVER_decreases(self->width * 3 - x)')


def bmp_save_unit(ctx, src):
    u = Unit(ctx, 'bmp_save')
    u.function(src, CC, r'static size_t init_bmp_header\(WindowsBitmapHeader& header,\s*ssize_t width, ssize_t height, bool has_alpha,\s*'
                        r'size_t pixel_bytes, size_t row_padding_bytes\)',
               new_header='static size_t init_bmp_header(WindowsBitmapHeader* header, ssize_t width, ssize_t height, bool has_alpha, '
                          'size_t pixel_bytes, size_t row_padding_bytes)',
               rules=[Rule('header = {};', 'memset(header, 0, sizeof(WindowsBitmapHeader));', count=1),
                      Rule(r'\bheader\.', 'header->', count='+', regex=True),
                      Rule('WindowsBitmapInfoHeader::SIZE24', 'WindowsBitmapInfoHeader_SIZE24', count=1)])
    u.block(src, CC, SAVE, r'case Format::WINDOWS_BITMAP:', new_header='void Image_save_bmp(const Image* self)',
            rules=[Rule('init_bmp_header(header,', 'init_bmp_header(&header,', count=1),
                   Rule(r'\bwriter\(', 'C06_writer(', count='+', regex=True),
                   Rule('auto row_data_unique = malloc_unique(', 'void* row_data_unique = C06_malloc_unique(', count=1),
                   Rule('row_data_unique.get()', 'row_data_unique', count=1),
                   Rule(r'\bbreak;\s*\}\s*$', 'return;\n}', count=1, regex=True),
                   UNION_RULE],
            ret_zero='', loops={1: SAVE_OUTER % '', 2: SAVE_OUTER % ', __CPROVER_object_whole(row_data)', 3: SAVE_INNER}, nloops=3)
    u.write()
    return u


def bmp_save_groups(ctx, dim):
    gs = []
    for alpha in (0, 1):
        gs.append(Group(name='Image.save.bmp[alpha=%d]' % alpha, harness='harness/C06/bmp_save.c', entry='h_bmp_save',
                        function='Image::save_helper (WINDOWS_BITMAP) + init_bmp_header', enforce='Image_save_bmp', loops=True,
                        defines=['C06_DIM=%d' % dim, 'C06_ALPHA=%d' % alpha, 'C06_SAVE=1', 'C06_DECODE_BMP_HEADER=1'], kind='bounded',
                        bound='image width and height symbolic in 1..%d (every residue of width mod 4), all pixel contents' % dim,
                        timeout=600, stage1=120, first='minisat', engines=['minisat', 'cadical'], object_bits=12,
                        clause_note='contracts/C06_bmp.h: header fields decoded from the emitted bytes (file size == bytes emitted, data offset == header '
                                    'bytes, dimensions, depth, compression, masks), rows padded to 4, channel c of pixel (x,y) emitted at '
                                    'data_offset + (h-1-y)*stride + x*pb + byte(c)',
                        replay=Replay(mode='bmp_roundtrip', extra=['in_alpha=0x%X' % alpha], **RP)))
    return gs

# ---------------------------------------------------------------------------------------------------------------------
# BMP loader: header part, dispatch constants; struct layout; save -> load lemma
# ---------------------------------------------------------------------------------------------------------------------
def bmp_header_unit(ctx, src):
    u = Unit(ctx, 'bmp_header')
    rules = [
        Rule(r'WindowsBitmapHeader header = \{\};', 'WindowsBitmapHeader header; memset(&header, 0, sizeof(header));', count=1, regex=True),
        Rule(r'\bfreadx\(([^;]*)\);', r'C06_freadx(\1); if (verif_exc) return;', count=3, regex=True),
        Rule(r'(C06_freadx\(f, &header\.info_header\.header_size, 4\); if \(verif_exc\) return;)', r'\1 g_hsize = header.info_header.header_size;', count=1, regex=True),
        Rule(r'\bfseek\(f, ([^,;]*), SEEK_SET\)', r'C06_fseek_set(f, \1)', count=1, regex=True),
        Rule('WindowsBitmapInfoHeader::SIZE24', 'WindowsBitmapInfoHeader_SIZE24', count=None),
    ]
    emit_range(u, src, CC, LOAD, r'WindowsBitmapHeader header = \{\};', ('before', r'unique_ptr<void, void \(\*\)\(void\*\)> new_data_unique'),
               'void Image_load_bmp_header(FILE* f, const char* sig, WindowsBitmapHeader* out_header, int32_t* out_w, int32_t* out_h, bool* out_rev)',
               rules=rules, ret_zero='', tail='*out_header = header; *out_w = w; *out_h = h; *out_rev = reverse_row_order; (void)has_alpha;')
    u.write()
    return u


def dispatch_codes(src):
    """the two biCompression codes the loader dispatches on (the blocks above are located by these very `if`s)"""
    _, body, _ = fbody(src, CC, LOAD)
    a = one(r'(?<!else )if \(header\.info_header\.compression == (\w+)\)', body, 'BI_RGB dispatch').group(1)
    b = one(r'else if \(header\.info_header\.compression == (\w+)\)', body, 'BI_BITFIELDS dispatch').group(1)
    return a, b


def bmp_misc_groups(ctx, src, dim):
    rgb, bf = dispatch_codes(src)
    codes = ['C06_LOAD_RGB_CODE=%s' % rgb, 'C06_LOAD_BF_CODE=%s' % bf]
    gs = [
        Group(name='Image.bmp.header_layout', harness='harness/C06/bmp_misc.c', entry='h_layout', function='WindowsBitmapFileHeader / InfoHeader / Header',
              defines=codes, kind='loop-free', min_post=10,
              clause_note='sizeof / offsetof of every header field equal the offsets of BITMAPFILEHEADER + BITMAPV5HEADER; SIZE24 == 40; the loader '
                          'dispatches on biCompression 0 (BI_RGB) and 3 (BI_BITFIELDS)'),
        Group(name='Image.load.bmp.header', harness='harness/C06/bmp_misc.c', entry='h_header', function='Image::load (BMP header part)',
              enforce='Image_load_bmp_header', defines=codes + ['C06_HEADER=1'], kind='loop-free', timeout=300, object_bits=12,
              # `biHeight * -1` overflows for biHeight == INT32_MIN only: a dimension far outside the property's range (1..64); that single
              # check is switched off for this group and the case is listed under NOT_DECIDED
              checks=[c for c in DEFAULT_CHECKS if c != '--signed-overflow-check'] + ['--no-signed-overflow-check'],
              clause_note='every freadx target lies inside the header object for every biSize the file can announce; accepted: 40 <= biSize <= 124, '
                          '24/32 bpp, 1 plane; w, h, row order and seek position taken from the header; io_error on a short file',
              replay=Replay(mode='bmp_load', extra=['in_w=0x1', 'in_h=0x1', 'in_depth=0x18', 'in_comp=0x0'], **RP)),
    ]
    # (a stand-alone obligation for init_bmp_header with width, height up to 64 / 8192 -- bfSize == headers + height * stride -- was tried and
    #  dropped: no engine finishes the non-linear identity within 10 minutes; the header arithmetic is covered, bounded, by Image.save.bmp[..])
    for alpha in (0, 1):
        gs.append(Group(name='Image.bmp.save_load_identity[alpha=%d]' % alpha, harness='harness/C06/bmp_misc.c', entry='l_roundtrip',
                        function='Image::save_helper (WINDOWS_BITMAP) ; Image::load (BMP)',
                        replace=['Image_save_bmp', 'Image_load_bmp_rgb', 'Image_load_bmp_bitfields'],
                        defines=codes + ['C06_DIM=%d' % (dim // 2), 'C06_ALPHA=%d' % alpha, 'C06_DEPTH=%d' % (32 if alpha else 24), 'C06_SAVE=1', 'C06_DECODE_BMP_HEADER=1', 'C06_LEMMA=1'], kind='bounded',
                        bound='lemma over the block contracts; width, height in 1..%d (the loop contracts it composes are proved for 1..%d)' % (dim // 2, dim),
                        timeout=300, object_bits=12, min_post=3,
                        clause_note='over the saver and loader contracts: the header the saver emits selects a loader branch that reads channel c of pixel '
                                    '(x,y) from exactly the stream position where the saver put it; alpha flag, consumed == emitted bytes',
                        replay=Replay(mode='bmp_roundtrip', extra=['in_alpha=0x%X' % alpha], **RP)))
    return gs

# ---------------------------------------------------------------------------------------------------------------------
# PNG scan-line copy loop; COLOR_PPM case of the saver; PPM save -> load lemma
# ---------------------------------------------------------------------------------------------------------------------
PNG_LOOP = ('__CPROVER_assigns(y, __CPROVER_object_whole(image_data))\n'
            '__CPROVER_loop_invariant(C06_PNG_INV)\n__CPROVER_decreases((size_t)self->height - y)')


def save_misc_unit(ctx, src):
    u = Unit(ctx, 'save_misc')
    emit_range(u, src, CC, SAVE, r'size_t pixel_size = 3 \+ this->has_alpha;', ('before', r'uLongf idat_size'),
               'void Image_save_png_scanlines(const Image* self, void** out_image_data, size_t* out_image_size)',
               rules=[Rule('auto image_data = malloc_unique(', 'void* image_data = C06_malloc_unique(', count=1),
                      Rule('image_data.get()', 'image_data', count=1),
                      Rule(r'\bmemcpy\(', 'verif_memcpy(', count=1, regex=True),
                      UNION_RULE],
               loops={1: PNG_LOOP}, nloops=1, tail='*out_image_data = image_data; *out_image_size = image_size;')
    # PNG: the zlib call protocol of the IDAT chunk (zlib.h: the destination buffer handed to compress2 "must be at least the value returned by
    # compressBound(sourceLen)"; the whole scan-line buffer is the source; the compressed bytes are what the IDAT chunk carries)
    emit_range(u, src, CC, SAVE, r'uLongf idat_size = ', ('before', r'write_png_chunk\("[^"]*", nullptr, 0, writer\)'),
               'void Image_save_png_idat(const Image* self, void* image_data, size_t image_size)',
               rules=[Rule('auto idat_data = malloc_unique(', 'void* idat_data = C06_malloc_unique(', count=1),
                      Rule('idat_data.get()', 'idat_data', count='+'), Rule('image_data.get()', 'image_data', count='+'),
                      Rule(r'\bcompressBound\(', 'C06_compressBound(', count='+', regex=True),
                      Rule(r'\bif \(int (\w+) = compress2\(([^;{]*)\)\) \{', r'int \1 = C06_compress2(\2); if (\1) {', count=1, regex=True),
                      Rule(r'self->get_data_size\(\)', 'Image_get_data_size(self)', count=None, regex=True),
                      Rule(r'\bwrite_png_chunk\(("IDAT"), ([^;]*), writer\);', r'C06_png_chunk_call(\1, \2);', count=1, regex=True)],
               ret_zero='')
    u.block(src, CC, SAVE, r'case Format::COLOR_PPM:', new_header='void Image_save_ppm(const Image* self)',
            rules=[Rule(r'\bsnprintf\(', 'C06_snprintf(', count=2, regex=True),
                   Rule(r'\bstrlen\(', 'C06_strlen(', count=1, regex=True),
                   Rule(r'\bwriter\(', 'C06_writer(', count=2, regex=True),
                   Rule('self->get_data_size()', 'Image_get_data_size(self)', count=1),
                   Rule(r'\bbreak;\s*\}\s*$', 'return;\n}', count=1, regex=True)],
            ret_zero='')
    u.write()
    return u


def save_misc_groups(ctx, dim):
    gs = []
    for alpha in (0, 1):
        gs.append(Group(name='Image.save.png.scanlines[alpha=%d]' % alpha, harness='harness/C06/save_misc.c', entry='h_png_scanlines',
                        function='Image::save_helper (PNG: scan-line buffer handed to zlib)', enforce='Image_save_png_scanlines',
                        replace=['verif_memcpy'], loops=True, defines=['C06_DIM=%d' % dim, 'C06_ALPHA=%d' % alpha], kind='bounded',
                        bound='image width and height symbolic in 1..%d, all pixel contents' % dim,
                        timeout=600, stage1=120, engines=['minisat', 'cadical'], object_bits=12,
                        clause_note='contracts/C06_save.h: both memcpy ranges inside their allocations; h lines of 1+w*ps bytes; filter byte 0; '
                                    'byte (x,c) of row y at y*(1+w*ps)+1+x*ps+c',
                        replay=Replay(mode='png_save', extra=['in_alpha=0x%X' % alpha], **RP)))
    gs.append(Group(name='Image.save.png.idat', harness='harness/C06/save_misc.c', entry='h_png_idat', function='Image::save_helper (PNG: compressBound / compress2 / IDAT chunk)',
                    enforce='Image_save_png_idat', replace=['C06_compressBound', 'C06_compress2', 'C06_png_chunk_call'], defines=['C06_DIM=%d' % dim, 'C06_ALPHA=0'], kind='loop-free', timeout=300,
                    object_bits=12, min_post=3,
                    clause_note='contracts/C06_save.h: compress2 gets the whole scan-line buffer as its source and a destination of at least compressBound(source length) bytes '
                                '(zlib.h); the IDAT chunk carries exactly the bytes compress2 produced; runtime_error iff compress2 fails',
                    replay=Replay(mode='png_save', extra=['in_alpha=0x0'], **RP)))
    for cw in (8, 16, 32, 64):
        for alpha in (0, 1):
            d = ['C06_DIM=%d' % dim, 'C06_ALPHA=%d' % alpha, 'C06_CW=%d' % cw]
            rp = Replay(mode='ppm_roundtrip', extra=['in_alpha=0x%X' % alpha, 'in_cw=0x%X' % cw], **RP)
            gs.append(Group(name='Image.save.ppm[cw=%d,alpha=%d]' % (cw, alpha), harness='harness/C06/save_misc.c', entry='h_ppm_save',
                            function='Image::save_helper (COLOR_PPM)', enforce='Image_save_ppm', defines=d, kind='bounded',
                            bound='image width and height symbolic in 1..%d, all pixel contents (no loop: the bound only keeps the size product small)' % dim,
                            timeout=300, stage1=60, engines=['minisat', 'cadical'], object_bits=12,
                            clause_note='contracts/C06_save.h: header text then exactly get_data_size() bytes, byte k of the buffer at header_len + k', replay=rp))
            gs.append(Group(name='Image.ppm.save_load_identity[cw=%d,alpha=%d]' % (cw, alpha), harness='harness/C06/save_misc.c', entry='l_ppm_roundtrip',
                            function='Image::save_helper (COLOR_PPM) ; Image::load (PPM)', replace=['Image_save_ppm', 'Image_load_ppm_tail'],
                            defines=d + ['C06_GRAY=0', 'C06_LEMMA=1'], kind='bounded',
                            bound='lemma over the saver and loader contracts; width, height in 1..%d; the text header is assumed to parse back to the '
                                  'same width, height, maxval and tuple type (not decided)' % dim,
                            timeout=300, stage1=60, engines=['minisat', 'cadical'], object_bits=12, min_post=2,
                            clause_note='over the saver and loader contracts: byte k after the header is byte k of the loaded buffer; members equal; '
                                        'consumed == emitted sample bytes', replay=rp))
    return gs


def plan(ctx):
    src = Source(ctx.src)
    dim = 16 if ctx.tier == 'thorough' else 8
    groups = []
    ut = types_unit(ctx, src)
    up = ppm_load_unit(ctx, src)
    ctx.functions_under_contract = list(ut.functions) + list(up.functions)
    groups += ppm_load_groups(ctx, dim)
    ub = bmp_load_unit(ctx, src)
    ctx.functions_under_contract += ub.functions
    bg = bmp_load_groups(ctx, dim)
    if getattr(ub, 'bf_extra_loops', 0):
        for g in bg:
            if 'BITFIELDS' in g.name:      # small constant-bound loops without a contract in the block: unwound by cbmc, with unwinding assertions
                g.cbmc_flags = list(g.cbmc_flags) + ['--unwind', '8', '--unwinding-assertions']
    groups += bg
    ubt = bmp_types_unit(ctx, src)
    ubs = bmp_save_unit(ctx, src)
    ctx.functions_under_contract += ubs.functions
    groups += bmp_save_groups(ctx, dim)
    usm = save_misc_unit(ctx, src)
    ctx.functions_under_contract += usm.functions
    groups += save_misc_groups(ctx, dim)
    ubh = bmp_header_unit(ctx, src)
    ctx.functions_under_contract += ubh.functions
    groups += bmp_misc_groups(ctx, src, dim)
    # P7 (PAM) header loop: terminates on every stream and rejects an end of file inside the header (stubs/C06_p7.h)
    up7 = Unit(ctx, 'p7_header')
    # the header commands / tuple types the model of the line contents knows (stubs/C06_p7.h); any other literal is an unknown one
    P7_LITS = {'WIDTH ': 'K_WIDTH', 'HEIGHT ': 'K_HEIGHT', 'DEPTH ': 'K_DEPTH', 'MAXVAL ': 'K_MAXVAL', 'TUPLTYPE ': 'K_TUPLTYPE', 'ENDHDR': 'K_ENDHDR',
               'GRAYSCALE': 'T_GRAYSCALE', 'GRAYSCALE_ALPHA': 'T_GRAYSCALE_ALPHA', 'RGB': 'T_RGB', 'RGB_ALPHA': 'T_RGB_ALPHA'}
    up7.raw('#include "contracts/C06_p7.h"\n')
    lit = lambda mo: str(len(bytes(mo.group(1), 'utf-8').decode('unicode_escape')))
    up7.block(src, 'src/Image.cc', r'void Image::load\(FILE\* f\)', r'if \(is_extended_ppm\)',
              new_header='void Image_load_p7_header(C6FILE* f, size_t* new_width_p, size_t* new_height_p, uint64_t* new_max_value_p, size_t* new_depth_p, C6Format* format_p)',
              ret_zero='', nloops=1,
              loops={1: '__CPROVER_assigns(@LOCALS@, verif_exc, g_rem, g_hw, g_hh, g_hmax, g_hdepth, g_htup, g_hdepth_seen, g_hwell, g_hend)\n'
                        '__CPROVER_loop_invariant(verif_exc == 0 && !g_hend)\n'
                        '__CPROVER_loop_invariant(new_width == g_hw && new_height == g_hh && new_max_value == g_hmax && P7_TUPLE_INV(format, new_depth))\n'
                        '__CPROVER_decreases(g_rem)'},
              rules=[Rule(r'\bfgetc\(f\)', 'c6_fgetc(f)', count=None, regex=True),
                     Rule(r'string line = fgets\(f\);', 'cline line; c6_fgets(&line, f);', count=1, regex=True),
                     Rule(r'strip_trailing_whitespace\(line\);', 'c6_strip_trailing_whitespace(&line);', count=None, regex=True),
                     Rule(r'starts_with\((\w+), "([^"]*)"\)', lambda mo: 'c6_starts_with(&%s, %d, %s)' % (mo.group(1), len(mo.group(2)), P7_LITS.get(mo.group(2), 'K_UNKNOWN_LIT')), count='+', regex=True),
                     Rule(r'stoull\((\w+)\.substr\((\d+)\)\)', r'c6_stoull_sub(&\1, \2)', count=None, regex=True),
                     Rule(r'(c6_stoull_sub\([^;]*\);)', r'\1 if (verif_exc) return;', count=None, regex=True),
                     Rule(r'string (\w+) = (\w+)\.substr\((\d+)\);', r'cline \1; c6_substr(&\1, &\2, \3);', count=None, regex=True),
                     Rule(r'\b(\w+) == "([^"]*)"', lambda mo: 'c6_equals(&%s, %d, %s)' % (mo.group(1), len(mo.group(2)), P7_LITS.get(mo.group(2), 'K_UNKNOWN_LIT')), count='+', regex=True),
                     Rule(r'\b(\w+)\.empty\(\)', r'(\1.len == 0)', count=None, regex=True),
                     Rule(r'\b(line|tuple_type)\[([^\]]+)\]', r'c6_at(&\1, \2)', count=None, regex=True),
                     Rule(r'Format::(\w+)', r'Format_\1', count=None, regex=True)],
              )
    # parameters by reference -> locals copied in/out (the block reads and writes the enclosing function's locals)
    txt = up7.parts[-1]
    # any OTHER scalar local of the enclosing function that the block uses (an edit may add one): declared before the block with a constant
    # initialiser and not assigned in between -> re-declared in the cut with that initialiser (mechanical; anything else stays a free name
    # and the cut does not compile, which is reported as undecided)
    ftext = src.text('src/Image.cc')
    _, fbody, _, _ = lex.find_def(ftext, r'void Image::load\(FILE\* f\)', 'function')
    mblk = re.search(r'if \(is_extended_ppm\)', lex.mask(fbody))
    before = fbody[:mblk.start()] if mblk else ''
    extra = ''
    for mo in re.finditer(r'\b(size_t|uint64_t|uint32_t|uint16_t|uint8_t|int64_t|int32_t|int|unsigned|bool|ssize_t)\s+(\w+)\s*=\s*([-\w]+);', before):
        ty, nm, init = mo.groups()
        if nm in ('new_width', 'new_height', 'new_max_value', 'new_depth') or not re.search(r'\b%s\b' % nm, txt):
            continue
        if re.search(r'\b%s\s*(?:[-+*/|&^]|<<|>>)?=[^=]|\+\+\s*%s\b|\b%s\s*\+\+|&\s*%s\b' % (nm, nm, nm, nm), before[mo.end():]):
            continue        # assigned (or its address taken) between its declaration and the block: its value at block entry is not the initialiser
        extra += ' %s %s = %s;' % (ty, nm, init)
    i = txt.index('{')
    txt = txt[:i + 1] + extra + txt[i + 1:]
    txt = (txt[:i + 1] + ' size_t new_width = *new_width_p, new_height = *new_height_p, new_depth = *new_depth_p; uint64_t new_max_value = *new_max_value_p; '
           'C6Format format = *format_p;\n#define P7_OUT { *new_width_p = new_width; *new_height_p = new_height; *new_depth_p = new_depth; *new_max_value_p = new_max_value; *format_p = format; }\n'
           + txt[i + 1:])
    j = txt.rindex('}')
    txt = txt[:j] + ' P7_OUT }' + txt[j + 1:]
    up7.parts[-1] = ('static inline unsigned long long c6_stoull_sub(const cline* line, size_t pos) { cline verif_s; c6_substr(&verif_s, line, pos); return c6_stoull(&verif_s); }\n'
                     + txt)
    up7.write()
    ctx.functions_under_contract += up7.functions
    groups.append(Group(name='Image.load.p7_header', harness='harness/C06/p7.c', entry='h_p7_header', function='Image::load (P7 header loop)',
                        enforce='Image_load_p7_header', replace=['c6_fgetc', 'c6_strip_trailing_whitespace', 'c6_starts_with', 'c6_equals', 'c6_substr', 'c6_stoull', 'c6_at'],
                        loops=True, kind='loop-contract', object_bits=12,
                        min_post=6, replay=Replay(mode='p7_header', **RP),
                        clause_note='contracts/C06_p7.h: the header loop terminates for every stream (variant: bytes left), an end of file inside the header is an exception, '
                                    'a well-formed header is accepted and yields the width/height/maxval it says, gray/colour and alpha from the tuple type'))
    # PNG chunk framing + CRC chain (PNG spec 5.3; zlib crc32 by its documented contract, stubs/C06_png.h)
    upc = Unit(ctx, 'png_chunk')
    upc.raw('#include "contracts/C06_png.h"\n')
    PNGSIG = r'static void write_png_chunk\(const char \(&type\)\[5\],\s*const void\* data, be_uint32_t size,\s*Writer&& writer\)'
    _, pc_body, _, _ = lex.find_def(src.text('src/Image.cc'), PNGSIG, 'function')
    BE_VARS = '(?:%s)' % '|'.join(sorted(set(['size'] + re.findall(r'\bbe_uint32_t\s+(\w+)', pc_body))))   # the objects whose declared type is be_uint32_t
    upc.function(src, 'src/Image.cc', PNGSIG,
                 new_header='static void write_png_chunk(const char* type, const void* data, uint32_t size_host)',
                 body_prefix=' be_u32 size = BE_MAKE(size_host); /* be_uint32_t parameter initialised from the caller\'s integer */ ',
                 rules=[Rule(r'\bwriter\(', 'C6P_writer(', count='+', regex=True),
                        Rule(r'\bcrc32\(', 'C6P_crc32(', count='+', regex=True),
                        # type-directed: a be_uint32_t object used as a value converts to the host integer; &object stays the stored bytes
                        Rule(r'(?<![&\w.])(%s)\b(?!\s*=[^=])' % BE_VARS, r'BE_GET(\1)', count='+', regex=True),
                        # ... and is initialised / assigned from a host integer
                        Rule(r'(be_uint32_t\s+)?\b(%s) = ([^;]+);' % BE_VARS, lambda mo: '%s%s = BE_MAKE(%s);' % ('be_u32 ' if mo.group(1) else '', mo.group(2), mo.group(3)),
                             count=None, regex=True)])
    upc.write()
    ctx.functions_under_contract += upc.functions
    groups.append(Group(name='Image.save.png.chunk', harness='harness/C06/png_chunk.c', entry='h_png_chunk', function='write_png_chunk (src/Image.cc)',
                        enforce='write_png_chunk', kind='loop-free', min_post=5, object_bits=12,
                        clause_note='contracts/C06_png.h: length field, type, data, CRC over type||data in PNG chunk order, also for chunks without data (IEND); crc32 never continued from a null buffer',
                        replay=Replay(mode='png_save', extra=['in_alpha=0x0'], **RP)))
    heavy = lambda g: 0 if ('identity[alpha' in g.name or 'load.bmp[' in g.name or 'save.bmp[' in g.name) else 1 if 'gray' in g.name else 2
    groups.sort(key=heavy)     # long-running queries first (better packing of the job slots); the sort is stable
    return groups


EXPLANATION = (
    'Claimed NARROWLY and BOUNDED (category other): what is decided is the index / padding / row-order arithmetic and the memory safety of the load and save '
    'loops of src/Image.cc, for image width and height symbolic in 1..8 (quick; 1..16 thorough; 1..4 / 1..8 for the 16/32/64-bit branches of the gray '
    'expansion and for the BMP save->load lemma), every residue of width mod 4 included, all pixel / file contents. The property asks for 1..64: out of reach, '
    'the index arithmetic is non-linear (w*h*c) and every back end needs minutes per query already at 16. '
    'The code is verified block by block (statement ranges / blocks cut from Image::load and Image::save_helper on every run): function contracts enforced '
    'with goto-instrument --dfcc, the row loops under loop contracts with a ghost channel of a ghost pixel (so each postcondition speaks about every channel '
    'of every pixel) and a ghost byte of the file / output stream (so positions are compared with the positions the format defines). freadx, the writer '
    'callback, fseek, snprintf are trusted models (stubs/C06_io.h); freadx may throw io_error at every call (truncation). BMP header fields are decoded from '
    'the emitted bytes at the offsets of the format definition, i.e. as an independent decoder reads them. Two lemmas compose the saver and loader contracts '
    '(BMP: through the emitted header and the loader dispatch; PPM: sample array only). Loop-free and unbounded: BMP header struct layout and dispatch codes, '
    'the header part of the BMP loader.')
TRUSTED = [
    'stubs/C06_io.h: models of phosg::freadx (fills exactly n bytes or throws io_error, never stores more than n), fseek, the writer callback, '
    'malloc_unique (assumed to succeed), snprintf/strlen of the PPM header text, unordered_map::at on the 4-entry mask table',
    'contracts/C06_ppm.h: C06_malloc (same allocation written as sizeof(sample)*count so that cbmc types the buffer; size asserted to be a whole number of samples)',
    'stubs/libc.h: memcpy contract (PNG scan-line copy)',
    'stubs/C06_png.h: zlib crc32 by its zlib.h contract (null buffer -> initial value; CRC values abstract), be_uint32_t as byte-swapped storage (decided by C03), writer callback record',
    'contracts/C06_bmp.h, C06_ppm.h, C06_save.h: specification macros written from the BMP / Netpbm / PNG format definitions',
    'extraction rules of props/C06.py, in particular: union DataPtrs member puns (.as8/.as16/..) rewritten to casts of .raw (cbmc loses the points-to '
    'set across union members); le_uint16_t/le_uint32_t/le_int32_t header fields are plain integers (little-endian host model; the wrappers are C03)',
]
ASSUMPTIONS = [
    'image width and height within the stated bound of each group (1..8 quick / 1..16 thorough; halves for wide-channel gray expansion and the BMP lemma)',
    'little-endian host (BMP header structs are laid over le_* wrapper fields; proved separately by C03)',
    'malloc_unique / malloc for row and scan-line buffers succeeds (phosg::malloc_unique does not check its result)',
    'the byte stream delivered by freadx is the file content in order; a short file surfaces as io_error from freadx (src/Filesystem.cc, not re-verified here)',
    'the PPM text header written by snprintf parses back to the same width / height / maxval / tuple type (header text and parser are not decided)',
]
DROPS = ('blocks / statement ranges of Image::load and Image::save_helper become C functions with the surrounding locals as parameters; exceptions -> verif_exc '
         'with `if (verif_exc) return;` after every freadx; try/catch around freadx and around the mask lookups lowered by rule; unique_ptr / malloc_unique '
         '-> raw pointers (destructors dropped: no leak reasoning); unordered_map -> constant table; header = {} -> memset; WindowsBitmapHeader& -> pointer; '
         'Format::X -> Format_X; union member puns -> casts of .raw; template parameter Writer -> the C06_writer stub; string_printf arguments of throw '
         'expressions are discarded with the throw lowering')
NOT_DECIDED = [
    'dimensions above the bound (the property quantifies over 1..64; decided here: 1..8 quick, 1..16 thorough, less for wide-channel gray files)',
    'PNG validity beyond the scan-line buffer, the zlib call protocol of the IDAT chunk (group Image.save.png.idat: source = whole scan-line buffer, destination >= '
    'compressBound(source length), chunk = the bytes compress2 produced) and the chunk framing / CRC chain of write_png_chunk: the zlib stream itself (compress2), the CRC polynomial (crc32 is '
    'abstract), IHDR/gAMA field values and the chunk order at the four call sites -- external library calls and C++ aggregate code outside this technique '
    '(the native replay driver decodes a PNG with zlib, as a test only)',
    'PPM / PAM header text: snprintf output, fscanf / fgets / stoull parsing, whitespace handling, max-value -> channel-width mapping',
    'byte order of 16/32/64-bit PPM samples relative to the Netpbm definition (phosg writes and reads host order; only save/load identity is shown)',
    '"an independent decoder reads the same pixels" beyond the byte-position and header-field facts (no decoder is run inside the verifier)',
    'leaks on exception paths other than the PPM pixel read (unique_ptr RAII is dropped by the extraction); decided: a PPM/PGM/PAM file rejected at the pixel read releases the buffer allocated for it (ghosts g_alloc / g_freed)',
    'behaviour when an allocation fails (BMP loader and savers do not check malloc_unique)',
    'malformed (as opposed to truncated) files beyond the BMP info-header size: zero / negative / huge width or height, biHeight == INT32_MIN, w*h*3 overflowing int32, '
    'bfOffBits pointing anywhere (fseek result unchecked)',
    'signature dispatch at the top of Image::load and the control flow between the extracted blocks (commit after the row loops is outside the blocks: '
    '"members unchanged on a truncated BMP" rests on the blocks having no access to *this plus C++ exception propagation)',
    'a stand-alone, unbounded obligation for init_bmp_header (tried for dimensions up to 64 and 8192: no engine finishes the non-linear bfSize identity)',
]
CLAIMED = True
MANIFEST = dict(
    category='other',
    text=('Bounded symbolic verification with function and loop contracts: the gray->RGB expansion, the BI_RGB / BI_BITFIELDS row loops, the BMP save loops '
          '(header decoded from the emitted bytes), the PNG scan-line copy and the PPM sample block of src/Image.cc are cut from the source on every run and '
          'proved memory-safe and position-correct (ghost pixel / ghost stream byte) for every image with width, height in 1..8 (thorough 1..16; wide-channel '
          'gray files and the BMP composition lemma: half of that), all residues of width mod 4, all contents, with freadx throwing at any call. '
          'BMP struct layout, loader dispatch codes and the header part of the BMP loader are loop-free proofs without a bound. '
          'Two genuine defects were found and reproduced natively under ASan (fixes/C06-1, C06-2).'),
    note=('category other because every loop / index obligation is bounded in the image dimension (the property asks for 1..64; non-linear index arithmetic '
          'does not scale that far) and because large parts of the statement are not decided at all: PNG/zlib/CRC validity, PPM header text and parsing, '
          'leak freedom, allocation failure, malformed dimensions (see not_decided). Trusted: cbmc / goto-instrument, the answering SAT solver, the extractor '
          'and its rules, the I/O stubs in stubs/C06_io.h, the format specification macros.'),
    technique='function contracts + loop contracts (goto-instrument --dfcc --apply-loop-contracts), ghost pixel / ghost stream byte, cbmc SAT back ends; bounded image dimensions',
)
