/* C10 specification of the Merkle-Damgard padding shared by MD5 (RFC 1321 section 3.1, 3.2) and SHA-1 / SHA-256
 * (FIPS 180-4 section 5.1.1), in octets for a message of `size` octets:
 *
 *   append the octet 0x80 ("a single 1 bit" followed by seven 0 bits), then k zero octets where k >= 0 is the smallest
 *   number such that size + 1 + k = 56 (mod 64), then the 64-bit representation of the message length in BITS
 *   (size * 8; RFC 1321: "only the low-order 64 bits"):
 *     SHA: big-endian (most significant octet first);  MD5: low-order word first, each word low-order byte first,
 *     i.e. little-endian.
 *   Hence the total length T is the least multiple of 64 with T >= size + 9, the octets at positions
 *   size+1 .. T-9 are zero and positions T-8 .. T-1 hold the length. */
#ifndef C10_MD_PADDING_SPEC_H
#define C10_MD_PADDING_SPEC_H
#include <stdint.h>

#define C10_MD_TOTAL(nblocks) (((uint64_t)(nblocks)) << 6)
#define C10_MD_BITLEN(size) ((uint64_t)(((uint64_t)(size)) * 8u))
/* octet j (0..7, in message order) of the length field */
#define C10_MD_LEN_BYTE_BE(size, j) ((uint8_t)(C10_MD_BITLEN(size) >> (8 * (7 - (j)))))
#define C10_MD_LEN_BYTE_LE(size, j) ((uint8_t)(C10_MD_BITLEN(size) >> (8 * (j))))
/* first position that is not covered by a complete 64-byte block of the message itself */
#define C10_MD_TAIL_START(size) (((uint64_t)(size)) & ~(uint64_t)63)

#endif
