/* C04: contracts of the list / dict arms of JSON::serialize over the token emitters of stubs/C04_emit.h (piece 6).
 * One compilation per container kind (-DC04_DICT=0|1).  The postcondition is the property's: the text is `[` V (`,` V)* `]`
 * resp. `{` S `:` V (`,` S `:` V)* `}` with optional whitespace -- i.e. it is accepted by the RFC 8259 grammar automaton --
 * with exactly one V per element, children serialised with the parent's options, list order kept. */
#ifndef C04_CONTAINER_H
#define C04_CONTAINER_H
#include "stubs/C04_emit.h"

#define C04_EMIT_GHOSTS g_q, g_count, g_args_ok
#ifdef C04_EMIT_ABSTRACT
#define C04_SIZE_OK(ret) ((ret)->size <= C04_BIG)
#else
#define C04_SIZE_OK(ret) ((ret)->size <= (ret)->cap)
#endif
#define C04_MEMBER_LOOP_INV(ret, i, n) \
  ((i) <= (n) && g_count == (i) && g_q == ((i) == 0 ? C04_Q_OPEN : C04_Q_VALUE) && ((i) == 0 ? (ret)->size == 1 : (ret)->size > 1) && C04_SIZE_OK(ret) && g_args_ok && verif_exc == 0)
#ifdef VERIF_SMALL
#define C04_NMAX_ 4
#else
#define C04_NMAX_ C04_BIG
#endif
#define C04_SER_REQ(K) \
  __CPROVER_requires(__CPROVER_is_fresh(self, sizeof(JSONV))) \
  __CPROVER_requires(self->kind == K && verif_exc == 0 && self->n < C04_NMAX_) \
  __CPROVER_requires(__CPROVER_is_fresh(ret, sizeof(vstr))) \
  __CPROVER_requires(g_args_ok && g_options == options && g_indent == indent_level && g_format == ((options & SerializeOption_FORMAT) != 0) && g_mode == escape_mode)
#define C04_SER_ENS \
  __CPROVER_ensures(verif_exc == 0) \
  __CPROVER_ensures(g_q == C04_Q_ACCEPT) \
  __CPROVER_ensures(g_count == self->n) \
  __CPROVER_ensures(g_args_ok) \
  __CPROVER_ensures(ret->size >= 2) \
  __CPROVER_assigns(verif_exc, ret->size, g_q, g_count, g_args_ok)

#ifdef C04_EMIT_ABSTRACT
void JSON_ser_list(const JSONV* self, vstr* ret, uint32_t options, size_t indent_level, int escape_mode)
C04_SER_REQ(JK_list_type) C04_SER_ENS;
void JSON_ser_dict(const JSONV* self, vstr* ret, uint32_t options, size_t indent_level, int escape_mode)
C04_SER_REQ(JK_dict_type) C04_SER_ENS;
/* the lambda add_key: one member `"key":value` (preceded by a comma unless it is the first) */
void JSON_ser_dict_add_key(vstr* ret, bool format, uint32_t options, size_t indent_level, int escape_mode, const vstr* key, size_t value)
__CPROVER_requires(__CPROVER_is_fresh(ret, sizeof(vstr)))
__CPROVER_requires((g_q == C04_Q_OPEN && ret->size == 1) || (g_q == C04_Q_VALUE && ret->size > 1))
__CPROVER_requires(C04_SIZE_OK(ret) && g_count < C04_BIG)
__CPROVER_requires(g_args_ok && g_options == options && g_indent == indent_level && g_format == format && g_mode == escape_mode)
__CPROVER_ensures(g_q == C04_Q_VALUE && g_count == __CPROVER_old(g_count) + 1 && ret->size > 1 && C04_SIZE_OK(ret) && g_args_ok)
__CPROVER_assigns(ret->size, g_q, g_count, g_args_ok);
#endif
#endif
