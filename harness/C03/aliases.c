/* C03: supporting static fact as an obligation (x_alias_names.h is written by props/C03.py on every run from the alias table of
 * src/Encoding.hh): every alias NAME promises a byte order and an exposed type -- be_/le_/re_ + the type -- and the template
 * instantiation it stands for must be that one (float / double stored in uint32_t / uint64_t). */
#include "contracts/verif.h"
#include "x_alias_names.h"
int verif_exc;
unsigned g_unused;
void h_aliases(void)
{
  unsigned in_unused; g_unused = in_unused;      /* (the native replay is started from the input assignment of the counterexample: there has to be one) */
  __CPROVER_assert(C03_ALIASES_ARE_WHAT_THEIR_NAMES_SAY, "each wrapper alias instantiates the class and the types its name says: " C03_ALIAS_FINDING);
  VERIF_REACH();
}
