/* C07: ghosts, the Image type invariant and the clause macros shared by the loop-level contracts (contracts/C07_image.h) and the
 * memory-level obligations of the pixel accessors (contracts/C07_pixel_mem.h). */
#ifndef C07_CLAUSES_H
#define C07_CLAUSES_H
#include "contracts/C07_types.h"

/* ---- ghosts (defined in the harness) ---- */
extern const Image *g_dimg, *g_simg, *g_mimg;
/* ghosts that only name the canvas shapes on entry, so that a counterexample carries them to the native replay */
extern ssize_t g_dw, g_dh, g_sw, g_sh, g_mw, g_mh;
extern bool g_dalpha, g_salpha, g_malpha;
extern uint8_t g_dcw, g_scw, g_mcw;
#define SHAPE_IS(i, w, h, al, cw) ((i)->width == (w) && (i)->height == (h) && (i)->has_alpha == (al) && (i)->channel_width == (cw))
extern ssize_t g_dx, g_dy, g_sx, g_sy, g_mx, g_my, g_ex, g_ey;
extern uint64_t g_dr, g_dg, g_db, g_da, g_sr, g_sg, g_sb, g_sa, g_mr, g_mg, g_mb, g_ma, g_er, g_eg, g_eb, g_ea;
/* the custom_blit callback is an arbitrary function; it is sampled at one symbolic argument tuple */
extern uint32_t g_cb_d, g_cb_s, g_cb_out;
/* clamp_blit_dimensions: width/height before its final "empty if negative" step (witness assigned by a ghost statement inside the function) */
extern ssize_t g_cw, g_ch;
/* blend arithmetic, sampled at one symbolic argument tuple per channel ("function point"): alpha g_t_al, colour/source channel g_t_c*,
 * destination channel g_t_d*, divisor g_t_mx, effective-alpha inputs g_t_e1,g_t_e2; g_bo_* / g_bo_e name the results.  The formulas
 * are only ever evaluated on these never-assigned ghosts, so every instance in a verification condition is the same term. */
extern bool g_tup_ok;
extern uint64_t g_t_al, g_t_cr, g_t_cg, g_t_cb, g_t_ca, g_t_dr, g_t_dg, g_t_db, g_t_da, g_t_mx, g_t_e1, g_t_e2, g_bo_r, g_bo_g, g_bo_b, g_bo_a, g_bo_e;
extern uint64_t g_ci_dr, g_ci_dg, g_ci_db, g_ci_da, g_ci_sr, g_ci_sg, g_ci_sb, g_ci_sa, g_co_r, g_co_g, g_co_b, g_co_a;

/* ---- type invariant of Image, coordinate range ---- */
#ifdef VERIF_SMALL       /* re-ask for a counterexample that the native replay driver can rebuild: canvases <= 16x16, |coordinate| < 64 */
#define C07_CBITS 6
#undef C07_DIMMAX
#define C07_DIMMAX 17
#endif
#ifndef C07_CBITS
#define C07_CBITS 61
#endif
#define C07_CMAX ((ssize_t)1 << C07_CBITS)          /* |coordinate| < 2^61: no signed overflow (UB) in the clipping arithmetic */
#ifndef C07_DIMMAX
#define C07_DIMMAX C07_CMAX                         /* canvas width/height: any non-negative value below 2^61 */
#endif
#define COORD_OK(v) (-C07_CMAX < (v) && (v) < C07_CMAX)
#define MASKW(cw) (0xFFFFFFFFFFFFFFFFULL >> (64 - (cw)))
#define CW_OK(i) ((i)->channel_width == 8 || (i)->channel_width == 16 || (i)->channel_width == 32 || (i)->channel_width == 64)
#define IMG_VALID(i) (CW_OK(i) && (i)->max_value == MASKW((i)->channel_width) && \
                      (i)->width >= 0 && (i)->height >= 0 && (i)->width < C07_DIMMAX && (i)->height < C07_DIMMAX)
#define OUTSIDE(i, x, y) ((x) < 0 || (y) < 0 || (x) >= (i)->width || (y) >= (i)->height)
/* a ghost pixel value is one that read_pixel can report: channels within the channel width, alpha == max without alpha channel */
#define GHOST_WF(i, r, g, b, a) ((r) <= (i)->max_value && (g) <= (i)->max_value && (b) <= (i)->max_value && (a) <= (i)->max_value && \
                                 ((i)->has_alpha || (a) == (i)->max_value))

/* ---- what a stored pixel looks like after write_pixel(r,g,b,a) ---- */
#define WCH(v, i) (((uint64_t)(v)) & (i)->max_value)
#define WA(v, i) ((i)->has_alpha ? (((uint64_t)(v)) & (i)->max_value) : (i)->max_value)

/* ---- clause macros shared with the memory-level obligations ---- */
#define WP_EXC(i, x, y, exc) (OUTSIDE(i, x, y) ? (exc) == EXC_out_of_range : (exc) == 0)
#define WP_PIX(i, x, y, r, g, b, a, gx, gy, o_r, o_g, o_b, o_a, n_r, n_g, n_b, n_a) \
  ((!OUTSIDE(i, x, y) && (x) == (gx) && (y) == (gy)) \
     ? ((n_r) == WCH(r, i) && (n_g) == WCH(g, i) && (n_b) == WCH(b, i) && (n_a) == WA(a, i)) \
     : ((n_r) == (o_r) && (n_g) == (o_g) && (n_b) == (o_b) && (n_a) == (o_a)))
#define RP_PIX(i, x, y, r, g, b, a, gx, gy, v_r, v_g, v_b, v_a) \
  ((!OUTSIDE(i, x, y) && (x) == (gx) && (y) == (gy)) ==> \
   (((r) == 0 || *(r) == (v_r)) && ((g) == 0 || *(g) == (v_g)) && ((b) == 0 || *(b) == (v_b)) && ((a) == 0 || *(a) == (v_a))))
/* 0xRRGGBBAA packing of the uint32_t overloads */
#define COMPRESS(r, g, b, a) ((uint32_t)((((r) & 0xFF) << 24) | (((g) & 0xFF) << 16) | (((b) & 0xFF) << 8) | ((a) & 0xFF)))
#define C_R(c) ((uint64_t)(((c) >> 24) & 0xFF))
#define C_G(c) ((uint64_t)(((c) >> 16) & 0xFF))
#define C_B(c) ((uint64_t)(((c) >> 8) & 0xFF))
#define C_A(c) ((uint64_t)((c) & 0xFF))

#endif
