"""Lexer-level helpers for the mechanical C++ -> C extraction (DESIGN.md 3.1).

Nothing here knows about phosg.  All structure finding (function bodies, loops,
casts, throw statements) is done on a *masked* copy of the text in which comments are
blanked and the contents of string/char literals are replaced by '_', so that braces,
parentheses and keywords inside literals or comments are never seen.
"""
import re


class ExtractionBreak(Exception):
    """The source no longer has the shape the extraction table expects (exit 2)."""


def strip_comments(text):
    """Replace comments by spaces (newlines kept) -- offsets are preserved."""
    out = []
    i, n = 0, len(text)
    while i < n:
        c = text[i]
        if c == '/' and i + 1 < n and text[i + 1] == '/':
            j = text.find('\n', i)
            if j < 0:
                j = n
            out.append(' ' * (j - i))
            i = j
        elif c == '/' and i + 1 < n and text[i + 1] == '*':
            j = text.find('*/', i + 2)
            j = n if j < 0 else j + 2
            out.append(''.join('\n' if ch == '\n' else ' ' for ch in text[i:j]))
            i = j
        elif c == '"' or c == "'":
            j = _lit_end(text, i)
            out.append(text[i:j])
            i = j
        else:
            out.append(c)
            i += 1
    return ''.join(out)


def _lit_end(text, i):
    q = text[i]
    # C++14 digit separators (1'000) do not occur in phosg; raw strings neither.
    j = i + 1
    n = len(text)
    while j < n:
        if text[j] == '\\':
            j += 2
            continue
        if text[j] == q:
            return j + 1
        if text[j] == '\n' and q == "'":
            return j  # stray apostrophe; be tolerant
        j += 1
    return n


def mask(text):
    """Same length as text; literal contents -> '_' (quotes kept). Comments must already be stripped."""
    out = []
    i, n = 0, len(text)
    while i < n:
        c = text[i]
        if c == '"' or c == "'":
            j = _lit_end(text, i)
            if j - i >= 2:
                out.append(c + '_' * (j - i - 2) + text[j - 1])
            else:
                out.append(text[i:j])
            i = j
        else:
            out.append(c)
            i += 1
    return ''.join(out)


_PAIRS = {'{': '}', '(': ')', '[': ']'}


def match_close(masked, i):
    """Index of the bracket matching masked[i]."""
    o = masked[i]
    c = _PAIRS[o]
    depth = 0
    for j in range(i, len(masked)):
        ch = masked[j]
        if ch == o:
            depth += 1
        elif ch == c:
            depth -= 1
            if depth == 0:
                return j
    raise ExtractionBreak('unbalanced %r at offset %d' % (o, i))


def match_angle(masked, i):
    """Index of '>' closing the template argument list opened at masked[i]=='<' (types only)."""
    depth = 0
    for j in range(i, len(masked)):
        ch = masked[j]
        if ch == '<':
            depth += 1
        elif ch == '>':
            depth -= 1
            if depth == 0:
                return j
        elif ch in ';{}':
            break
    raise ExtractionBreak('unbalanced < at offset %d' % i)


def find_def(text, sig_regex, what='definition'):
    """Locate exactly one definition whose header matches sig_regex (regex is matched on the
    masked text and must end just before the opening '{', optional whitespace allowed).
    Returns (header_text, body_text_with_braces, start, end)."""
    m = mask(text)
    hits = []
    for mo in re.finditer(sig_regex, m, re.S):
        j = mo.end()
        while j < len(m) and m[j] in ' \t\r\n':
            j += 1
        if j < len(m) and m[j] == '{':
            hits.append((mo.start(), mo.end(), j))
    if len(hits) != 1:
        raise ExtractionBreak('%s /%s/: %d matches (exactly 1 required)' % (what, sig_regex, len(hits)))
    s, he, b = hits[0]
    e = match_close(m, b)
    return text[s:he], text[b:e + 1], s, e + 1


def find_block(text, intro_regex, what='block'):
    """Locate exactly one brace block introduced by intro_regex (which ends before '{')."""
    return find_def(text, intro_regex, what)


def find_loops(body):
    """Positions of loop headers inside body, in textual order.
    Returns a list of (kind, insert_pos) where insert_pos is the offset at which a CBMC loop
    contract has to be inserted (right after the closing ')' of for/while; for do-while: after
    the ')' of the trailing while)."""
    m = mask(body)
    loops = []
    do_whiles = set()
    # first pass: do ... while(...)
    for mo in re.finditer(r'\bdo\b', m):
        j = mo.end()
        while m[j] in ' \t\r\n':
            j += 1
        if m[j] != '{':
            raise ExtractionBreak('do without braces')
        e = match_close(m, j)
        k = e + 1
        while m[k] in ' \t\r\n':
            k += 1
        if not m.startswith('while', k):
            raise ExtractionBreak('do without while')
        p = m.index('(', k)
        pe = match_close(m, p)
        do_whiles.add(k)
        loops.append((mo.start(), 'do', pe + 1))
    for mo in re.finditer(r'\b(for|while)\b', m):
        if mo.start() in do_whiles:
            continue
        j = mo.end()
        while m[j] in ' \t\r\n':
            j += 1
        if m[j] != '(':
            continue
        pe = match_close(m, j)
        loops.append((mo.start(), mo.group(1), pe + 1))
    loops.sort()
    return [(k, p) for (_, k, p) in loops]


def inject_loop_contracts(body, contracts, nloops, fname=''):
    """contracts: {ordinal (1-based): text}; nloops: number of loops the table expects."""
    loops = find_loops(body)
    if len(loops) != nloops:
        raise ExtractionBreak('expected %d loops, found %d' % (nloops, len(loops)))
    for ordn in sorted(contracts, reverse=True):
        if not (1 <= ordn <= nloops):
            raise ExtractionBreak('loop ordinal %d out of range' % ordn)
        kind, pos = loops[ordn - 1]
        ctext = contracts[ordn].strip()
        if '@LOCALS@' in ctext:
            # the frame of the loop as far as plain local variables are concerned is read from the loop's own text: every
            # identifier the body (or the header) assigns that is not declared inside the body and is not a member access
            ctext = ctext.replace('@LOCALS@', ', '.join(loop_assigned_locals(body, kind, pos)) or 'verif_exc')
        # (the contract text names locals of the loop; when an edit renames or removes them the unit no longer compiles: the pipeline then
        #  re-compiles with -DVERIF_NO_LOOP_CONTRACTS and falls back to a bounded check of the enclosing contract, vf/pipeline.py)
        guard = 'VERIF_NO_LOOP_CONTRACTS' + ('_' + fname if fname else '')
        body = body[:pos] + '\n#if !defined(VERIF_NO_LOOP_CONTRACTS) && !defined(%s)\n' % guard + ctext + '\n#endif\n' + body[pos:]
        # cbmc 6.11 silently drops a loop contract attached to `for (;;)`; `while (1)` is the same loop
        head = re.search(r'for\s*\(\s*;\s*;\s*\)\s*$', body[:pos])
        if kind == 'for' and head:
            body = body[:head.start()] + 'while (1)' + body[pos:]
    return body


_LAMBDA = re.compile(r'\bauto\s+(\w+)\s*=\s*\[&\]\s*\(([^()]*)\)\s*(?:->\s*void\s*)?\{')


def _split_top(s):
    out, depth, cur = [], 0, ''
    for ch in s:
        if ch in '([{<':
            depth += 1
        elif ch in ')]}>':
            depth -= 1
        if ch == ',' and depth == 0:
            out.append(cur)
            cur = ''
        else:
            cur += ch
    if cur.strip():
        out.append(cur)
    return [x.strip() for x in out]


def inline_lambdas(text):
    """Local by-reference void lambdas are expanded at their call statements (C has no closures):

        auto NAME = [&](T1 p1, T2 p2) [-> void] { BODY };   ...   NAME(a1, a2);
    becomes                                                ...   { T1 p1 = (a1); T2 p2 = (a2); BODY }

    Done only when that is meaning-preserving by construction: capture list exactly [&]; value parameters; BODY has no
    `return` and does not mention NAME; every other occurrence of NAME up to the end of the enclosing block is a full
    call statement `NAME(args);` with as many arguments as parameters; no argument mentions a parameter name.  A lambda
    that does not qualify is left alone (and then stops the extraction of a function that contains it as C++ residue).
    Assumption (DESIGN.md): no declaration between the lambda and a call re-declares a name the body uses."""
    start = 0
    while True:
        m = mask(text)
        mo = _LAMBDA.search(m, start)
        if not mo:
            return text
        start = mo.end()
        new = _inline_one(text, m, mo)
        if new is not None:
            text = new
            start = mo.start()


def _inline_one(text, m, mo):
    ob = mo.end() - 1
    cb = match_close(m, ob)
    mt = re.match(r'\s*;', m[cb + 1:])
    if not mt:
        return None
    name = mo.group(1)
    params = _split_top(text[mo.start(2):mo.end(2)])
    pnames = []
    for prm in params:
        pm = re.match(r'^(.*?)(\w+)$', prm, re.S)
        if not pm or '&' in pm.group(1):
            return None
        pnames.append(pm.group(2))
    body = text[ob + 1:cb]
    mbody = m[ob + 1:cb]
    if re.search(r'\breturn\b', mbody) or re.search(r'\b%s\b' % name, mbody):
        return None
    depth, end = 0, len(text)          # enclosing block = up to the unmatched '}' after the definition
    for j in range(cb + 1, len(m)):
        if m[j] == '{':
            depth += 1
        elif m[j] == '}':
            if depth == 0:
                end = j
                break
            depth -= 1
    defn_end = cb + 1 + mt.end()
    scope, mscope = text[defn_end:end], m[defn_end:end]
    out, pos = [], 0
    for um in re.finditer(r'\b%s\b' % name, mscope):
        call = re.match(r'%s\s*\(' % name, mscope[um.start():])
        pre = mscope[:um.start()].rstrip()
        if not call or (pre and pre[-1] not in ';{}' and not re.search(r'(\belse|\))$', pre)):
            return None
        op = um.start() + call.end() - 1
        cp = match_close(mscope, op)
        semi = re.match(r'\s*;', mscope[cp + 1:])
        if not semi:
            return None
        args = _split_top(scope[op + 1:cp])
        if len(args) != len(params) or any(re.search(r'\b%s\b' % pn, a) for pn in pnames for a in args):
            return None
        binds = ' '.join('%s = (%s);' % (prm, a) for prm, a in zip(params, args))
        out.append(scope[pos:um.start()])
        out.append('{ %s %s }' % (binds, body))
        pos = cp + 1 + semi.end()
    out.append(scope[pos:])
    nl = text[mo.start():defn_end].count('\n')
    return text[:mo.start()] + '\n' * nl + ''.join(out) + text[end:]


def rewrite_casts(text):
    """static_cast<T>(e) / reinterpret_cast<T>(e) / const_cast<T>(e)  ->  ((T)(e))."""
    while True:
        m = mask(text)
        mo = re.search(r'\b(static_cast|reinterpret_cast|const_cast)\s*<', m)
        if not mo:
            return text
        a = mo.end() - 1
        ae = match_angle(m, a)
        j = ae + 1
        while m[j] in ' \t\r\n':
            j += 1
        if m[j] != '(':
            raise ExtractionBreak('cast without parenthesis')
        pe = match_close(m, j)
        ty = text[a + 1:ae].strip()
        text = text[:mo.start()] + '((' + ty + ')(' + text[j + 1:pe] + '))' + text[pe + 1:]


def lower_throws(text, ret_zero, classmap=None, witness=''):
    """throw T(args);  ->  { verif_exc = EXC_T; <witness> return <ret_zero>; }
    Returns (text, n)."""
    n = 0
    while True:
        m = mask(text)
        mo = re.search(r'\bthrow\b', m)
        if not mo:
            return text, n
        j = mo.end()
        semi = j
        depth = 0
        while semi < len(m):
            ch = m[semi]
            if ch in '([{':
                depth += 1
            elif ch in ')]}':
                depth -= 1
            elif ch == ';' and depth == 0:
                break
            semi += 1
        expr = text[j:semi].strip()
        mt = re.match(r'([A-Za-z_][\w:]*)', expr)
        if not mt:
            # bare rethrow 'throw;'
            cls = None
        else:
            cls = mt.group(1).replace('std::', '').replace('::', '_')
        if cls is None:
            rep = '{ return %s; }' % ret_zero
        else:
            if classmap and cls in classmap:
                cls = classmap[cls]
            rep = '{ verif_exc = EXC_%s; %s return %s; }' % (cls, witness, ret_zero)
        text = text[:mo.start()] + rep + text[semi + 1:]
        n += 1


class Rule:
    """One textual substitution with a must-fire count.
    count: int (exactly), '+' (at least once), None (any number, generic rule)."""

    def __init__(self, pat, rep, count=None, regex=False):
        self.pat, self.rep, self.count, self.regex = pat, rep, count, regex

    def apply(self, text, where=''):
        if self.regex:
            new, n = re.subn(self.pat, self.rep, text, flags=re.S)
        else:
            n = text.count(self.pat)
            new = text.replace(self.pat, self.rep)
        if self.count == '+':
            if n < 1:
                raise ExtractionBreak('%s: rule %r must fire at least once' % (where, self.pat))
        elif self.count is not None and n != self.count:
            raise ExtractionBreak('%s: rule %r fired %d times, expected %d' % (where, self.pat, n, self.count))
        return new


GENERIC = [
    Rule(r'\bthis->', 'self->', regex=True),
    Rule(r'\bnullptr\b', '0', regex=True),
    Rule(r'\bstd::', '', regex=True),
    Rule(r'\bphosg::', '', regex=True),
    Rule(r'\bconstexpr\b\s*', '', regex=True),
    Rule(r'\bnoexcept\b\s*', '', regex=True),
    Rule(r'\bthread_local\b\s*', '', regex=True),     # sequential proofs: thread-local storage is plain static storage
]

# applied after the cast rewriting: type traits / constants of the C++ headers that have a direct C spelling
POST_GENERIC = [
    Rule(r'\busing (\w+) = make_(unsigned|signed)_t<(\w+)>;', lambda mo: 'typedef %s_OF(%s) %s;' % (mo.group(2).upper(), mo.group(3), mo.group(1)), regex=True),
    Rule(r'\bmake_(unsigned|signed)_t<(\w+)>', lambda mo: '%s_OF(%s)' % (mo.group(1).upper(), mo.group(2)), regex=True),
    Rule(r'\bbits_for_type<(\w+)>', r'((uint8_t)(sizeof(\1) << 3))', regex=True),
    Rule(r'\bis_(unsigned|signed)_v<(\w+)>', lambda mo: 'IS_%s(%s)' % (mo.group(1).upper(), mo.group(2)), regex=True),
    # std::min<T>(a, b) / std::max<T>(a, b) with an explicit template argument (both operands converted to T; operands are evaluated twice by
    # the macro, so only side-effect-free operands are meaning-preserving -- the extracted code has no others at these call sites)
    Rule(r'(?<![\w.>])(min|max)<([\w ]+)>\(', lambda mo: 'VERIF_%s_T(%s, ' % (mo.group(1).upper(), mo.group(2)), regex=True),
]

RESIDUE = [
    (r'::', 'scope operator'),
    (r'\btemplate\b', 'template'),
    (r'\b(static|reinterpret|const|dynamic)_cast\b', 'C++ cast'),
    (r'\bauto\b', 'auto'),
    (r'\bthrow\b', 'throw'),
    (r'\btry\b', 'try'),
    (r'\bcatch\b', 'catch'),
    (r'\bnew\b', 'new'),
    (r'\bdelete\b', 'delete'),
    (r'\boperator\b', 'operator'),
    (r'\bthis\b', 'this'),
    (r'\bnamespace\b', 'namespace'),
    (r'\btypename\b', 'typename'),
]


def residue_scan(text, where=''):
    m = mask(text)
    for pat, what in RESIDUE:
        mo = re.search(pat, m)
        if mo:
            ctx = text[max(0, mo.start() - 40):mo.end() + 40].replace('\n', ' ')
            raise ExtractionBreak('%s: C++ residue (%s) after rewriting: ...%s...' % (where, what, ctx))


def propagate_exc(body, callees, ret_zero):
    """After every *simple statement* that calls one of `callees` (C names, may throw) insert
    `if (verif_exc) return <ret_zero>;`.  Statements that start with `return` need no check (the callee returns a
    zero value and the flag stays set).  Calls inside `if (...)`/`while (...)`/`for (...)` headers are not handled:
    raise so that a bespoke rule is written for them.  Returns (body, n_inserted)."""
    n = 0
    pos = 0
    pat = re.compile(r'\b(' + '|'.join(re.escape(c) for c in callees) + r')\s*\(')
    while True:
        m = mask(body)
        mo = pat.search(m, pos)
        if not mo:
            return body, n
        # statement start: previous ; { } at any depth
        s = mo.start()
        while s > 0 and m[s - 1] not in ';{}':
            s -= 1
        stmt_head = m[s:mo.start()]
        # statement end: next ';' at paren depth 0 counted from the statement start
        depth = 0
        e = s
        while e < len(m):
            ch = m[e]
            if ch in '([':
                depth += 1
            elif ch in ')]':
                depth -= 1
            elif ch == ';' and depth == 0:
                break
            elif ch in '{}' and depth == 0:
                break
            e += 1
        if e >= len(m) or m[e] != ';':
            raise ExtractionBreak('call to %s inside a statement header: needs a bespoke rule' % mo.group(1))
        head = stmt_head.strip()
        if re.match(r'(if|while|for|switch)\b', head):
            raise ExtractionBreak('call to %s inside a control header: needs a bespoke rule' % mo.group(1))
        if re.match(r'return\b', head):
            pos = e + 1
            continue
        ins = ' if (verif_exc) return %s;' % ret_zero if ret_zero != '' else ' if (verif_exc) return;'
        if body[e + 1:e + 1 + len(ins)] == ins:
            pos = e + 1 + len(ins)
            continue
        body = body[:e + 1] + ins + body[e + 1:]
        n += 1
        pos = e + 1 + len(ins)


# ---------------------------------------------------------------------------------------------------------------------
# Control-flow slice of a loop body with respect to a set of loop-carried variables
# ---------------------------------------------------------------------------------------------------------------------
def _skip_ws(m, i):
    while i < len(m) and m[i] in ' \t\r\n':
        i += 1
    return i


def _stmt_end(m, i):
    """end (exclusive) of the statement starting at i in masked text m"""
    i = _skip_ws(m, i)
    if i >= len(m):
        return i
    if m[i] == '{':
        return match_close(m, i) + 1
    mo = re.match(r'(if|for|while|switch)\b', m[i:])
    if mo:
        p = _skip_ws(m, i + mo.end())
        if m.startswith('constexpr', p):
            p = _skip_ws(m, p + 9)
        if m[p] != '(':
            raise ExtractionBreak('slice: %s without (' % mo.group(1))
        e = _stmt_end(m, match_close(m, p) + 1)
        if mo.group(1) == 'if':
            q = _skip_ws(m, e)
            if re.match(r'else\b', m[q:]):
                e = _stmt_end(m, q + 4)
        return e
    if re.match(r'do\b', m[i:]):
        e = _stmt_end(m, i + 2)
        q = _skip_ws(m, e)
        if not m.startswith('while', q):
            raise ExtractionBreak('slice: do without while')
        p = m.index('(', q)
        return m.index(';', match_close(m, p)) + 1
    if re.match(r'try\b', m[i:]):
        e = _stmt_end(m, i + 3)
        while True:
            q = _skip_ws(m, e)
            if not re.match(r'catch\b', m[q:]):
                return e
            p = m.index('(', q)
            e = _stmt_end(m, match_close(m, p) + 1)
    # simple statement (may contain a lambda body or an initialiser list): up to the ';' at nesting depth 0
    depth = 0
    j = i
    while j < len(m):
        ch = m[j]
        if ch in '([{':
            depth += 1
        elif ch in ')]}':
            depth -= 1
        elif ch == ';' and depth == 0:
            return j + 1
        j += 1
    raise ExtractionBreak('slice: unterminated statement')


def slice_carried(body, carried, nondet='nondet_verif_bool()'):
    """body: text of a loop body between its braces (comments stripped).  Returns C text that keeps, of that body, only
      * the assignments to the variables in `carried` (statements `X = e;`, `X += e;`, `X++;`, `++X;` ...),
      * `continue;`, `break;` and `return ...;` statements that belong to THIS loop,
    under the control structure that encloses them, every condition replaced by a nondeterministic choice
    (an over-approximation of the paths: what the body can do to the carried variables between two evaluations of the loop
    header).  Anything else is dropped.  A construct the slicer cannot account for (a carried variable assigned inside a
    nested loop, a lambda, a condition or an argument list) is an extraction break."""
    names = '|'.join(re.escape(c) for c in carried) or r'(?!x)x'
    assign_stmt = re.compile(r'\s*(?:(?:\+\+|--)\s*(?:%s)\s*;|(?:%s)\s*(?:\+\+|--|(?:[-+*/%%&|^]|<<|>>)?=(?!=)[^;]*)\s*;)\s*$' % (names, names), re.S)
    any_assign = re.compile(r'(?<![\w.>])(?:(?:\+\+|--)\s*(?:%s)\b|(?:%s)\s*(?:\+\+|--|(?:[-+*/%%&|^]|<<|>>)?=(?!=)))' % (names, names))

    def seq(text, in_inner_loop):
        m = mask(text)
        out = []
        i = 0
        while True:
            i = _skip_ws(m, i)
            if i >= len(m):
                break
            e = _stmt_end(m, i)
            out.append(one(text[i:e], in_inner_loop))
            i = e
        return ''.join(o for o in out if o)

    def one(st, in_inner_loop):
        m = mask(st)
        s = m.strip()
        if s.startswith('{'):
            inner = seq(st[st.index('{') + 1:st.rindex('}')], in_inner_loop)
            return '{ %s }' % inner if inner else ''
        mo = re.match(r'\s*(if|for|while|switch)\b', m)
        if mo:
            p = m.index('(', mo.end() - 1)
            pe = match_close(m, p)
            if any_assign.search(m[p:pe + 1]):
                raise ExtractionBreak('slice: carried variable assigned inside a condition / loop header')
            kw = mo.group(1)
            be = _stmt_end(m, pe + 1)
            if kw == 'if':
                then = one(st[pe + 1:be], in_inner_loop)
                q = _skip_ws(m, be)
                els = one(st[q + 4:], in_inner_loop) if re.match(r'else\b', m[q:]) else ''
                if not then and not els:
                    return ''
                return 'if (%s) { %s } else { %s }' % (nondet, then, els)
            inner = one(st[pe + 1:be], True)
            if inner:
                raise ExtractionBreak('slice: carried variable assigned (or return) inside a nested loop / switch')
            return ''
        if re.match(r'\s*do\b', m):
            e = _stmt_end(m, m.index('do') + 2)
            if one(st[m.index('do') + 2:e], True):
                raise ExtractionBreak('slice: carried variable assigned (or return) inside a nested loop')
            return ''
        if re.match(r'\s*try\b', m):
            if any_assign.search(m) or re.search(r'\b(continue|break|return)\b', m):
                raise ExtractionBreak('slice: try block touching the carried variables / leaving the loop')
            return ''
        if re.match(r'\s*(continue|break)\s*;\s*$', m):
            return '' if in_inner_loop else s + ' '
        if re.match(r'\s*return\b', m):
            return 'return; '
        if assign_stmt.match(m):
            return st.strip() + ' '
        if any_assign.search(m):
            raise ExtractionBreak('slice: carried variable assigned inside a compound expression / lambda: %s' % ' '.join(st.split())[:80])
        return ''
    return seq(body, False)


def loop_assigned_locals(body, kind, pos):
    """Plain identifiers assigned by the loop whose contract is inserted at `pos` (see find_loops): in its body, and for a
    `for` loop in its header.  Identifiers declared inside the loop body (block-local temporaries) and member / pointer
    targets (a.b, a->b, *p, a[i]) are not listed -- the latter must be named by the contract text itself."""
    m = mask(body)
    if kind == 'do':
        # contract goes after the trailing while (...): the body is the block in front of it
        k = m.rfind('}', 0, pos)
        depth, j = 0, k
        while j >= 0:
            if m[j] == '}':
                depth += 1
            elif m[j] == '{':
                depth -= 1
                if depth == 0:
                    break
            j -= 1
        span, header = m[j:k + 1], ''
    else:
        j = _skip_ws(m, pos)
        e = match_close(m, j) + 1 if m[j] == '{' else _stmt_end(m, j)
        span = m[j:e]
        # header: the parenthesis that ends right before pos
        q = pos - 1
        while q >= 0 and m[q] in ' \t\r\n':
            q -= 1
        depth, h = 0, q
        while h >= 0:
            if m[h] == ')':
                depth += 1
            elif m[h] == '(':
                depth -= 1
                if depth == 0:
                    break
            h -= 1
        header = m[h:q + 1]
    TYPES = r'(?:const\s+)?(?:unsigned\s+|signed\s+)?(?:u?int(?:8|16|32|64)_t|size_t|ssize_t|bool|char|int|long|double|float|auto|uint8_t)\s*[*&]?\s*'
    declared = set(re.findall(r'\b' + TYPES + r'([A-Za-z_]\w*)\s*(?:=|;|\[)', span))
    found = []
    for text in (header, span):
        for mo in re.finditer(r'(?<![\w.>\]\)*])([A-Za-z_]\w*)\s*(?:(?:[-+*/%&|^]|<<|>>)?=(?!=)|\+\+|--)', text):
            found.append(mo.group(1))
        for mo in re.finditer(r'(?:\+\+|--)\s*([A-Za-z_]\w*)\b(?!\s*(?:\.|->|\[))', text):
            found.append(mo.group(1))
    hdr_decl = set(re.findall(r'\b' + TYPES + r'([A-Za-z_]\w*)\s*=', header))
    out = []
    for n in found:
        if n in declared and n not in hdr_decl:
            continue
        if n not in out:
            out.append(n)
    return out
