/* C17 side-car contract for split_args (src/Strings.cc): "a command line given as one string is first tokenised like a
 * shell would".
 *
 * Decided here, independent of any quoting dialect: for a command line WITHOUT quote characters, backslashes and NULs
 * ("plain": every character is literal in every shell), the tokens are exactly the maximal runs of non-blank characters,
 * in order, byte for byte, and nothing is thrown; for every input the only exception is std::runtime_error.
 * What quotes and backslashes mean (the dialect) is NOT decided (props/C17.py NOT_DECIDED).
 *
 * Lock-step ghost specification (DESIGN.md 3.4), advanced at the start of every loop iteration by C17_SPLIT_GHOST_STEP:
 *   g_plain       every character consumed so far is plain
 *   g_ref_words   number of word starts so far: position z starts a word iff s[z] is non-blank and (z == 0 or s[z-1] blank)
 *   g_ref_start   position of the last word start;   g_ref_chars  number of non-blank characters so far
 *   g_snap_*      the values of g_ref_words / g_ref_start when z == g_ck (the observed position)
 * Output model: the result vector<string> is {ntok, curlen} plus one recorded character, the one pushed while z == g_ck:
 * (g_rec_tok, g_rec_off, g_rec_ch) = (index of the token it went to, its offset inside that token, the character). */
#ifndef C17_SPLIT_H
#define C17_SPLIT_H
#include "stubs/C17_strto.h"

typedef struct { size_t ntok; size_t curlen; } C17_tokvec;
extern size_t g_ck, g_size;
extern bool g_plain; extern size_t g_ref_words, g_ref_start, g_ref_chars, g_snap_words, g_snap_start;
extern bool g_rec; extern size_t g_rec_tok, g_rec_off, g_npush; extern char g_rec_ch;

#define C17_BLANK(c) ((c) == ' ' || (c) == '\t')                                  /* isblank, "C" locale */
#define C17_PLAIN(c) ((c) != '"' && (c) != '\'' && (c) != '\\' && (c) != 0)
static inline int C17_isblank(int c) { return C17_BLANK(c); }

/* ret.emplace_back(): a new, empty last token;  ret.back().push_back(c): append to the last token (which must exist) */
#define C17_tok_new(ret) do { (ret)->ntok++; (ret)->curlen = 0; } while (0)
#define C17_tok_push(ret, c) do { \
    __CPROVER_assert((ret)->ntok > 0, "assertion: ret.back() is called on a non-empty vector"); \
    if (z == g_ck) { g_rec = 1; g_rec_tok = (ret)->ntok - 1; g_rec_off = (ret)->curlen; g_rec_ch = (c); } \
    (ret)->curlen++; g_npush++; } while (0)

#define C17_SPLIT_GHOST_STEP do { \
    g_plain = g_plain && C17_PLAIN(s->data[z]); \
    if (g_plain && !C17_BLANK(s->data[z])) { g_ref_chars++; if (z == 0 || C17_BLANK(s->data[z - 1])) { g_ref_words++; g_ref_start = z; } } \
    if (z == g_ck) { g_snap_words = g_ref_words; g_snap_start = g_ref_start; } } while (0)

#define C17_SPLIT_REC_OK(s) (g_rec && g_rec_tok == g_snap_words - 1 && g_rec_off == g_ck - g_snap_start && g_rec_ch == (s)->data[g_ck])

#ifdef VERIF_SMALL
extern char g_t0, g_t1, g_t2, g_t3, g_t4, g_t5, g_t6, g_t7, g_t8;
#define C17_SB(s, k) ((s)->size < (k) || (s)->data[k] == g_t##k)
#define C17_SPLIT_SMALL_REQ(s) __CPROVER_requires((s)->size <= 8 && C17_SB(s, 0) && C17_SB(s, 1) && C17_SB(s, 2) && C17_SB(s, 3) && \
                                                  C17_SB(s, 4) && C17_SB(s, 5) && C17_SB(s, 6) && C17_SB(s, 7) && C17_SB(s, 8))
#else
#define C17_SPLIT_SMALL_REQ(s)
#endif

void split_args(C17_tokvec* ret, const vstr* s)
__CPROVER_requires(__CPROVER_is_fresh(ret, sizeof(C17_tokvec)))
__CPROVER_requires(ret->ntok == 0 && ret->curlen == 0)
__CPROVER_requires(__CPROVER_is_fresh(s, sizeof(vstr)))
__CPROVER_requires(s->size < 0x10000 && s->cap == s->size + 1 && s->size == g_size)
__CPROVER_requires(__CPROVER_is_fresh(s->data, s->cap))
__CPROVER_requires(s->data[s->size] == 0)
C17_SPLIT_SMALL_REQ(s)
__CPROVER_requires(verif_exc == EXC_none && g_plain && !g_rec && g_ref_words == 0 && g_ref_chars == 0 && g_npush == 0 && g_ref_start == 0)
__CPROVER_ensures(verif_exc == EXC_none || verif_exc == EXC_runtime_error)
/* plain command line: never throws; one token per word; every non-blank character is in the token of its word at its
 * offset from the word start, blanks are in no token, and nothing else is in any token */
__CPROVER_ensures(g_plain ==> verif_exc == EXC_none)
__CPROVER_ensures(g_plain ==> (ret->ntok == g_ref_words && g_npush == g_ref_chars))
__CPROVER_ensures((g_plain && g_ck < s->size && !C17_BLANK(s->data[g_ck])) ==> C17_SPLIT_REC_OK(s))
__CPROVER_ensures((g_plain && g_ck < s->size && C17_BLANK(s->data[g_ck])) ==> !g_rec)
__CPROVER_assigns(verif_exc, ret->ntok, ret->curlen, g_plain, g_ref_words, g_ref_start, g_ref_chars, g_snap_words, g_snap_start, g_rec, g_rec_tok, g_rec_off, g_rec_ch, g_npush);


#endif
