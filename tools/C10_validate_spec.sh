#!/bin/bash
# C10 development aid (not part of the proof): validates the *specification* macros of /verif/spec/C10_*.h.
#  1. compiles replay/C10/hash.cc natively (real phosg sources + the spec macros) in a scratch directory,
#  2. runs the spec_* modes (hashes of lengths 0..300 computed with the spec macros only) and compares every digest with
#     Python hashlib (md5, sha1, sha256), zlib.crc32 and a big-integer FNV-1a written from the definition,
#  3. recomputes the constant tables of the spec headers from their defining formulas (sin, square / cube roots of primes),
#  4. runs the real-code sweeps of the driver (crc32 .. sha256) against the driver's reference implementations.
# exit 0 = everything agrees.
set -e
V="$(cd "$(dirname "$0")/.." && pwd)"
SRC="${1:-/repo}"
D="$(mktemp -d /tmp/c10-validate-XXXXXX)"
trap 'rm -rf "$D"' EXIT
g++ -std=c++20 -O1 -w -I "$SRC/src" -I "$V" "$V/replay/C10/hash.cc" "$SRC/src/Hash.cc" "$SRC/src/Strings.cc" -o "$D/driver" -lpthread -lz
for a in crc32 fnv1a32 fnv1a64 md5 sha1 sha256; do "$D/driver" spec_$a | grep -v '^mode=' > "$D/spec_$a.txt"; done
python3 - "$D" "$V" <<'PY'
import sys, hashlib, zlib, math, re
from decimal import Decimal, getcontext
D, V = sys.argv[1], sys.argv[2]
bad = 0
def msg(n): return bytes((i * 7 + n) & 0xFF for i in range(n))
def fnv(b, bits):
    h, p = (2166136261, 16777619) if bits == 32 else (14695981039346656037, 1099511628211)
    for c in b: h = ((h ^ c) * p) % (1 << bits)
    return '%0*X' % (bits // 4, h)
ref = {'crc32': lambda b: '%08X' % (zlib.crc32(b) & 0xFFFFFFFF), 'fnv1a32': lambda b: fnv(b, 32), 'fnv1a64': lambda b: fnv(b, 64),
       'md5': lambda b: hashlib.md5(b).hexdigest().upper(), 'sha1': lambda b: hashlib.sha1(b).hexdigest().upper(),
       'sha256': lambda b: hashlib.sha256(b).hexdigest().upper()}
for a, f in ref.items():
    lines = open('%s/spec_%s.txt' % (D, a)).read().split('\n')
    lines = [l for l in lines if l.strip()]
    if len(lines) != 301:
        print('spec_%s: expected 301 lines, got %d' % (a, len(lines))); bad += 1; continue
    n_bad = 0
    for l in lines:
        n, h = l.split()
        if f(msg(int(n))) != h:
            n_bad += 1
            if n_bad < 3: print('spec_%s MISMATCH at length %s: spec %s, library %s' % (a, n, h, f(msg(int(n)))))
    print('spec_%-8s lengths 0..300: %s' % (a, 'agree with the library' if not n_bad else '%d mismatches' % n_bad))
    bad += n_bad
# tables
getcontext().prec = 80
def table(path, name):
    t = open(path).read()
    m = re.search(name + r'\[\d+\] = \{(.*?)\};', t, re.S)
    return [int(x.rstrip('u'), 0) for x in re.findall(r'0x[0-9a-fA-F]+u?|\b\d+\b', m.group(1))]
T = table(V + '/spec/C10_md5.h', 'C10_MD5_T')
ok = T == [int(abs(math.sin(i + 1)) * 2 ** 32) for i in range(64)]
print('C10_MD5_T == floor(2^32 |sin i|):', ok); bad += not ok
K5 = table(V + '/spec/C10_md5.h', 'C10_MD5_K')
ok = K5 == [i for i in range(16)] + [(1 + 5 * i) % 16 for i in range(16)] + [(5 + 3 * i) % 16 for i in range(16)] + [(7 * i) % 16 for i in range(16)]
print('C10_MD5_K == RFC 1321 index progressions:', ok); bad += not ok
primes = []
k = 2
while len(primes) < 64:
    if all(k % q for q in primes): primes.append(k)
    k += 1
def frac(p, r):
    x = Decimal(p) ** (Decimal(1) / Decimal(r)); return int((x - int(x)) * 2 ** 32)
ok = table(V + '/spec/C10_sha256.h', 'C10_SHA256_K') == [frac(p, 3) for p in primes]
print('C10_SHA256_K == frac(cbrt(prime)):', ok); bad += not ok
ok = table(V + '/spec/C10_sha256.h', 'C10_SHA256_H0') == [frac(p, 2) for p in primes[:8]]
print('C10_SHA256_H0 == frac(sqrt(prime)):', ok); bad += not ok
t = open(V + '/spec/C10_sha1.h').read()
ks = [int(x, 16) for x in re.findall(r'0x[0-9a-f]{8}', re.findall(r'#define C10_SHA1_K\(t\).*', t)[0])]
ok = ks == [int(Decimal(n).sqrt() * 2 ** 30) for n in (2, 3, 5, 10)]
print('C10_SHA1_K == floor(2^30 sqrt(2,3,5,10)):', ok); bad += not ok
sys.exit(1 if bad else 0)
PY
for a in crc32 fnv1a32 fnv1a64 md5 sha1 sha256; do "$D/driver" $a | tail -1; done
echo "C10 spec validation: OK"
