/* C06 (P7 / PAM header loop): trusted abstract model of the text line the loop works on and of the stream.
 * The stream is the ghost g_rem = bytes still to be delivered.  A line is its LENGTH plus an abstract CONTENT:
 *   kind     which header command the line is (after removal of trailing white space): WIDTH / HEIGHT / DEPTH / MAXVAL / TUPLTYPE with
 *            their argument, ENDHDR, or none of these (K_OTHER);
 *   okval    the argument is acceptable: a numeral std::stoull converts (numeric commands), one of the four tuple types (TUPLTYPE);
 *   val      the numeral's value / the tuple type;
 *   stripped trailing white space (the line terminator) has been removed.
 * phosg::fgets(FILE*) (verified by C14) returns the next line including its terminator, or an EMPTY string at end of file.
 * What the header SAYS is recorded in ghosts by the fgets model as the lines are delivered: g_hw, g_hh, g_hmax (last WIDTH / HEIGHT /
 * MAXVAL), g_htup (last TUPLTYPE, 0 = none), g_hdepth/g_hdepth_seen (last DEPTH), g_hwell (every line delivered so far is a
 * well-formed header line), g_hend (ENDHDR was delivered), g_hfirst (the character after the signature). */
#ifndef C06_P7_H
#define C06_P7_H
#include "contracts/verif.h"
typedef struct { size_t len; uint8_t kind, okval, stripped; uint64_t val; } cline;
typedef struct { int dummy; } C6FILE;
enum { K_OTHER = 0, K_WIDTH = 1, K_HEIGHT = 2, K_DEPTH = 3, K_MAXVAL = 4, K_TUPLTYPE = 5, K_ENDHDR = 6, K_TAIL = 7, K_UNKNOWN_LIT = 99 };
enum { T_GRAYSCALE = 10, T_GRAYSCALE_ALPHA = 11, T_RGB = 12, T_RGB_ALPHA = 13, T_OTHER = 14 };
#define K_PREFIX_LEN(k) ((k) == K_WIDTH ? 6 : (k) == K_HEIGHT ? 7 : (k) == K_DEPTH ? 6 : (k) == K_MAXVAL ? 7 : (k) == K_TUPLTYPE ? 9 : 0)
extern size_t g_rem;
extern int verif_exc;
extern uint64_t g_hw, g_hh, g_hmax, g_hdepth;
extern uint8_t g_htup, g_hdepth_seen, g_hwell, g_hend;
extern int g_hfirst;
size_t nondet_c6_size(void); uint8_t nondet_c6_u8(void); uint64_t nondet_c6_u64(void);

/* (a model with a body, inlined into the caller: the ghost updates are part of what it does) */
static inline void c6_fgets(cline* line, C6FILE* f)
{
  if (g_rem == 0) { line->len = 0; line->kind = K_OTHER; line->okval = 0; line->stripped = 1; line->val = 0; g_hwell = 0; return; }
  size_t verif_n = nondet_c6_size(); uint8_t verif_k = nondet_c6_u8(), verif_ok = nondet_c6_u8(); uint64_t verif_v = nondet_c6_u64();
  __CPROVER_assume(verif_n >= 1 && verif_n <= g_rem && verif_k <= K_ENDHDR && verif_ok <= 1);
  __CPROVER_assume(verif_n >= (verif_k == K_ENDHDR ? 6 : K_PREFIX_LEN(verif_k) + verif_ok));
  if (verif_k == K_TUPLTYPE) { __CPROVER_assume(verif_v >= T_GRAYSCALE && verif_v <= T_OTHER); verif_ok = (verif_v != T_OTHER); }
  g_rem -= verif_n;
  line->len = verif_n; line->kind = verif_k; line->okval = verif_ok; line->val = verif_v; line->stripped = 0;
  if (verif_k == K_OTHER || (verif_k != K_ENDHDR && !verif_ok)) g_hwell = 0;
  if (verif_ok) {
    if (verif_k == K_WIDTH) g_hw = verif_v;
    if (verif_k == K_HEIGHT) g_hh = verif_v;
    if (verif_k == K_MAXVAL) g_hmax = verif_v;
    if (verif_k == K_DEPTH) { g_hdepth = verif_v; g_hdepth_seen = 1; }
    if (verif_k == K_TUPLTYPE) g_htup = (uint8_t)verif_v;
  }
  if (verif_k == K_ENDHDR) g_hend = 1;
}

int c6_fgetc(C6FILE* f)
__CPROVER_requires(verif_exc == 0)
__CPROVER_ensures(__CPROVER_old(g_rem) == 0 ? (__CPROVER_return_value == -1 && g_rem == 0)
                                            : (__CPROVER_return_value >= 0 && __CPROVER_return_value <= 255 && g_rem == __CPROVER_old(g_rem) - 1))
__CPROVER_ensures(g_hfirst == __CPROVER_return_value)
__CPROVER_assigns(g_rem, g_hfirst);

void c6_strip_trailing_whitespace(cline* line)
__CPROVER_ensures(line->len <= __CPROVER_old(line->len) && line->stripped == 1)
__CPROVER_assigns(line->len, line->stripped);

/* starts_with(line, "<n characters>") / line == "<n characters>": can only hold for a line that is long enough; for the literals that
 * are header commands (lit, named by the extraction rule from the literal's text) the answer is the line's kind */
_Bool c6_starts_with(const cline* line, size_t n, int lit)
__CPROVER_ensures(__CPROVER_return_value ==> line->len >= n)
__CPROVER_ensures(lit != K_UNKNOWN_LIT ==> __CPROVER_return_value == (line->kind == lit))
__CPROVER_assigns();
_Bool c6_equals(const cline* line, size_t n, int lit)
__CPROVER_ensures(__CPROVER_return_value ==> line->len == n)
__CPROVER_ensures(lit == K_ENDHDR ==> __CPROVER_return_value == (line->kind == K_ENDHDR && line->stripped))
__CPROVER_ensures((lit >= T_GRAYSCALE && lit <= T_RGB_ALPHA) ==> __CPROVER_return_value == (line->kind == K_TAIL && line->stripped && line->val == (uint64_t)lit))
__CPROVER_assigns();
void c6_substr(cline* out, const cline* line, size_t pos)
__CPROVER_requires(pos <= line->len)                 /* std::string::substr throws out_of_range otherwise */
__CPROVER_ensures(out->len == line->len - pos && out->kind == K_TAIL && out->stripped == line->stripped)
__CPROVER_ensures((K_PREFIX_LEN(line->kind) != 0 && pos == K_PREFIX_LEN(line->kind)) ==> (out->val == line->val && out->okval == line->okval))
__CPROVER_assigns(__CPROVER_object_whole(out));
/* std::stoull: the numeral's value, or invalid_argument / out_of_range when there is no acceptable numeral */
unsigned long long c6_stoull(const cline* s)
__CPROVER_requires(verif_exc == 0)
__CPROVER_ensures((s->kind == K_TAIL && s->okval) ? (verif_exc == 0 && __CPROVER_return_value == s->val) : (verif_exc == EXC_invalid_argument || verif_exc == EXC_out_of_range))
__CPROVER_assigns(verif_exc);
char c6_at(const cline* line, size_t i)
__CPROVER_requires(i < line->len)                    /* operator[] beyond the end is undefined */
__CPROVER_ensures(1)
__CPROVER_assigns();
#endif
