/* C05: h_list */
#include "harness/C05/common.h"
#include "x_json_rd.c"      /* eof / where / size / go: real bodies */
#include "x_json_list.c"

void h_list(void) { StringReader* r; JVal* ret; bool in_de; IN_COMMON; g_j.de = in_de; JSON_parse_list(r, in_de, ret); VERIF_REACH(); }
