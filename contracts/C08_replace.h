/* C08 side-car contract: str_replace_all (src/Strings.cc), precondition of the property: non-empty target.
 * Plain definition (left to right, leftmost match, non-overlapping): s is tiled by segments j = 0 .. K-1,
 *     segment j = copy run s[start_j, find_j) followed by one occurrence of target at find_j        (find_j != npos), or
 *     segment j = copy run s[start_j, size)                                                           (find_j == npos, last),
 * no occurrence of target begins inside a copy run (and fits into s), start_0 = 0, start_{j+1} = find_j + T;
 * the result is the concatenation of  copy run j  then  replacement  (when segment j has a match),  out_0 = 0,
 * out_{j+1} = out_j + |copy run j| + R, total length = out_K.
 * One symbolic segment g_pj; ghosts recorded in lock-step by statements the extraction rule places after the find call:
 *   g_rstart/g_rfind/g_rout = start, find result, output offset of segment g_pj;  g_nstart/g_nout = the same for segment g_pj + 1;
 *   g_rwit = mismatch witness of the candidate position g_cand for segment g_pj;   g_it = number of segments (K). */
#ifndef C08_REPLACE_H
#define C08_REPLACE_H
#include "contracts/C08_split.h"
extern size_t g_it, g_rstart, g_rfind, g_rout, g_nout, g_rwit, g_tlen, g_rlen;
extern const char *g_tptr, *g_rptr;

/* strlen of the two C strings of the harness (their lengths are the ghosts g_tlen / g_rlen, see the requires below) */
size_t c8_strlen(const char* p)
__CPROVER_ensures(p == g_tptr ==> __CPROVER_return_value == g_tlen)
__CPROVER_ensures(p == g_rptr ==> __CPROVER_return_value == g_rlen)
__CPROVER_assigns();

#define CSTR_REQ(p, len, gp) __CPROVER_requires(len < 0x100000) __CPROVER_requires(__CPROVER_is_fresh(p, len + 1)) \
                             __CPROVER_requires(gp == p && p[len] == 0 && (g_sk < len ==> p[g_sk] != 0))

/* derived ghost scalars of segment g_pj (recorded with it; tied to their definitions by SEG_DEFS) */
extern size_t g_rend, g_rnext, g_rnout;      /* end of the copy run, start of the next segment, output offset of the next segment */
#define SEG_MATCH (g_rfind != C8_NPOS)
#define SEG_DEFS (g_rend == (SEG_MATCH ? g_rfind : g_srcsize) && g_rnext == (SEG_MATCH ? g_rfind + g_tlen : g_srcsize) && \
                  g_rnout == g_rout + (g_rend - g_rstart) + (SEG_MATCH ? g_rlen : 0))
/* facts about segment g_pj once it has been recorded (shared by the loop invariant and the postcondition) */
#define SEG_SHAPE (g_rstart <= g_rend && g_rend <= g_rnext && g_rnext <= g_srcsize && (SEG_MATCH ==> g_rnext - g_rend == g_tlen))
#define SEG_IS_MATCH ((SEG_MATCH && g_sk < g_tlen && g_rend <= g_srcsize && g_tlen <= g_srcsize - g_rend) ==> g_srcd[g_rend + g_sk] == target[g_sk])
#define SEG_LEFTMOST ((g_cand >= g_rstart && g_cand < g_rend && g_cand <= g_srcsize && g_tlen <= g_srcsize - g_cand) ==> (g_rwit < g_tlen && g_srcd[g_cand + g_rwit] != target[g_rwit]))
#define SEG_COPIED ((g_obase == g_rout && g_rstart <= g_rend && g_rend <= g_srcsize && g_rk < g_rend - g_rstart) ==> g_oval == g_srcd[g_rstart + g_rk])
#define SEG_REPLACED ((SEG_MATCH && g_obase == g_rnout - g_rlen && g_rk < g_rlen) ==> g_oval == replacement[g_rk])

void str_replace_all(vout* ret, const vstr* s, const char* target, const char* replacement)
OUT_REQ(ret) SRC_REQ(s) CSTR_REQ(target, g_tlen, g_tptr) CSTR_REQ(replacement, g_rlen, g_rptr)
__CPROVER_requires(g_tlen > 0)                                    /* the property's precondition: non-empty target */
__CPROVER_requires(g_pj < VSTR_MAXCAP && g_srcd == s->data && g_srcsize == s->size)   /* ghost copies used by the SEG_* clauses */
__CPROVER_ensures(g_it == 0 ==> (s->size == 0 && ret->size == 0))
__CPROVER_ensures((g_pj < g_it && g_pj == 0) ==> (g_rstart == 0 && g_rout == 0))
__CPROVER_ensures(g_pj < g_it ==> SEG_DEFS)
__CPROVER_ensures(g_pj < g_it ==> SEG_SHAPE)
__CPROVER_ensures(g_pj < g_it ==> SEG_IS_MATCH)
__CPROVER_ensures(g_pj < g_it ==> SEG_LEFTMOST)
__CPROVER_ensures(g_pj < g_it ==> SEG_COPIED)
__CPROVER_ensures(g_pj < g_it ==> SEG_REPLACED)
__CPROVER_ensures(g_pj + 1 < g_it ==> (g_nstart == g_rnext && g_nout == g_rnout && g_nstart < g_srcsize))
__CPROVER_ensures(g_pj + 1 == g_it ==> (g_rnext == g_srcsize && ret->size == g_rnout))
__CPROVER_assigns(ret->size, g_oval, g_wit, g_it, g_rstart, g_rfind, g_rout, g_nstart, g_nout, g_rwit, g_rend, g_rnext, g_rnout);
#endif
