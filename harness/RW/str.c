/* C01/C02: string-returning readers, cstr/line loops, writer cores, bit reader/writer. */
#include "harness/RW/common.h"
#include "x_reader_core.c"
#include "x_writer_core.c"
#define T int8_t
#define NATIVE 1
#define CONVT(p) (*(p))
#define CTORT(w, v) (*(w) = (v))
/* contracts of the templates must precede their (static inline) definitions */
#include "x_rw_tmpl.inc"
#include "x_one__int8_t.inc"
#include "x_reader_str.c"

#define HSTR2(name) void h_##name(void) { StringReader* r; vstr* ret; IN_STATE; size_t in_offset, in_size; StringReader_##name(r, ret, in_offset, in_size); VERIF_REACH(); }
HSTR2(pread_str) HSTR2(preadx_str)
#define HSTRA(name) void h_##name(void) { StringReader* r; vstr* ret; IN_STATE; size_t in_size; bool in_advance; StringReader_##name(r, ret, in_size, in_advance); VERIF_REACH(); }
HSTRA(read_str) HSTRA(readx_str)
void h_pget_cstr(void) { StringReader* r; vstr* ret; IN_STATE; size_t in_offset; StringReader_pget_cstr(r, ret, in_offset); VERIF_REACH(); }
void h_get_cstr(void) { StringReader* r; vstr* ret; IN_STATE; bool in_advance; StringReader_get_cstr(r, ret, in_advance); VERIF_REACH(); }
void h_get_line(void) { StringReader* r; vstr* ret; IN_STATE; bool in_advance; StringReader_get_line(r, ret, in_advance); VERIF_REACH(); }

void h_bw_pwrite(void) { BufferWriter* w; const void* d; IN_STATE; size_t in_offset, in_size; BufferWriter_pwrite(w, in_offset, d, in_size); VERIF_REACH(); }
void h_bw_write(void) { BufferWriter* w; const void* d; IN_STATE; size_t in_size; BufferWriter_write(w, d, in_size); VERIF_REACH(); }
void h_sw_size(void) { StringWriter* w; IN_STATE; StringWriter_size(w); VERIF_REACH(); }
void h_sw_write(void) { StringWriter* w; const void* d; IN_STATE; size_t in_size; StringWriter_write(w, d, in_size); VERIF_REACH(); }
size_t g_zk;
void h_sw_write_str(void) { StringWriter* w; const vstr* d; IN_STATE; size_t in_zk; g_zk = in_zk; StringWriter_write_str(w, d); VERIF_REACH(); }
void h_sw_extend_to(void) { StringWriter* w; IN_STATE; size_t in_size; char in_v; StringWriter_extend_to(w, in_size, in_v); VERIF_REACH(); }
void h_sw_extend_by(void) { StringWriter* w; IN_STATE; size_t in_size; char in_v; StringWriter_extend_by(w, in_size, in_v); VERIF_REACH(); }

#define IN_BITS size_t in_bit, in_oldbits; unsigned in_bitval; g_bit = in_bit; g_oldbits = in_oldbits; g_bitval = in_bitval
void h_bitw_size(void) { BitWriter* w; IN_STATE; BitWriter_size(w); VERIF_REACH(); }
void h_bitw_write(void) { BitWriter* w; IN_STATE; IN_BITS; bool in_v; BitWriter_write(w, in_v); VERIF_REACH(); }
void h_bitw_truncate(void) { BitWriter* w; IN_STATE; IN_BITS; size_t in_size; BitWriter_truncate(w, in_size); VERIF_REACH(); }
void h_bitr_pread(void) { BitReader* r; IN_STATE; IN_BITS; size_t in_offset; uint8_t in_size; BitReader_pread(r, in_offset, in_size); VERIF_REACH(); }
void h_bitr_read(void) { BitReader* r; IN_STATE; IN_BITS; uint8_t in_size; bool in_advance; BitReader_read(r, in_size, in_advance); VERIF_REACH(); }

void h_tmpl_get(void) { StringReader* r; IN_STATE; size_t in_size; bool in_advance; StringReader_get__int8_t(r, in_advance, in_size); VERIF_REACH(); }
void h_tmpl_pget(void) { StringReader* r; IN_STATE; size_t in_offset, in_size; StringReader_pget__int8_t(r, in_offset, in_size); VERIF_REACH(); }
