"""C20 -- integer, vector and matrix helpers (DESIGN.md section 4, C20)."""
import re
from vf.extract import Source, Unit
from vf.lex import Rule, ExtractionBreak
from vf.pipeline import Group, Replay

ID = 'C20'
LEVEL = 'proof'

MATH = 'src/Math.hh'

INT_TYPES = [  # name, unsigned twin, bits, signed
    ('uint8_t', 'uint8_t', 8, 0), ('int8_t', 'uint8_t', 8, 1),
    ('uint16_t', 'uint16_t', 16, 0), ('int16_t', 'uint16_t', 16, 1),
    ('uint32_t', 'uint32_t', 32, 0), ('int32_t', 'uint32_t', 32, 1),
    ('uint64_t', 'uint64_t', 64, 0), ('int64_t', 'uint64_t', 64, 1),
]
GCD_FULL_BITS = (8,)       # widths at which the divisibility clauses of gcd are discharged (see NOT_DECIDED)


def math_unit(ctx, src):
    u = Unit(ctx, 'math')
    u.function(src, MATH, r'constexpr IntT gcd\(IntT a, IntT b\)', new_header='IntT GCD_NAME(IntT a, IntT b)',
               loops={1: '__CPROVER_assigns(a, b)\n'
                         '__CPROVER_loop_invariant(GCD_INV_LIN)\n'
                         '__CPROVER_loop_invariant(GCD_INV_DIV)\n'
                         '__CPROVER_decreases(b)'},
               nloops=1, body_prefix=' g_a0 = a; g_b0 = b; ')
    u.function(src, MATH, r'constexpr std::pair<IntT, IntT> reduce_fraction\(IntT a, IntT b\)',
               new_header='PairT RF_NAME(IntT a, IntT b)',
               rules=[Rule('IntT denom = gcd(a, b);', 'IntT denom = GCD_NAME(a, b); g_denom = denom;', count=1),
                      Rule('make_pair(', 'MAKE_PAIR(', count=1)])
    u.function(src, MATH, r'constexpr IntT log2i\(IntT v\)', new_header='IntT LOG2I_NAME(IntT v)')
    u.write(suffix='.inc')
    return u


def math_groups(ctx):
    H = 'harness/C20/math.c'
    gs = []
    for name, un, w, sg in INT_TYPES:
        full = w in GCD_FULL_BITS
        d = ['IntT=' + name, 'UIntT=' + un, 'W=%d' % w, 'SIGNED=%d' % sg, 'SFX=' + name, 'GCD_FULL=%d' % full]
        gs.append(Group(name='Math.log2i<%s>' % name, harness=H, entry='h_log2i', function='log2i<%s>' % name,
                        enforce='log2i_' + name, defines=d,
                        clause_note='contracts/C20_math.h: 0 <= r < W and (v >> r) == 1, i.e. r = floor(log2 v), for every v > 0',
                        replay=Replay(driver='C20/math.cc', mode='log2i', extra=[name])))
        g = Group(name='Math.gcd<%s>%s' % (name, '' if full else '.partial'), harness=H, entry='h_gcd',
                  function='gcd<%s>' % name, enforce='gcd_' + name, loops=True, defines=d, kind='loop-contract',
                  clause_note=('contracts/C20_math.h: d | a and d | b <=> d | gcd(a,b) for the ghost divisor d; gcd | a, gcd | b; gcd(a,0) = a'
                               if full else 'contracts/C20_math.h: termination, no UB, gcd(a,0) = a, result 0 iff both arguments 0, '
                               'result <= max(a,b) -- divisibility clauses not attempted at this width'),
                  replay=Replay(driver='C20/math.cc', mode='gcd', extra=[name]))
        if w >= 32:
            g.first = 'cvc5'
        gs.append(g)
        if full:
            gs.append(Group(name='Math.reduce_fraction<%s>' % name, harness=H, entry='h_reduce_fraction',
                            function='reduce_fraction<%s>' % name, enforce='reduce_fraction_' + name, replace=['gcd_' + name],
                            defines=d, kind='loop-free',
                            clause_note='contracts/C20_math.h: p*g == a, q*g == b, p*b == q*a; a common divisor of p and q is 1',
                            replay=Replay(driver='C20/math.cc', mode='reduce_fraction', extra=[name])))
            gs.append(Group(name='Math.gcd<%s>.commutes' % name, harness=H, entry='l_gcd_commutes', function='gcd<%s>' % name,
                            replace=['gcd_' + name], defines=d, kind='lemma',
                            replay=Replay(driver='C20/math.cc', mode='gcd_commutes', extra=[name])))
    return gs


def plan(ctx):
    src = Source(ctx.src)
    groups = []
    um = math_unit(ctx, src)
    ctx.functions_under_contract = list(um.functions)
    groups += math_groups(ctx)
    return groups


CLAIMED = True
