/* C06: the P7 (PAM) header loop of Image::load.  Truncation clause of the property: "any truncated file is rejected with an
 * exception or decodes identically -- never a crash": for EVERY stream (any number of remaining bytes, any line contents)
 * the header loop TERMINATES (loop variant: bytes left in the stream) and ends either with an exception or with ENDHDR;
 * in particular an end of file inside the header (fgets returns an empty line) is rejected with an exception. */
#ifndef C06C_P7_H
#define C06C_P7_H
#include "stubs/C06_p7.h"
typedef enum { Format_GRAYSCALE_PPM = 0, Format_COLOR_PPM, Format_WINDOWS_BITMAP, Format_PNG } C6Format;
void Image_load_p7_header(C6FILE* f, size_t* new_width, size_t* new_height, uint64_t* new_max_value, size_t* new_depth, C6Format* format)
__CPROVER_requires(__CPROVER_is_fresh(f, sizeof(C6FILE)))
__CPROVER_requires(__CPROVER_is_fresh(new_width, sizeof(size_t)))
__CPROVER_requires(__CPROVER_is_fresh(new_height, sizeof(size_t)))
__CPROVER_requires(__CPROVER_is_fresh(new_max_value, sizeof(uint64_t)))
__CPROVER_requires(__CPROVER_is_fresh(new_depth, sizeof(size_t)))
__CPROVER_requires(__CPROVER_is_fresh(format, sizeof(C6Format)))
__CPROVER_requires(verif_exc == 0)
__CPROVER_ensures(verif_exc == 0 || verif_exc == EXC_runtime_error || verif_exc == EXC_invalid_argument || verif_exc == EXC_out_of_range)
__CPROVER_ensures(__CPROVER_old(g_rem) == 0 ==> verif_exc != 0)          /* empty (fully truncated) header is rejected */
__CPROVER_assigns(verif_exc, g_rem, *new_width, *new_height, *new_max_value, *new_depth, *format);
#endif
