/* C07: loop-level ("ghost pixel") contracts of the Image canvas operations (src/Image.cc).
 *
 * Abstract view of a canvas = the value of ONE symbolic pixel (DESIGN.md 3.4, A.4): four channels as read_pixel reports them.
 *   D: destination canvas g_dimg, pixel (g_dx,g_dy), current value g_dr,g_dg,g_db,g_da          (changed by write_pixel)
 *   E: (only with -DC07_GHOST2) a second pixel (g_ex,g_ey) of the destination canvas, value g_er.. (changed by write_pixel)
 *   S: source canvas g_simg, pixel (g_sx,g_sy), value g_sr..                                      (never written)
 *   M: mask canvas g_mimg, pixel (g_mx,g_my), value g_mr..                                        (never written)
 * A statement proved for symbolic ghost coordinates is the universally quantified statement over all pixels.
 *
 * read_pixel / write_pixel carry here the contract every loop above them is proved against (they are bound with
 * --replace-call-with-contract).  The very same clause macros (WP_EXC, WP_PIX, RP_PIX) are the postconditions of the
 * memory-level obligations of contracts/C07_pixel_mem.h, with "ghost value" instantiated by "the channels decoded from
 * the pixel buffer at (gx,gy)": that is the link between the two levels.
 *
 * Specification sources: the property statement (which pixels change, never out_of_range, everything else untouched);
 * the per-variant colour rules *_R/_G/_B/_A below pin the arithmetic of the pinned commit where neither the statement nor
 * Image.hh defines it (regression-strength, see props/C07.py NOT_DECIDED). */
#ifndef C07_IMAGE_H
#define C07_IMAGE_H
#include "contracts/C07_types.h"

/* ---- ghosts (defined in the harness) ---- */
extern const Image *g_dimg, *g_simg, *g_mimg;
/* ghosts that only name the canvas shapes on entry, so that a counterexample carries them to the native replay */
extern ssize_t g_dw, g_dh, g_sw, g_sh, g_mw, g_mh;
extern bool g_dalpha, g_salpha, g_malpha;
extern uint8_t g_dcw, g_scw, g_mcw;
#define SHAPE_IS(i, w, h, al, cw) ((i)->width == (w) && (i)->height == (h) && (i)->has_alpha == (al) && (i)->channel_width == (cw))
extern ssize_t g_dx, g_dy, g_sx, g_sy, g_mx, g_my, g_ex, g_ey;
extern uint64_t g_dr, g_dg, g_db, g_da, g_sr, g_sg, g_sb, g_sa, g_mr, g_mg, g_mb, g_ma, g_er, g_eg, g_eb, g_ea;
/* the custom_blit callback is an arbitrary function; it is sampled at one symbolic argument tuple */
extern uint32_t g_cb_d, g_cb_s, g_cb_out;
/* clamp_blit_dimensions: width/height before its final "empty if negative" step (witness assigned by a ghost statement inside the function) */
extern ssize_t g_cw, g_ch;
/* blend arithmetic, sampled at one symbolic argument tuple per channel ("function point"): alpha g_t_al, colour/source channel g_t_c*,
 * destination channel g_t_d*, divisor g_t_mx, effective-alpha inputs g_t_e1,g_t_e2; g_bo_* / g_bo_e name the results.  The formulas
 * are only ever evaluated on these never-assigned ghosts, so every instance in a verification condition is the same term. */
extern bool g_tup_ok;
extern uint64_t g_t_al, g_t_cr, g_t_cg, g_t_cb, g_t_ca, g_t_dr, g_t_dg, g_t_db, g_t_da, g_t_mx, g_t_e1, g_t_e2, g_bo_r, g_bo_g, g_bo_b, g_bo_a, g_bo_e;
extern uint64_t g_ci_dr, g_ci_dg, g_ci_db, g_ci_da, g_ci_sr, g_ci_sg, g_ci_sb, g_ci_sa, g_co_r, g_co_g, g_co_b, g_co_a;

/* ---- type invariant of Image, coordinate range ---- */
#ifdef VERIF_SMALL       /* re-ask for a counterexample that the native replay driver can rebuild: canvases <= 16x16, |coordinate| < 64 */
#define C07_CBITS 6
#undef C07_DIMMAX
#define C07_DIMMAX 17
#endif
#ifndef C07_CBITS
#define C07_CBITS 61
#endif
#define C07_CMAX ((ssize_t)1 << C07_CBITS)          /* |coordinate| < 2^61: no signed overflow (UB) in the clipping arithmetic */
#ifndef C07_DIMMAX
#define C07_DIMMAX C07_CMAX                         /* canvas width/height: any non-negative value below 2^61 */
#endif
#define COORD_OK(v) (-C07_CMAX < (v) && (v) < C07_CMAX)
#define MASKW(cw) (0xFFFFFFFFFFFFFFFFULL >> (64 - (cw)))
#define CW_OK(i) ((i)->channel_width == 8 || (i)->channel_width == 16 || (i)->channel_width == 32 || (i)->channel_width == 64)
#define IMG_VALID(i) (CW_OK(i) && (i)->max_value == MASKW((i)->channel_width) && \
                      (i)->width >= 0 && (i)->height >= 0 && (i)->width < C07_DIMMAX && (i)->height < C07_DIMMAX)
#define OUTSIDE(i, x, y) ((x) < 0 || (y) < 0 || (x) >= (i)->width || (y) >= (i)->height)
/* a ghost pixel value is one that read_pixel can report: channels within the channel width, alpha == max without alpha channel */
#define GHOST_WF(i, r, g, b, a) ((r) <= (i)->max_value && (g) <= (i)->max_value && (b) <= (i)->max_value && (a) <= (i)->max_value && \
                                 ((i)->has_alpha || (a) == (i)->max_value))

/* ---- what a stored pixel looks like after write_pixel(r,g,b,a) ---- */
#define WCH(v, i) (((uint64_t)(v)) & (i)->max_value)
#define WA(v, i) ((i)->has_alpha ? (((uint64_t)(v)) & (i)->max_value) : (i)->max_value)

/* ---- clause macros shared with the memory-level obligations ---- */
#define WP_EXC(i, x, y, exc) (OUTSIDE(i, x, y) ? (exc) == EXC_out_of_range : (exc) == 0)
#define WP_PIX(i, x, y, r, g, b, a, gx, gy, o_r, o_g, o_b, o_a, n_r, n_g, n_b, n_a) \
  ((!OUTSIDE(i, x, y) && (x) == (gx) && (y) == (gy)) \
     ? ((n_r) == WCH(r, i) && (n_g) == WCH(g, i) && (n_b) == WCH(b, i) && (n_a) == WA(a, i)) \
     : ((n_r) == (o_r) && (n_g) == (o_g) && (n_b) == (o_b) && (n_a) == (o_a)))
#define RP_PIX(i, x, y, r, g, b, a, gx, gy, v_r, v_g, v_b, v_a) \
  ((!OUTSIDE(i, x, y) && (x) == (gx) && (y) == (gy)) ==> \
   (((r) == 0 || *(r) == (v_r)) && ((g) == 0 || *(g) == (v_g)) && ((b) == 0 || *(b) == (v_b)) && ((a) == 0 || *(a) == (v_a))))
/* 0xRRGGBBAA packing of the uint32_t overloads */
#define COMPRESS(r, g, b, a) ((uint32_t)((((r) & 0xFF) << 24) | (((g) & 0xFF) << 16) | (((b) & 0xFF) << 8) | ((a) & 0xFF)))
#define C_R(c) ((uint64_t)(((c) >> 24) & 0xFF))
#define C_G(c) ((uint64_t)(((c) >> 16) & 0xFF))
#define C_B(c) ((uint64_t)(((c) >> 8) & 0xFF))
#define C_A(c) ((uint64_t)((c) & 0xFF))

#ifdef C07_GHOST2
#define G2_ENS(x) __CPROVER_ensures(x)
#define G2_ASG , g_er, g_eg, g_eb, g_ea
#else
#define G2_ENS(x)
#define G2_ASG
#endif

/* ================= pixel accessors, loop level ================= */
void Image_read_pixel(const Image* self, ssize_t x, ssize_t y, uint64_t* r, uint64_t* g, uint64_t* b, uint64_t* a)
__CPROVER_requires(verif_exc == 0) __CPROVER_requires(IMG_VALID(self))
__CPROVER_ensures(WP_EXC(self, x, y, verif_exc))
__CPROVER_ensures(self == g_dimg ==> RP_PIX(self, x, y, r, g, b, a, g_dx, g_dy, g_dr, g_dg, g_db, g_da))
__CPROVER_ensures(self == g_simg ==> RP_PIX(self, x, y, r, g, b, a, g_sx, g_sy, g_sr, g_sg, g_sb, g_sa))
__CPROVER_ensures(self == g_mimg ==> RP_PIX(self, x, y, r, g, b, a, g_mx, g_my, g_mr, g_mg, g_mb, g_ma))
G2_ENS(self == g_dimg ==> RP_PIX(self, x, y, r, g, b, a, g_ex, g_ey, g_er, g_eg, g_eb, g_ea))
__CPROVER_assigns(verif_exc; r != 0: *r; g != 0: *g; b != 0: *b; a != 0: *a);

void Image_write_pixel(Image* self, ssize_t x, ssize_t y, uint64_t r, uint64_t g, uint64_t b, uint64_t a)
__CPROVER_requires(verif_exc == 0) __CPROVER_requires(IMG_VALID(self)) __CPROVER_requires(self == g_dimg)
__CPROVER_ensures(WP_EXC(self, x, y, verif_exc))
__CPROVER_ensures(WP_PIX(self, x, y, r, g, b, a, g_dx, g_dy, __CPROVER_old(g_dr), __CPROVER_old(g_dg), __CPROVER_old(g_db), __CPROVER_old(g_da),
                         g_dr, g_dg, g_db, g_da))
G2_ENS(WP_PIX(self, x, y, r, g, b, a, g_ex, g_ey, __CPROVER_old(g_er), __CPROVER_old(g_eg), __CPROVER_old(g_eb), __CPROVER_old(g_ea),
              g_er, g_eg, g_eb, g_ea))
__CPROVER_assigns(verif_exc, g_dr, g_dg, g_db, g_da G2_ASG);

#define RPC_PIX(i, x, y, ret, gx, gy, v_r, v_g, v_b, v_a) \
  ((!OUTSIDE(i, x, y) && (x) == (gx) && (y) == (gy)) ==> (ret) == COMPRESS(v_r, v_g, v_b, v_a))
uint32_t Image_read_pixel_c(const Image* self, ssize_t x, ssize_t y)
__CPROVER_requires(verif_exc == 0) __CPROVER_requires(IMG_VALID(self))
__CPROVER_ensures(WP_EXC(self, x, y, verif_exc))
__CPROVER_ensures(self == g_dimg ==> RPC_PIX(self, x, y, __CPROVER_return_value, g_dx, g_dy, g_dr, g_dg, g_db, g_da))
__CPROVER_ensures(self == g_simg ==> RPC_PIX(self, x, y, __CPROVER_return_value, g_sx, g_sy, g_sr, g_sg, g_sb, g_sa))
__CPROVER_ensures(self == g_mimg ==> RPC_PIX(self, x, y, __CPROVER_return_value, g_mx, g_my, g_mr, g_mg, g_mb, g_ma))
__CPROVER_assigns(verif_exc);

void Image_write_pixel_c(Image* self, ssize_t x, ssize_t y, uint32_t color)
__CPROVER_requires(verif_exc == 0) __CPROVER_requires(IMG_VALID(self)) __CPROVER_requires(self == g_dimg)
__CPROVER_ensures(WP_EXC(self, x, y, verif_exc))
__CPROVER_ensures(WP_PIX(self, x, y, C_R(color), C_G(color), C_B(color), C_A(color), g_dx, g_dy,
                         __CPROVER_old(g_dr), __CPROVER_old(g_dg), __CPROVER_old(g_db), __CPROVER_old(g_da), g_dr, g_dg, g_db, g_da))
__CPROVER_assigns(verif_exc, g_dr, g_dg, g_db, g_da);

/* ================= preconditions of the canvas operations ================= */
/* destination: a valid canvas; the ghost pixel D lies inside it and holds a well-formed value */
/* (one small clause per fact: long conjunctions in a single requires clause were observed to fail spuriously when the contract replaces a call) */
#define DST_REQ(self) \
  __CPROVER_requires(__CPROVER_is_fresh(g_dimg, sizeof(Image))) \
  __CPROVER_requires(self == g_dimg) __CPROVER_requires(verif_exc == 0) __CPROVER_requires(IMG_VALID(self)) \
  __CPROVER_requires(SHAPE_IS(self, g_dw, g_dh, g_dalpha, g_dcw)) \
  __CPROVER_requires(!OUTSIDE(self, g_dx, g_dy)) __CPROVER_requires(GHOST_WF(self, g_dr, g_dg, g_db, g_da))
/* source: a valid canvas distinct from the destination; S is "the source pixel that feeds D" (it may lie outside the source) */
#define SRC_REQ(source) \
  __CPROVER_requires(__CPROVER_is_fresh(g_simg, sizeof(Image))) \
  __CPROVER_requires(source == g_simg) __CPROVER_requires(IMG_VALID(source)) __CPROVER_requires(SHAPE_IS(source, g_sw, g_sh, g_salpha, g_scw)) \
  __CPROVER_requires(OUTSIDE(source, g_sx, g_sy) || GHOST_WF(source, g_sr, g_sg, g_sb, g_sa))
#define BLIT_REQ(self, source) DST_REQ(self) SRC_REQ(source) \
  __CPROVER_requires(COORD_OK(x) && COORD_OK(y) && COORD_OK(w) && COORD_OK(h) && COORD_OK(sx) && COORD_OK(sy)) \
  __CPROVER_requires(g_sx == sx + (g_dx - x) && g_sy == sy + (g_dy - y))

#define INRECT(px, py, x, y, w, h) ((px) >= (x) && (px) - (x) < (w) && (py) >= (y) && (py) - (y) < (h))
#define D4(R, G, B, A) (g_dr == (R) && g_dg == (G) && g_db == (B) && g_da == (A))
#define OLD_DR __CPROVER_old(g_dr)
#define OLD_DG __CPROVER_old(g_dg)
#define OLD_DB __CPROVER_old(g_db)
#define OLD_DA __CPROVER_old(g_da)
#define D4_OLD D4(OLD_DR, OLD_DG, OLD_DB, OLD_DA)
#define D_ASSIGNS verif_exc, g_dr, g_dg, g_db, g_da

/* ================= clamp_blit_dimensions: result rectangle == intersection model ================= */
/* a destination column px is copied iff it lies in the requested span, inside the destination, and its source column inside the source */
#define AXIS_MODEL(p, x, w, sx, dlim, slim) ((p) >= (x) && (p) - (x) < (w) && (p) >= 0 && (p) < (dlim) && (sx) + ((p) - (x)) >= 0 && (sx) + ((p) - (x)) < (slim))
#define AXIS_IN(p, x, w) ((p) >= (x) && (p) - (x) < (w))
#define CLAMP_REQ \
  __CPROVER_requires(__CPROVER_is_fresh(dest, sizeof(Image))) __CPROVER_requires(__CPROVER_is_fresh(source, sizeof(Image))) \
  __CPROVER_requires(__CPROVER_is_fresh(x, sizeof(ssize_t))) __CPROVER_requires(__CPROVER_is_fresh(y, sizeof(ssize_t))) \
  __CPROVER_requires(__CPROVER_is_fresh(w, sizeof(ssize_t))) __CPROVER_requires(__CPROVER_is_fresh(h, sizeof(ssize_t))) \
  __CPROVER_requires(__CPROVER_is_fresh(sx, sizeof(ssize_t))) __CPROVER_requires(__CPROVER_is_fresh(sy, sizeof(ssize_t)))
#define CLAMP_VAL \
  __CPROVER_requires(IMG_VALID(dest)) __CPROVER_requires(IMG_VALID(source)) \
  __CPROVER_requires(COORD_OK(*x) && COORD_OK(*y)) __CPROVER_requires(COORD_OK(*sx) && COORD_OK(*sy)) \
  __CPROVER_requires(0 <= *w && *w < C07_CMAX && 0 <= *h && *h < C07_CMAX) __CPROVER_requires(COORD_OK(g_dx) && COORD_OK(g_dy))
#ifndef CLAMP_POINTERS_FROM_CALLER
#define CLAMP_PTRS CLAMP_REQ
#else
#define CLAMP_PTRS
#endif
void clamp_blit_dimensions(const Image* dest, const Image* source, ssize_t* x, ssize_t* y, ssize_t* w, ssize_t* h, ssize_t* sx, ssize_t* sy)
CLAMP_PTRS
CLAMP_VAL
/* (1) origins are never negative; the destination-to-source offset is preserved */
__CPROVER_ensures(*x >= 0 && *sx >= 0 && *x - *sx == __CPROVER_old(*x) - __CPROVER_old(*sx))
__CPROVER_ensures(*y >= 0 && *sy >= 0 && *y - *sy == __CPROVER_old(*y) - __CPROVER_old(*sy))
/* (2) per axis, a non-empty span lies inside both canvases: every pixel accessor call of the blit loops is in range
 *     (subtraction form and explicit bounds: no term of these clauses can wrap) */
__CPROVER_ensures(*x < 2 * C07_CMAX && *sx < 2 * C07_CMAX && g_cw <= __CPROVER_old(*w) && g_cw > -4 * C07_CMAX)
__CPROVER_ensures(*y < 2 * C07_CMAX && *sy < 2 * C07_CMAX && g_ch <= __CPROVER_old(*h) && g_ch > -4 * C07_CMAX)
__CPROVER_ensures(g_cw > 0 ==> (g_cw <= dest->width - *x && g_cw <= source->width - *sx))
__CPROVER_ensures(g_ch > 0 ==> (g_ch <= dest->height - *y && g_ch <= source->height - *sy))
/* (3) per axis, sound and maximal: the symbolic destination column/row is in the span iff the intersection model copies it */
__CPROVER_ensures(AXIS_IN(g_dx, *x, g_cw) == AXIS_MODEL(g_dx, __CPROVER_old(*x), __CPROVER_old(*w), __CPROVER_old(*sx), dest->width, source->width))
__CPROVER_ensures(AXIS_IN(g_dy, *y, g_ch) == AXIS_MODEL(g_dy, __CPROVER_old(*y), __CPROVER_old(*h), __CPROVER_old(*sy), dest->height, source->height))
/* (4) the result is the rectangle of the two spans, or empty if either span is negative */
__CPROVER_ensures((g_cw < 0 || g_ch < 0) ? (*w == 0 && *h == 0) : (*w == g_cw && *h == g_ch))
__CPROVER_assigns(*x, *y, *w, *h, *sx, *sy, g_cw, g_ch);

/* ================= colour rules (new value of D as a function of S, the old D and the arguments) ================= */
/* the 8-bit alpha blend of fill_rect and blit, as computed by the pinned commit */
#define BL8(a, c, d) (((a) * (uint64_t)(uint32_t)(c) + (0xFF - (a)) * (uint64_t)(uint32_t)(d)) / 0xFF)
/* the max_value-relative blend of blend_blit */
#define BLM(c, al, d, mx) (((c) * (al) + (d) * ((mx) - (al))) / (mx))

/* function-point definitions: g_bo_k IS the blend of the tuple (all four channels) */
#define TUP_DEF8 (g_bo_r == BL8(g_t_al, g_t_cr, g_t_dr) && g_bo_g == BL8(g_t_al, g_t_cg, g_t_dg) && \
                  g_bo_b == BL8(g_t_al, g_t_cb, g_t_db) && g_bo_a == BL8(g_t_al, g_t_ca, g_t_da))
#define TUP_DEFM (g_bo_r == BLM(g_t_cr, g_t_al, g_t_dr, g_t_mx) && g_bo_g == BLM(g_t_cg, g_t_al, g_t_dg, g_t_mx) && \
                  g_bo_b == BLM(g_t_cb, g_t_al, g_t_db, g_t_mx) && g_bo_a == BLM(g_t_ca, g_t_al, g_t_da, g_t_mx))
#define TUP_DEFE (g_bo_e == (g_t_e1 * g_t_e2) / g_t_mx)
#define TUP_IS(al, cr, cg, cb, ca, dr, dg, db, da) \
  (g_t_al == (al) && g_t_cr == (cr) && g_t_cg == (cg) && g_t_cb == (cb) && g_t_ca == (ca) && \
   g_t_dr == (dr) && g_t_dg == (dg) && g_t_db == (db) && g_t_da == (da))

/* fill_rect: a == 0xFF stores the colour; otherwise the 8-bit blend of colour and old pixel, i.e. (with the tuple (a; r,g,b,a; old D))
 * WCH(BL8(a, r, old_dr)) ... -- claimed for the valuations with g_tup_ok */
#define FILL_COND ((a) == 0xFF || g_tup_ok)
#define FILL_TUP(dr, dg, db, da) TUP_IS(a, r, g, b, a, dr, dg, db, da)
#define FILL_R_(dr, dg, db, da) ((a) == 0xFF ? WCH(r, self) : WCH(g_bo_r, self))
#define FILL_G_(dr, dg, db, da) ((a) == 0xFF ? WCH(g, self) : WCH(g_bo_g, self))
#define FILL_B_(dr, dg, db, da) ((a) == 0xFF ? WCH(b, self) : WCH(g_bo_b, self))
#define FILL_A_(dr, dg, db, da) ((a) == 0xFF ? WA(a, self) : WA(g_bo_a, self))

#define CLEAR_R_(dr, dg, db, da) WCH(r, self)
#define CLEAR_G_(dr, dg, db, da) WCH(g, self)
#define CLEAR_B_(dr, dg, db, da) WCH(b, self)
#define CLEAR_A_(dr, dg, db, da) WA(a, self)

/* blit: source alpha 0 keeps the pixel, 0xFF copies the source pixel, otherwise the 8-bit blend with the tuple (sa; S; old D) */
#define BLIT_COND (g_sa == 0 || g_sa == 0xFF || g_tup_ok)
#define BLIT_TUP(dr, dg, db, da) TUP_IS(g_sa, g_sr, g_sg, g_sb, g_sa, dr, dg, db, da)
#define BLIT_R_(dr, dg, db, da) (g_sa == 0 ? (dr) : g_sa == 0xFF ? WCH(g_sr, self) : WCH(g_bo_r, self))
#define BLIT_G_(dr, dg, db, da) (g_sa == 0 ? (dg) : g_sa == 0xFF ? WCH(g_sg, self) : WCH(g_bo_g, self))
#define BLIT_B_(dr, dg, db, da) (g_sa == 0 ? (db) : g_sa == 0xFF ? WCH(g_sb, self) : WCH(g_bo_b, self))
#define BLIT_A_(dr, dg, db, da) (g_sa == 0 ? (da) : g_sa == 0xFF ? WA(g_sa, self) : WA(g_bo_a, self))

#define S_OPAQUE (g_sr != r || g_sg != g || g_sb != b)          /* the source pixel is not the transparent colour */
#define MASKRGB_R_(dr, dg, db, da) (S_OPAQUE ? WCH(g_sr, self) : (dr))
#define MASKRGB_G_(dr, dg, db, da) (S_OPAQUE ? WCH(g_sg, self) : (dg))
#define MASKRGB_B_(dr, dg, db, da) (S_OPAQUE ? WCH(g_sb, self) : (db))
#define MASKRGB_A_(dr, dg, db, da) (S_OPAQUE ? WA(g_sa, self) : (da))

#define D_KEYED(dr, dg, db) ((dr) == r && (dg) == g && (db) == b)  /* the destination pixel has the key colour */
#define MASKDST_R_(dr, dg, db, da) (D_KEYED(dr, dg, db) ? WCH(g_sr, self) : (dr))
#define MASKDST_G_(dr, dg, db, da) (D_KEYED(dr, dg, db) ? WCH(g_sg, self) : (dg))
#define MASKDST_B_(dr, dg, db, da) (D_KEYED(dr, dg, db) ? WCH(g_sb, self) : (db))
#define MASKDST_A_(dr, dg, db, da) (D_KEYED(dr, dg, db) ? WA(g_sa, self) : (da))

#define M_WHITE (g_mr == 0xFF && g_mg == 0xFF && g_mb == 0xFF)     /* white mask pixel = do not copy */
#define MASKIMG_R_(dr, dg, db, da) (M_WHITE ? (dr) : WCH(g_sr, self))
#define MASKIMG_G_(dr, dg, db, da) (M_WHITE ? (dg) : WCH(g_sg, self))
#define MASKIMG_B_(dr, dg, db, da) (M_WHITE ? (db) : WCH(g_sb, self))
#define MASKIMG_A_(dr, dg, db, da) (M_WHITE ? (da) : WA(g_sa, self))

#define MX (self->max_value)
/* blend_blit: source alpha == max copies, 0 keeps, otherwise the max_value-relative blend with the tuple (sa; S; old D; max) */
#define BLEND_COND (g_sa == MX || g_sa == 0 || g_tup_ok)
#define BLEND_TUP(dr, dg, db, da) (TUP_IS(g_sa, g_sr, g_sg, g_sb, g_sa, dr, dg, db, da) && g_t_mx == MX)
#define BLEND_R_(dr, dg, db, da) (g_sa == MX ? WCH(g_sr, self) : g_sa != 0 ? WCH(g_bo_r, self) : (dr))
#define BLEND_G_(dr, dg, db, da) (g_sa == MX ? WCH(g_sg, self) : g_sa != 0 ? WCH(g_bo_g, self) : (dg))
#define BLEND_B_(dr, dg, db, da) (g_sa == MX ? WCH(g_sb, self) : g_sa != 0 ? WCH(g_bo_b, self) : (db))
#define BLEND_A_(dr, dg, db, da) (g_sa == MX ? WA(g_sa, self) : g_sa != 0 ? WA(g_bo_a, self) : (da))

/* blend_blit with source_alpha: effective alpha g_bo_e = (source_alpha * sa) / max; == max copies the colour channels and stores g_bo_e
 * as alpha, 0 keeps, otherwise colour channels are blended with g_bo_e (tuple (g_bo_e; S; old D; max)) and alpha is kept */
#define BLENDA_TUP(dr, dg, db, da) (TUP_IS(g_bo_e, g_sr, g_sg, g_sb, g_sa, dr, dg, db, da) && g_t_mx == MX && g_t_e1 == source_alpha && g_t_e2 == g_sa)
#define BLENDA_R_(dr, dg, db, da) (g_bo_e == MX ? WCH(g_sr, self) : g_bo_e != 0 ? WCH(g_bo_r, self) : (dr))
#define BLENDA_G_(dr, dg, db, da) (g_bo_e == MX ? WCH(g_sg, self) : g_bo_e != 0 ? WCH(g_bo_g, self) : (dg))
#define BLENDA_B_(dr, dg, db, da) (g_bo_e == MX ? WCH(g_sb, self) : g_bo_e != 0 ? WCH(g_bo_b, self) : (db))
#define BLENDA_A_(dr, dg, db, da) (g_bo_e == MX ? WA(g_bo_e, self) : g_bo_e != 0 ? WA(da, self) : (da))

#define CB32_R_(dr, dg, db, da) WCH(C_R(g_cb_out), self)
#define CB32_G_(dr, dg, db, da) WCH(C_G(g_cb_out), self)
#define CB32_B_(dr, dg, db, da) WCH(C_B(g_cb_out), self)
#define CB32_A_(dr, dg, db, da) WA(C_A(g_cb_out), self)
#define CB64_R_(dr, dg, db, da) WCH(g_co_r, self)
#define CB64_G_(dr, dg, db, da) WCH(g_co_g, self)
#define CB64_B_(dr, dg, db, da) WCH(g_co_b, self)
#define CB64_A_(dr, dg, db, da) WA(g_co_a, self)

/* rule applied to the *current* ghost value (ghost statement at function start: expected value of D) */
#define RULE_NOW(n) \
  n##_R_(g_dr, g_dg, g_db, g_da), n##_G_(g_dr, g_dg, g_db, g_da), n##_B_(g_dr, g_dg, g_db, g_da), n##_A_(g_dr, g_dg, g_db, g_da)
#define FILL_R FILL_R_(g_dr, g_dg, g_db, g_da)
#define FILL_G FILL_G_(g_dr, g_dg, g_db, g_da)
#define FILL_B FILL_B_(g_dr, g_dg, g_db, g_da)
#define FILL_A FILL_A_(g_dr, g_dg, g_db, g_da)
#define CLEAR_R CLEAR_R_(g_dr, g_dg, g_db, g_da)
#define CLEAR_G CLEAR_G_(g_dr, g_dg, g_db, g_da)
#define CLEAR_B CLEAR_B_(g_dr, g_dg, g_db, g_da)
#define CLEAR_A CLEAR_A_(g_dr, g_dg, g_db, g_da)
#define BLIT_R BLIT_R_(g_dr, g_dg, g_db, g_da)
#define BLIT_G BLIT_G_(g_dr, g_dg, g_db, g_da)
#define BLIT_B BLIT_B_(g_dr, g_dg, g_db, g_da)
#define BLIT_A BLIT_A_(g_dr, g_dg, g_db, g_da)
#define MASKRGB_R MASKRGB_R_(g_dr, g_dg, g_db, g_da)
#define MASKRGB_G MASKRGB_G_(g_dr, g_dg, g_db, g_da)
#define MASKRGB_B MASKRGB_B_(g_dr, g_dg, g_db, g_da)
#define MASKRGB_A MASKRGB_A_(g_dr, g_dg, g_db, g_da)
#define MASKDST_R MASKDST_R_(g_dr, g_dg, g_db, g_da)
#define MASKDST_G MASKDST_G_(g_dr, g_dg, g_db, g_da)
#define MASKDST_B MASKDST_B_(g_dr, g_dg, g_db, g_da)
#define MASKDST_A MASKDST_A_(g_dr, g_dg, g_db, g_da)
#define MASKIMG_R MASKIMG_R_(g_dr, g_dg, g_db, g_da)
#define MASKIMG_G MASKIMG_G_(g_dr, g_dg, g_db, g_da)
#define MASKIMG_B MASKIMG_B_(g_dr, g_dg, g_db, g_da)
#define MASKIMG_A MASKIMG_A_(g_dr, g_dg, g_db, g_da)
#define BLEND_R BLEND_R_(g_dr, g_dg, g_db, g_da)
#define BLEND_G BLEND_G_(g_dr, g_dg, g_db, g_da)
#define BLEND_B BLEND_B_(g_dr, g_dg, g_db, g_da)
#define BLEND_A BLEND_A_(g_dr, g_dg, g_db, g_da)
#define BLENDA_R BLENDA_R_(g_dr, g_dg, g_db, g_da)
#define BLENDA_G BLENDA_G_(g_dr, g_dg, g_db, g_da)
#define BLENDA_B BLENDA_B_(g_dr, g_dg, g_db, g_da)
#define BLENDA_A BLENDA_A_(g_dr, g_dg, g_db, g_da)
#define CB32_R CB32_R_(g_dr, g_dg, g_db, g_da)
#define CB32_G CB32_G_(g_dr, g_dg, g_db, g_da)
#define CB32_B CB32_B_(g_dr, g_dg, g_db, g_da)
#define CB32_A CB32_A_(g_dr, g_dg, g_db, g_da)
#define CB64_R CB64_R_(g_dr, g_dg, g_db, g_da)
#define CB64_G CB64_G_(g_dr, g_dg, g_db, g_da)
#define CB64_B CB64_B_(g_dr, g_dg, g_db, g_da)
#define CB64_A CB64_A_(g_dr, g_dg, g_db, g_da)
/* rule applied to the entry value of D, for postconditions */
#define D4_RULE(n) D4(n##_R_(OLD_DR, OLD_DG, OLD_DB, OLD_DA), n##_G_(OLD_DR, OLD_DG, OLD_DB, OLD_DA), \
                      n##_B_(OLD_DR, OLD_DG, OLD_DB, OLD_DA), n##_A_(OLD_DR, OLD_DG, OLD_DB, OLD_DA))

/* ================= fill_rect / clear ================= */
/* per-pixel model: pixel (px,py) of the canvas is filled iff x <= px < x+w and y <= py < y+h */
/* the outlined blend expressions of fill_rect / blit (8-bit form) and blend_blit (max_value form), function-point contracts;
 * proved on the extracted expression text for all arguments (groups Image.<fn>.arith[k]) */
#define P8 uint64_t p1, uint64_t p2, uint64_t p3, uint64_t p4, uint64_t p5, uint64_t p6, uint64_t p7, uint64_t p8
#define BLH8(name, AL, C, D, gc, gd, gbo) uint64_t name(P8) \
  __CPROVER_ensures((g_tup_ok && (AL) == g_t_al && (C) == gc && (D) == gd && gbo == BL8(g_t_al, gc, gd)) ==> __CPROVER_return_value == gbo) \
  __CPROVER_assigns();
/* fill_rect helpers: (a, r, g, b, _r, _g, _b, _a) */
BLH8(x_fill_bl1, p1, p2, p5, g_t_cr, g_t_dr, g_bo_r)
BLH8(x_fill_bl2, p1, p3, p6, g_t_cg, g_t_dg, g_bo_g)
BLH8(x_fill_bl3, p1, p4, p7, g_t_cb, g_t_db, g_bo_b)
BLH8(x_fill_bl4, p1, p1, p8, g_t_ca, g_t_da, g_bo_a)
/* blit helpers: (r, g, b, a, sr, sg, sb, sa) = (source pixel, destination pixel) */
BLH8(x_blit_bl1, p4, p1, p5, g_t_cr, g_t_dr, g_bo_r)
BLH8(x_blit_bl2, p4, p2, p6, g_t_cg, g_t_dg, g_bo_g)
BLH8(x_blit_bl3, p4, p3, p7, g_t_cb, g_t_db, g_bo_b)
BLH8(x_blit_bl4, p4, p4, p8, g_t_ca, g_t_da, g_bo_a)
/* blend_blit helpers: (self, sr, sg, sb, sa, dr, dg, db, da) */
#define BLHM(name, C, D, gc, gd, gbo) uint64_t name(const Image* self, P8) \
  __CPROVER_requires(self->max_value != 0) \
  __CPROVER_ensures((g_tup_ok && p4 == g_t_al && (C) == gc && (D) == gd && self->max_value == g_t_mx && gbo == BLM(gc, g_t_al, gd, g_t_mx)) ==> __CPROVER_return_value == gbo) \
  __CPROVER_assigns();
BLHM(x_blend_bl1, p1, p5, g_t_cr, g_t_dr, g_bo_r)
BLHM(x_blend_bl2, p2, p6, g_t_cg, g_t_dg, g_bo_g)
BLHM(x_blend_bl3, p3, p7, g_t_cb, g_t_db, g_bo_b)
BLHM(x_blend_bl4, p4, p8, g_t_ca, g_t_da, g_bo_a)
/* blend_blit(.., source_alpha) helpers: effective alpha (self, source_alpha, sr, sg, sb, sa); channels (self, source_alpha, effective_alpha, S, D) */
uint64_t x_blenda_bl1(const Image* self, uint64_t source_alpha, uint64_t sr, uint64_t sg, uint64_t sb, uint64_t sa)
__CPROVER_requires(self->max_value != 0)
__CPROVER_ensures((g_tup_ok && source_alpha == g_t_e1 && sa == g_t_e2 && self->max_value == g_t_mx && TUP_DEFE) ==> __CPROVER_return_value == g_bo_e)
__CPROVER_assigns();
#define BLHA(name, C, D, gc, gd, gbo) uint64_t name(const Image* self, uint64_t source_alpha, uint64_t effective_alpha, P8) \
  __CPROVER_requires(self->max_value != 0) \
  __CPROVER_ensures((g_tup_ok && effective_alpha == g_t_al && (C) == gc && (D) == gd && self->max_value == g_t_mx && gbo == BLM(gc, g_t_al, gd, g_t_mx)) ==> __CPROVER_return_value == gbo) \
  __CPROVER_assigns();
BLHA(x_blenda_bl2, p1, p5, g_t_cr, g_t_dr, g_bo_r)
BLHA(x_blenda_bl3, p2, p6, g_t_cg, g_t_dg, g_bo_g)
BLHA(x_blenda_bl4, p3, p7, g_t_cb, g_t_db, g_bo_b)

void Image_fill_rect(Image* self, ssize_t x, ssize_t y, ssize_t w, ssize_t h, uint64_t r, uint64_t g, uint64_t b, uint64_t a)
DST_REQ(self)
__CPROVER_requires(COORD_OK(x) && COORD_OK(y) && COORD_OK(w) && COORD_OK(h))
__CPROVER_requires(g_tup_ok ==> FILL_TUP(g_dr, g_dg, g_db, g_da))
__CPROVER_requires(g_tup_ok ==> TUP_DEF8)
__CPROVER_ensures(verif_exc == 0)
__CPROVER_ensures(INRECT(g_dx, g_dy, x, y, w, h) ? (FILL_COND ==> D4_RULE(FILL)) : D4_OLD)
__CPROVER_assigns(D_ASSIGNS);

#define r C_R(c)
#define g C_G(c)
#define b C_B(c)
#define a C_A(c)
void Image_fill_rect_c(Image* self, ssize_t x, ssize_t y, ssize_t w, ssize_t h, uint32_t c)
DST_REQ(self)
__CPROVER_requires(COORD_OK(x) && COORD_OK(y) && COORD_OK(w) && COORD_OK(h))
__CPROVER_requires(g_tup_ok ==> FILL_TUP(g_dr, g_dg, g_db, g_da))
__CPROVER_requires(g_tup_ok ==> TUP_DEF8)
__CPROVER_ensures(verif_exc == 0)
__CPROVER_ensures(INRECT(g_dx, g_dy, x, y, w, h) ? (FILL_COND ==> D4_RULE(FILL)) : D4_OLD)
__CPROVER_assigns(D_ASSIGNS);
void Image_clear_c(Image* self, uint32_t c)
DST_REQ(self)
__CPROVER_ensures(verif_exc == 0)
__CPROVER_ensures(D4_RULE(CLEAR))
__CPROVER_assigns(D_ASSIGNS);
#undef r
#undef g
#undef b
#undef a

void Image_clear(Image* self, uint64_t r, uint64_t g, uint64_t b, uint64_t a)
DST_REQ(self)
__CPROVER_ensures(verif_exc == 0)
__CPROVER_ensures(D4_RULE(CLEAR))
__CPROVER_assigns(D_ASSIGNS);

/* ================= blits ================= */
/* per-pixel model: a negative w / h stands for the whole source width / height; destination pixel (px,py) is hit iff it lies in
 * the requested rectangle (and, as DST_REQ says for D, inside the destination) and its source pixel (sx+px-x, sy+py-y) inside the source */
#define BW(w, source) ((w) < 0 ? (source)->width : (w))
#define BH(h, source) ((h) < 0 ? (source)->height : (h))
#define BLIT_HITS (INRECT(g_dx, g_dy, x, y, BW(w, source), BH(h, source)) && !OUTSIDE(source, g_sx, g_sy))
#define BLIT_ENS(n) \
  __CPROVER_ensures(verif_exc == 0) \
  __CPROVER_ensures(BLIT_HITS ? D4_RULE(n) : D4_OLD) \
  __CPROVER_assigns(D_ASSIGNS, g_cw, g_ch)
/* variants with blend arithmetic: the blended case is claimed for the valuations where the tuple ghosts name the blend (g_tup_ok) */
#define BLIT_ENS_ARITH(n, def) \
  __CPROVER_requires(g_tup_ok ==> n##_TUP(g_dr, g_dg, g_db, g_da)) \
  __CPROVER_requires(g_tup_ok ==> def) \
  __CPROVER_ensures(verif_exc == 0) \
  __CPROVER_ensures(BLIT_HITS ? (n##_COND ==> D4_RULE(n)) : D4_OLD) \
  __CPROVER_assigns(D_ASSIGNS, g_cw, g_ch)
#define BLIT_PARAMS Image* self, const Image* source, ssize_t x, ssize_t y, ssize_t w, ssize_t h, ssize_t sx, ssize_t sy

void Image_blit(BLIT_PARAMS)
BLIT_REQ(self, source) BLIT_ENS_ARITH(BLIT, TUP_DEF8);

void Image_mask_blit_rgb(BLIT_PARAMS, uint64_t r, uint64_t g, uint64_t b)
BLIT_REQ(self, source) BLIT_ENS(MASKRGB);

void Image_mask_blit_dst_rgb(BLIT_PARAMS, uint64_t r, uint64_t g, uint64_t b)
BLIT_REQ(self, source) BLIT_ENS(MASKDST);

#define r C_R(transparent_c)
#define g C_G(transparent_c)
#define b C_B(transparent_c)
void Image_mask_blit_c(BLIT_PARAMS, uint32_t transparent_c)
BLIT_REQ(self, source) BLIT_ENS(MASKRGB);
void Image_mask_blit_dst_c(BLIT_PARAMS, uint32_t transparent_c)
BLIT_REQ(self, source) BLIT_ENS(MASKDST);
#undef r
#undef g
#undef b

/* mask variant: M is the mask pixel at the *source* coordinates of S.  A mask that does not cover the copied area is refused with
 * runtime_error (Image.cc comment: "The mask image must cover the entire area to be blitted"); out_of_range must never escape,
 * and a refused call leaves the canvas untouched. */
void Image_mask_blit_mask(BLIT_PARAMS, const Image* mask)
BLIT_REQ(self, source)
__CPROVER_requires(__CPROVER_is_fresh(g_mimg, sizeof(Image)))
__CPROVER_requires(mask == g_mimg) __CPROVER_requires(IMG_VALID(mask)) __CPROVER_requires(SHAPE_IS(mask, g_mw, g_mh, g_malpha, g_mcw))
__CPROVER_requires(g_mx == g_sx && g_my == g_sy) __CPROVER_requires(OUTSIDE(mask, g_mx, g_my) || GHOST_WF(mask, g_mr, g_mg, g_mb, g_ma))
__CPROVER_ensures(verif_exc == 0 || verif_exc == EXC_runtime_error)
__CPROVER_ensures(verif_exc == 0 ==> (BLIT_HITS ? D4_RULE(MASKIMG) : D4_OLD))
__CPROVER_ensures(verif_exc != 0 ==> D4_OLD)
__CPROVER_assigns(D_ASSIGNS, g_cw, g_ch);

void Image_blend_blit(BLIT_PARAMS)
BLIT_REQ(self, source) BLIT_ENS_ARITH(BLEND, TUP_DEFM);

#define BLENDA_COND g_tup_ok
void Image_blend_blit_alpha(BLIT_PARAMS, uint64_t source_alpha)
BLIT_REQ(self, source) BLIT_ENS_ARITH(BLENDA, (TUP_DEFM && TUP_DEFE));

/* custom_blit: the callback is an arbitrary (stateless) function; the stub below samples it at one symbolic argument tuple */
void verif_cb32(uint32_t* dc, uint32_t sc)
__CPROVER_ensures((__CPROVER_old(*dc) == g_cb_d && sc == g_cb_s) ==> *dc == g_cb_out)
__CPROVER_assigns(*dc);
void verif_cb64(uint64_t* dr, uint64_t* dg, uint64_t* db, uint64_t* da, uint64_t sr, uint64_t sg, uint64_t sb, uint64_t sa)
__CPROVER_ensures((__CPROVER_old(*dr) == g_ci_dr && __CPROVER_old(*dg) == g_ci_dg && __CPROVER_old(*db) == g_ci_db && __CPROVER_old(*da) == g_ci_da &&
                   sr == g_ci_sr && sg == g_ci_sg && sb == g_ci_sb && sa == g_ci_sa)
                  ==> (*dr == g_co_r && *dg == g_co_g && *db == g_co_b && *da == g_co_a))
__CPROVER_assigns(*dr, *dg, *db, *da);

void Image_custom_blit_c(BLIT_PARAMS)
BLIT_REQ(self, source)
__CPROVER_requires(g_cb_d == COMPRESS(g_dr, g_dg, g_db, g_da) && g_cb_s == COMPRESS(g_sr, g_sg, g_sb, g_sa))
BLIT_ENS(CB32);

void Image_custom_blit_rgba(BLIT_PARAMS)
BLIT_REQ(self, source)
__CPROVER_requires(g_ci_dr == g_dr && g_ci_dg == g_dg && g_ci_db == g_db && g_ci_da == g_da && g_ci_sr == g_sr && g_ci_sg == g_sg && g_ci_sb == g_sb && g_ci_sa == g_sa)
BLIT_ENS(CB64);

#endif
