/* C19: exception model used by the lowered unit-test helpers (DESIGN.md 3.3).  TRUSTED BASE.
 *
 * An in-flight exception is the global flag verif_exc (0 = none, else the EXC_* kind of the thrown object's
 * dynamic type, contracts/verif.h).  A thrown expectation_failed additionally has a payload; its data members
 * and the three arguments that are formatted into the what() string of its std::logic_error base are ghost
 * globals written by the lowered constructor (the assignments are cut from the member-initialiser list of
 * expectation_failed::expectation_failed in src/UnitTest.cc on every run).
 *
 * The subtype table below is transcribed from the C++ standard ([std.exceptions], [bad.alloc]):
 *   exception > logic_error   > { out_of_range, invalid_argument, length_error, domain_error }
 *   exception > runtime_error > { range_error, overflow_error, underflow_error }
 *   exception > bad_alloc
 * phosg's own class:  the direct base of expectation_failed is NOT written here; it is read from
 * `class expectation_failed : public std::X` in src/UnitTest.hh on every run (generated x_unittest_base.h
 * defines VERIF_BASE_expectation_failed).  EXC_non_std stands for a thrown object whose type is not a class
 * derived from std::exception (throw 42;): it is caught by `catch (...)` only. */
#ifndef C19_EXC_H
#define C19_EXC_H
#include "contracts/verif.h"

#ifndef VERIF_BASE_expectation_failed
#error "x_unittest_base.h (generated from src/UnitTest.hh) must be included before contracts/C19_exc.h"
#endif

/* direct base class of kind t (0 = none) */
#define VERIF_PARENT(t) \
  (((t) == EXC_logic_error || (t) == EXC_runtime_error || (t) == EXC_bad_alloc) ? EXC_exception : \
   ((t) == EXC_out_of_range || (t) == EXC_invalid_argument || (t) == EXC_length_error || (t) == EXC_domain_error) ? EXC_logic_error : \
   ((t) == EXC_range_error || (t) == EXC_overflow_error || (t) == EXC_underflow_error) ? EXC_runtime_error : \
   ((t) == EXC_expectation_failed) ? VERIF_BASE_expectation_failed : EXC_none)

/* t <: E (reflexive, transitive closure of VERIF_PARENT; inheritance depth <= 3 is proved as a lemma:
 * group UnitTest.hierarchy) */
#define VERIF_SUBTYPE(t, E) \
  ((t) != EXC_none && (E) != EXC_none && ((t) == (E) || VERIF_PARENT(t) == (E) || VERIF_PARENT(VERIF_PARENT(t)) == (E) || \
                       VERIF_PARENT(VERIF_PARENT(VERIF_PARENT(t))) == (E)))

/* `catch (const T&)` selects an in-flight exception of kind x iff x <: T */
#define VERIF_CATCHES(x, T) VERIF_SUBTYPE(x, T)

/* the kinds of the property's hierarchy (ten std types, bad_alloc, expectation_failed) */
#define VERIF_KIND_IN_HIERARCHY(t) ((t) >= EXC_exception && (t) <= EXC_expectation_failed)

/* ---- payload of the most recently constructed expectation_failed ------------------------------------- */
extern const char* g_exc_msg;        /* expectation_failed::msg  */
extern const char* g_exc_file;       /* expectation_failed::file */
extern uint64_t g_exc_line;          /* expectation_failed::line */
extern const char* g_what_file;      /* 1st, 2nd, 3rd argument of the "failure at %s:%PRIu64: %s" what() string */
extern uint64_t g_what_line;
extern const char* g_what_msg;

/* ---- std::function<void()> ----------------------------------------------------------------------------
 * A callable is abstracted to its behaviour when invoked: 0 = returns normally, k = throws an object of
 * kind k.  Invoking it is the only operation the verified code performs on it.  A thrown expectation_failed
 * was constructed somewhere else, so it carries an arbitrary payload of its own. */
typedef int verif_function;
#define VERIF_FUNCTION_VALID(f) ((f) == 0 || VERIF_KIND_IN_HIERARCHY(f) || (f) == EXC_non_std)
const char* nondet_verif_ptr(void);
uint64_t nondet_verif_u64(void);
static inline void verif_call(verif_function f)
{
  if (f == EXC_expectation_failed) {
    g_exc_msg = nondet_verif_ptr(); g_exc_file = nondet_verif_ptr(); g_exc_line = nondet_verif_u64();
    g_what_msg = nondet_verif_ptr(); g_what_file = nondet_verif_ptr(); g_what_line = nondet_verif_u64();
  }
  verif_exc = f;
}

/* ---- std::string / string_printf / what(): content not modelled (an arbitrary C string pointer) ------ */
typedef struct { const char* p; } verif_string;
static inline verif_string verif_string_nondet(void) { verif_string s; s.p = nondet_verif_ptr(); return s; }
#define verif_string_printf(...) verif_string_nondet()
#define verif_what(e) nondet_verif_ptr()
#define verif_c_str(s) ((s)->p)

#endif
