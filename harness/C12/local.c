/* C12: unbounded local proofs (compiled with -DC12_ABSTRACT -DCFG=<configuration> and -DC12_USE_MAP for LRUMap). */
#ifdef C12_USE_MAP
#include "x_LRUMap_types.h"
#else
#include "x_LRUSet_types.h"
#endif
#include "stubs/C12_umap.h"   /* already included by the extracted type header (include guard); named here for the evidence scan */
#include "contracts/C12_ops.h"
#ifdef C12_USE_MAP
#include "x_LRUMap.c"
#else
#include "x_LRUSet.c"
#endif

int verif_exc;
Item* g_i; Item* g_P; Item* g_N; Item* g_H; Item* g_T; size_t g_tot0, g_sz0;
K g_key; umap_node* g_node; umap_node* g_new; size_t g_count;
unsigned g_nerase, g_nclear, g_nswap, g_nemplace, g_nctor; umap_node* g_erased; umap* g_swap_a; umap* g_swap_b;
#ifdef C12_MAP
ValueT g_val0;
#endif


/* every entry calls the operation on unconstrained arguments; the enforced contract supplies the precondition */
void h_unlink_item(void) { LRU* self; Item* i; M(unlink_item)(self, i); VERIF_REACH(); }
void h_link_item(void) { LRU* self; Item* i; M(link_item)(self, i); VERIF_REACH(); }
void h_ctor(void) { LRU* self; M(ctor)(self); VERIF_REACH(); }
void h_erase(void) { LRU* self; K k; M(erase)(self, k); VERIF_REACH(); }
void h_clear(void) { LRU* self; M(clear)(self); VERIF_REACH(); }
void h_touch(void) { LRU* self; K k; ssize_t ns; M(touch)(self, k, ns); VERIF_REACH(); }
void h_size(void) { LRU* self; M(size)(self); VERIF_REACH(); }
void h_count(void) { LRU* self; M(count)(self); VERIF_REACH(); }
void h_evict_object(void) { LRU* self; M(evict_object)(self); VERIF_REACH(); }
void h_swap(void) { LRU* self; LRU* other; M(swap)(self, other); VERIF_REACH(); }
#ifdef C12_SET
void h_Item_ctor(void) { Item* it; size_t size; M(Item_ctor)(it, size); VERIF_REACH(); }
void h_after_emplace(void) { LRU* self; umap_emplace_ret er; size_t in_size; M(after_emplace)(self, er, in_size); VERIF_REACH(); }
void h_insert(void) { LRU* self; K k; size_t in_size; M(insert)(self, k, in_size); VERIF_REACH(); }
void h_emplace(void) { LRU* self; K k; size_t in_size; M(emplace)(self, k, in_size); VERIF_REACH(); }
void h_change_size(void) { LRU* self; K k; size_t ns; M(change_size)(self, k, ns); VERIF_REACH(); }
void h_peek(void) { LRU* self; M(peek)(self); VERIF_REACH(); }
#endif
#ifdef C12_MAP
void h_Item_ctor_copy(void) { Item* it; ValueT v; size_t size; M(Item_ctor_copy)(it, v, size); VERIF_REACH(); }
void h_Item_ctor_move(void) { Item* it; ValueT v; size_t size; M(Item_ctor_move)(it, v, size); VERIF_REACH(); }
void h_touch_item(void) { LRU* self; Item* i; M(touch_item)(self, i); VERIF_REACH(); }
void h_change_item_size(void) { LRU* self; Item* i; size_t ns; M(change_item_size)(self, i, ns); VERIF_REACH(); }
void h_at(void) { LRU* self; K k; M(at)(self, k); VERIF_REACH(); }
void h_at_const(void) { LRU* self; K k; M(at_const)(self, k); VERIF_REACH(); }
void h_item_size(void) { LRU* self; K k; M(item_size)(self, k); VERIF_REACH(); }
void h_insert(void) { LRU* self; K k; ValueT v; size_t in_size; M(insert)(self, k, v, in_size); VERIF_REACH(); }
void h_emplace(void) { LRU* self; K k; ValueT v; size_t size; M(emplace)(self, k, v, size); VERIF_REACH(); }
void h_change_size(void) { LRU* self; K k; size_t ns; bool touch; M(change_size)(self, k, ns, touch); VERIF_REACH(); }
void h_empty(void) { LRU* self; M(empty)(self); VERIF_REACH(); }
#ifdef C12_INSERT_CONST
#include "x_LRUMap_insert_const.c"
void h_insert_const(void) { LRU* self; K k; ValueT v; size_t in_size; M(insert_const)(self, k, v, in_size); VERIF_REACH(); }
#endif
#endif
