/* C14 side-car contracts: Poll::add / remove / empty -- "Poll tracks its descriptor set as a map (re-adding replaces,
 * removing deletes, empty() iff no descriptors)".  Vector description and ghosts: stubs/C14_pvec.h. */
#ifndef C14_POLL_CONTRACTS_H
#define C14_POLL_CONTRACTS_H
#include "stubs/C14_pvec.h"
#include "stubs/C14_io.h"
typedef struct { pvec poll_fds; } Poll;
#define PV(self) ((self)->poll_fds)
#define POLL_REQ \
  __CPROVER_requires(__CPROVER_is_fresh(self, sizeof(Poll))) \
  __CPROVER_requires(PV(self).n <= PV(self).cap && PV(self).cap <= 0x100000 && PV(self).n == g_pn) \
  __CPROVER_requires(__CPROVER_is_fresh(PV(self).data, PV(self).cap * sizeof(c14_pollfd)))
/* strictly sorted vector, described around the key */
#define POLL_DESCR \
  __CPROVER_requires(fd == g_key && g_lb <= PV(self).n && (g_present == 0 || g_present == 1)) \
  __CPROVER_requires(g_present ==> (g_lb < PV(self).n && PV(self).data[g_lb].fd == g_key)) \
  __CPROVER_requires((!g_present && g_lb < PV(self).n) ==> PV(self).data[g_lb].fd > g_key) \
  __CPROVER_requires(g_lb > 0 ==> PV(self).data[g_lb - 1].fd < g_key) \
  __CPROVER_requires((g_present && g_lb + 1 < PV(self).n) ==> PV(self).data[g_lb + 1].fd > g_key) \
  __CPROVER_requires(g_pk < PV(self).n ==> (g_pfd == PV(self).data[g_pk].fd && g_pev == PV(self).data[g_pk].events))

/* map[fd] = events: the key is present exactly once afterwards, with the new events; every other entry is kept, in order */
void Poll_add(Poll* self, int fd, short events)
POLL_REQ POLL_DESCR
__CPROVER_requires(PV(self).n < PV(self).cap)
__CPROVER_ensures(PV(self).n == __CPROVER_old(PV(self).n) + (g_present ? 0 : 1))                                  /* re-adding replaces */
__CPROVER_ensures(PV(self).data[g_lb].fd == fd && PV(self).data[g_lb].events == events)
__CPROVER_ensures(g_lb > 0 ==> PV(self).data[g_lb - 1].fd < fd)                                                  /* still strictly sorted around the key */
__CPROVER_ensures(((g_present || g_pk == g_lb) && g_lb + 1 < PV(self).n) ==> PV(self).data[g_lb + 1].fd > fd)   /* g_pk is arbitrary: instance g_pk == g_lb */
__CPROVER_ensures((g_pk < g_pn && !(g_present && g_pk == g_lb)) ==>
                  (PV(self).data[g_pk + ((!g_present && g_pk >= g_lb) ? 1 : 0)].fd == g_pfd && PV(self).data[g_pk + ((!g_present && g_pk >= g_lb) ? 1 : 0)].events == g_pev))
__CPROVER_assigns(PV(self).n, __CPROVER_object_whole(PV(self).data));

/* erase map[fd]: the key is absent afterwards; every other entry is kept, in order; the descriptor is closed iff asked to
 * and it was registered */
void Poll_remove(Poll* self, int fd, bool close_fd)
POLL_REQ POLL_DESCR
__CPROVER_requires(g_closes < 1000u && g_closes_other < 1000u && g_fd == fd)
__CPROVER_ensures(PV(self).n == __CPROVER_old(PV(self).n) - (g_present ? 1 : 0))                                  /* removing deletes */
__CPROVER_ensures(((!g_present || g_pk == g_lb + 1) && g_lb < PV(self).n) ==> PV(self).data[g_lb].fd > fd)           /* the key is gone (instance g_pk == g_lb + 1) */
__CPROVER_ensures(g_lb > 0 ==> PV(self).data[g_lb - 1].fd < fd)
__CPROVER_ensures((g_pk < g_pn && !(g_present && g_pk == g_lb)) ==>
                  (PV(self).data[g_pk - ((g_present && g_pk > g_lb) ? 1 : 0)].fd == g_pfd && PV(self).data[g_pk - ((g_present && g_pk > g_lb) ? 1 : 0)].events == g_pev))
__CPROVER_ensures(g_closes == __CPROVER_old(g_closes) + ((close_fd && g_present) ? 1u : 0u) && g_closes_other == __CPROVER_old(g_closes_other))
__CPROVER_assigns(PV(self).n, __CPROVER_object_whole(PV(self).data), g_closes, g_closes_other);

bool Poll_empty(const Poll* self)
POLL_REQ
__CPROVER_ensures(__CPROVER_return_value == (PV(self).n == 0))
__CPROVER_assigns();

/* the comparison both searches use: orders by descriptor */
bool Poll_add_pred(const c14_pollfd* x, const c14_pollfd* y)
__CPROVER_requires(__CPROVER_is_fresh(x, sizeof(c14_pollfd)))
__CPROVER_requires(__CPROVER_is_fresh(y, sizeof(c14_pollfd)))
__CPROVER_ensures(__CPROVER_return_value == (x->fd < y->fd))
__CPROVER_assigns();
bool Poll_remove_pred(const c14_pollfd* x, const c14_pollfd* y)
__CPROVER_requires(__CPROVER_is_fresh(x, sizeof(c14_pollfd)))
__CPROVER_requires(__CPROVER_is_fresh(y, sizeof(c14_pollfd)))
__CPROVER_ensures(__CPROVER_return_value == (x->fd < y->fd))
__CPROVER_assigns();
#endif
