/* C03: sign_extend<ResultT, SrcT>, one instantiation per compilation (-DResultT=.. -DSrcT=.. -DSPEC_UR=.. -DSR=.. -DSS=.. -DUS=..) */
#include "contracts/verif.h"
/* spec: the result is the SrcT-wide two's-complement number widened to ResultT (top bit replicated): (SR)(SS)src */
ResultT SE_NAME(SrcT src)
__CPROVER_ensures((SPEC_UR)__CPROVER_return_value == (SPEC_UR)(SR)(SS)src)
__CPROVER_ensures((US)__CPROVER_return_value == (US)src)
__CPROVER_assigns();
#include "x_sign_extend.inc"
void h_sign_extend(void) { SrcT in_a; SE_NAME(in_a); VERIF_REACH(); }
