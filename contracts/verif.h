/* Common definitions for every harness (DESIGN.md 3.3, 3.5). */
#ifndef VERIF_H
#define VERIF_H
#include <stdint.h>
#include <stddef.h>
#include <stdbool.h>
#include <sys/types.h>
#include <limits.h>

/* vacuity guard: must be reported as FAILURE in every group (pipeline.py) */
#define VERIF_REACH() __CPROVER_assert(0, "VERIF_REACH")

/* exception lowering */
extern int verif_exc;
enum {
  EXC_none = 0,
  EXC_exception, EXC_logic_error, EXC_out_of_range, EXC_invalid_argument, EXC_length_error, EXC_domain_error,
  EXC_runtime_error, EXC_range_error, EXC_overflow_error, EXC_underflow_error, EXC_bad_alloc,
  EXC_expectation_failed, EXC_parse_error, EXC_type_error, EXC_io_error, EXC_cannot_open_file,
  EXC_non_std
};

/* host byte order of the *model* (goto-cc --big-endian together with -DVERIF_BE) */
#ifdef VERIF_BE
#define VERIF_HOST_BIG 1
#else
#define VERIF_HOST_BIG 0
#endif

/* std::min<T>(a, b) / std::max<T>(a, b) */
/* <math.h> rounding functions on a double used in a condition (cbmc 6.11's own library models of floor/ceil abort the symbolic
 * execution under --dfcc: "l2_rename_rvalues case floatbv_typecast not handled"): an over-approximation -- some value r with
 * r <= x < r + 1 (floor), x <= r < x + 1 (ceil), |r - x| < 1 (trunc / round); integrality of r is not stated, so a condition such
 * as x == floor(x) may go either way for every finite x.  Only ever adds behaviours. */
double nondet_verif_double(void);
static inline double verif_floor(double x) { double r = nondet_verif_double(); __CPROVER_assume(x != x || x - x != 0 ? 1 : (r <= x && x - r < 1.0)); return (x != x || x - x != 0) ? x : r; }
static inline double verif_ceil(double x) { double r = nondet_verif_double(); __CPROVER_assume(x != x || x - x != 0 ? 1 : (r >= x && r - x < 1.0)); return (x != x || x - x != 0) ? x : r; }
static inline double verif_trunc(double x) { double r = nondet_verif_double(); __CPROVER_assume(x != x || x - x != 0 ? 1 : (r - x < 1.0 && x - r < 1.0)); return (x != x || x - x != 0) ? x : r; }
#define verif_round verif_trunc
#define VERIF_MIN_T(T, a, b) ((T)(a) < (T)(b) ? (T)(a) : (T)(b))
#define VERIF_MAX_T(T, a, b) ((T)(a) > (T)(b) ? (T)(a) : (T)(b))

/* C spellings of std::make_unsigned_t<T> / make_signed_t<T> / is_unsigned_v<T> for the integer types (T may itself be a macro) */
#define VERIF_CAT_(a, b) a##b
#define VERIF_CAT(a, b) VERIF_CAT_(a, b)
#define UNSIGNED_OF(T) VERIF_CAT(UNSIGNED_OF_, T)
#define SIGNED_OF(T) VERIF_CAT(SIGNED_OF_, T)
#define UNSIGNED_OF_int8_t uint8_t
#define UNSIGNED_OF_uint8_t uint8_t
#define UNSIGNED_OF_int16_t uint16_t
#define UNSIGNED_OF_uint16_t uint16_t
#define UNSIGNED_OF_int32_t uint32_t
#define UNSIGNED_OF_uint32_t uint32_t
#define UNSIGNED_OF_int64_t uint64_t
#define UNSIGNED_OF_uint64_t uint64_t
#define UNSIGNED_OF_int unsigned
#define UNSIGNED_OF_long unsigned long
#define SIGNED_OF_int8_t int8_t
#define SIGNED_OF_uint8_t int8_t
#define SIGNED_OF_int16_t int16_t
#define SIGNED_OF_uint16_t int16_t
#define SIGNED_OF_int32_t int32_t
#define SIGNED_OF_uint32_t int32_t
#define SIGNED_OF_int64_t int64_t
#define SIGNED_OF_uint64_t int64_t
#define IS_UNSIGNED(T) (((T)-1) > 0)
#define IS_SIGNED(T) (((T)-1) < 0)

/* byte k (0 = least significant) of an integer value */
#define VBYTE(x, k) ((uint8_t)(((uint64_t)(x)) >> (8 * (k))))
/* byte at address p+i */
#define MEMB(p, i) ((uint64_t)((const uint8_t*)(p))[i])

/* numerals read from memory in a *named* byte order (the definition of big/little-endian) */
#define DEC_BE16(p) ((MEMB(p,0) << 8) | MEMB(p,1))
#define DEC_LE16(p) ((MEMB(p,1) << 8) | MEMB(p,0))
#define DEC_BE32(p) ((MEMB(p,0) << 24) | (MEMB(p,1) << 16) | (MEMB(p,2) << 8) | MEMB(p,3))
#define DEC_LE32(p) ((MEMB(p,3) << 24) | (MEMB(p,2) << 16) | (MEMB(p,1) << 8) | MEMB(p,0))
#define DEC_BE64(p) ((DEC_BE32(p) << 32) | DEC_BE32(((const uint8_t*)(p)) + 4))
#define DEC_LE64(p) ((DEC_LE32(((const uint8_t*)(p)) + 4) << 32) | DEC_LE32(p))

#endif
