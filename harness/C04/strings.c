/* C04: strings -- character lemma, escape_string loop, composed induction step, string arm, bounded end-to-end run
 * (pieces 1 and 2 of DESIGN.md C04). */
#include "harness/C04/prelude.h"
_Static_assert(StringEscapeMode_STANDARD == ESCM_STANDARD && StringEscapeMode_HEX == ESCM_HEX && StringEscapeMode_CONTROL_ONLY == ESCM_CONTROL_ONLY,
               "spec/C04_escape.h and src/JSON.hh number the escape modes alike");
size_t g_ek, g_p0, g_p1, g_base; char g_ech; unsigned g_gl, g_cl; char g_g0, g_g1, g_g2, g_g3, g_g4, g_g5, g_c0, g_c1, g_c2, g_c3, g_c4, g_c5;

/* piece 1, CHAR LEMMA (loop-free, 256 x 3 symbolic): the bytes that the loop body of escape_string emits for the byte b in each
 * escape mode (a) are 1..6 bytes, (b) do not start with the closing quote, so the guard of the parser's string loop admits them,
 * (c) are consumed by ONE execution of the body of the parser's string loop -- exactly, without exception -- which (d) appends
 * exactly b.  (e) They are the group C04_ESC(b, mode) of the cut formula; (f) in STANDARD mode they are one string item of
 * RFC 8259 section 7 denoting the code point b. */
void h_char_lemma(void) {
  uint8_t in_b; unsigned in_mode;
  __CPROVER_assume(in_mode <= 2);
  verif_exc = 0;
  char gbuf[8]; vstr grp = {gbuf, 0, 8};
  JSON_escape_char(&grp, (char)in_b, (int)in_mode);
  __CPROVER_assert(verif_exc == 0 && grp.size >= 1 && grp.size <= 6, "escape_string emits 1..6 bytes per character");
  __CPROVER_assert(grp.data[0] != '"', "the emitted group does not start with the closing quote");
  __CPROVER_assert(C04_GROUP_IS_(C04_C, (char)in_b, (int)in_mode) && grp.size == g_cl && C04_BYTES_AT_(&grp, 0, C04_C), "the emitted group is C04_ESC(b, mode)");
  if (in_mode == ESCM_STANDARD) {
    __CPROVER_assert(SPEC_RFC_CHAR_GROUP(grp.data, grp.size), "STANDARD mode: the group is one string item of RFC 8259 section 7 (standard JSON)");
    __CPROVER_assert(SPEC_RFC_GROUP_VALUE(grp.data, grp.size) == in_b, "STANDARD mode: by RFC 8259 the group denotes the code point b");
  }
  StringReader r = {(const uint8_t*)grp.data, grp.size, 0};
  char dbuf[4]; vstr data = {dbuf, 0, 4};
  JSON_parse_string_step(&r, &data);
  __CPROVER_assert(verif_exc == 0, "one iteration of the parser's string loop over the group does not throw");
  __CPROVER_assert(r.offset == grp.size, "one iteration of the parser's string loop consumes exactly the group");
  __CPROVER_assert(data.size == 1 && (uint8_t)data.data[0] == in_b, "one iteration of the parser's string loop appends exactly b");
  VERIF_REACH();
}

/* piece 2a: the loop body of escape_string under its contract (appends exactly C04_ESC(ch, mode); earlier bytes untouched), then
 * escape_string under its contract (loop contract, string length unbounded, the body replaced by its contract) */
void h_escape_char(void) {
  vstr* ret; char in_b; int in_mode;
  verif_exc = 0;
  JSON_escape_char(ret, in_b, in_mode);
  VERIF_REACH();
}

void h_escape_string(void) {
  vstr* ret; const vstr* s; int in_mode; size_t in_ek, in_base;
  g_ek = in_ek; g_base = in_base; verif_exc = 0;
  JSON_escape_string(ret, s, in_mode);
  VERIF_REACH();
}

#ifndef LEMMA_MAX
#define LEMMA_MAX 0x100000
#endif
/* piece 2b, INDUCTION STEP of parse_string('"' + escape(s) + '"') == s, composed from the contract of escape_string and the REAL
 * body of the parser's string loop: for a string s of any length n (<= LEMMA_MAX for the allocation model), any index k < n and
 * any mode, let text = prefix + escape(s) (contract); with the cursor at POS(k) -- where the group of s[k] starts -- and k
 * characters already decoded, one iteration of the parser's loop is admitted by the loop guard, does not throw, moves the cursor
 * to POS(k+1), appends exactly s[k] and keeps the characters decoded before.  Base (cursor behind the opening quote = POS(0))
 * and closure (the closing quote at POS(n) ends the loop) are the contract clauses g_p0 == g_base for k == 0, g_p1 == size for
 * k == n-1, the string arm lemma and the bounded end-to-end run. */
void l_string_step(void) {
  size_t in_n, in_k, in_cap, in_vk; unsigned in_mode; uint8_t in_vval;
  __CPROVER_assume(in_n <= LEMMA_MAX && in_k < in_n && in_mode <= 2 && in_cap <= 16 * LEMMA_MAX);
  verif_exc = 0;
  vstr* s = malloc(sizeof(vstr)); __CPROVER_assume(s != 0);
  s->data = malloc(in_n); __CPROVER_assume(s->data != 0); s->size = in_n; s->cap = in_n;
  vstr* ret = malloc(sizeof(vstr)); __CPROVER_assume(ret != 0);
  __CPROVER_assume(in_cap >= 8 * in_n + 1);
  ret->data = malloc(in_cap); __CPROVER_assume(ret->data != 0); ret->size = 1; ret->cap = in_cap;    /* the opening quote is there */
  g_ek = in_k; g_base = 1;
  char sk = s->data[in_k];
  JSON_escape_string(ret, s, (int)in_mode);              /* replaced by its contract */
  __CPROVER_assert(ret->data[g_p0] != '"', "the loop guard of the parser admits the group of s[k]");
  StringReader r = {(const uint8_t*)ret->data, ret->size, g_p0};
  vstr data; data.data = malloc(in_k + 1); __CPROVER_assume(data.data != 0); data.size = in_k; data.cap = in_k + 1;
  __CPROVER_assume(in_vk < in_k && (uint8_t)data.data[in_vk] == in_vval);
  JSON_parse_string_step(&r, &data);
  __CPROVER_assert(verif_exc == 0, "the iteration over the group of s[k] does not throw");
  __CPROVER_assert(r.offset == g_p1, "the iteration moves the cursor from POS(k) to POS(k+1)");
  __CPROVER_assert(data.size == in_k + 1 && data.data[in_k] == sk, "the iteration appends exactly s[k]");
  __CPROVER_assert((uint8_t)data.data[in_vk] == in_vval, "the characters decoded before are kept");
  VERIF_REACH();
}

/* piece 2c: the string arm of serialize is '"' + escape_string(s, mode selected by the options) + '"' (escape_string replaced
 * by its contract): the text starts with a quote, which selects the string branch of parse; POS(0) is 1; the byte at POS(n) is
 * the closing quote and the last byte of the text. */
void l_string_arm(void) {
  size_t in_n, in_k, in_cap; uint32_t in_options;
  __CPROVER_assume(in_n <= LEMMA_MAX && in_cap <= 16 * LEMMA_MAX && in_cap >= 8 * in_n + 2);
  verif_exc = 0;
  JSONV* v = malloc(sizeof(JSONV)); __CPROVER_assume(v != 0);
  v->kind = JK_string;
  v->s.data = malloc(in_n); __CPROVER_assume(v->s.data != 0); v->s.size = in_n; v->s.cap = in_n;
  vstr* ret = malloc(sizeof(vstr)); __CPROVER_assume(ret != 0);
  ret->data = malloc(in_cap); __CPROVER_assume(ret->data != 0); ret->size = 0; ret->cap = in_cap;
  g_ek = in_k; g_base = 1;
  int mode = JSON_ser_escape_mode(in_options);
  /* the mode follows the options as src/JSON.hh documents them */
  __CPROVER_assert(mode == ((in_options & SerializeOption_ESCAPE_CONTROLS_ONLY) ? ESCM_CONTROL_ONLY : (in_options & SerializeOption_HEX_ESCAPE_CODES) ? ESCM_HEX : ESCM_STANDARD),
                   "escape mode selected by the options");
  JSON_ser_string(v, ret, in_options, 0, mode);
  __CPROVER_assert(verif_exc == 0, "serialize(string) does not throw");
  __CPROVER_assert(ret->size >= 2 && ret->data[0] == '"' && ret->data[ret->size - 1] == '"', "serialize(string) is enclosed in quotes");
  __CPROVER_assert(in_n == 0 ==> ret->size == 2, "serialize(\"\") is two quotes");
  __CPROVER_assert((in_k == 0 && in_n > 0) ==> g_p0 == 1, "the group of s[0] starts right behind the opening quote");
  __CPROVER_assert((in_k < in_n && in_k + 1 == in_n) ==> g_p1 == ret->size - 1, "the closing quote follows the group of the last character");
  StringReader r = {(const uint8_t*)ret->data, ret->size, 0};
  __CPROVER_assert(JSON_parse_dispatch(&r) == 4, "the first character of serialize(string) selects the string branch of parse");
  VERIF_REACH();
}

/* piece 2d (bounded): the whole path serialize string arm -> dispatch -> string branch of parse for every string of at most
 * C04_STRMAX bytes, every option set and both parser modes; also checks that text produced in STANDARD mode is a string of
 * RFC 8259 (quotation mark, items, quotation mark). */
#ifndef C04_STRMAX
#define C04_STRMAX 2
#endif
void h_string_bounded(void) {
  char in_s[C04_STRMAX]; size_t in_n; uint32_t in_options; C04_IN_BOOL(in_strict);
  __CPROVER_assume(in_n <= C04_STRMAX);
  __CPROVER_assume(C04_MODE_OK(in_strict, in_options));
  verif_exc = 0;
  JSONV v; v.kind = JK_string; v.s.data = in_s; v.s.size = in_n; v.s.cap = C04_STRMAX;
  char obuf[6 * C04_STRMAX + 2]; vstr out = {obuf, 0, 6 * C04_STRMAX + 2};
  JSON_ser_string(&v, &out, in_options, 0, JSON_ser_escape_mode(in_options));
  __CPROVER_assert(verif_exc == 0 && out.size >= 2, "serialize(string) does not throw");
  StringReader r = {(const uint8_t*)out.data, out.size, 0};
  __CPROVER_assert(JSON_parse_dispatch(&r) == 4, "the first character of serialize(string) selects the string branch of parse");
  char dbuf[C04_STRMAX + 1]; vstr data = {dbuf, 0, C04_STRMAX + 1};
  JSONV ret; ret.kind = -1;
  JSON_parse_string(&r, &ret, &data);
  __CPROVER_assert(verif_exc == 0, "parse(serialize(string)) does not throw");
  __CPROVER_assert(r.offset == r.length, "parse consumes the serialized string entirely");
  __CPROVER_assert(ret.kind == JK_string && ret.s.size == in_n, "parse(serialize(string)) is a string of the same length");
  for (size_t k = 0; k < C04_STRMAX; k++) {
    __CPROVER_assert(k >= in_n || ret.s.data[k] == in_s[k], "parse(serialize(string)) has the same bytes");
  }
  VERIF_REACH();
}
