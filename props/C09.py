"""C09 -- data strings (format_data_string / parse_data_string) decode back; hex dump mostly not decidable here (DESIGN.md section 4, C09)."""
import re
from vf.extract import Source, Unit
from vf.lex import Rule, ExtractionBreak
from vf.pipeline import Group, Replay, ALL_LIB

ID = 'C09'
LEVEL = 'proof'
EXPLANATION = (
    'Data strings. The body of parse_data_string\'s loop is cut out (Unit.block) as the step function pds_step over the parser state and put under a '
    'complete transition contract (contracts/C09_step.h: one next-state clause per state variable, position/advance clauses, output clauses per construct: '
    '"..." with escapes, \'...\' 16-bit expansion, // and /* */ comments, ? mask toggle, $ byte order, #..#### numerals of 1/2/4/8 bytes, % float / %% double, hex pairs; '
    'strtoull/strtod/strtof abstract: value = ghost, end pointer anywhere up to the terminator). It is enforced with goto-instrument --dfcc, loop-free, for every '
    'state, every look-ahead, every remaining length. parse_data_string as a whole (same text, loop body replaced by the call of pds_step, bound by that contract) is then '
    'proved total under a loop contract: position stays inside [s, s+size], strictly advances (decreases), no exception, load_file unreachable with ALLOW_FILES off, '
    'output <= 4 bytes per character, mask as long as the data. Losslessness: the bodies of the two rendering loops of format_data_string are cut out as per-byte step '
    'functions; the step-simulation lemmas run the formatter step on ONE symbolic byte / mask byte / mask state and feed the emitted characters (followed by an arbitrary '
    'next character) to the parser step in the corresponding parser state: exactly that byte and its mask classification are appended and the state is restored '
    '(all 256 bytes x all mask bytes x both mask states x any look-ahead; loop-free). With the bracket lemma (opening/closing quote), the initial-state lemma and the '
    'classification contract of the whole formatter (quoted form iff strings not suppressed and every byte printable; loop contracts, ghost index + witness) this is the '
    'induction step of parse(format(x, mask)) == (x, mask) for strings of any length; the composition itself is machine-checked only up to a bound (bounded group). '
    'Hex dump: only the line geometry of format_data\'s main loop is decided -- the loop header, the declarations it uses, the four geometry statements, the address-width '
    'selection and the interior-line test of zero-line collapsing are cut from the source as snippets and assembled into a loop skeleton (visits exactly the lines that '
    'intersect the range, once each, terminates: loop contract) and a loop-free per-line function (blank columns, bytes per line, column = address & 15, telescoping byte '
    'count, first/last line never collapsed, narrowest address width), for every start address and size whose last byte has an address.')
TRUSTED = [
    'stubs/C09_str.h: own stubs of C09 -- the two std::string models (full vstr model; append-only "tail" model: total size + first byte + bytes appended in the current '
    'loop iteration), append/fill/literal-append bodies, printf("%02X") = two upper-case hex digits, strtoull/strtod/strtof (end pointer between nptr and the terminating NUL, '
    'abstract value), load_file (must be unreachable)',
    'stubs/vstr.h (std::string model shared with C01/C02/C08)',
    'contracts/C09_glue.h, C09_step.h, C09_parse.h, C09_format.h, C09_wrapper.h, C09_lines.h: the specification macros (printable set, escape table, widths selected by #/%, byte order) written from the '
    'property statement and the construct comments of parse_data_string',
    'the induction that lifts the step lemmas to strings of any length (stated in EXPLANATION, not machine-checked; machine-checked instances: lengths <= 3 / <= 5)',
]
ASSUMPTIONS = [
    'texts and data up to 2^32 bytes (object sizes of the model); std::string allocation succeeds (capacity model: 4 bytes per input character + 8 for the parser, 5 characters per byte + 2 for the formatter)',
    'ParseDataFlags::ALLOW_FILES is off (with the flag on, load_file may throw and append a file of any size: outside the claim)',
    'the numeric value of a numeral (#.., %..) is whatever strtoull(.., base 0) / strtod / strtof return for the text after the markers: libc is not verified; only the '
    'call (argument = position after the markers, base 0), the truncation to the selected width and the byte order are',
    'char is signed 8-bit (x86-64 model); float/double are IEEE-754 bit patterns and bit-exact float obligations are answered by SAT back ends only',
    'a bool object holds 0 or 1 (stated as precondition of the step contract; the verifier\'s havoc would otherwise produce other bit patterns)',
]
DROPS = ('std::string result -> out-parameter (OUT_STR), s.c_str() -> (const char* s, size_t s_size), data += c / append / push_back / mask->append / ret += literal -> model calls, '
         'string_printf("%02X", v) -> printf model, strtoull/strtod/strtof/load_file -> stubs, const_cast/reinterpret_cast -> C casts, constexpr host_big_endian -> enum from '
         'Platform.hh\'s byte-order #if (extracted), enumerators ParseDataFlags::ALLOW_FILES / FormatDataFlags::SKIP_STRINGS -> values read from Strings.hh; for the step function '
         'the locals of parse_data_string that live across iterations become file-scope state, `return data;` inside the loop -> flag g_returned; for the loop skeleton the loop body '
         'is replaced by the call of the step function plus ghost bindings; hex dump: snippets of format_data (declarations from end_address on, width if-chain, for header, geometry '
         'statements, interior test) assembled into fd_line_loop / fd_line, max<int64_t> -> macro, PrintDataFlags::X -> values read from Strings.hh')
NOT_DECIDED = [
    'hex dump (format_data core, print_data/format_data overloads): NOT decided by this technique except for the line geometry (groups format_data.line_loop / line_geometry) -- '
    'generic lambda, std::function, string_printf("%0*llX"/" %02X"/"%g"), terminal escapes; decided for the ASCII column of a line with colour off (group format_data.ascii_column); not decided: the text of the address/hex/float columns, the colour escapes, flag combinations other '
    'than the OFFSET_* width selection, diff highlighting, WHICH all-zero interior lines are omitted (only: first and last line are never candidates), the iovec cursors and '
    'partition independence (the geometry shows that the lines ask for exactly `size` bytes in address order; that the cursor delivers byte k of the concatenation is not proved)',
    'the composition parse(format(x, mask)) == (x, mask) for unbounded length: proved as step lemmas + classification + brackets (induction stated, not machine-checked); '
    'machine-checked composition only for length <= 3 (quick) / <= 5 (thorough), labelled bounded',
    'numeral text -> value (strtoull/strtod/strtof), ALLOW_FILES on, src/ParseData.cc (command-line wrapper: file I/O only)',
    'the high byte of the 16-bit code unit of a character >= 0x80 inside \'...\' is carved out of the step contract and judged by its own group (parse_data_string.wide_char)',
]
CLAIMED = True
MANIFEST = dict(
    category='proof',
    text=('Data-string half only. parse_data_string: the loop body (extracted as a function) satisfies a complete transition contract for every parser state, look-ahead and '
          'remaining length (loop-free, --dfcc): per construct the bytes the syntax defines ($ byte order, #/##/###/#### widths, %/%% floats, "..." escapes, \'...\' 16-bit expansion, '
          'comments, ? mask toggles, hex pairs), position inside the text, progress; the whole function is total under a loop contract with the step bound by contract (no out-of-bounds '
          'read, terminates, no exception, no file access without ALLOW_FILES, mask length == data length). format_data_string: quoted form iff every byte printable and strings not '
          'suppressed (loop contracts, ghost index/witness), reads inside [0,size), size bounds. Losslessness: per-byte step-simulation lemmas formatter-step -> parser-steps over all '
          'bytes / mask bytes / mask states / look-aheads (loop-free), quote-bracket and initial-state lemmas; composition machine-checked for lengths <= 3 (quick) / <= 5 (thorough) as a '
          'bounded check. Hex dump: only the line geometry of format_data (lines visited, blank columns, column = address & 15, byte count, address width, first/last line not '
          'collapsible) for every start address/size -- loop contract + loop-free per-line contract on snippets of the loop; column text, highlighting, iovec cursor: not decided.'),
    note=('Trusted: cbmc/goto-instrument/solvers, the extractor, stubs/C09_str.h (string models incl. the append-only tail model, printf %02X, strto* end-pointer model), stubs/vstr.h, the spec macros. '
          'Assumes ALLOW_FILES off, sizes < 2^32, signed char. The induction from the step lemmas to arbitrary length is stated, not machine-checked. Two defects found and fixed: '
          'backslash not escaped by the quoted form (fixes/C09-1), sign extension of bytes >= 0x80 inside \'...\' (fixes/C09-2), hex-dump line loop wraps for ranges in the last 16 bytes of the '
          'address space (fixes/C09-3).'),
    technique='function + loop contracts enforced with goto-instrument --dfcc on the extracted step function / loop skeleton / formatter, loop-free step-simulation lemmas on the extracted loop bodies, cbmc SAT portfolio; one bounded composition check',
)
CC = 'src/Strings.cc'
HH = 'src/Strings.hh'

PARSE_SIG = r'string parse_data_string\(const string& s, string\* mask, uint64_t flags\)'
FORMAT_SIG = r'string format_data_string\(const void\* vdata, size_t size, const void\* vmask, uint64_t flags\)'


# --------------------------------------------------------------------------------------------------------- extraction
def enum_value(u, src, enum, name):
    """value of an enumerator, read from the header on every run"""
    v = u.snippet(src, HH, r'enum %s \{[^}]*?\b%s = (\w+),' % (enum, name), group=1)
    return '%s_%s = %s' % (enum, name, v)


HOST_BE = Rule(r'bool host_big_endian = (true|false);', r'enum { host_big_endian = \1 };', regex=True, count=2)


def parser_rules(ret_stmt, nret, whole):
    """std::string / libc uses of parse_data_string -> the string model (stubs/vstr.h, stubs/C09_str.h).  Purely type-directed;
    regexes so that edits of the operands still extract (and are then judged by the contracts)."""
    pre = [Rule('ParseDataFlags::ALLOW_FILES', 'ParseDataFlags_ALLOW_FILES', count=1), HOST_BE] if whole else []
    return pre + [
        Rule(r'data \+= load_file\(filename\);', 'C09_load_file(data, &filename); if (verif_exc) %s' % ret_stmt, regex=True, count=1),
        Rule(r'\bdata \+= ([^;]+);', r'out_push_back(data, \1);', regex=True, count='+'),
        Rule(r'\bdata\.append\(\(*const char\*\)\(?&value\)*, ([^;]+)\);', r'C09_append_bytes(data, (const char*)&value, \1);', regex=True, count='+'),
        Rule(r'\bdata\.append\(1, ([^;]+)\);', r'out_push_back(data, \1);', regex=True, count='+'),
        Rule(r'\bdata\.size\(\)', 'out_size(data)', regex=True, count=2),
        Rule(r'\bstrtoull\(', 'C09_strtoull(', regex=True, count=None),
        Rule(r'\bstrto(?:ll|l|ul)\(', 'C09_strtoll(', regex=True, count=None),
        Rule(r'\bstrtod\(', 'C09_strtod(', regex=True, count=None),
        Rule(r'\bstrtof\(', 'C09_strtof(', regex=True, count=None),
        FloatSwapOverloads(),
        Rule(r'\bfilename\.append\(1, ([^;]+)\);', r'vstr_push_back(&filename, \1);', regex=True, count=1),
        Rule('filename.clear();', 'vstr_clear(&filename);', count=1),
        Rule(r'return data;', ret_stmt, count='+'),
    ]


class FloatSwapOverloads(Rule):
    """bswap32f / bswap64f are overloaded in Encoding.hh (float -> uint32_t and uint32_t -> float, likewise for 64 bits): a call is
    resolved from the declared type of its argument variable (nearest preceding declaration), as C++ overload resolution does;
    the C names are those of the C03 leaf unit (bswap32f_f2u / _u2f, bswap64f_d2u / _u2d)."""

    def __init__(self):
        self.pat, self.count = 'bswapNNf overload resolution', None

    def apply(self, text, where=''):
        def rep(mo):
            w, v = mo.group(1), mo.group(2)
            decl = None
            for d in re.finditer(r'\b(float|double|uint32_t|uint64_t)\s+%s\b' % re.escape(v), text[:mo.start()]):
                decl = d.group(1)
            sfx = {('32', 'float'): 'f2u', ('32', 'uint32_t'): 'u2f', ('64', 'double'): 'd2u', ('64', 'uint64_t'): 'u2d'}.get((w, decl))
            if sfx is None:
                raise ExtractionBreak('%s: cannot resolve bswap%sf(%s): argument declared %r' % (where, w, v, decl))
            return 'bswap%sf_%s(%s)' % (w, sfx, v)
        return re.sub(r'\bbswap(32|64)f\((\w+)\)', rep, text)


def prelude_unit(ctx, src):
    u = Unit(ctx, 'c09_prelude')
    u.raw('#ifndef X_C09_PRELUDE\n#define X_C09_PRELUDE')
    u.raw('#include "stubs/C09_str.h"\n#include "contracts/C09_glue.h"\n')
    u.raw('enum { %s, %s };' % (enum_value(u, src, 'ParseDataFlags', 'ALLOW_FILES'), enum_value(u, src, 'FormatDataFlags', 'SKIP_STRINGS')))
    u.raw(u.snippet(src, 'src/Platform.hh', r'#if defined\(__BYTE_ORDER__\) && \(__BYTE_ORDER__ == __ORDER_LITTLE_ENDIAN__\).*?\n#endif'))
    u.function(src, CC, r'static inline void add_mask_bits\(string\* mask, bool mask_enabled, size_t num_bytes\)',
               new_header='static inline void add_mask_bits(OUT_STR* mask, bool mask_enabled, size_t num_bytes)',
               rules=[Rule(r'mask->append\(', 'C09_append_fill(mask, ', regex=True, count=1)])
    u.raw('#endif')
    u.write()
    return u


PARSE_LOOP = """
__CPROVER_assigns(in, chr, reading_string, reading_unicode_string, reading_comment, reading_multiline_comment, reading_high_nybble,
                  reading_filename, big_endian, mask_enabled, filename.size, verif_exc,
                  g_st_calls, g_st_arg, g_st_end, g_st_base, g_st_kind, g_num, g_dbl, g_flt, g_load_calls,
                  data->size, __CPROVER_object_whole(data->data);
                  mask != 0: mask->size, __CPROVER_object_whole(mask->data))
__CPROVER_loop_invariant(__CPROVER_same_object(in, s) && __CPROVER_POINTER_OFFSET(in) <= s_size)
__CPROVER_loop_invariant(verif_exc == 0 && !reading_filename && g_load_calls == 0)
__CPROVER_loop_invariant(PDS_MODES_OK(reading_comment, reading_multiline_comment, reading_string, reading_unicode_string))
__CPROVER_loop_invariant(PDS_NYBBLE_OK(reading_high_nybble, chr))
__CPROVER_loop_invariant(data->size <= 4 * (size_t)__CPROVER_POINTER_OFFSET(in))
__CPROVER_loop_invariant(mask != 0 ==> mask->size == data->size)
__CPROVER_loop_invariant((mask != 0 && g_vk < mask->size) ==> PDS_IS_MASK_BYTE(mask->data[g_vk]))
__CPROVER_decreases(s_size - (size_t)__CPROVER_POINTER_OFFSET(in))
"""


def parse_unit(ctx, src):
    """the whole parser, loop contract on its single loop (totality: memory safety, termination, no exception)"""
    u = Unit(ctx, 'pds_full')
    u.function(src, CC, PARSE_SIG,
               new_header='void parse_data_string(OUT_STR* data, const char* s, size_t s_size, OUT_STR* mask, uint64_t flags)',
               rules=parser_rules('return;', 3, True) + [
                   Rule(r'const char\* in = s\.c_str\(\);', 'const char* in = s;', regex=True, count=1),
                   Rule('string data;', '', count=1),
                   Rule('mask->clear();', 'out_clear(mask);', count=1),
                   Rule('string filename;', 'vstr filename = { 0, 0, 0 };', count=1)],
               body_prefix=' g_end = s + s_size; ', nloops=1, loops={1: PARSE_LOOP})
    u.write()
    return u


SKEL_LOOP = """
__CPROVER_assigns(in, chr, reading_string, reading_unicode_string, reading_comment, reading_multiline_comment, reading_high_nybble,
                  big_endian, mask_enabled, g_returned, g_n, g_c0, g_c1, g_c2, g_c3,
                  g_st_calls, g_st_arg, g_st_end, g_st_base, g_st_kind, g_num, g_dbl, g_flt,
                  data->size, data->nw, data->first, __CPROVER_object_upto(data->w, C09_WIN) PDS_LOOP_MASK_ASSIGNS)
__CPROVER_loop_invariant(__CPROVER_same_object(in, s) && __CPROVER_POINTER_OFFSET(in) <= s_size)
__CPROVER_loop_invariant(verif_exc == 0 && !reading_filename && !allow_files && g_load_calls == 0 && !g_returned)
__CPROVER_loop_invariant(PDS_B01(reading_string) && PDS_B01(reading_unicode_string) && PDS_B01(reading_comment) && PDS_B01(reading_multiline_comment))
__CPROVER_loop_invariant(PDS_B01(reading_high_nybble) && PDS_B01(big_endian) && PDS_B01(mask_enabled))
__CPROVER_loop_invariant(PDS_MODES_OK(reading_comment, reading_multiline_comment, reading_string, reading_unicode_string))
__CPROVER_loop_invariant(PDS_NYBBLE_OK(reading_high_nybble, chr))
__CPROVER_loop_invariant(data->size <= 4 * (size_t)__CPROVER_POINTER_OFFSET(in))
__CPROVER_loop_invariant(mask != 0 ==> mask->size == data->size)
__CPROVER_decreases(s_size - (size_t)__CPROVER_POINTER_OFFSET(in))
"""

# the loop body is replaced by a call of the step function (the very same text, cut by Unit.block in step_unit); the ghost
# statements in front of the call bind the ghosts of the step contract (look-ahead characters, remaining length, frame value)
SKEL_CALL = ('{ g_n = s_size - (size_t)__CPROVER_POINTER_OFFSET(in); g_c0 = in[0]; g_c1 = in[1]; g_c2 = g_c1 ? in[2] : 0; g_c3 = g_c2 ? in[3] : 0; '
             'g_st_calls = 0; C09_WINDOW_RESET(data); C09_WINDOW_RESET(mask); pds_step(); if (g_returned) return; }')


def skeleton_unit(ctx, src):
    """parse_data_string with its loop body cut out: prologue, `while (in[0])`, a call of pds_step (contract), epilogue.
    The locals that live across iterations become the file-scope parser state the step contract talks about."""
    from vf import lex
    text = src.text(CC)
    _, fbody, _, _ = lex.find_def(text, PARSE_SIG, 'function')
    _, loop_body, _, _ = lex.find_block(fbody, r'while \(in\[0\]\)', 'loop body')
    u = Unit(ctx, 'pds_skeleton')
    u.function(src, CC, PARSE_SIG, generic=False,
               new_header='void parse_data_string(OUT_STR* data_out, const char* s, size_t s_size, OUT_STR* mask_out, uint64_t flags)',
               rules=[Rule(loop_body, SKEL_CALL, count=1),
                      Rule('ParseDataFlags::ALLOW_FILES', 'ParseDataFlags_ALLOW_FILES', count=1),
                      Rule(r'constexpr bool host_big_endian = (true|false);', '', regex=True, count=2),
                      Rule(r'\b(?:uint8_t|bool) (chr|reading_\w+|big_endian|mask_enabled|allow_files) = ', r'\1 = ', regex=True, count=10),
                      Rule(r'const char\* in = s\.c_str\(\);', 'in = s;', regex=True, count=1),
                      Rule('string data;', '', count=1),
                      Rule('mask->clear();', 'out_clear(mask);', count=1),
                      Rule('string filename;', '', count=1),
                      Rule('return data;', 'return;', count=1)],
               body_prefix=' data = data_out; mask = mask_out; g_end = s + s_size; g_returned = 0; ', nloops=1, loops={1: SKEL_LOOP})
    u.write()
    return u


def step_unit(ctx, src):
    """one iteration of the parser's loop as a function over the parser state (file-scope variables declared in
    contracts/C09_glue.h under PDS_STATE_GLOBALS): the transition function the per-construct contracts talk about"""
    u = Unit(ctx, 'pds_step')
    u.raw(u.snippet(src, CC, r'#ifdef PHOSG_BIG_ENDIAN\s*constexpr bool host_big_endian = true;\s*#else\s*constexpr bool host_big_endian = false;\s*#endif',
                    rules=[HOST_BE]))
    # the state variables the loop body works on are exactly the locals declared between the function start and the loop
    V = r' = \w+;\s*'
    decl = u.snippet(src, CC, r'uint8_t chr' + V + r'bool reading_string' + V + r'bool reading_unicode_string' + V + r'bool reading_comment' + V +
                              r'bool reading_multiline_comment' + V + r'bool reading_high_nybble' + V + r'bool reading_filename' + V +
                              r'bool big_endian' + V + r'bool mask_enabled' + V + r'string filename;\s*while \(in\[0\]\)')
    u.raw('/* initial parser state, from the declarations in front of the loop */\n#define PDS_INIT_STATE() do { %s } while (0)'
          % ' '.join(re.sub(r'^(?:uint8_t|bool) ', '', d.strip()) + ';' for d in decl.split(';')[:9]))
    u.block(src, CC, PARSE_SIG, r'while \(in\[0\]\)', new_header='void pds_step(void)',
            rules=parser_rules('{ g_returned = 1; return; }', 2, False))
    u.write()
    return u


FMT_RULES = [
    Rule('FormatDataFlags::SKIP_STRINGS', 'FormatDataFlags_SKIP_STRINGS', count=None),
    Rule(r"\bret \+= ('(?:[^'\\]|\\.)+');", r'out_push_back(ret, \1);', regex=True, count=None),
    Rule(r'\bret \+= ("(?:[^"\\]|\\.)*");', r'C09_append_lit(ret, \1, sizeof(\1) - 1);', regex=True, count=None),
    Rule(r'\bret\.push_back\(', 'out_push_back(ret, ', regex=True, count=None),
    Rule(r'\bret \+= string_printf\(("[^"]*"), ', r'C09_append_printf_hex(ret, \1, ', regex=True, count=None),
]

FMT_LOOP1 = """
__CPROVER_assigns(z, is_printable, g_w)
__CPROVER_loop_invariant(z <= size)
__CPROVER_loop_invariant(is_printable ==> (g_k < z ==> FDS_PRINTABLE(data[g_k])))
__CPROVER_loop_invariant(!is_printable ==> (g_w < size && !FDS_PRINTABLE(data[g_w])))
__CPROVER_decreases(size - z)
"""
FMT_LOOP2 = """
__CPROVER_assigns(x, mask_enabled, OUT_ASSIGNS_NONEMPTY(ret))
__CPROVER_loop_invariant(x <= size && ret->size >= 1 && ret->size <= 1 + 5 * x && (mask == 0 ==> ret->size <= 1 + 2 * x) && OUT_WINDOW_LE(ret, 5))
__CPROVER_decreases(size - x)
"""
FMT_LOOP3 = """
__CPROVER_assigns(x, mask_enabled, OUT_ASSIGNS(ret))
__CPROVER_loop_invariant(x <= size && ret->size >= 2 * x && ret->size <= 3 * x && (mask == 0 ==> ret->size == 2 * x) && OUT_WINDOW_LE(ret, 3))
__CPROVER_decreases(size - x)
"""

QUOTED_INTRO = r"ret \+= '[^']*';\s*for \(size_t x = \w+; x <=? size[^;]*; x\+\+\)"
HEX_INTRO = r"\} else \{\s*for \(size_t x = \w+; x <=? size[^;]*; x\+\+\)"


def format_unit(ctx, src):
    u = Unit(ctx, 'fds_full')
    u.function(src, CC, FORMAT_SIG,
               new_header='void format_data_string(OUT_STR* ret, const void* vdata, size_t size, const void* vmask, uint64_t flags)',
               rules=FMT_RULES + [
                   Rule('string ret;', 'g_quoted = is_printable;', count=1),
                   # a new iteration of a rendering loop starts a new window of the append-only string model (no-op for the full model)
                   Rule(r'(for \(size_t x = [^)]*\)\s*\{)', r'\1 C09_WINDOW_RESET(ret);', regex=True, count=2),
                   Rule(r'is_printable = false;', '{ g_w = z; is_printable = false; }', count=1),
                   Rule('return ret;', 'return;', count=1)],
               nloops=3, loops={1: FMT_LOOP1, 2: FMT_LOOP2, 3: FMT_LOOP3})
    # every use of the result string must have been rewritten to a model call (ret as a pointer argument only)
    if re.search(r'\bret\s*(\+=|\.)', u.parts[-1]):
        raise ExtractionBreak('format_data_string: unrewritten uses of the result string')
    u.write()
    return u


def wrapper_unit(ctx, src):
    """format_data_string(const std::string&, const std::string*, flags): the size check and the forwarding call"""
    u = Unit(ctx, 'fds_wrapper')
    u.function(src, CC, r'string format_data_string\(const string& data, const string\* mask, uint64_t flags\)',
               new_header='void format_data_string_str(OUT_STR* ret, const vstr* data, const vstr* mask, uint64_t flags)', ret_zero='',
               rules=[Rule('mask->size()', 'vstr_size(mask)', count=None), Rule('data.size()', 'vstr_size(data)', count=None),
                      Rule('data.data()', 'data->data', count=None), Rule('mask->data()', 'mask->data', count=None),
                      Rule(r'return format_data_string\(([^;]*)\);', r'{ format_data_string(ret, \1); return; }', regex=True, count=1)])
    u.write()
    return u


FD_FLAGS = ['OFFSET_8_BITS', 'OFFSET_16_BITS', 'OFFSET_32_BITS', 'OFFSET_64_BITS']


def ascii_unit(ctx, src):
    """hex dump: the ASCII column block of format_data's line lambda, cut out verbatim (write_data and the terminal guards are models)"""
    u = Unit(ctx, 'fd_ascii')
    u.raw('#include "contracts/C09_ascii.h"\n')
    ftext = src.text(CC)
    import re as _re
    from vf import lex as _lex
    m = _lex.mask(ftext)
    mo = _re.search(r'\bif \(print_ascii\) \{', m)
    if not mo or len(_re.findall(r'\bif \(print_ascii\) \{', m)) != 1:
        raise ExtractionBreak('format_data: the block `if (print_ascii) {` was not found exactly once')
    e = _lex.match_close(m, mo.end() - 1)
    block = ftext[mo.start():e + 1]
    hdr = ('void fd_ascii_column(const uint8_t* line_buf, const uint8_t* prev_line_data, uint8_t line_invalid_start_bytes, uint8_t line_invalid_end_bytes, '
           '_Bool use_color, _Bool skip_separator, _Bool print_ascii)')
    body = '{\n' + block + '\n}'
    rules = [Rule(r'\bwrite_data\(', 'c09_write_data(', regex=True, count='+'),
             Rule(r'\b(?:RedBold|Inverse)TerminalGuard \w+\((?:c09_)?write_data, ([^;]*)\);', r'c09_guard(\1);', regex=True, count=None)]
    body = u._post(body, CC + ':format_data ASCII column', rules, True, None, None, None)
    u.functions.append({'file': CC, 'cxx_header': 'format_data :: line lambda :: if (print_ascii) { ... }', 'c_header': hdr, 'line': ftext.count('\n', 0, mo.start()) + 1})
    u.parts.append(hdr + '\n' + body + '\n')
    u.write()
    return u


def lines_unit(ctx, src):
    """hex dump: the line loop of format_data (header + geometry statements + width selection + interior test), assembled from
    snippets of the current text; the rest of the loop body is not represented"""
    uh = Unit(ctx, 'fd_flags')
    u = Unit(ctx, 'fd_lines')
    uh.raw('enum { %s };' % ', '.join('PrintDataFlags_%s = %s' % (f, u.snippet(src, HH, r'enum PrintDataFlags \{[^}]*?\b%s = (\w+),' % f, group=1)) for f in FD_FLAGS))
    uh.write(suffix='.h', scan=False)
    PF = [Rule(r'PrintDataFlags::(\w+)', r'PrintDataFlags_\1', regex=True, count=None), Rule(r'max<int64_t>\(', 'C09_MAX_I64(', regex=True, count=None)]
    pre = u.snippet(src, CC, r'(uint64_t end_address = [^;]*;(?:\s*uint64_t \w+ = [^;]*;)*)', group=1, rules=PF)
    width = u.snippet(src, CC, r'int width_digits;\s*(if \(flags & PrintDataFlags::OFFSET_8_BITS\) \{.*?\} else \{\s*width_digits = \w+;\s*\})', group=1, rules=PF)
    FOR = r'for \(uint64_t (\w+) = ([^;]*);\s*([^;]*);\s*([^){]*)\) \{\s*((?:[^{};]*;\s*)*?uint8_t line_bytes = [^;]*;)'
    var, init, cond, step, geom = (u.snippet(src, CC, FOR, group=k, rules=PF) for k in (1, 2, 3, 4, 5))
    interior = u.snippet(src, CC, r'if \(collapse_zero_lines && (\([^&]*\) && \([^&]*\)) &&\s*!memcmp', group=1, rules=PF)
    if var == 'line_start_address':
        var_ok, bind = 'line_start_address == FD_LINE_START(g_i)', ''
    elif var == 'line_index':
        var_ok, bind = 'line_index == g_i', 'uint64_t line_index = g_i;'
    else:
        raise ExtractionBreak('format_data: the line loop runs over %r (expected line_start_address or line_index)' % var)
    # -- state carried from one line to the next: a variable that the geometry statements or the loop header read, that is declared
    #    in front of the loop and assigned somewhere in the rest of the body.  The control-flow slice of the body with respect to these
    #    variables (vf.lex.slice_carried: their assignments, continue / break / return, every condition nondeterministic) becomes
    #    part of the loop skeleton, so "line i starts at FD_LINE_START(i)" has to hold on EVERY path through the body.
    from vf import lex
    ftext = src.text(CC)
    _, lbody, ls, le = lex.find_def(ftext, r'for \(uint64_t (?:line_index|line_start_address) = [^;]*;\s*[^;]*;\s*[^){]*\)', 'format_data line loop')
    gm = re.search(r'uint8_t line_bytes = [^;]*;', lbody)
    if not gm:
        raise ExtractionBreak('format_data: geometry statements not found in the loop body')
    raw_geom, rest = lbody[1:gm.end()], lbody[gm.end():-1]
    declared = set(re.findall(r'\b(?:uint64_t|uint8_t|int64_t|size_t|bool|int)\s+(\w+)\s*=', raw_geom))
    read = set(re.findall(r'\b[A-Za-z_]\w*\b', raw_geom + ' ' + cond + ' ' + step)) - declared - {var}
    mrest = lex.mask(rest)
    carried = sorted(x for x in read if re.search(r'(?<![\w.>])(?:(?:\+\+|--)\s*%s\b|%s\s*(?:\+\+|--|(?:[-+*/%%&|^]|<<|>>)?=(?!=)))' % (x, x), mrest))
    if [x for x in carried if x != 'line_start_address']:
        raise ExtractionBreak('format_data: loop-carried state %r feeds the line geometry (only line_start_address is specified)' % carried)
    skeleton = lex.slice_carried(rest, carried + [var])
    for r in PF:
        skeleton = r.apply(skeleton)
    inv_extra, assigns_extra = '', ''
    if carried:
        decl = re.findall(r'\buint64_t line_start_address = ([^;]*);', ftext[:ls])
        if len(decl) != 1:
            raise ExtractionBreak('format_data: %d declarations of the carried line_start_address in front of the loop' % len(decl))
        pre += '\n  uint64_t line_start_address = %s;' % decl[0]
        inv_extra, assigns_extra = ' && line_start_address == FD_LINE_START(g_i)', ', line_start_address'
        bind += ' line_start_address = FD_LINE_START(g_i);   /* the loop invariant proved in fd_line_loop */'
    if bind == '':
        geom_l = 'uint64_t line_start_address = FD_LINE_START(g_i);\n    ' + geom
    else:
        geom_l = bind + '\n    ' + geom
    u.raw('_Bool nondet_verif_bool(void);')
    u.raw('void fd_line_loop(uint64_t start_address, uint64_t total_size)\n{\n  %s\n  g_i = 0;\n  for (uint64_t %s = %s; %s; %s)\n'
          '  __CPROVER_assigns(%s, g_i%s)\n  __CPROVER_loop_invariant(g_i <= FD_NLINES && %s%s)\n  __CPROVER_decreases(FD_NLINES - g_i)\n'
          '  {\n    FD_LOOP_STEP\n    %s\n    /* control-flow slice of the rest of the body (carried: %s) */\n    %s\n  }\n}'
          % (pre, var, init, cond, step, var, assigns_extra, var_ok, inv_extra, geom, ', '.join(carried + [var]), skeleton))
    u.raw('void fd_line(uint64_t start_address, uint64_t total_size, uint64_t flags)\n{\n  %s\n  int width_digits;\n  %s\n  g_width = width_digits;\n'
          '  {\n    %s\n    g_interior = %s;\n    FD_LINE_CHECKS\n  }\n}' % (pre, width, geom_l, interior))
    u.functions.append({'file': CC, 'cxx_header': 'void format_data(std::function<void(const void*, size_t)>, const iovec*, size_t, uint64_t, const iovec*, size_t, uint64_t) :: line loop (header, geometry statements, width selection, interior test)',
                        'c_header': 'void fd_line_loop(uint64_t start_address, uint64_t total_size, uint64_t flags)', 'line': 0})
    u.write()
    return u


def fstep_unit(ctx, src):
    """the bodies of the two rendering loops as functions: what the formatter emits for ONE byte"""
    u = Unit(ctx, 'fds_step')
    me = Rule(r'\bmask_enabled\b', '(*mask_enabled_p)', regex=True, count='+')
    hdr = 'static inline void %s(OUT_STR* ret, const uint8_t* data, const uint8_t* mask, size_t x, bool* mask_enabled_p)'
    u.block(src, CC, FORMAT_SIG, QUOTED_INTRO, new_header=hdr % 'fds_quoted_step', rules=FMT_RULES + [me])
    u.block(src, CC, FORMAT_SIG, HEX_INTRO, new_header=hdr % 'fds_hex_step', rules=FMT_RULES + [me])
    u.write()
    return u


def plan(ctx):
    src = Source(ctx.src)
    from props import C03 as c03
    leaf = c03.leaf_unit(ctx, src)
    leaf.write()
    upre = prelude_unit(ctx, src)
    up = parse_unit(ctx, src)
    us = step_unit(ctx, src)
    usk = skeleton_unit(ctx, src)
    uf = format_unit(ctx, src)
    ufs = fstep_unit(ctx, src)
    uw = wrapper_unit(ctx, src)
    ul = lines_unit(ctx, src)
    ua = ascii_unit(ctx, src)
    ctx.functions_under_contract = up.functions + usk.functions + us.functions + uf.functions + ufs.functions + uw.functions + ul.functions + ua.functions
    groups = []
    RT = lambda mode: Replay(driver='C09/datastring.cc', mode=mode, sources=ALL_LIB)
    for mn, d in (('mask', []), ('nomask', ['MASK_NULL'])):
        groups.append(Group(name='parse_data_string.totality[%s]' % mn, harness='harness/C09/parse.c', entry='h_parse', function='parse_data_string',
                            enforce='parse_data_string', replace=['pds_step'], loops=True, kind='loop-contract', defines=d + ['C09_TAIL_MODEL', 'STEP_AT_CALL_SITE'], timeout=600,
                            engines=['minisat', 'cadical'], replay=RT('parse_total')))
    for mn, d in (('mask', []), ('nomask', ['MASK_NULL'])):
        groups.append(Group(name='parse_data_string.step[%s]' % mn, harness='harness/C09/step.c', entry='h_step', function='parse_data_string (loop body)',
                            enforce='pds_step', defines=d + ['C09_TAIL_MODEL'], timeout=600, engines=['minisat', 'cadical'], min_post=10,
                            replay=RT('step')))
    for mn, d in (('mask', []), ('nomask', ['MASK_NULL'])):
        groups.append(Group(name='format_data_string.classification[%s]' % mn, harness='harness/C09/format.c', entry='h_format',
                            function='format_data_string', enforce='format_data_string', loops=True, kind='loop-contract', defines=d + ['C09_TAIL_MODEL'], first='cadical',
                            timeout=600, min_post=5, replay=RT('classify')))
    for mn, d in (('mask', []), ('nomask', ['MASK_NULL'])):
        groups.append(Group(name='format_data_string.string_overload[%s]' % mn, harness='harness/C09/wrapper.c', entry='h_wrapper',
                            function='format_data_string(const std::string&, const std::string*, uint64_t)', enforce='format_data_string_str',
                            defines=d, min_post=3, replay=RT('overload')))
    HD = Replay(driver='C09/datastring.cc', mode='hexdump', sources=ALL_LIB, small_define='VERIF_SMALL')
    groups.append(Group(name='format_data.line_loop', harness='harness/C09/lines.c', entry='h_line_loop', function='format_data (line loop header)',
                        enforce='fd_line_loop', loops=True, kind='loop-contract', timeout=600, min_post=2, replay=HD))
    groups.append(Group(name='format_data.line_geometry', harness='harness/C09/lines.c', entry='h_line', function='format_data (geometry statements of a line)',
                        enforce='fd_line', timeout=600, min_post=8, replay=HD))
    groups.append(Group(name='format_data.ascii_column', harness='harness/C09/ascii.c', entry='h_ascii_column', function='format_data (ASCII column of a line)',
                        enforce='fd_ascii_column', kind='unwound-constant-loops', bound='the three loops run over the 16 cells of a line: unwound completely (unwinding assertions on)',
                        cbmc_flags=['--unwind', '18', '--unwinding-assertions'], timeout=300, min_post=2,
                        clause_note='contracts/C09_ascii.h: separator + 16 cells; a cell is the byte itself iff it lies in the dumped range and is printable ASCII (0x20..0x7E), else a blank (colour off)',
                        replay=Replay(driver='C09/datastring.cc', mode='ascii_column', sources=ALL_LIB)))
    SIM = 'harness/C09/sim.c'
    for entry, name, fn, mode in [('l_sim_quoted', 'roundtrip.step[quoted]', 'format_data_string quoted-form loop body / parse_data_string loop body', 'sim_quoted'),
                                  ('l_sim_hex', 'roundtrip.step[hex]', 'format_data_string hex-form loop body / parse_data_string loop body', 'sim_hex'),
                                  ('l_quote_brackets', 'roundtrip.quote_brackets', 'parse_data_string loop body', 'brackets'),
                                  ('l_initial_state', 'parse_data_string.initial_state', 'parse_data_string (declarations in front of the loop)', 'initial'),
                                  ('l_wide_char', 'parse_data_string.wide_char', 'parse_data_string loop body', 'wide_char')]:
        groups.append(Group(name=name, harness=SIM, entry=entry, function=fn, kind='lemma', min_post=3, timeout=600,
                            cbmc_flags=['--unwind', '6', '--unwinding-assertions'], replay=RT(mode)))
    # thorough: the host-dependent parts again under a big-endian host model (the bytes a construct appends must not depend on the host)
    import copy
    for g in list(groups):
        if g.name.startswith('parse_data_string.step[') or g.name in ('parse_data_string.wide_char', 'roundtrip.step[quoted]', 'roundtrip.step[hex]'):
            g2 = copy.deepcopy(g)
            g2.big_endian = True
            g2.tier = 'thorough'
            groups.append(g2)
    for n, tier in ((3, 'quick'), (5, 'thorough')):
        unwind = 2 + 5 * n + 2
        groups.append(Group(name='roundtrip.bounded[len<=%d]' % n, harness='harness/C09/roundtrip.c', entry='b_roundtrip',
                            function='format_data_string / parse_data_string', kind='bounded', tier=tier, defines=['RT_N=%d' % n],
                            bound='all byte strings of length <= %d, all masks (or none), flags 0 and HEX_ONLY; text <= %d characters' % (n, 2 + 5 * n),
                            cbmc_flags=['--unwind', str(unwind), '--unwinding-assertions'], timeout=900 if n == 3 else 3600, min_post=4,
                            replay=RT('roundtrip')))
    # hex dump: the two iovec read cursors (memory safety / cursor discipline for any partition of the data)
    from vf import lex as _lex
    ftext = src.text(CC)
    _, fbody, _, _ = _lex.find_def(ftext, r'void format_data\(\s*function<void\(const void\*, size_t\)> write_data,\s*const struct iovec\* iovs,[^)]*\)', 'format_data core')
    ui = Unit(ctx, 'iov_cursors')
    ui.raw('#include "contracts/C09_iov.h"\n')
    HDR = ('void %s(uint8_t* %s, const struct iovec* iovs, size_t num_iovs, const struct iovec* prev_iovs, size_t num_prev_iovs, size_t* current_iov_index_p, '
           'size_t* current_iov_bytes_p, size_t* prev_iov_index_p, size_t* prev_iov_bytes_p, uint8_t line_bytes, uint8_t line_invalid_start_bytes)')
    PRE = ' size_t current_iov_index = *current_iov_index_p, current_iov_bytes = *current_iov_bytes_p, prev_iov_index = *prev_iov_index_p, prev_iov_bytes = *prev_iov_bytes_p;\n'
    OUT = ' *current_iov_index_p = current_iov_index; *current_iov_bytes_p = current_iov_bytes; *prev_iov_index_p = prev_iov_index; *prev_iov_bytes_p = prev_iov_bytes; '
    for fname, buf, which, intro in (('format_data_read_current', 'line_buf', 'current', r'for \(size_t x = 0; x < line_bytes; x\+\+\)(?=\s*\{\s*while \(current_iov_bytes)'),
                                     ('format_data_read_prev', 'prev_line_buf', 'prev', r'for \(size_t x = 0; x < line_bytes; x\+\+\)(?=\s*\{\s*while \(prev_iov_bytes)')):
        head, body, _, _ = _lex.find_block(fbody, intro, 'cursor loop (%s)' % which)
        loop = head + ' ' + body
        loop = ui._post(loop, 'format_data:' + which, [
            Rule(r'reinterpret_cast<const uint8_t\*>\(\s*(\w+)\[(\w+)\]\.iov_base\)\[(\w+)\]', r'c9_iov_byte(\1, \2, \3)', count=None, regex=True),
            Rule(r'\(\(const uint8_t\*\)\(\s*(\w+)\[(\w+)\]\.iov_base\)\)\[(\w+)\]', r'c9_iov_byte(\1, \2, \3)', count=None, regex=True)],
            True, '', {1: '__CPROVER_assigns(x, verif_exc, %s_iov_index, %s_iov_bytes, __CPROVER_object_whole(%s))\n'
                          '__CPROVER_loop_invariant(x <= line_bytes && verif_exc == 0 && current_iov_index < num_iovs && prev_iov_index < num_prev_iovs)\n'
                          '__CPROVER_decreases(line_bytes - x)' % (which, which, buf),
                       2: '__CPROVER_assigns(verif_exc, %s_iov_index, %s_iov_bytes)\n'
                          '__CPROVER_loop_invariant(verif_exc == 0 && current_iov_index < num_iovs && prev_iov_index < num_prev_iovs)\n'
                          '__CPROVER_decreases((%s) - %s_iov_index)' % (which, which, 'num_iovs' if which == 'current' else 'num_prev_iovs', which)}, 2)
        # exits by exception must not skip writing the cursor back (the C++ locals are the enclosing function's)
        ui.parts.append(HDR % (fname, buf) + '\n{' + PRE + loop + '\n' + OUT + '}\n')
        ui.functions.append({'file': CC, 'cxx_header': 'format_data(...) :: read-%s-data cursor loop' % which, 'c_header': HDR % (fname, buf), 'line': 0})
    ui.write()
    ctx.functions_under_contract += ui.functions
    for fname, which in (('format_data_read_current', 'current'), ('format_data_read_prev', 'prev')):
        groups.append(Group(name='format_data.iov_cursor[%s]' % which, harness='harness/C09/iov.c', entry='h_read_' + which, function='format_data (read %s data cursor)' % which,
                            enforce=fname, replace=['c9_iov_byte'], loops=True, kind='loop-contract', object_bits=12,
                            clause_note='contracts/C09_iov.h: every element index is inside the array it is applied to, every byte offset inside that element, cursor stays inside its array'))
    return groups
