"""C19 -- unit-test expectation helpers are a sound, complete oracle (DESIGN.md section 4, C19)."""
import os
import re
import subprocess

from vf import lex
from vf.extract import Source, Unit
from vf.lex import Rule, ExtractionBreak
from vf.pipeline import Group, Replay

ID = 'C19'
LEVEL = 'proof'
EXPLANATION = ('expect_generic, the expectation_failed constructor, every textual instantiation of expect_raises_fn<E> (E = each of the '
               'twelve classes of the hierarchy; E = std::exception is the explicit specialisation of UnitTest.cc) and the expect_* macros '
               '(used verbatim, expanded by the C preprocessor) are loop-free. C++ exceptions are lowered to the flag verif_exc and '
               'try/catch to an if-chain over the subtype table (contracts/C19_exc.h); the callback fn is a symbolic behaviour '
               '(returns | throws any class of the hierarchy | throws a non-std object). Each contract is enforced with '
               'goto-instrument --dfcc and discharged over the whole input domain, so every (E, behaviour) cell and every operand pair '
               'of the relation macros (all int64 / all double pairs) is decided, not sampled.')
TRUSTED = [
    'contracts/C19_exc.h: the exception model -- verif_exc flag, the std exception subtype table transcribed from the C++ standard, '
    'EXC_non_std = "caught by catch (...) only"; the direct base of expectation_failed is read from src/UnitTest.hh on every run',
    'props/C19.py LowerTry: the structural try/catch lowering (try { B } catch (const T& e) { H } ... -> B with "if (verif_exc) goto catch" '
    'after every may-throw call; if-chain of VERIF_CATCHES(verif_exc, EXC_T) in handler order; a handler clears verif_exc on entry; an '
    'exception raised inside a handler leaves the function). This lowering *is* the C++ semantics the proof is relative to; every '
    'counterexample is replayed on the real code compiled by g++',
    'contracts/C19_unittest.h: the contracts (transcription of the property text); harness/C19/macros.c: the relation each macro NAME promises',
]
ASSUMPTIONS = [
    'std::function<void()> is abstracted to the behaviour of its single invocation; copying/destroying it and allocation failure '
    '(bad_alloc from string_printf / std::string / logic_error construction) are not modelled',
    'the what() text is represented by the three arguments formatted into it (format string pinned by the extraction regex)',
    'macro operands in the proof are int64_t and double expressions; for class-type operands (std::string ...) the same macro text applies '
    'the user-defined operator, which is outside this property',
]
DROPS = ('template<ExcT> instantiated textually (EXC_ExcT, ER_NAME via -D); std::function -> behaviour token, fn() -> verif_call(fn); '
         'throw expectation_failed(args) -> flag + lowered constructor call with the same argument text; constructor member-initialiser list '
         '-> ghost assignments; try/catch -> if-chain; std::string msg = string_printf(..., e.what()) -> opaque string stub (content dropped); '
         'destructors/unwinding (lifetime of the local std::string whose c_str() is stored in the thrown object) dropped')
NOT_DECIDED = [
    'message text of the expectation_failed raised by expect_raises_fn (only its kind, file and line are specified by the property)',
    'validity of expectation_failed::msg after unwinding: in the "incorrect exception type raised (what: ...)" handler msg points into a local '
    'std::string that is destroyed before the exception can be observed (what() is a copy and stays valid) -- lifetimes are dropped by the extraction',
    'relation macros on class-type operands (operator overloads) and on mixed signed/unsigned operands (usual arithmetic conversions are the '
    'stated C++ relation itself)',
]

HH, CC = 'src/UnitTest.hh', 'src/UnitTest.cc'

# the classes of the property's hierarchy, in the order of the EXC_* enum of contracts/verif.h
STD_KINDS = ['exception', 'logic_error', 'out_of_range', 'invalid_argument', 'length_error', 'domain_error',
             'runtime_error', 'range_error', 'overflow_error', 'underflow_error', 'bad_alloc']
KINDS = STD_KINDS + ['expectation_failed']

# what each macro NAME promises: name -> (relation, complementary relation shown in the failure message)
RELS = {'eq': ('==', '!='), 'ne': ('!=', '=='), 'gt': ('>', '<='), 'ge': ('>=', '<'), 'lt': ('<', '>='), 'le': ('<=', '>')}
MACROS = ['expect_' + r for r in RELS] + ['expect', 'expect_msg', 'expect_raises']


def _skip_ws(m, i):
    while i < len(m) and m[i] in ' \t\r\n':
        i += 1
    return i


class LowerTry(Rule):
    """Structural lowering of the (single, un-nested) try statement of a function body (DESIGN.md 3.3):

        try { B } catch (const T1& [v]) { H1 } ... [catch (...) { Hn }]
    ->  { B' }
        verif_catch_1:
        if (!verif_exc) { }                                          // B completed normally: no handler runs
        else if (VERIF_CATCHES(verif_exc, EXC_T1)) { [const int v = verif_exc;] verif_exc = 0; H1' }
        ...
        else if (1) { verif_exc = 0; Hn' }                           // catch (...)
        [else { return RET; }]                                       // no handler matches: propagates

    In B every statement that calls a may-throw function gets `if (verif_exc) goto verif_catch_1;` appended, everywhere
    else (handlers, code before/after the try statement) `if (verif_exc) return RET;`.
    Gates (extraction break otherwise): the handler declarations must be exactly the multiset `handlers` (they are lowered in
    source order -- the order decides which one runs); *every* call expression of the function must name a callee of `maythrow`
    or `nothrow`, so no call can escape the propagation check (robust against statements being moved, added or removed, which
    a fixed hit count is not); a may-throw call must be an expression statement; the protected block must contain at least
    one may-throw call."""

    KEYWORDS = {'if', 'for', 'while', 'switch', 'catch', 'return', 'sizeof', 'VERIF_CATCHES'}

    def __init__(self, handlers, maythrow, nothrow, ret=''):
        self.handlers, self.maythrow, self.nothrow, self.ret = handlers, maythrow, nothrow, ret
        self.pat = 'try/catch lowering'

    def _prop(self, seg, action, where):
        m = lex.mask(seg)
        ins = []
        for mo in re.finditer(r'\b(%s)\s*\(' % '|'.join(map(re.escape, self.maythrow)), m):
            k = mo.start() - 1
            while k >= 0 and m[k] in ' \t\r\n':
                k -= 1
            if k >= 0 and m[k] not in '{};':
                raise ExtractionBreak('%s: may-throw call %s(...) is not an expression statement' % (where, mo.group(1)))
            pe = lex.match_close(m, mo.end() - 1)
            s = _skip_ws(m, pe + 1)
            if s >= len(m) or m[s] != ';':
                raise ExtractionBreak('%s: may-throw call %s(...) is not an expression statement' % (where, mo.group(1)))
            ins.append(s + 1)
        for p in reversed(ins):
            seg = seg[:p] + ' ' + action + seg[p:]
        return seg, len(ins)

    def apply(self, text, where=''):
        # `dynamic_cast<const T*>(&e)` on a caught exception object: non-null iff the dynamic type of e is T or derived from T --
        # the subtype test of the exception model (the handler variable e holds the class of the exception in flight)
        text = re.sub(r'\bdynamic_cast<\s*const\s+(\w+)\s*\*\s*>\(\s*&\s*(\w+)\s*\)', r'VERIF_CATCHES(\2, EXC_\1)', text)
        # `typeid(e) == typeid(T)` on a caught polymorphic exception object: EXACT dynamic type (not "is a"); typeid(e).name() is some text
        text = re.sub(r'\btypeid\(\s*(\w+)\s*\)\s*(==|!=)\s*typeid\(\s*(\w+)\s*\)', r'((\1) \2 EXC_\3)', text)
        text = re.sub(r'\btypeid\(\s*(\w+)\s*\)\s*\.\s*name\(\)', r'verif_what(\1)', text)
        m = lex.mask(text)
        for mo in re.finditer(r'\b([A-Za-z_]\w*)\s*\(', m):
            if mo.group(1) not in self.KEYWORDS and mo.group(1) not in self.maythrow and mo.group(1) not in self.nothrow:
                raise ExtractionBreak('%s: call of %s(...) is in neither the may-throw nor the no-throw table of the lowering'
                                      % (where, mo.group(1)))
        tries = [mo.start() for mo in re.finditer(r'\btry\b', m)]
        if len(tries) != 1:
            raise ExtractionBreak('%s: expected exactly one try statement, found %d' % (where, len(tries)))
        t = tries[0]
        b = _skip_ws(m, t + 3)
        if m[b] != '{':
            raise ExtractionBreak('%s: try without block' % where)
        be = lex.match_close(m, b)
        hs = []
        k = be + 1
        while True:
            c = _skip_ws(m, k)
            if not re.match(r'catch\b', m[c:]):
                break
            p = _skip_ws(m, c + 5)
            if m[p] != '(':
                raise ExtractionBreak('%s: catch without declaration' % where)
            pe = lex.match_close(m, p)
            h = _skip_ws(m, pe + 1)
            if m[h] != '{':
                raise ExtractionBreak('%s: catch without block' % where)
            he = lex.match_close(m, h)
            hs.append((' '.join(text[p + 1:pe].split()), text[h + 1:he]))
            k = he + 1
        # the handlers are lowered in *source order* (the order decides which one runs); the table pins their declarations
        # (any handler list is lowered structurally; an exception type outside the subtype table of contracts/C19_exc.h has no
        # EXC_ constant and fails the compile gate of the extracted unit)
        if not hs:
            raise ExtractionBreak('%s: try without handlers' % where)
        ret = 'return %s;' % self.ret if self.ret else 'return;'
        pre, _ = self._prop(text[:t], 'if (verif_exc) %s' % ret, where)
        body, n = self._prop(text[b + 1:be], 'if (verif_exc) goto verif_catch_1;', where)
        if n < 1:
            raise ExtractionBreak('%s: the protected block contains no may-throw call' % where)
        out = pre + '{ /* protected block */' + body + '}\n  verif_catch_1:\n  if (!verif_exc) { /* protected block completed: no handler runs */ }\n'
        catch_all = False
        for d, htext in hs:
            if catch_all:
                raise ExtractionBreak('%s: handler after catch (...)' % where)
            htext, _ = self._prop(htext, 'if (verif_exc) %s' % ret, where)
            # `throw;` re-raises the exception being handled
            htext = re.sub(r'\bthrow\s*;', '{ verif_exc = verif_caught; %s }' % ret, htext)
            if d == '...':
                cond, decl, catch_all = '1 /* handler for anything */', '', True
            else:
                mo = re.fullmatch(r'const (\w+)\s*&\s*(\w+)?', d)
                if not mo:
                    raise ExtractionBreak('%s: unsupported exception declaration %r' % (where, d))
                cond = 'VERIF_CATCHES(verif_exc, EXC_%s)' % mo.group(1)
                decl = (' const int %s = verif_exc; (void)%s;' % (mo.group(2), mo.group(2))) if mo.group(2) else ''
            out += '  else if (%s) {%s const int verif_caught = verif_exc; (void)verif_caught; verif_exc = 0;%s}\n' % (cond, decl, htext)
        if not catch_all:
            out += '  else { %s /* no handler matches: the exception propagates */ }\n' % ret
        post, _ = self._prop(text[k:], 'if (verif_exc) %s' % ret, where)
        return out + post


def base_unit(ctx, src):
    """class expectation_failed : public std::X  ->  #define VERIF_BASE_expectation_failed EXC_X"""
    u = Unit(ctx, 'unittest_base')
    base = u.snippet(src, HH, r'class expectation_failed\s*:\s*public\s+(?:std::)?(\w+)\s*\{', group=1)
    if base not in STD_KINDS:
        raise ExtractionBreak('expectation_failed derives from %r which is not in the subtype table of contracts/C19_exc.h' % base)
    # the payload members the contracts talk about
    u.snippet(src, HH, r'const char\* msg;\s*const char\* file;\s*uint64_t line;\s*\};')
    u.raw('#define VERIF_BASE_expectation_failed EXC_%s' % base)
    u.write(suffix='.h', scan=False)
    return u, base


def generic_unit(ctx, src, base):
    """expectation_failed::expectation_failed (member-initialiser list -> assignments) and expect_generic"""
    u = Unit(ctx, 'expect_generic')
    ctor = u.snippet(src, CC, r'expectation_failed::expectation_failed\(const char\* msg, const char\* file, uint64_t line\)\s*:\s*'
                              r'\w+\(string_printf\("failure at %s:%" PRIu64 ": %s", \w+, \w+, \w+\)\),\s*'
                              r'msg\(\w+\),\s*file\(\w+\),\s*line\(\w+\)\s*(?=\{)')
    # the constructor body (normally empty): assignments to the payload members are carried over; a member that is re-assigned from anything
    # but one of the three parameters holds a value the model cannot relate to the arguments (nondeterministic) -- the contract of
    # expect_generic then decides whether "the exception carries the message / file / line it was given" still holds
    _, cbody, _, _ = lex.find_def(src.text(CC), r'expectation_failed::expectation_failed\(const char\* msg, const char\* file, uint64_t line\)[^{]*', 'constructor')
    extra = ''
    for st in [x.strip() for x in cbody.strip()[1:-1].split(';') if x.strip()]:
        mo2 = re.fullmatch(r'(?:this->|self->)?(msg|file|line) = (.*)', st, re.S)
        if not mo2:
            raise ExtractionBreak('expectation_failed constructor body: unsupported statement %r' % st[:80])
        member, rhs = mo2.group(1), ' '.join(mo2.group(2).split())
        extra += '  g_exc_%s = %s;   /* constructor body: %s = %s */\n' % (member, rhs if rhs in ('msg', 'file', 'line') else
                                                                        ('nondet_c19_line()' if member == 'line' else 'nondet_c19_text()'), member, rhs.replace('*/', '* /').replace('this->', 'self.').replace('::', '.'))
    mo = re.search(r':\s*(\w+)\(string_printf\("[^"]*" PRIu64 "[^"]*", (\w+), (\w+), (\w+)\)\),\s*msg\((\w+)\),\s*file\((\w+)\),\s*line\((\w+)\)', ctor)
    if mo.group(1) != base:
        raise ExtractionBreak('constructor initialises base %r but the class derives from %r' % (mo.group(1), base))
    u.raw('const char* nondet_c19_text(void); uint64_t nondet_c19_line(void);\n'
          'static inline void expectation_failed__ctor(const char* msg, const char* file, uint64_t line)\n{\n'
          '  g_what_file = (%s); g_what_line = (%s); g_what_msg = (%s);\n'
          '  g_exc_msg = (%s); g_exc_file = (%s); g_exc_line = (%s);\n' % mo.group(2, 3, 4, 5, 6, 7) + extra + '}')
    u.functions.append({'file': CC, 'cxx_header': 'expectation_failed::expectation_failed(const char* msg, const char* file, uint64_t line) : ...',
                        'c_header': 'static inline void expectation_failed__ctor(const char* msg, const char* file, uint64_t line)', 'line': 0})
    u.function(src, CC, r'void expect_generic\(bool pred, const char\* msg, const char\* file, uint64_t line\)',
               rules=[Rule(r'\bthrow expectation_failed\(([^;]*)\);',
                           r'{ verif_exc = EXC_expectation_failed; expectation_failed__ctor(\1); return; }', count=1, regex=True)])
    u.write()
    return u


# (the expect_* macros expand to expect_generic(...) with __FILE__/__LINE__ of the place they are written: if the helper itself uses
# one, the failure no longer carries the call site -- the macro text is included verbatim, so the verifier sees exactly that)
MAYTHROW = ['fn', 'expect_generic'] + [m for m in MACROS if m != 'expect_raises']
# no-throw in the model: allocation failure inside string_printf / what() / c_str() is not modelled (ASSUMPTIONS)
NOTHROW = ['string_printf', 'what', 'c_str', 'verif_what']
# type-directed rewrites of the std::function / std::string uses (any unrewritten use fails the goto-cc compile gate)
STRING_RULES = [Rule('fn();', 'verif_call(fn);', count='+'),
                Rule('string msg = string_printf(', 'verif_string msg = verif_string_printf('),
                Rule('e.what()', 'verif_what(e)'),
                Rule('msg.c_str()', 'verif_c_str(&msg)')]
ER_HEADER = 'void ER_NAME(const char* file, uint64_t line, verif_function fn)'
ER_ARGS = r'\(const char\* file, uint64_t line, std::function<void\(\)> fn\)'


def raises_units(ctx, src):
    ut = Unit(ctx, 'expect_raises')          # the template, one textual copy; ExcT stays a macro name (EXC_ExcT via -D)
    ut.function(src, HH, r'void expect_raises_fn' + ER_ARGS, new_header=ER_HEADER,
                rules=[LowerTry(['const ExcT&', 'const exception& e', '...'], MAYTHROW, NOTHROW)] + STRING_RULES)
    ut.write(suffix='.inc')
    us = Unit(ctx, 'expect_raises_exception')  # the explicit specialisation for std::exception
    us.function(src, CC, r'void expect_raises_fn<std::exception>' + ER_ARGS, new_header=ER_HEADER,
                rules=[LowerTry(['const exception& e', '...'], MAYTHROW, NOTHROW), STRING_RULES[0]])
    us.write(suffix='.inc')
    # the specialisation must be declared in the header, otherwise the primary template would be instantiated for std::exception
    us.snippet(src, HH, r'template <>\s*void expect_raises_fn<std::exception>\(const char\* file, uint64_t line, std::function<void\(\)> fn\);')
    # no further specialisations
    n = len(re.findall(r'expect_raises_fn<', lex.mask(src.text(CC))))
    if n != 1:
        raise ExtractionBreak('%s: %d explicit specialisations of expect_raises_fn, the table covers 1' % (CC, n))
    return ut, us


def _tokens(s):
    return re.findall(r'"(?:\\.|[^"\\])*"|\w+|==|!=|<=|>=|<<|>>|&&|\|\||::|->|\S', s)


def macro_units(ctx, src):
    """The macro layer, verbatim (#define lines are C preprocessor text), plus the g++ -E cross-check on the real header."""
    text = src.text(HH)
    names = re.findall(r'^[ \t]*#[ \t]*define[ \t]+(\w+)', text, re.M)
    for n in MACROS:
        if names.count(n) != 1:
            raise ExtractionBreak('%s defines the macro %s %d times (exactly once expected)' % (HH, n, names.count(n)))
    if re.search(r'^[ \t]*#[ \t]*undef', text, re.M):
        raise ExtractionBreak('%s: #undef found' % HH)
    # the whole preprocessor layer of the header, verbatim and in order (#define incl. helper macros the expect_* macros are written
    # with, and the conditional directives around them); #include / #pragma lines are left out
    u = Unit(ctx, 'macros')
    for mo in re.finditer(r'(?m)^[ \t]*#[ \t]*(\w+)(?:[^\n\\]|\\\n|\\.)*$', text):
        if mo.group(1) in ('include', 'pragma'):
            continue
        line = mo.group(0)
        if re.match(r'[ \t]*#[ \t]*define[ \t]+expect_raises\b', line):
            if line.count('expect_raises_fn<type>(') != 1:
                raise ExtractionBreak('%s: expect_raises does not instantiate expect_raises_fn<type> exactly once' % HH)
            line = line.replace('expect_raises_fn<type>(', 'VERIF_ER_INST(type)(')
        u.raw(line)
    u.write(suffix='.h', scan=False)
    # supporting static fact: expansion by the real C++ preprocessor through the real include chain
    tu = os.path.join(ctx.build_dir, 'macro_expansion_tu.cc')
    lines = ['#include "UnitTest.hh"']
    expected = {}
    for i, n in enumerate(MACROS):
        f, ln = 'verif_callsite_%s.cc' % n, 7001 + i
        lines.append('#line %d "%s"' % (ln, f))
        if n[7:] in RELS:
            rel, neg = RELS[n[7:]]
            lines.append('VERIF_BEGIN_%s %s(VA + 1, VB) VERIF_END' % (n, n))
            expected[n] = 'expect_generic((( VA + 1 ) %s ( VB )), ( "VA + 1" " %s " "VB" ), "%s", %d)' % (rel, neg, f, ln)
        elif n == 'expect':
            lines.append('VERIF_BEGIN_%s expect(VP) VERIF_END' % n)
            expected[n] = 'expect_generic(((VP)), ("!(" "VP" ")"), "%s", %d)' % (f, ln)
        elif n == 'expect_msg':
            lines.append('VERIF_BEGIN_%s expect_msg(VP, VM) VERIF_END' % n)
            expected[n] = 'expect_generic((VP), (VM), "%s", %d)' % (f, ln)
        else:
            lines.append('VERIF_BEGIN_%s expect_raises(VT, VF) VERIF_END' % n)
            expected[n] = 'expect_raises_fn<VT>("%s", %d, VF)' % (f, ln)
    with open(tu, 'w') as fh:
        fh.write('\n'.join(lines) + '\n')
    try:
        p = subprocess.run(['g++', '-std=c++20', '-E', '-P', '-I', os.path.join(ctx.src, 'src'), tu],
                           capture_output=True, text=True, timeout=120)
    except (OSError, subprocess.TimeoutExpired) as e:
        raise ExtractionBreak('g++ -E of the macro expansion TU could not run: %s' % e)
    if p.returncode != 0:
        raise ExtractionBreak('g++ -E of the macro expansion TU failed: %s' % p.stderr[-2000:])
    ux = Unit(ctx, 'macro_expansion')
    for n in MACROS:
        mo = re.findall(r'VERIF_BEGIN_%s\b(.*?)VERIF_END' % n, p.stdout, re.S)
        if len(mo) != 1:
            raise ExtractionBreak('g++ -E output: marker for %s found %d times' % (n, len(mo)))
        ok = _tokens(mo[0]) == _tokens(expected[n])
        ux.raw('/* g++ -E: %s\n   expected: %s */\n#define VERIF_EXPANSION_OK_%s %d'
               % (' '.join(mo[0].split()).replace('*/', '* /'), expected[n].replace('*/', '* /'), n, 1 if ok else 0))
    ux.write(suffix='.h', scan=False)
    return u, ux


def plan(ctx):
    src = Source(ctx.src)
    ub, base = base_unit(ctx, src)
    ug = generic_unit(ctx, src, base)
    ut, us = raises_units(ctx, src)
    um, ux = macro_units(ctx, src)
    ctx.functions_under_contract = ug.functions + ut.functions + us.functions
    RP = dict(driver='C19/unittest.cc', sources=REPLAY_SOURCES)
    groups = []
    groups.append(Group(name='UnitTest.hierarchy', harness='harness/C19/raises.c', entry='l_hierarchy', function='exception hierarchy',
                        kind='lemma', defines=['ER_NAME=expect_raises_fn__logic_error', 'EXC_ExcT=EXC_logic_error'], min_post=4,
                        clause_note='the subtype table is a partial order of depth <= 3 rooted in std::exception; expectation_failed <: its declared base'))
    groups.append(Group(name='UnitTest.expect_generic', harness='harness/C19/generic.c', entry='h_expect_generic', function='expect_generic',
                        enforce='expect_generic', min_post=5,
                        clause_note='contracts/C19_unittest.h: verif_exc == (pred ? 0 : EXC_expectation_failed); payload == arguments; nothing changes when pred holds',
                        replay=Replay(mode='expect_generic', **RP)))
    for e in KINDS:
        spec = e == 'exception'
        nm = 'expect_raises_fn__' + e
        groups.append(Group(name='UnitTest.expect_raises_fn[%s]' % ('std::' + e if e in STD_KINDS else e), harness='harness/C19/raises.c',
                            entry='h_expect_raises', function='expect_raises_fn<%s>%s' % (e, ' (explicit specialisation)' if spec else ''),
                            enforce=nm, replace=['expect_generic'],
                            defines=['ER_NAME=' + nm, 'EXC_ExcT=EXC_' + e] + (['ER_SPECIALISATION=1'] if spec else []), min_post=3,
                            clause_note='contracts/C19_unittest.h: returns normally iff fn threw t <: E, otherwise expectation_failed with the caller\'s file/line',
                            replay=Replay(mode='expect_raises', extra=[e], **RP)))
    for n in RELS:
        for ty in ('int64_t', 'double', 'uint64_t', 'int8_t', 'float'):
            groups.append(Group(name='UnitTest.macro.expect_%s[%s]' % (n, ty), harness='harness/C19/macros.c', entry='h_macro_' + n,
                                function='expect_%s' % n, replace=['expect_generic'], kind='lemma', defines=['T=' + ty], min_post=6,
                                clause_note='the verbatim macro throws (through the contract of expect_generic) iff !(a %s b), with __FILE__/__LINE__ of the call, '
                                            'the message #a " %s " #b, each operand evaluated once' % RELS[n],
                                tier='quick' if ty in ('int64_t', 'double') else 'thorough',
                                replay=Replay(mode='macro', extra=[n, ty], **RP)))
    # operand hygiene: operands whose top-level operator (?:) binds looser than the relational operators
    for n in RELS:
        for ty in ('int64_t', 'double'):
            groups.append(Group(name='UnitTest.macro.expect_%s.operand-hygiene[%s]' % (n, ty), harness='harness/C19/macros.c', entry='h_macro_hyg_' + n,
                                function='expect_%s' % n, replace=['expect_generic'], kind='lemma', defines=['T=' + ty], min_post=5,
                                clause_note='operands x ? a : a2 and y ? b : b2 (top-level operator looser than %s): the verbatim macro compares the '
                                            'values of its two operands' % RELS[n][0],
                                tier='quick' if ty == 'int64_t' else 'thorough',
                                replay=Replay(mode='macro_hyg', extra=[n, ty], **RP)))
    # expect(p) / expect_msg(p, m): the predicate is converted to bool (p != 0) -- for every operand type, also a double between 0 and 1 or an
    # integer whose low bits are zero (a conversion through a narrower or integral type on the way would change the verdict)
    for ty in ('int64_t', 'double', 'uint64_t', 'float'):
        sfx = '' if ty == 'int64_t' else '[%s]' % ty
        groups.append(Group(name='UnitTest.macro.expect' + sfx, harness='harness/C19/macros.c', entry='h_macro_expect', function='expect',
                            replace=['expect_generic'], kind='lemma', defines=['T=' + ty], min_post=5,
                            tier='quick' if ty in ('int64_t', 'double') else 'thorough',
                            replay=Replay(mode='macro', extra=['expect', ty], **RP)))
        groups.append(Group(name='UnitTest.macro.expect_msg' + sfx, harness='harness/C19/macros.c', entry='h_macro_expect_msg', function='expect_msg',
                            replace=['expect_generic'], kind='lemma', defines=['T=' + ty], min_post=5,
                            tier='quick' if ty in ('int64_t', 'double') else 'thorough',
                            replay=Replay(mode='macro', extra=['expect_msg', ty], **RP)))
    groups.append(Group(name='UnitTest.macro.expect_raises', harness='harness/C19/macros.c', entry='h_macro_expect_raises', function='expect_raises',
                        replace=['expect_raises_fn__runtime_error'], kind='lemma',
                        defines=['T=int64_t', 'ER_NAME=expect_raises_fn__runtime_error', 'EXC_ExcT=EXC_runtime_error'], min_post=3,
                        replay=Replay(mode='macro', extra=['expect_raises', 'int64_t'], **RP)))
    return groups


REPLAY_SOURCES = ['src/UnitTest.cc', 'src/Strings.cc', 'src/Filesystem.cc', 'src/Process.cc', 'src/Time.cc']

CLAIMED = True
MANIFEST = dict(
    category='proof',
    text=('expect_generic and the expectation_failed constructor, expect_raises_fn<E> for each of the twelve classes E of the hierarchy '
          '(std::exception, logic_error and its four children, runtime_error and its three children, bad_alloc, phosg\'s expectation_failed; '
          'E = std::exception is the explicit specialisation in UnitTest.cc) against every behaviour of the callback (returns | throws any of the '
          'twelve classes | throws a non-std object), and the expect_* macros used verbatim over all int64 and all double operand pairs, are put '
          'under contracts and discharged by cbmc (loop-free, full domain: each (E, behaviour) cell of the 12 x 14 matrix is decided). '
          'The proof is relative to the exception lowering: C++ throw/try/catch are rewritten mechanically to a flag and an if-chain over a '
          'subtype table.'),
    note=('Trusted: cbmc/goto-instrument, the answering solver, the extractor, the try/catch lowering (props/C19.py LowerTry) and the std '
          'exception subtype table (contracts/C19_exc.h); the base class of expectation_failed is read from UnitTest.hh each run. Every '
          'counterexample is replayed against the real headers + UnitTest.cc compiled by g++ (real lambdas that throw the real types). '
          'Not decided: the message text of expect_raises failures, the lifetime of expectation_failed::msg after unwinding, class-type macro '
          'operands. Supporting static fact: g++ -E of each macro through the real include chain equals the expected token sequence.'),
    technique='function contracts (requires/ensures/assigns) enforced with goto-instrument --dfcc on mechanically extracted and exception-lowered C text, discharged by cbmc (SAT/SMT portfolio), full-domain loop-free proofs',
)
