/* C11: render_netloc / parse_netloc (extracted text: build/C11/x_netloc.c) -- BOUNDED check over the trusted string models
 * of stubs/C11_net.h (to_string, find, substr, stod are library code; what is checked here is phosg's glue: which form is
 * rendered, where the text is split, which part becomes the port). */
#include "stubs/vstr.h"
#include "stubs/C11_net.h"
int verif_exc; size_t g_vk;
#include "x_netloc.c"

#define HMAX 3
#define BUF 16
#define SETUP \
  char in_host[HMAX]; size_t in_hlen; int in_port, in_default; \
  __CPROVER_assume(in_hlen >= 1 && in_hlen <= HMAX);                          /* non-empty host (domain of the statement) */ \
  for (size_t i = 0; i < HMAX; i++) __CPROVER_assume(i >= in_hlen || in_host[i] != ':');   /* colon-free host */ \
  char hb[HMAX], nb[BUF], pb[BUF]; \
  vstr addr = { hb, 0, HMAX }, netloc = { nb, 0, BUF }, host = { pb, 0, BUF }; \
  for (size_t i = 0; i < in_hlen; i++) vstr_push_back(&addr, in_host[i]); \
  uint16_t port = 0; verif_exc = 0

void b_netloc_roundtrip(void) {
  SETUP;
  __CPROVER_assume(in_port >= 1 && in_port <= 65535);                         /* a port number (domain of the statement) */
  render_netloc(&netloc, &addr, in_port);
  parse_netloc(&host, &port, &netloc, in_default);
  __CPROVER_assert(verif_exc == 0, "no exception");
  __CPROVER_assert(port == in_port, "port survives the round trip");
  __CPROVER_assert(host.size == in_hlen, "host length survives the round trip");
  for (size_t i = 0; i < HMAX; i++) __CPROVER_assert(i >= in_hlen || host.data[i] == in_host[i], "host octets survive the round trip");
  VERIF_REACH();
}

void b_netloc_noport(void) {
  SETUP;
  render_netloc(&netloc, &addr, 0);
  parse_netloc(&host, &port, &netloc, in_default);
  __CPROVER_assert(verif_exc == 0, "no exception");
  __CPROVER_assert(port == (uint16_t)in_default, "default port is used when no port was rendered");
  __CPROVER_assert(host.size == in_hlen, "host length");
  for (size_t i = 0; i < HMAX; i++) __CPROVER_assert(i >= in_hlen || host.data[i] == in_host[i], "host octets");
  VERIF_REACH();
}
