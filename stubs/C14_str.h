/* C14 TRUSTED stub: the two std::string members basename/dirname use, over stubs/vstr.h ([string.rfind], [string.substr]).
 * The input path is described abstractly: g_ls is the position of its LAST '/' (C14_NPOS if it has none); the contract of
 * the function under proof states this description as a precondition (with the ghost index g_vk for "no '/' after
 * g_ls"), and rfind('/') returns it. */
#ifndef STUBS_C14_STR_H
#define STUBS_C14_STR_H
#include "stubs/vstr.h"
#define C14_NPOS ((size_t)-1)
extern size_t g_plen;           /* length of the path (so that a counterexample shows it) */
extern size_t g_ls, g_pk;     /* g_pk: ghost position in the path for "no '/' after g_ls" */

/* s.rfind('/') : "the highest position xpos such that at(xpos) == c; npos if none" */
size_t c14_rfind(const vstr* s, char ch)
__CPROVER_requires(ch == '/')
__CPROVER_ensures(__CPROVER_return_value == g_ls)
__CPROVER_assigns();

/* ret = s.substr(pos, n): "Throws out_of_range if pos > size(); rlen = min(n, size() - pos)" */
static inline void c14_substr(vstr* ret, const vstr* s, size_t pos, size_t n)
{
  if (pos > s->size) { verif_exc = EXC_out_of_range; return; }
  size_t rlen = (n < s->size - pos) ? n : s->size - pos;
  vstr_assign(ret, s->data + pos, rlen);
}
/* ret = s (copy) */
static inline void c14_copy(vstr* ret, const vstr* s) { vstr_assign(ret, s->data, s->size); }
#endif
