/* C04: the output string of the list / dict arms of JSON::serialize seen as a token stream (DESIGN.md C04 piece 6).  TRUSTED BASE.
 *
 * Every `ret += ...` / `return ret + ...` of the two arms is rewritten (props/C04.py:Concat, term by term, left to right) into
 * calls of the emitters below.  Each emitter appends to the string AND advances a ghost acceptor for the array / object grammar
 * of RFC 8259 (sections 2, 4, 5) by the tokens it appends:
 *     a character            -> itself (structural characters [ ] { } , : and the quotation mark; ws = space, \t, \n, \r)
 *     string(n, c)           -> n times c   (ws is a self loop of the acceptor, so one step stands for n >= 1 steps)
 *     child->serialize(...)  -> the token T_VAL ("one JSON value"), at least one byte long (every serialization is non-empty)
 *     an escaped key         -> the token T_STRBODY ("characters between the quotation marks of a string")
 * g_count counts the T_VAL tokens; g_args_ok records that every child was serialised with the options of the parent (its
 * indent_level only changes the amount of whitespace and is not constrained), that keys were escaped with the mode selected by
 * the options and that list elements are emitted in list order.
 *
 * Two flavours: -DC04_EMIT_ABSTRACT: no bytes, only size and acceptor state (sizes unbounded; "the text fits in memory" is the
 * assume in C04_GROW); otherwise real bytes (child = the byte 'V'), used by the bounded end-to-end run against the parser. */
#ifndef STUBS_C04_EMIT_H
#define STUBS_C04_EMIT_H
#include "stubs/C04_json.h"

enum { T_VAL = 256, T_STRBODY = 257 };
extern int g_q;
extern size_t g_count, g_indent;
extern uint32_t g_options;
extern int g_mode;
extern bool g_args_ok, g_format;

#define C04_ISWS(t) ((t) == ' ' || (t) == '\t' || (t) == '\n' || (t) == '\r')      /* RFC 8259 section 2: ws */
/* array = begin-array [ value *( value-separator value ) ] end-array        0 start, 1 after [, 2 after a value, 3 after a comma,
 * 4 accepted, 9 rejected */
#define C04_LSTEP(q, t) \
  ((q) == 0 ? ((t) == '[' ? 1 : 9) : \
   (q) == 1 ? (C04_ISWS(t) ? 1 : (t) == T_VAL ? 2 : (t) == ']' ? 4 : 9) : \
   (q) == 2 ? (C04_ISWS(t) ? 2 : (t) == ',' ? 3 : (t) == ']' ? 4 : 9) : \
   (q) == 3 ? (C04_ISWS(t) ? 3 : (t) == T_VAL ? 2 : 9) : \
   (q) == 4 ? (C04_ISWS(t) ? 4 : 9) : 9)
/* object = begin-object [ member *( value-separator member ) ] end-object;  member = string name-separator value
 * 0 start, 1 after {, 5 inside a key, 2 after a key, 3 after the colon, 4 after a value, 6 after a comma, 8 accepted, 9 rejected */
#define C04_DSTEP(q, t) \
  ((q) == 0 ? ((t) == '{' ? 1 : 9) : \
   (q) == 1 ? (C04_ISWS(t) ? 1 : (t) == '"' ? 5 : (t) == '}' ? 8 : 9) : \
   (q) == 5 ? ((t) == T_STRBODY ? 5 : (t) == '"' ? 2 : 9) : \
   (q) == 2 ? (C04_ISWS(t) ? 2 : (t) == ':' ? 3 : 9) : \
   (q) == 3 ? (C04_ISWS(t) ? 3 : (t) == T_VAL ? 4 : 9) : \
   (q) == 4 ? (C04_ISWS(t) ? 4 : (t) == ',' ? 6 : (t) == '}' ? 8 : 9) : \
   (q) == 6 ? (C04_ISWS(t) ? 6 : (t) == '"' ? 5 : 9) : \
   (q) == 8 ? (C04_ISWS(t) ? 8 : 9) : 9)
#if C04_DICT
#define C04_STEP(q, t) C04_DSTEP(q, t)
#define C04_Q_OPEN 1
#define C04_Q_VALUE 4
#define C04_Q_ACCEPT 8
#else
#define C04_STEP(q, t) C04_LSTEP(q, t)
#define C04_Q_OPEN 1
#define C04_Q_VALUE 2
#define C04_Q_ACCEPT 4
#endif

size_t nondet_C04_size(void);
#ifdef C04_EMIT_ABSTRACT
#define C04_BIG 0x0FFFFFFFFFFFFFFFull
#define C04_GROW(s, n) __CPROVER_assume((n) <= C04_BIG - (s)->size)          /* the text fits in memory (no length_error / bad_alloc) */
#define C04_PUT(s, c) ((s)->size++)
#else
#define C04_GROW(s, n) __CPROVER_assert((n) <= (s)->cap - (s)->size, "string capacity (allocation modelled as capacity)")
#define C04_PUT(s, c) ((s)->data[(s)->size] = (c), (s)->size++)
#endif

static inline void C04_emit_char(vstr* s, char c)
{
  C04_GROW(s, 1);
  C04_PUT(s, c);
  g_q = C04_STEP(g_q, (int)(unsigned char)c);
}
static inline void C04_emit_lit(vstr* s, const char* lit)
{
  if (!lit[0]) return; C04_emit_char(s, lit[0]);
  if (!lit[1]) return; C04_emit_char(s, lit[1]);
  if (!lit[2]) return; C04_emit_char(s, lit[2]);
  if (!lit[3]) return; C04_emit_char(s, lit[3]);
  __CPROVER_assert(!lit[4], "C04_emit_lit: literal longer than the model supports");
}
/* string ret = "literal";  /  return "literal";  -- a new string: the acceptor starts over */
static inline void C04_emit_assign(vstr* s, const char* lit) { s->size = 0; g_q = 0; g_count = 0; C04_emit_lit(s, lit); }
/* string(n, c) */
static inline void C04_emit_fill(vstr* s, size_t n, char c)
{
  C04_GROW(s, n);
#ifdef C04_EMIT_ABSTRACT
  s->size += n;
#else
  for (size_t k = 0; k < n; k++) C04_PUT(s, c);
#endif
  if (n > 0) g_q = C04_ISWS(c) ? C04_STEP(g_q, (int)(unsigned char)c) : 9;     /* only whitespace is idempotent for the acceptor */
}
/* child->serialize(options, indent_level): `child` is the index of the element / member */
static inline void C04_emit_child(vstr* s, size_t child, uint32_t options, size_t indent_level)
{
#ifdef C04_EMIT_ABSTRACT
  size_t m = nondet_C04_size();
  __CPROVER_assume(m >= 1);            /* a serialization is never empty (each arm of serialize returns at least one character) */
  C04_GROW(s, m);
  s->size += m;
#else
  C04_GROW(s, 1);
  C04_PUT(s, 'V');
#endif
  g_args_ok = g_args_ok && options == g_options;
#if !C04_DICT
  g_args_ok = g_args_ok && child == g_count;      /* list order is kept (a dict has no order) */
#endif
  g_q = C04_STEP(g_q, T_VAL);
  g_count++;
}
/* the escaped key */
static inline void C04_emit_str(vstr* s, const vstr* k)
{
  C04_GROW(s, k->size);
#ifdef C04_EMIT_ABSTRACT
  s->size += k->size;
#else
  for (size_t j = 0; j < k->size; j++) C04_PUT(s, k->data[j]);
#endif
  g_q = C04_STEP(g_q, T_STRBODY);
}

/* ---- dictionary members ------------------------------------------------------------------------------------------------
 * dict_type = unordered_map<string, unique_ptr<JSON>>: n members with pairwise distinct keys, iterated in some order (member i
 * = i-th in that order).  SORT_DICT_KEYS copies them into a std::map<string, JSON*>: emplace of pairwise distinct keys inserts
 * every one, so the map has n entries as well (their order is not part of the structural obligation). */
#ifdef C04_EMIT_ABSTRACT
typedef struct { size_t size; } C04_key_t;                    /* an opaque escaped key of any length */
#define C04_KEY_OF(self, i) ((const vstr*)0)
#define C04_LOCAL_STRING(name) vstr name; name.data = 0; name.cap = 0; name.size = 0
static inline void C04_escape_key(vstr* out, const vstr* key, int mode)
{
  (void)key;
  out->size = nondet_C04_size();
  g_args_ok = g_args_ok && mode == g_mode;
}
#else
extern vstr g_keys[2];
extern char g_keybuf[2][4];
#define C04_KEY_OF(self, i) (&g_keys[(i) & 1])
#define C04_LOCAL_STRING(name) char name##_buf[4]; vstr name; name.data = name##_buf; name.cap = 4; name.size = 0
/* keys of the bounded run are made of characters that every escape mode leaves alone (the escaping itself is pieces 1 and 2) */
static inline void C04_escape_key(vstr* out, const vstr* key, int mode)
{
  g_args_ok = g_args_ok && mode == g_mode;
  out->size = 0;
  for (size_t j = 0; j < key->size; j++) { out->data[j] = key->data[j]; out->size++; }
}
#endif

#endif
