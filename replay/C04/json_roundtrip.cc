// C04 native replay: parse(serialize(v, options)) on the REAL library (g++ -fsanitize=address,undefined; a signed overflow or
// any other UB on the way aborts: halt_on_error).  exit 1 = the round trip fails on the real code, 0 = holds, 2 = usage /
// the counterexample is not realisable (e.g. a text that printf("%g") never produces).
//   float_roundtrip   in_v=<double bits>  |  in_text=<bytes> in_len=<n>   (the %g text; v = strtod(text))
//   int_roundtrip     in_v=<int64 bits> [in_options] [in_strict]
//   const_roundtrip   in_kind=0|1 in_b=0|1 [in_options] [in_strict]
//   string_roundtrip  in_s=<bytes> in_n=<len> [in_options] [in_strict]      (char_roundtrip: in_b=<byte> in_mode=0|1|2)
//   list_roundtrip / dict_roundtrip   in_n=<element count> [in_options] [in_strict]
#include <cmath>
#include <cstring>
#include <string>

#include "JSON.hh"
#include "Strings.hh"
#include "replay/common/args.hh"

using namespace phosg;

extern "C" const char* __ubsan_default_options() { return "halt_on_error=1:print_stacktrace=0"; }

static const uint32_t NONSTANDARD = JSON::SerializeOption::HEX_INTEGERS | JSON::SerializeOption::ONE_CHARACTER_TRIVIAL_CONSTANTS |
    JSON::SerializeOption::HEX_ESCAPE_CODES | JSON::SerializeOption::ESCAPE_CONTROLS_ONLY;

static std::string show(const std::string& s) {
  std::string r;
  for (unsigned char c : s) {
    char b[8];
    if (c >= 0x20 && c < 0x7F) { r += (char)c; } else { snprintf(b, sizeof(b), "\\x%02X", c); r += b; }
  }
  return r;
}

// the common part: text = v.serialize(options); back = parse(text, strict); kind and value equal; canonical text reproduced
static int roundtrip(const JSON& v, uint32_t options, bool strict, bool float_close) {
  std::string text;
  try {
    text = v.serialize(options);
  } catch (const std::exception& e) {
    printf("POSTCONDITION VIOLATED on the real code: serialize threw %s\n", e.what());
    return 1;
  }
  printf("serialize(options=0x%X) = %s\n", options, show(text).c_str());
  JSON back;
  try {
    back = JSON::parse(text, strict);   // std::string overload (never a literal: DESIGN.md appendix B)
  } catch (const std::exception& e) {
    printf("POSTCONDITION VIOLATED on the real code: parse(serialize(v)) threw: %s\n", e.what());
    return 1;
  }
  RCHECK(back.is_int() == v.is_int() && back.is_float() == v.is_float() && back.is_string() == v.is_string() &&
             back.is_null() == v.is_null() && back.is_bool() == v.is_bool() && back.is_list() == v.is_list() && back.is_dict() == v.is_dict(),
      "the parsed value is of another kind (int/float/...) than the original");
  if (float_close) {
    double a = v.as_float(), b = back.as_float();
    RCHECK(std::fabs(a - b) <= 1e-5 * std::fabs(a), "parsed %.17g, original %.17g: differ in the first six significant digits", b, a);
  } else {
    RCHECK(back == v, "the parsed value is not equal to the original");
  }
  std::string again = back.serialize(options | JSON::SerializeOption::SORT_DICT_KEYS);
  std::string sorted = v.serialize(options | JSON::SerializeOption::SORT_DICT_KEYS);
  RCHECK(again == sorted, "re-serialising the parsed value gives %s, not %s", show(again).c_str(), show(sorted).c_str());
  JSON copy = v;
  RCHECK(copy == v, "a copy does not compare equal to its source");
  return 0;
}

int main(int argc, char** argv) {
  Args a(argc, argv);
  uint32_t options = (uint32_t)a.u("in_options", 0) & 0x3F;
  bool strict = a.u("in_strict", 0) & 1;
  if (strict && (options & NONSTANDARD)) {
    strict = false;   // strict mode is only required to accept text produced without the non-standard options
  }
  if (a.mode == "compare") {
    // equality of JSON values through operator== / operator<=> on witnesses of every clause of contracts/C04_compare.h: a value equals its
    // copy and its round trip; strings are compared over their FULL byte sequences (embedded NUL bytes included); different values differ
    int bad = 0;
    auto chk = [&](bool ok, const char* what) { if (!ok) { printf("POSTCONDITION VIOLATED on the real code: %s\n", what); bad = 1; } };
    std::string nul1("a\0b", 3), nul2("a\0c", 3), nul3("a", 1), only_nul("\0", 1);
    for (const std::string& sv : {nul1, nul2, nul3, only_nul, std::string("plain"), std::string()}) {
      JSON v(sv);
      JSON copy = v;
      chk(v == copy, "a string value does not compare equal to its copy");
      chk((v <=> copy) == std::partial_ordering::equivalent, "string <=> copy is not equivalent");
      chk(v == sv, "JSON(s) == s is false for the std::string it was built from");
      JSON back = JSON::parse(v.serialize());
      chk(back == v, "parse(serialize(string value)) != value");
    }
    chk(!(JSON(nul1) == JSON(nul2)), "strings that differ after an embedded NUL compare equal");
    chk(!(JSON(nul1) == JSON(nul3)), "a string compares equal to its prefix up to the first NUL");
    chk((JSON(nul1) <=> JSON(nul2)) == std::partial_ordering::less, "a\\0b <=> a\\0c is not less");
    chk(JSON(int64_t(5)) == JSON(int64_t(5)) && !(JSON(int64_t(5)) == JSON(int64_t(6))), "integer equality");
    chk(JSON(int64_t(5)) == JSON(5.0) && JSON(2.5) == JSON(2.5) && !(JSON(2.5) == JSON(3.5)), "int/float numeric equality");
    chk(JSON(true) == JSON(true) && !(JSON(true) == JSON(false)), "bool equality");
    chk(JSON(nullptr) == JSON(nullptr), "null equality");
    chk(!(JSON("1") == JSON(int64_t(1))) && !(JSON(nullptr) == JSON(false)), "values of different alternatives compare equal");
    JSON l1 = JSON::list({JSON(nul1), JSON(int64_t(1))}), l2 = JSON::list({JSON(nul2), JSON(int64_t(1))});
    chk(l1 == JSON::list({JSON(nul1), JSON(int64_t(1))}) && !(l1 == l2), "list equality with strings containing NUL");
    if (!bad) printf("holds on the witness values\n");
    return bad;
  }
  if (a.mode == "float_roundtrip") {
    double v;
    if (a.has("in_v") && !a.has("in_text")) {
      uint64_t bits = a.u("in_v");
      memcpy(&v, &bits, 8);
    } else {
      std::string t;
      size_t n = a.u("in_len", 0);
      for (size_t i = 0; i < n && i < a.arr("in_text").size(); i++) t += (char)a.arr("in_text")[i];
      v = strtod(t.c_str(), nullptr);
      std::string g = string_printf("%g", v);
      printf("text %s -> v = %.17g -> %%g = %s\n", show(t).c_str(), v, g.c_str());
      if (g != t) {
        printf("not realisable: printf(\"%%g\") of that value is a different text\n");
        v = 1.5;     // go on with the witness values below
      }
    }
    if (std::isfinite(v)) {
      if (int r = roundtrip(JSON(v), options, strict, true)) return r;
    } else {
      printf("not a finite double\n");
    }
    // The counterexample is over an abstract %g text (and abstract rounding functions); witness values on which the text forms of
    // %g differ: integral, non-integral with and without a fraction in the six-digit text, exponent forms, boundaries
    for (double w : {123456.7, 99999.97, 0.9999999, -41.99999999, 1e15 + 0.5, 100000.0, 1e6, 1e-5, 0.0001, -0.0, 1.4, -10.5, 2.5e-310, 1.7976931348623157e308}) {
      printf("witness value %.17g\n", w);
      if (int r = roundtrip(JSON(w), options & ~NONSTANDARD, true, true)) return r;
      if (int r = roundtrip(JSON(w), options, false, true)) return r;
    }
    return 0;
  }
  if (a.mode == "int_roundtrip") {
    int64_t v = (int64_t)a.u("in_v");
    printf("v = %lld\n", (long long)v);
    return roundtrip(JSON(v), options, strict, false);
  }
  if (a.mode == "const_roundtrip") {
    if (a.u("in_kind", 0) == 0) return roundtrip(JSON(nullptr), options, strict, false);
    return roundtrip(JSON((bool)(a.u("in_b", 0) & 1)), options, strict, false);
  }
  if (a.mode == "string_roundtrip" || a.mode == "char_roundtrip") {
    std::string s;
    if (a.mode == "char_roundtrip") {
      s += (char)a.u("in_b", 0);
      uint64_t mode = a.u("in_mode", 0);
      options &= ~(uint32_t)(JSON::SerializeOption::HEX_ESCAPE_CODES | JSON::SerializeOption::ESCAPE_CONTROLS_ONLY);
      if (mode == 1) options |= JSON::SerializeOption::HEX_ESCAPE_CODES;
      if (mode == 2) options |= JSON::SerializeOption::ESCAPE_CONTROLS_ONLY;
      if (options & NONSTANDARD) strict = false;
    } else {
      size_t n = a.u("in_n", a.arr("in_s").size());
      for (size_t i = 0; i < n && i < a.arr("in_s").size(); i++) s += (char)a.arr("in_s")[i];
    }
    printf("s = %s\n", show(s).c_str());
    int rc = roundtrip(JSON(s), options, strict, false);
    if (rc) return rc;
    // the same string as a dictionary key and as a list element
    JSON d = JSON::dict();
    d.emplace(s, JSON(s));
    rc = roundtrip(d, options, strict, false);
    if (rc) return rc;
    JSON l = JSON::list();
    l.emplace_back(JSON(s));
    return roundtrip(l, options, strict, false);
  }
  if (a.mode == "list_roundtrip" || a.mode == "dict_roundtrip") {
    // The verifier's counterexample is over abstract children (the child emitter is a stub whose options argument is an uninterpreted
    // tag), so the option word it reports need not be one on which the real children differ: after the reported input the driver
    // goes through all 64 option sets with three children (a search for a failing input, reported as such).
    static int sweep = -1;
    size_t n = a.u("in_n", 0);
    if (n > 1000) n = 1000;
  again:
    if (sweep >= 0) { options = (uint32_t)sweep; n = 3; strict = !(options & NONSTANDARD); printf("option sweep: options=0x%X, three children\n", options); }
    JSON c = (a.mode == "list_roundtrip") ? JSON::list() : JSON::dict();
    for (size_t i = 0; i < n; i++) {
      // children on which every option shows: an integer (HEX_INTEGERS), constants (ONE_CHARACTER_TRIVIAL_CONSTANTS), a dict with
      // enough keys for the hash-table order to differ from the sorted order (SORT_DICT_KEYS), a string with a control character
      JSON child = (i % 3 == 0) ? JSON((int64_t)i + 255) : (i % 3 == 1) ? JSON::list({JSON(nullptr), JSON(true), JSON("t\x01\xC3\xA9")})
          : JSON::dict({{"alpha", JSON(1)}, {"bravo", JSON(2)}, {"charlie", JSON(3)}, {"delta", JSON(4)}, {"echo", JSON(5)}, {"foxtrot", JSON(6)}, {"golf", JSON(7)}, {"hotel", JSON(8)}});
      if (a.mode == "list_roundtrip") c.emplace_back(std::move(child));
      else c.emplace(string_printf("key%zu", i), std::move(child));
    }
    if (a.mode == "list_roundtrip" && n > 0) {
      // "children with the parent options": the list text is the children's own texts under the same options, in list order
      bool format = options & JSON::SerializeOption::FORMAT;
      std::string want = "[";
      for (size_t i = 0; i < n; i++) {
        if (i) want += ',';
        if (format) want += "\n  " + c.at(i).serialize(options, 2);
        else want += c.at(i).serialize(options);
      }
      want += format ? "\n]" : "]";
      std::string got = c.serialize(options);
      RCHECK(got == want, "list.serialize(0x%X) = %s, the elements serialised with the same options give %s", options, show(got).c_str(), show(want).c_str());
    }
    if (int r = roundtrip(c, options, strict, false)) return r;
    if (++sweep < 64) goto again;
    return 0;
  }
  fprintf(stderr, "unknown mode %s\n", a.mode.c_str());
  return 2;
}
