/* C17 side-car contracts for Arguments::parse_int<RetT> / parse_float<RetT> (src/Arguments.hh); the definitions are
 * extracted text, instantiated textually per group (-DRetT=.. -DC17_W=.. -DC17_SIGNED=.. -DPI_NAME=..).
 *
 * Spec source: property C17 --
 *   "Typed getters return the value iff the text is a complete numeral of the requested base that fits the requested
 *    integer type (for 64-bit targets: any numeral of magnitude below 2^63) or is a complete floating-point literal,
 *    otherwise they throw invalid_argument".
 *
 * The text's numeral is the ghost triple (g_neg, g_mag, g_ovf) = (-1)^g_neg * magnitude, g_endoff the number of
 * characters the numeral occupies at the start of the text (stubs/C17_strto.h):
 *   complete numeral   <=>  g_endoff != 0 (there is a numeral)  &&  g_endoff == text->size (nothing follows it)
 *   fits RetT          <=>  the *mathematical* value lies in [min(RetT), max(RetT)]   (widths 8/16/32)
 *   64-bit RetT        :    every complete numeral of magnitude < 2^63 is accepted (the property's clause); for larger
 *                           magnitudes the statement does not say -- either outcome (value | invalid_argument) allowed
 *   the value          =    the mathematical value converted to RetT (for 64-bit RetT: modulo 2^64, i.e. -1 -> 2^64-1)
 *   requested base     :    DEFAULT -> 0 (C literal syntax, base detected from the prefix), HEX -> 16, DECIMAL -> 10,
 *                           OCTAL -> 8 -- by enumerator *name*. */
#ifndef C17_PARSE_H
#define C17_PARSE_H
#include "stubs/C17_strto.h"
#include "x_intformat.h"          /* enum IntFormat_* cut from src/Arguments.hh */

extern size_t g_size;             /* ghost copy of text->size (counterexample extraction) */
extern char g_stopch;             /* ghost copy of the character the scanner stopped at */

/* std::string invariant: size < cap (room for the terminator), data[size] == 0; the scanner stops inside the text */
#define C17_TEXT_REQ(text) \
  __CPROVER_requires(__CPROVER_is_fresh(text, sizeof(vstr))) \
  __CPROVER_requires((text)->size < 0x10000 && (text)->cap == (text)->size + 1 && (text)->size == g_size && g_endoff <= g_size) \
  __CPROVER_requires(__CPROVER_is_fresh((text)->data, (text)->cap)) \
  __CPROVER_requires((text)->data[(text)->size] == 0 && (text)->data[g_endoff] == g_stopch) \
  C17_ARGV_REQ(text)

/* The obligations are split by what the scanner stopped at (both classes together = every std::string):
 *   -DC17_TEXT_CLASS=1  it stopped at the end of the text or at a non-NUL character: every text without an embedded NUL
 *                       (all that argv can deliver) and the NUL-free prefix situation in general
 *   -DC17_TEXT_CLASS=2  it stopped at a NUL *inside* the text ("5\0abc", possible through
 *                       Arguments(std::vector<std::string>)): the text is not a complete numeral */
#if C17_TEXT_CLASS == 2
#define C17_ARGV_REQ(text) __CPROVER_requires(g_endoff < (text)->size && (text)->data[g_endoff] == 0)
#else
#define C17_ARGV_REQ(text) __CPROVER_requires(g_endoff == (text)->size || (text)->data[g_endoff] != 0)
#endif

#define C17_ANY (g_endoff != 0)
#define C17_ALL(text) (g_endoff == (text)->size)
#define C17_COMPLETE(text) (C17_ANY && C17_ALL(text))

#define C17_SPEC_BASE(f) ((f) == IntFormat_HEX ? 16 : (f) == IntFormat_DECIMAL ? 10 : (f) == IntFormat_OCTAL ? 8 : 0)
#define C17_FORMAT_VALID(f) ((f) == IntFormat_DEFAULT || (f) == IntFormat_HEX || (f) == IntFormat_DECIMAL || (f) == IntFormat_OCTAL)

#ifdef RetT
#if C17_FLOAT
/* ---- parse_float<RetT> ------------------------------------------------------------------------------------------- */
#define C17_FEQ(a, b) ((a) == (b) || ((a) != (a) && (b) != (b)))      /* equal, NaN modulo payload */
static RetT PF_NAME(const void* id, const vstr* text)
C17_TEXT_REQ(text)
__CPROVER_requires(verif_exc == EXC_none)
__CPROVER_ensures((verif_exc == EXC_none) == C17_COMPLETE(text))
__CPROVER_ensures(verif_exc == EXC_none || verif_exc == EXC_invalid_argument)
__CPROVER_ensures(verif_exc == EXC_none ==> C17_FEQ(__CPROVER_return_value, (RetT)g_fval))
__CPROVER_ensures(g_ncalls == 1)
__CPROVER_assigns(verif_exc, g_ncalls, verif_errno);
#else
/* ---- parse_int<RetT> --------------------------------------------------------------------------------------------- */
#if C17_W < 64
#define C17_UMAX ((1ull << C17_W) - 1)                 /* max of the unsigned type  */
#define C17_SMAX ((1ull << (C17_W - 1)) - 1)           /* max of the signed type    */
#define C17_SMINMAG (1ull << (C17_W - 1))              /* |min| of the signed type  */
#if C17_SIGNED
#define C17_FITS (!g_ovf && (g_neg ? g_mag <= C17_SMINMAG : g_mag <= C17_SMAX))
#else
#define C17_FITS (!g_ovf && (g_neg ? g_mag == 0 : g_mag <= C17_UMAX))
#endif
#define C17_DECIDED 1
#else
#define C17_FITS 1
#define C17_DECIDED (!g_ovf && g_mag < 0x8000000000000000ull)   /* magnitude below 2^63 */
#endif
#define C17_VALUE ((RetT)(g_neg ? (0ull - g_mag) : g_mag))

static RetT PI_NAME(const void* id, const vstr* text, int format)
C17_TEXT_REQ(text)
__CPROVER_requires(verif_exc == EXC_none && g_ncalls == 0)
__CPROVER_requires(C17_FORMAT_VALID(format))
/* returns iff complete numeral that fits */
__CPROVER_ensures(C17_DECIDED ==> ((verif_exc == EXC_none) == (C17_COMPLETE(text) && C17_FITS)))
__CPROVER_ensures(!C17_COMPLETE(text) ==> verif_exc == EXC_invalid_argument)
/* otherwise invalid_argument */
__CPROVER_ensures(verif_exc == EXC_none || verif_exc == EXC_invalid_argument)
/* the value */
__CPROVER_ensures((verif_exc == EXC_none && C17_DECIDED) ==> __CPROVER_return_value == C17_VALUE)
/* of the requested base: the text was scanned exactly once, in the base the format names */
__CPROVER_ensures(g_ncalls == 1 && g_base == C17_SPEC_BASE(format))
__CPROVER_assigns(verif_exc, g_base, g_ncalls, verif_errno);
#endif
#endif

#endif
