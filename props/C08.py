"""C08 -- string splitting, joining, trimming and replacing obey their algebraic laws (DESIGN.md section 4, C08)."""
import re
from vf.extract import Source, Unit
from vf.lex import Rule, ExtractionBreak, find_def
from vf.pipeline import Group, Replay, ALL_LIB

ID = 'C08'
LEVEL = 'proof'
CC = 'src/Strings.cc'
HH = 'src/Strings.hh'

R = lambda pat, rep, count=1: Rule(pat, rep, count=count, regex=True)
L = lambda pat, rep, count=1: Rule(pat, rep, count=count)

SIZES = [R(r'\bs\.(size|length)\(\)', 's->size', '+')]
NPOS = R(r'\b\w+::npos\b', 'C8_NPOS', '+')

# ---------------------------------------------------------------------------------------------------------------------
SPLIT_LOOP = """
__CPROVER_assigns(token_start_offset, verif_exc, ret->size, g_pstart, g_plen, g_nstart)
__CPROVER_loop_invariant(verif_exc == 0 && token_start_offset <= s->size)
__CPROVER_loop_invariant(ret->size <= token_start_offset && (ret->size == 0 ==> token_start_offset == 0))
__CPROVER_loop_invariant(max_splits != 0 ==> ret->size <= max_splits)
__CPROVER_loop_invariant(g_pj < ret->size ==> (g_pstart <= s->size && g_plen < s->size - g_pstart && g_pstart + g_plen < token_start_offset))
__CPROVER_loop_invariant((g_pj < ret->size && g_pj == 0) ==> g_pstart == 0)
__CPROVER_loop_invariant(g_pj < ret->size ==> s->data[g_pstart + g_plen] == delim)
__CPROVER_loop_invariant((g_pj < ret->size && g_rk < g_plen) ==> s->data[g_pstart + g_rk] != delim)
__CPROVER_loop_invariant(g_pj + 1 < ret->size ==> g_nstart == g_pstart + g_plen + 1)
__CPROVER_loop_invariant(g_pj + 1 == ret->size ==> token_start_offset == g_pstart + g_plen + 1)
__CPROVER_decreases(s->size - token_start_offset)
"""


def split_unit(ctx, src):
    u = Unit(ctx, 'split')
    u.raw('#include "stubs/C08_str.h"\n')
    u.function(src, CC, r'vector<string> split\(const string& s, char delim, size_t max_splits\)',
               new_header='void split(vvec* ret, const vstr* s, char delim, size_t max_splits)', ret_zero='',
               rules=[L('vector<string> ret;', ''), SIZES[0], R(r'\bret\.size\(\)', 'ret->size', '+'), NPOS,
                      R(r'\bs\.find\(delim, (\w+)\)', r'c8_find_ch(s, delim, \1)'),
                      R(r'\bret\.(?:emplace|push)_back\(s\.substr\((\w+)\)\);', r'c8_push_substr(ret, s, \1, C8_NPOS);'),
                      R(r'\bret\.(?:emplace|push)_back\(s\.substr\((\w+), ([^;]*?)\)\);', r'c8_push_substr(ret, s, \1, \2);'),
                      L('return ret;', 'return;')],
               may_throw=['c8_push_substr'], nloops=1, loops={1: SPLIT_LOOP})
    # the std::wstring overload is a second copy of the same text: instantiated over the same string model (the algorithm only
    # compares elements with the delimiter, so the element type wchar_t is represented by the model's element type)
    u.function(src, CC, r'vector<wstring> split\(const wstring& s, wchar_t delim, size_t max_splits\)',
               new_header='void split_w(vvec* ret, const vstr* s, char delim, size_t max_splits)', ret_zero='',
               rules=[L('vector<wstring> ret;', ''), SIZES[0], R(r'\bret\.size\(\)', 'ret->size', '+'), NPOS,
                      R(r'\bs\.find\(delim, (\w+)\)', r'c8_find_ch(s, delim, \1)'),
                      R(r'\bret\.(?:emplace|push)_back\(s\.substr\((\w+)\)\);', r'c8_push_substr(ret, s, \1, C8_NPOS);'),
                      R(r'\bret\.(?:emplace|push)_back\(s\.substr\((\w+), ([^;]*?)\)\);', r'c8_push_substr(ret, s, \1, \2);'),
                      L('return ret;', 'return;')],
               may_throw=['c8_push_substr'], nloops=1, loops={1: SPLIT_LOOP})
    return u


JOIN_LOOP = """
__CPROVER_assigns(verif_i, ret->size, g_oval, g_joff, g_joff2%(extra_assigns)s)
__CPROVER_loop_invariant(verif_i <= items->n && ret->size <= VSTR_MAXCAP)
__CPROVER_loop_invariant(verif_i == 0 ==> ret->size == 0)%(extra_inv)s
__CPROVER_loop_invariant(g_pj < verif_i ==> PJ_OK(items))
__CPROVER_loop_invariant((g_pj < verif_i && g_pj == 0) ==> g_joff == 0)
__CPROVER_loop_invariant(g_pj < verif_i ==> (g_joff <= ret->size && PJ_LEN(items) <= ret->size - g_joff))
__CPROVER_loop_invariant((g_pj < verif_i && g_obase == g_joff && g_rk < PJ_LEN(items)) ==> g_oval == g_srcd[PJ_START(items) + g_rk])
__CPROVER_loop_invariant(g_pj + 1 < verif_i ==> g_joff2 == g_joff + PJ_LEN(items) + %(seplen)d)
%(sep_inv)s
__CPROVER_loop_invariant(g_pj + 1 == verif_i ==> ret->size == g_joff + PJ_LEN(items))
__CPROVER_decreases(items->n - verif_i)
"""


def join_unit(ctx, src):
    """Both join templates, instantiated textually for ItemContainerT = vector<string> (slice model), DelimiterT = char."""
    u = Unit(ctx, 'join')
    u.raw('#include "contracts/C08_split.h"\n')
    FOR = R(r'for \(const auto& (\w+) : items\) \{',
            r'for (size_t verif_i = 0; verif_i < items->n; verif_i++) { const vslice* \1 = c8_item(items, verif_i);')
    APP = L('ret += item;', 'if (verif_i == g_pj) g_joff = ret->size; if (verif_i == g_pj + 1) g_joff2 = ret->size; '
            'c8_append(ret, items->src->data + item->start, item->len);')
    common = [L('string ret;', ''), FOR, APP, L('return ret;', 'return;'), R(r'\bret\.empty\(\)', '(ret->size == 0)', None)]
    # a boolean "first iteration" flag (if the text has one) is tied to the loop index in the invariant
    text = src.text(HH)
    _, body, _, _ = find_def(text, r'std::string join\(const ItemContainerT& items, DelimiterT& delim\)', 'function')
    mo = re.search(r'\bbool (\w+) = (true|false);', body)
    extra_inv, extra_assigns = '', ''
    if mo:
        extra_inv = '\n__CPROVER_loop_invariant(%s == (verif_i %s 0))' % (mo.group(1), '==' if mo.group(2) == 'true' else '!=')
        extra_assigns = ', ' + mo.group(1)
    u.function(src, HH, r'std::string join\(const ItemContainerT& items, DelimiterT& delim\)',
               new_header='void join_delim(vout* ret, const vsvec* items, char delim)',
               rules=common + [L('ret += delim;', 'c8_push_back(ret, delim);')],
               nloops=1, loops={1: JOIN_LOOP % dict(seplen=1, extra_inv=extra_inv, extra_assigns=extra_assigns,
                   sep_inv='__CPROVER_loop_invariant((g_pj + 1 < verif_i && g_obase == g_joff + PJ_LEN(items) && g_rk == 0) ==> g_oval == delim)')})
    u.function(src, HH, r'std::string join\(const ItemContainerT& items\)',
               new_header='void join_plain(vout* ret, const vsvec* items)', rules=common,
               nloops=1, loops={1: JOIN_LOOP % dict(seplen=0, extra_inv='', extra_assigns='', sep_inv='')})
    return u


def strip_unit(ctx, src):
    u = Unit(ctx, 'strip')
    u.raw('#include "stubs/C08_str.h"\n')
    RS = [R(r'\bs\.find_(first|last)_not_of\(("(?:\\.|[^"\\])*")\)', r'c8_find_\1_not_of(s, \2)', '+'),
          NPOS, R(r'\bs\.resize\(([^;]*)\);', r"vstr_resize(s, \1, '\\0');", '+'),
          R(r'\bs = s\.substr\((\w+)\);', r'c8_assign_substr_self(s, \1, C8_NPOS);', None),
          R(r'\bs = s\.substr\((\w+), ([^;]*)\);', r'c8_assign_substr_self(s, \1, \2);', None),
          R(r'\bs\.empty\(\)', '(s->size == 0)', '+'), R(r'\bs\[([^\]]+)\]', r's->data[\1]', '+')]
    u.function(src, HH, r'void strip_trailing_zeroes\(StrT& s\)', new_header='void strip_trailing_zeroes(vstr* s)', body_prefix=' g_shift = 0; ',
               rules=[R(r"\bs\.find_last_not_of\(('(?:\\.|[^'\\])*')\)", r'c8_find_last_not_ch(s, \1)')] + RS[1:])
    for fn in ('strip_trailing_whitespace', 'strip_leading_whitespace', 'strip_whitespace'):
        u.function(src, HH, r'void %s\(StrT& s\)' % fn, new_header='void %s(vstr* s)' % fn, body_prefix=' g_shift = 0; ', rules=RS)
    LEN = R(r'\b(\w+)\.(?:length|size)\(\)', r'\1->size', '+')
    CMP = R(r'\bs\.compare\(', 'c8_compare(s, ')
    u.function(src, CC, r'bool starts_with\(const string& s, const string& start\)', new_header='bool starts_with(const vstr* s, const vstr* start)', rules=[LEN, CMP])
    u.function(src, CC, r'bool ends_with\(const string& s, const string& end\)', new_header='bool ends_with(const vstr* s, const vstr* end)', rules=[LEN, CMP])
    return u


REPLACE_LOOP = """
__CPROVER_assigns(read_offset, ret->size, g_oval, g_wit, g_it, g_rstart, g_rfind, g_rout, g_nstart, g_nout, g_rwit, g_rend, g_rnext, g_rnout)
__CPROVER_loop_invariant(g_srcsize == s->size && g_srcd == s->data && read_offset <= g_srcsize && ret->size <= VSTR_MAXCAP && g_it <= read_offset)
__CPROVER_loop_invariant(target_size == g_tlen && replacement_size == g_rlen)
__CPROVER_loop_invariant(g_it == 0 ==> (read_offset == 0 && ret->size == 0))
__CPROVER_loop_invariant((g_pj < g_it && g_pj == 0) ==> (g_rstart == 0 && g_rout == 0))
__CPROVER_loop_invariant(g_pj < g_it ==> SEG_DEFS)
__CPROVER_loop_invariant(g_pj < g_it ==> SEG_SHAPE)
__CPROVER_loop_invariant(g_pj < g_it ==> SEG_IS_MATCH)
__CPROVER_loop_invariant(g_pj < g_it ==> SEG_LEFTMOST)
__CPROVER_loop_invariant(g_pj < g_it ==> SEG_COPIED)
__CPROVER_loop_invariant(g_pj < g_it ==> SEG_REPLACED)
__CPROVER_loop_invariant(g_pj < g_it ==> (g_rout <= g_rnout && g_rnout <= ret->size))
__CPROVER_loop_invariant(g_pj + 1 < g_it ==> (g_nstart == g_rnext && g_nout == g_rnout && g_nstart < g_srcsize))
__CPROVER_loop_invariant(g_pj + 1 == g_it ==> (read_offset == g_rnext && ret->size == g_rnout))
__CPROVER_decreases(g_srcsize - read_offset)
"""


def replace_unit(ctx, src):
    u = Unit(ctx, 'replace')
    u.raw('#include "contracts/C08_replace.h"\n')
    GH = (r'size_t \1 = c8_find_buf(s, \2, \3, \4); '
          r'if (g_it == g_pj) { g_rstart = \3; g_rfind = \1; g_rout = ret->size; g_rwit = g_wit; g_rend = SEG_MATCH ? g_rfind : g_srcsize; '
          r'g_rnext = SEG_MATCH ? g_rfind + g_tlen : g_srcsize; g_rnout = g_rout + (g_rend - g_rstart) + (SEG_MATCH ? g_rlen : 0); } '
          r'if (g_pj != C8_NPOS && g_it == g_pj + 1) { g_nstart = \3; g_nout = ret->size; } g_it++;')
    u.function(src, CC, r'string str_replace_all\(const string& s, const char\* target, const char\* replacement\)',
               new_header='void str_replace_all(vout* ret, const vstr* s, const char* target, const char* replacement)',
               body_prefix=' g_it = 0; ',
               rules=[R(r'\bstrlen\(', 'c8_strlen(', 2), L('string ret;', ''), SIZES[0], NPOS,
                      R(r'size_t (\w+) = s\.find\((\w+), (\w+), (\w+)\);', GH),
                      R(r'\bs\.data\(\)', 's->data', None), R(r'\bs\.c_str\(\)', 'c8_cstr(s)', None),
                      # append(p, n) vs append(p) (C string: up to the first NUL)
                      Rule(r'\bret\.append\(([^;]*)\);', lambda mo: ('c8_append(ret, %s);' if _top_comma(mo.group(1)) else 'c8_append_cstr(ret, %s);') % mo.group(1), count='+', regex=True),
                      L('return ret;', 'return;')],
               nloops=1, loops={1: REPLACE_LOOP})
    return u


SKIP_STR_LOOP = """
__CPROVER_assigns(offset)
__CPROVER_loop_invariant(offset >= g_off0 && (g_off0 <= s->size ==> offset <= s->size) && (g_off0 >= s->size ==> offset == g_off0))
__CPROVER_loop_invariant(BETWEEN(g_sk, g_off0, offset) ==> %sC8_WS(s->data[g_sk]))
__CPROVER_decreases(s->size - offset)
"""
SKIP_CSTR_LOOP = """
__CPROVER_assigns(offset)
__CPROVER_loop_invariant(offset >= g_off0 && offset <= g_len)
__CPROVER_loop_invariant(BETWEEN(g_sk, g_off0, offset) ==> %s)
__CPROVER_loop_invariant(offset > g_off0 ==> %s)
__CPROVER_decreases(g_len - offset)
"""
CASE_LOOP = """
__CPROVER_assigns(verif_i, ret->size, g_oval)
__CPROVER_loop_invariant(verif_i <= s->size && ret->size == verif_i)
__CPROVER_loop_invariant((g_rk == 0 && g_obase < verif_i) ==> g_oval == %s(s->data[g_obase]))
__CPROVER_decreases(s->size - verif_i)
"""


def skip_unit(ctx, src):
    u = Unit(ctx, 'skip')
    u.raw('#include "contracts/C08_skip.h"\n')
    IDX = R(r'\bs\[([^\]]+)\]', r's->data[\1]', '+')
    for fn, neg in (('skip_whitespace', ''), ('skip_non_whitespace', '!')):
        u.function(src, CC, r'size_t %s\(const string& s, size_t offset\)' % fn, new_header='size_t %s_str(const vstr* s, size_t offset)' % fn,
                   body_prefix=' g_off0 = offset; ', rules=[SIZES[0], IDX], nloops=1, loops={1: SKIP_STR_LOOP % neg})
        u.function(src, CC, r'size_t %s\(const char\* s, size_t offset\)' % fn, new_header='size_t %s_cstr(const char* s, size_t offset)' % fn,
                   body_prefix=' g_off0 = offset; ', nloops=1, loops={1: SKIP_CSTR_LOOP % (('(s[g_sk] != 0 && !C8_WS(s[g_sk]))', '(s[g_off0] != 0 && !C8_WS(s[g_off0]))') if neg else ('C8_WS(s[g_sk])', 'C8_WS(s[g_off0])'))})
    for sfx, ty in (('str', r'const string& s'), ('cstr', r'const char\* s')):
        u.function(src, CC, r'size_t skip_word\(%s, size_t offset\)' % ty,
                   new_header='size_t skip_word_%s(%s s, size_t offset)' % (sfx, 'const vstr*' if sfx == 'str' else 'const char*'),
                   rules=[R(r'return (skip_\w+)\(s, (skip_\w+)\(s, (\w+)\)\);',
                            r'g_mid = \2_%s(s, \3); return \1_%s(s, g_mid);' % (sfx, sfx))])
    FOR = R(r'for \(char (\w+) : s\) \{', r'for (size_t verif_i = 0; verif_i < s->size; verif_i++) { char \1 = s->data[verif_i];')
    for fn, spec in (('toupper', 'C8_UPPER'), ('tolower', 'C8_LOWER')):
        u.function(src, CC, r'string %s\(const string& s\)' % fn, new_header='void %s_str(vout* ret, const vstr* s)' % fn,
                   rules=[L('string ret;', ''), R(r'\bret\.reserve\(', 'c8_reserve(ret, '), SIZES[0], FOR,
                          R(r'\bret\.push_back\(', 'c8_push_back(ret, '), R(r'(?<![\w:])::(toupper|tolower)\(', r'c8_\1(', None), L('return ret;', 'return;')],
                   nloops=1, loops={1: CASE_LOOP % spec})
    return u


CONTEXT_LOOP = """
__CPROVER_assigns(z, last_start, char_is_escaped, verif_exc, ret->size, paren_stack.size, paren_stack.top, g_pstart, g_plen, g_nstart, g_depth, g_nops, g_kdepth, g_size0, g_cnt0, g_ls0, g_lastop, g_lastval, g_c, g_top0, g_esc0, g_nconsumed)
__CPROVER_loop_invariant(verif_exc == 0 && z <= s->size && last_start <= z && ret->size <= last_start && g_depth == paren_stack.size && g_nconsumed == z)
__CPROVER_loop_invariant(ret->size == 0 ==> last_start == 0)
__CPROVER_loop_invariant(max_splits != 0 ==> ret->size <= max_splits)
__CPROVER_loop_invariant(g_pj < ret->size ==> (g_pstart <= s->size && g_plen < s->size - g_pstart && g_pstart + g_plen < last_start))
__CPROVER_loop_invariant((g_pj < ret->size && g_pj == 0) ==> g_pstart == 0)
__CPROVER_loop_invariant(g_pj < ret->size ==> s->data[g_pstart + g_plen] == delim)
__CPROVER_loop_invariant(g_pj + 1 < ret->size ==> g_nstart == g_pstart + g_plen + 1)
__CPROVER_loop_invariant(g_pj + 1 == ret->size ==> last_start == g_pstart + g_plen + 1)
__CPROVER_loop_invariant((g_pj < ret->size && g_sk >= g_pstart && g_sk - g_pstart < g_plen && s->data[g_sk] == delim && CTX_CLOSER(delim) == 0) ==> g_kdepth > 0)
__CPROVER_loop_invariant((g_sk >= last_start && g_sk < z && s->data[g_sk] == delim && CTX_CLOSER(delim) == 0 && !(max_splits != 0 && ret->size >= max_splits)) ==> g_kdepth > 0)
__CPROVER_decreases(s->size - z)
"""


def context_unit(ctx, src):
    u = Unit(ctx, 'context')
    u.raw('#include "contracts/C08_context.h"\n')
    u.function(src, CC, r'vector<string> split_context\(const string& s, char delim, size_t max_splits\)',
               new_header='void split_context(vvec* ret, const vstr* s, char delim, size_t max_splits)', ret_zero='', body_prefix=' g_nconsumed = 0; ',
               rules=[L('vector<string> ret;', ''), L('vector<char> paren_stack;', 'cstack paren_stack; c8_stk_init(&paren_stack);'),
                      SIZES[0], R(r'\bret\.size\(\)', 'ret->size', '+'), R(r'\bs\[([^\]]+)\]', r's->data[\1]', '+'),
                      R(r'\bparen_stack\.empty\(\)', '(paren_stack.size == 0)', '+'), R(r'\bparen_stack\.size\(\)', 'paren_stack.size', '+'),
                      R(r'\bparen_stack\.back\(\)', 'c8_stk_back(&paren_stack)', '+'), R(r'\bparen_stack\.pop_back\(\)', 'c8_stk_pop(&paren_stack)', '+'),
                      R(r'\bparen_stack\.push_back\(', 'c8_stk_push(&paren_stack, ', '+'),
                      R(r'\bret\.(?:emplace|push)_back\(s\.substr\((\w+)\)\);', r'c8_push_substr(ret, s, \1, C8_NPOS);'),
                      R(r'\bret\.(?:emplace|push)_back\(s\.substr\((\w+), ([^;]*?)\)\);', r'c8_push_substr(ret, s, \1, \2);'),
                      R(r'for \(z = 0; ([^;]*); z\+\+\) \{',
                        r'for (z = 0; \1; c8_ctx_check(&paren_stack, char_is_escaped, ret->size, last_start, z, delim, max_splits), z++) { '
                        r'CTX_SNAPSHOT(paren_stack, char_is_escaped, ret->size, last_start, s->data[z], z)'),
                      L('return ret;', 'return;')],
               may_throw=['c8_push_substr'], nloops=1, loops={1: CONTEXT_LOOP})
    return u


ARGS_LOOP = """
__CPROVER_assigns(z, current_quote, in_space_between_args, verif_exc, ret->count, ret->cur_len, g_nnew, g_npush, g_z0, g_pushval, g_c, g_c2, g_q0, g_quote, g_sp0, g_havenext, g_xerr)
__CPROVER_loop_invariant(verif_exc == 0 && z <= s->size && !g_xerr && g_quote == current_quote)
__CPROVER_loop_invariant(current_quote == 0 || current_quote == '"' || current_quote == '\\'')
__CPROVER_loop_invariant(in_space_between_args || ret->count > 0)
__CPROVER_decreases(s->size - z)
"""


def args_unit(ctx, src):
    u = Unit(ctx, 'args')
    u.raw('#include "contracts/C08_args.h"\n')
    u.function(src, CC, r'vector<string> split_args\(const string& s\)', new_header='void split_args(vargs* ret, const vstr* s)', ret_zero='',
               body_prefix=' g_quote = 0; g_xerr = 0; ',
               rules=[L('vector<string> ret;', ''), SIZES[0], R(r'\bs\[([^\]]+)\]', r's->data[\1]', '+'),
                      R(r'\bret\.emplace_back\(\);', 'c8_args_new(ret);'), R(r'\bret\.back\(\)\.push_back\(', 'c8_args_push(ret, ', '+'),
                      R(r'\bisblank\(', 'c8_isblank('),
                      R(r'for \(size_t z = 0; ([^;]*); z\+\+\) \{',
                        r'for (size_t z = 0; \1; c8_args_check(current_quote, in_space_between_args, z), z++) { '
                        r'ARGS_SNAPSHOT(s, z, current_quote, in_space_between_args)'),
                      L('return ret;', 'return;')],
               nloops=1, loops={1: ARGS_LOOP})
    return u


COMMENTS_LOOP = """
__CPROVER_assigns(z, write_offset, is_in_comment, __CPROVER_object_whole(s->data), g_z0, g_wo0, g_wo, g_c, g_c2, g_oprev, g_havenext, g_in0, g_in)
__CPROVER_loop_invariant(z <= s->size && write_offset <= z && g_wo == write_offset && (g_in ? 1 : 0) == (is_in_comment ? 1 : 0))
__CPROVER_loop_invariant((g_sk >= z && g_sk < s->size) ==> s->data[g_sk] == g_sval)
__CPROVER_decreases(s->size - z)
"""


def comments_unit(ctx, src):
    u = Unit(ctx, 'comments')
    u.raw('#include "contracts/C08_comments.h"\n')
    u.function(src, HH, r'void strip_multiline_comments\(StrT& s, bool allow_unterminated = false\)',
               new_header='void strip_multiline_comments(vstr* s, bool allow_unterminated)', ret_zero='', body_prefix=' g_wo = 0; g_in = 0; ',
               rules=[SIZES[0], R(r'\bs\[([^\]]+)\]', r's->data[\1]', '+'), R(r'\bs\.resize\(([^;]*)\);', r"vstr_resize(s, \1, '\\0');"),
                      # the lock-step check runs after every iteration (after the loop's own increment expression, if it has one)
                      R(r'for \(size_t z = 0; ([^;]*);\s*([^(){};]*?)\s*\) \{',
                        lambda mo: 'for (size_t z = 0; %s; %sc8_cmt_check(s, z, write_offset, is_in_comment)) { CMT_SNAPSHOT(s, z, write_offset, is_in_comment)'
                        % (mo.group(1), (mo.group(2) + ', ') if mo.group(2) else ''))],
               nloops=1, loops={1: COMMENTS_LOOP})
    return u


def _top_comma(s):
    d = 0
    for ch in s:
        if ch in '([':
            d += 1
        elif ch in ')]':
            d -= 1
        elif ch == ',' and d == 0:
            return True
    return False


def plan(ctx):
    src = Source(ctx.src)
    groups = []
    us = split_unit(ctx, src)
    us.write()
    ctx.functions_under_contract = list(us.functions)
    RP = lambda mode: Replay(driver='C08/strings.cc', mode=mode, sources=ALL_LIB, small_define='VERIF_SMALL')
    groups.append(Group(name='split', harness='harness/C08/split.c', entry='h_split', function='split(const string&, char, size_t)',
                        enforce='split', replace=['c8_find_ch'], loops=True, kind='loop-contract', replay=RP('split'), timeout=300, stage1=90, fallback_unwind=8))
    groups.append(Group(name='split(wstring)', harness='harness/C08/split.c', entry='h_split_w', function='split(const wstring&, wchar_t, size_t)',
                        enforce='split_w', replace=['c8_find_ch'], loops=True, kind='loop-contract', replay=RP('split_w'), timeout=300, stage1=90, fallback_unwind=8))
    groups.append(Group(name='split.count[bounded]', harness='harness/C08/split.c', entry='b_split_count', function='split: number of pieces',
                        defines=['C8_CONCRETE=1', 'BSPLIT_N=6'], kind='bounded', bound='strings of length <= 6 (all contents, delimiters, max_splits)',
                        cbmc_flags=['--unwind', '9', '--unwinding-assertions'], replay=RP('split'), min_post=2))
    uj = join_unit(ctx, src)
    uj.write()
    ctx.functions_under_contract += uj.functions
    for fn, what in (('join_delim', 'join(items, delim)'), ('join_plain', 'join(items)')):
        groups.append(Group(name=fn, harness='harness/C08/split.c', entry='h_' + fn, function=what + ' [ItemContainerT = vector<string>]',
                            enforce=fn, loops=True, kind='loop-contract', replay=RP(fn), timeout=300, stage1=90, fallback_unwind=5))
    groups.append(Group(name='lemma.join_split', harness='harness/C08/split.c', entry='l_join_split', function='join(split(s, d, m), d) == s',
                        replace=['split', 'join_delim'], kind='lemma', min_post=6, replay=RP('lemma_join_split')))
    ust = strip_unit(ctx, src)
    ust.write()
    ctx.functions_under_contract += ust.functions
    HS = 'harness/C08/strip.c'
    FIND = ['c8_find_first_not_of', 'c8_find_last_not_of', 'c8_find_last_not_ch', 'vstr_resize']
    for fn in ('strip_trailing_zeroes', 'strip_trailing_whitespace', 'strip_leading_whitespace', 'strip_whitespace'):
        groups.append(Group(name=fn, harness=HS, entry='h_' + fn, function=fn + '<std::string>', enforce=fn, replace=FIND, replay=RP(fn), min_post=5))
    for fn in ('starts_with', 'ends_with'):
        groups.append(Group(name=fn, harness=HS, entry='h_' + fn, function=fn, enforce=fn, replace=['c8_compare'], replay=RP(fn), min_post=2))
    ur = replace_unit(ctx, src)
    ur.write()
    ctx.functions_under_contract += ur.functions
    groups.append(Group(name='str_replace_all', harness='harness/C08/replace.c', entry='h_str_replace_all', function='str_replace_all (non-empty target)',
                        enforce='str_replace_all', replace=['c8_find_buf', 'c8_strlen'], loops=True, kind='loop-contract', replay=RP('str_replace_all'),
                        timeout=900, stage1=300, fallback_unwind=8, min_post=9))
    uk = skip_unit(ctx, src)
    uk.write()
    ctx.functions_under_contract += uk.functions
    HK = 'harness/C08/skip.c'
    for sfx, what in (('str', 'const std::string&'), ('cstr', 'const char*')):
        for fn in ('skip_whitespace', 'skip_non_whitespace'):
            groups.append(Group(name='%s[%s]' % (fn, sfx), harness=HK, entry='h_%s_%s' % (fn, sfx), function='%s(%s, size_t)' % (fn, what),
                                enforce='%s_%s' % (fn, sfx), loops=True, kind='loop-contract', replay=RP(fn + ('_c' if sfx == 'cstr' else '')), min_post=3, fallback_unwind=8))
        groups.append(Group(name='skip_word[%s]' % sfx, harness=HK, entry='h_skip_word_' + sfx, function='skip_word(%s, size_t)' % what,
                            enforce='skip_word_' + sfx, replace=['skip_whitespace_' + sfx, 'skip_non_whitespace_' + sfx],
                            replay=RP('skip_word' + ('_c' if sfx == 'cstr' else '')), min_post=4))
    for fn in ('toupper', 'tolower'):
        groups.append(Group(name=fn, harness=HK, entry='h_%s_str' % fn, function='%s(const std::string&)' % fn, enforce=fn + '_str', loops=True,
                            kind='loop-contract', replay=RP(fn), min_post=2, fallback_unwind=8))
    ux = context_unit(ctx, src)
    ux.write()
    ctx.functions_under_contract += ux.functions
    groups.append(Group(name='split_context', harness='harness/C08/context.c', entry='h_split_context', function='split_context',
                        enforce='split_context', loops=True, kind='loop-contract', replay=RP('split_context'), timeout=300, stage1=90, fallback_unwind=8, min_post=12))
    groups.append(Group(name='lemma.join_split_context', harness='harness/C08/context.c', entry='l_join_split_context',
                        function='join(split_context(s, d, m), d) == s when accepted', replace=['split_context', 'join_delim'], kind='lemma', min_post=6,
                        replay=RP('lemma_join_split_context')))
    ua = args_unit(ctx, src)
    ua.write()
    ctx.functions_under_contract += ua.functions
    groups.append(Group(name='split_args', harness='harness/C08/args.c', entry='h_split_args', function='split_args',
                        enforce='split_args', loops=True, kind='loop-contract', replay=RP('split_args'), timeout=300, stage1=90, fallback_unwind=8, min_post=9))
    uc = comments_unit(ctx, src)
    uc.write()
    ctx.functions_under_contract += uc.functions
    groups.append(Group(name='strip_multiline_comments', harness='harness/C08/comments.c', entry='h_strip_multiline_comments',
                        function='strip_multiline_comments<std::string>', enforce='strip_multiline_comments', replace=['vstr_resize'], loops=True,
                        kind='loop-contract', replay=RP('strip_multiline_comments'), timeout=300, stage1=90, fallback_unwind=8, min_post=7))
    # string_vprintf: exactly the formatted text (abstract text model of vsnprintf/vasprintf, stubs/C08_printf.h)
    uv = Unit(ctx, 'vprintf')
    uv.raw('#include "contracts/C08_printf.h"\n')
    uv.function(src, CC, r'string string_vprintf\(const char\* fmt, va_list va\)', new_header='void string_vprintf(vstr* ret, const char* fmt, verif_va_list va)',
                ret_zero='', rules=[Rule(r'\bvasprintf\(', 'verif_vasprintf(', count=None, regex=True),
                                    Rule(r'\bvsnprintf\(', 'verif_vsnprintf(', count=None, regex=True),
                                    Rule(r'\bfree\(', 'verif_free(', count=None, regex=True),
                                    Rule(r'\bstring ret\(([^;]*)\);', r'vstr_assign(ret, \1);', count=None, regex=True),
                                    Rule(r'return string\(([^;]*)\);', r'{ vstr_assign(ret, \1); return; }', count=None, regex=True),
                                    Rule(r'ret\.data\(\)', 'ret->data', count=None, regex=True), Rule(r'ret\.size\(\)', 'ret->size', count=None, regex=True),
                                    Rule(r'ret\.resize\(([^;]*)\);', r'vstr_resize(ret, \1, 0);', count=None, regex=True),
                                    Rule('return ret;', 'return;', count='+')])
    uv.write()
    ctx.functions_under_contract += uv.functions
    groups.append(Group(name='string_vprintf', harness='harness/C08/printf.c', entry='h_string_vprintf', function='string_vprintf',
                        enforce='string_vprintf', replace=['verif_vasprintf', 'verif_vsnprintf', 'verif_free', 'vstr_assign'],
                        clause_note='contracts/C08_printf.h: the result is exactly the formatted text (abstract: ghost length, ghost character at a ghost index) or bad_alloc',
                        replay=RP('string_printf')))
    return groups


EXPLANATION = ('The loop logic of every listed helper is cut from src/Strings.cc / src/Strings.hh on each run and put under a function contract with '
               'loop contracts (goto-instrument --dfcc, cbmc); std::string / vector<string> / libc calls are bound to the stub models of '
               'stubs/C08_str.h. Universals are stated with ghost indices (one symbolic piece g_pj, one symbolic byte), so every discharged clause '
               'holds for all strings of every length (< 2^47 bytes), all delimiters and all max_splits. split / split_context: tiling facts '
               '(start_0 = 0, start_{j+1} = end_j + 1, s[end_j] == delim, last end == size), no (top-level) delimiter inside a piece unless max_splits '
               'stopped the splitting, count <= max_splits + 1; join: result = pieces interleaved with the delimiter; join(split(s)) == s is an '
               'induction over the piece index whose base and step are lemmas over the two contracts. split_context, split_args and '
               'strip_multiline_comments are checked in lock-step against reference automata written from the plain definitions (one assertion set '
               'per loop iteration, executed from the loop increment). strip_* / starts_with / ends_with / str_replace_all / skip_* / toupper / '
               'tolower: postconditions are the plain definitions.')
TRUSTED = ['stubs/C08_str.h: models of std::string find / find_first_not_of / find_last_not_of / compare / substr / append / push_back / resize, '
           'vector<string> as recorded slices (ghost piece), toupper / tolower / isblank in the "C" locale',
           'stubs/vstr.h (std::string {data,size,cap} model, vstr_resize contract)',
           'contracts/C08_*.h: specification macros (reference automata CTX_*, ARG_*, CMT_*, segment facts SEG_*, C8_WS, C8_UPPER/C8_LOWER) and the '
           'stack / argument-vector abstractions (depth + innermost closer; operation log)',
           'props/C08.py extraction rules: range-for -> index loop, out-parameters for returned strings / vectors, ghost recording statements, '
           'lock-step check calls placed in the loop increment']
ASSUMPTIONS = ['string sizes below 2^47 bytes (cbmc object size limit); vectors below 2^36 elements',
               'allocation succeeds: result strings / vectors grow without length_error or bad_alloc (__CPROVER_assume in the append / push_back stubs)',
               'representation invariant of the input vector model of join: every element is a slice of one backing string (assumed at each element access); '
               'any vector<string> is representable this way (backing string = concatenation of its elements)',
               '"C" locale for ::toupper / ::tolower / isblank; glibc semantics for plain-char arguments in -128..-2 (ISO C leaves them undefined: '
               'phosg::toupper/tolower pass char directly) -- the table maps only a-z / A-Z',
               'str_replace_all: non-empty target (the precondition named in the property; with an empty target the loop does not terminate)',
               'C-string overloads of skip_*: offset <= strlen(s)',
               'split_args reference: an argument exists from its first written character (an empty quoted string alone yields no argument); NUL is an '
               'ordinary non-blank character',
               'split_context: "top-level" = nesting depth 0 of the reference automaton; the no-top-level-delimiter clause is vacuous when the '
               'delimiter is itself one of ( [ { < \' " (such a character always opens a level)',
               'join is instantiated for ItemContainerT = vector<string>, DelimiterT = char; strip_* for StrT = std::string']
DROPS = ('returned std::string / vector<string> -> out-parameters (vout: size + one ghost byte; vvec: count + one ghost slice; vargs: operation log); '
         'const std::string& -> const vstr*; range-for -> index loop; std::string::npos -> C8_NPOS; vector<char> paren_stack -> (depth, innermost closer) with '
         'an unconstrained closer after pop; s = s.substr(..) -> pointer shift of the view; exceptions -> verif_exc flag; ghost statements assign only g_* variables')
NOT_DECIDED = ['string_vprintf: what text printf produces for a format (libc) -- the contract only says the result is *the* text vsnprintf/vasprintf produce, of any length (abstract text model); '
               'string_printf / wstring_printf / wstring_vprintf (variadic wrappers, wide characters) are not under contract',
               'split(const wstring&, wchar_t, size_t) is under the same contract as the string overload, over the same string model (wchar_t elements are represented by the '
               'element type of the model: the text only compares elements with the delimiter); join for wstring items is not instantiated',
               'the numeric equation count == min(#delimiters, max_splits) + 1 is decided through the tiling facts (every separator is a delimiter, no '
               'delimiter inside an uncapped piece, count - 1 <= max_splits); the final counting induction over pieces is a meta-argument, as is the '
               'induction principle that turns the base/step lemmas into join(split(s)) == s',
               'join for containers / delimiter types other than vector<string> / char',
               'ISO-C undefined behaviour of ::toupper(ch) / ::tolower(ch) for bytes >= 0x80 (negative plain char): assumed glibc table semantics',
               'strip_* for StrT other than std::string; split_context nesting content below the innermost level (abstracted, over-approximated)']
CLAIMED = True
MANIFEST = dict(
    category='proof',
    text=('split, split_context, split_args, join (both templates), strip_trailing_zeroes/whitespace, strip_leading_whitespace, strip_whitespace, '
          'strip_multiline_comments, starts_with, ends_with, toupper, tolower, str_replace_all (non-empty target), skip_whitespace / skip_non_whitespace / '
          'skip_word (std::string and C-string overloads): the loop logic extracted from the source is proved against contracts that are the plain '
          'reference definitions, for strings of every length, all delimiters, all max_splits (loop contracts + ghost indices; lock-step reference '
          'automata for split_context / split_args / strip_multiline_comments); join(split(s,d),d) == s and join(split_context(s,d),d) == s as '
          'base/step lemmas over the contracts. Two defects found and reproduced natively: join(items, delim) drops the delimiter after empty leading '
          'items (join(split(",")) == ""), split_args drops NUL bytes.'),
    note=('Trusted: cbmc/goto-instrument, the answering SAT solver, the extractor and its rules, the std::string / vector / libc stub models of '
          'stubs/C08_str.h (allocation succeeds is assumed there), the specification macros. Not decided: string_vprintf, wstring split, the final counting / '
          'induction meta-arguments, other template instantiations. "C" locale assumed for case mapping and isblank.'),
    technique='function + loop contracts (requires/ensures/assigns, loop_invariant/decreases) enforced with goto-instrument --dfcc, ghost-index universals, '
              'lock-step reference automata, lemmas over contracts; discharged by cbmc (SAT portfolio)',
)
