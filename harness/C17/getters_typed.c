/* C17: the typed single-value getters get<RetT>(id, format), get<RetT>(id, default, format), get<float|double>(id, optional)
 * for IdentT = option name / positional index (-DC17_IDENT_NAMED), case split present / absent (-DC17_CASE_PRESENT).
 * Callees get<std::string>, get<RetT>(id, format), parse_int / parse_float are replaced by their contracts. */
#define GETTER_TYPED 1
#include "contracts/C17_getters.h"
#include "x_mask_for_type.h"
#define C17_IS_UNSIGNED(T) (((T)-1) > 0)
#if C17_FLOAT
#include "x_parse_float.inc"
#else
#include "x_parse_int.inc"
#endif
#include "x_getters_str.c"
#include "x_getters_typed.inc"

int verif_exc, verif_errno, g_base; unsigned g_ncalls;
size_t g_endoff, g_vk; bool g_neg, g_ovf; uint64_t g_mag; double g_fval; char g_stopch;
size_t g_size, g_ck, g_nev, g_npos, g_nev0, g_npos0, g_ek;
bool g_ev_written; int g_ev_kind; const vstr* g_ev_src; size_t g_ev_koff, g_ev_klen, g_ev_toff, g_ev_tlen, g_ev_index; bool g_ev_used;
size_t g_nmap, g_ni, g_nj, g_nsz, g_pk; bool g_nused;
int g_wit_kind; size_t g_wit_i, g_wit_j; bool g_wit_used;
bool g_present, g_pkused, g_njused; ArgVec* g_vals;
vstr C17_empty_string; char C17_empty_chars[1]; ArgVec C17_empty_vec;   /* Arguments::empty_string: a valid empty std::string */

#define PRELUDE \
  Arguments* self; ArgVec* vals; IdentT in_id; \
  bool in_present, in_pkused, in_njused; size_t in_pk, in_nj; \
  size_t in_endoff, in_size; bool in_neg, in_ovf; uint64_t in_mag; char in_stopch; int in_errno; double in_fval; \
  g_present = in_present; g_pkused = in_pkused; g_njused = in_njused; g_pk = in_pk; g_nj = in_nj; g_vals = vals; \
  g_endoff = in_endoff; g_size = in_size; g_neg = in_neg; g_ovf = in_ovf; g_mag = in_mag; g_stopch = in_stopch; g_fval = in_fval; \
  verif_errno = in_errno; g_ncalls = 0; g_base = -1; \
  C17_empty_vec.size = 0; C17_empty_vec.data = 0; \
  C17_empty_chars[0] = 0; C17_empty_string.data = C17_empty_chars; C17_empty_string.size = 0; C17_empty_string.cap = 1; \
  verif_exc = EXC_none;

#if !C17_FLOAT
void h_get_int(void) { PRELUDE; int in_format; GI_NAME(self, in_id, in_format); VERIF_REACH(); }
void h_get_int_default(void) { PRELUDE; int in_format; RetT in_default; GID_NAME(self, in_id, in_default, in_format); VERIF_REACH(); }
#else
void h_get_float(void) { PRELUDE; bool in_has_default; RetT in_defval; C17_OPT dflt; dflt.has_value = in_has_default; dflt.value = in_defval; GF_NAME(self, in_id, dflt); VERIF_REACH(); }
#endif
