/* C11 specification macro: ROT13 -- every ASCII letter is replaced by the letter 13 places further along its own
 * (upper / lower case) 26-letter alphabet, wrapping around; every other octet is unchanged. */
#ifndef SPEC_C11_ROT13_H
#define SPEC_C11_ROT13_H
#define IS_UPPER(c) ((c) >= 'A' && (c) <= 'Z')
#define IS_LOWER(c) ((c) >= 'a' && (c) <= 'z')
#define IS_LETTER(c) (IS_UPPER(c) || IS_LOWER(c))
#define ROT13_SPEC(c) ((char)( IS_LOWER(c) ? 'a' + (((c) - 'a' + 13) % 26) : IS_UPPER(c) ? 'A' + (((c) - 'A' + 13) % 26) : (c) ))
#endif
