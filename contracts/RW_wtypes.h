#ifndef RW_WTYPES_H
#define RW_WTYPES_H
#include "contracts/RW_types.h"
#include "stubs/vstr.h"
#include "stubs/libc.h"
typedef struct { vstr data; } StringWriter;
typedef struct { vstr data; uint8_t last_byte_unset_bits; } BitWriter;
extern size_t g_bit;     /* ghost bit index */
extern size_t g_oldbits; extern unsigned g_bitval;   /* ghost: bit count / value of bit g_bit on entry */
extern uint8_t g_vval;   /* ghost: value of byte g_vk of the target buffer on entry (frame clauses) */
extern size_t g_wsize, g_wcap;   /* ghosts naming the writer state on entry (counterexample readability only) */

/* std::string::resize(n, c) as used by the growable writers: grows (zero/`c` filled) or throws length_error when the
 * request exceeds what can be allocated (capacity in this model); shrinks otherwise. */
void vstr_resize_x(vstr* s, size_t n, char c)
__CPROVER_requires(verif_exc == 0)
__CPROVER_ensures(n > s->cap ? (verif_exc == EXC_length_error && s->size == __CPROVER_old(s->size)) : (verif_exc == 0 && s->size == n))
__CPROVER_ensures((verif_exc == 0 && g_vk >= __CPROVER_old(s->size) && g_vk < n) ==> s->data[g_vk] == c)
__CPROVER_assigns(verif_exc, s->size; (n > s->size && n <= s->cap): __CPROVER_object_from(s->data + s->size));   /* frame: bytes below the old size untouched */

/* bit i of a byte array, MSB first */
#define BITAT(p, i) ((((const uint8_t*)(p))[(i) >> 3] >> (7 - ((i) & 7))) & 1)
#endif
