/* C19: expect_raises_fn<ExcT>, one textual instantiation per group (-DER_NAME=expect_raises_fn__<E> -DEXC_ExcT=EXC_<E>;
 * -DER_SPECIALISATION selects the explicit specialisation for std::exception cut from src/UnitTest.cc).
 * expect_generic is replaced by its contract (proved in group UnitTest.expect_generic). */
#include "x_unittest_base.h"
#include "contracts/C19_unittest.h"
#include "x_expect_generic.c"
#include "x_macros.h"      /* the expect_* macros, verbatim: the helper may be written in terms of them */
#ifdef ER_SPECIALISATION
#include "x_expect_raises_exception.inc"
#else
#include "x_expect_raises.inc"
#endif

int verif_exc;
const char* g_exc_msg; const char* g_exc_file; uint64_t g_exc_line;
const char* g_what_msg; const char* g_what_file; uint64_t g_what_line;

void h_expect_raises(void) {
  verif_function in_fn;                   /* behaviour of the callback: 0 returns | k throws kind k */
  uint64_t in_line;
  const char* file;
  const char *m0, *f0, *wm0, *wf0; uint64_t in_old_line, in_old_what_line;
  g_exc_msg = m0; g_exc_file = f0; g_exc_line = in_old_line;
  g_what_msg = wm0; g_what_file = wf0; g_what_line = in_old_what_line;
  verif_exc = EXC_none;
  ER_NAME(file, in_line, in_fn);
  VERIF_REACH();
}

/* Lemma: the subtype table (trusted, contracts/C19_exc.h + base class read from UnitTest.hh) is a partial order of
 * depth <= 3 with std::exception on top, so the three-level closure in VERIF_SUBTYPE is complete. */
void l_hierarchy(void) {
  int in_t, in_u, in_v;             /* any kinds (also values outside the enum: they have no parent) */
  __CPROVER_assert(VERIF_PARENT(VERIF_PARENT(VERIF_PARENT(VERIF_PARENT(in_t)))) == EXC_none, "inheritance depth <= 3");
  __CPROVER_assert(in_t == EXC_none || VERIF_SUBTYPE(in_t, in_t), "subtype is reflexive");
  __CPROVER_assert(!(VERIF_SUBTYPE(in_t, in_u) && VERIF_SUBTYPE(in_u, in_v)) || VERIF_SUBTYPE(in_t, in_v), "subtype is transitive");
  __CPROVER_assert(!(VERIF_SUBTYPE(in_t, in_u) && VERIF_SUBTYPE(in_u, in_t)) || in_t == in_u, "subtype is antisymmetric");
  __CPROVER_assert(!VERIF_KIND_IN_HIERARCHY(in_t) || VERIF_SUBTYPE(in_t, EXC_exception), "every class of the hierarchy derives from std::exception");
  __CPROVER_assert(!VERIF_SUBTYPE(EXC_non_std, in_u) || in_u == EXC_non_std, "a non-std object matches no class handler");
  __CPROVER_assert(!VERIF_SUBTYPE(in_t, EXC_non_std) || in_t == EXC_non_std, "no class derives from the non-std kind");
  __CPROVER_assert(VERIF_SUBTYPE(EXC_expectation_failed, VERIF_BASE_expectation_failed), "expectation_failed <: its declared base");
  VERIF_REACH();
}
