/* C14 side-car contracts: the exact-size family and the single-call readers of src/Filesystem.cc.
 * Specification source: the property statement -- "the exact-size readx/preadx/freadx families return exactly the bytes
 * the source delivers ... or throw; they never silently return a truncated or padded result".
 * The source / sink are the ghost stream of stubs/C14_io.h; std::string results are vstr out-parameters. */
#ifndef C14_IO_CONTRACTS_H
#define C14_IO_CONTRACTS_H
#include "stubs/vstr.h"
#include "stubs/C14_io.h"

#define C14_MAXLEN VSTR_MAXCAP          /* 2^47-1: the cbmc object-size limit with the default object bits */
#ifdef C14_EXACT_SMALL
#define C14_EXACT_MAX 4
#else
#define C14_EXACT_MAX C14_MAXLEN
#endif
#define C14_ENTRY __CPROVER_requires(verif_exc == 0 && g_pos <= g_src_len && g_src_len <= C14_MAXLEN && g_wpos <= C14_MAXLEN)
#define C14_IOERR __CPROVER_ensures(verif_exc == 0 || verif_exc == EXC_io_error)
/* out-parameter string: empty, capacity = "allocation of need bytes succeeds" */
#define C14_RET(ret, need) __CPROVER_requires(__CPROVER_is_fresh(ret, sizeof(vstr))) \
  __CPROVER_requires((ret)->size == 0 && (ret)->cap <= VSTR_MAXCAP && (ret)->cap >= (need)) \
  __CPROVER_requires(__CPROVER_is_fresh((ret)->data, (ret)->cap))
#define C14_INSTR(s) __CPROVER_requires(__CPROVER_is_fresh(s, sizeof(vstr))) \
  __CPROVER_requires((s)->size <= (s)->cap && (s)->cap <= C14_MAXLEN) \
  __CPROVER_requires(__CPROVER_is_fresh((s)->data, (s)->cap))
#define C14_SRC_ASSIGNS verif_exc, g_pos, g_eof_seen, g_err_seen, g_chunk
#define C14_SINK_ASSIGNS verif_exc, g_wpos, g_wval, g_err_seen, g_chunk

/* ---- descriptor, exact size ------------------------------------------------------------------------------------------ */
void phosg_readx(int fd, void* data, size_t size)
C14_ENTRY
__CPROVER_requires(size <= C14_EXACT_MAX)
__CPROVER_requires(__CPROVER_is_fresh(data, size))
C14_IOERR
/* "exactly the bytes the source delivers, or throw": a read() that delivers everything at once succeeds; success means that all `size`
 * bytes were consumed from the stream (a short or failed delivery may only end in an exception or be completed by further reads) */
__CPROVER_ensures((g_chunk >= 0 && (size_t)g_chunk == size) ==> verif_exc == 0)
__CPROVER_ensures((g_chunk < 0 || (size != 0 && g_chunk == 0)) ==> verif_exc != 0)                 /* read() failed / end of file before `size` bytes */
__CPROVER_ensures(verif_exc == 0 ==> g_pos == __CPROVER_old(g_pos) + size)
__CPROVER_ensures((verif_exc == 0 && g_vk >= __CPROVER_old(g_pos) && g_vk < g_pos) ==> C14_U8(data)[g_vk - __CPROVER_old(g_pos)] == g_sval)
__CPROVER_assigns(C14_SRC_ASSIGNS; size != 0: __CPROVER_object_upto(data, size));

void phosg_readx_str(vstr* ret, int fd, size_t size)
C14_ENTRY C14_RET(ret, size)
C14_IOERR
__CPROVER_ensures((g_chunk >= 0 && (size_t)g_chunk == size) ==> verif_exc == 0)
__CPROVER_ensures((g_chunk < 0 || (size != 0 && g_chunk == 0)) ==> verif_exc != 0)
__CPROVER_ensures(verif_exc == 0 ==> (ret->size == size && g_pos == __CPROVER_old(g_pos) + size))
__CPROVER_ensures((verif_exc == 0 && g_vk >= __CPROVER_old(g_pos) && g_vk < g_pos) ==> (uint8_t)ret->data[g_vk - __CPROVER_old(g_pos)] == g_sval)
__CPROVER_assigns(C14_SRC_ASSIGNS, ret->size, __CPROVER_object_whole(ret->data));

void phosg_writex(int fd, const void* data, size_t size)
C14_ENTRY
__CPROVER_requires(size <= C14_MAXLEN)
__CPROVER_requires(__CPROVER_is_fresh(data, size))
C14_IOERR
__CPROVER_ensures((verif_exc == 0) == (g_chunk >= 0 && (size_t)g_chunk == size))
__CPROVER_ensures(verif_exc == 0 ==> g_wpos == __CPROVER_old(g_wpos) + size)
__CPROVER_ensures((verif_exc == 0 && g_vk >= __CPROVER_old(g_wpos) && g_vk < g_wpos) ==> g_wval == C14_U8(data)[g_vk - __CPROVER_old(g_wpos)])
__CPROVER_assigns(C14_SINK_ASSIGNS);

void phosg_writex_str(int fd, const vstr* data)
C14_ENTRY C14_INSTR(data)
C14_IOERR
__CPROVER_ensures((verif_exc == 0) == (g_chunk >= 0 && (size_t)g_chunk == data->size))
__CPROVER_ensures(verif_exc == 0 ==> g_wpos == __CPROVER_old(g_wpos) + data->size)
__CPROVER_ensures((verif_exc == 0 && g_vk >= __CPROVER_old(g_wpos) && g_vk < g_wpos) ==> g_wval == (uint8_t)data->data[g_vk - __CPROVER_old(g_wpos)])
__CPROVER_assigns(C14_SINK_ASSIGNS);

/* ---- descriptor, exact size at an offset ----------------------------------------------------------------------------------- */
void phosg_preadx(int fd, void* data, size_t size, off_t offset)
C14_ENTRY
__CPROVER_requires(size <= C14_EXACT_MAX)
__CPROVER_requires(__CPROVER_is_fresh(data, size))
C14_IOERR
/* (as for readx: complete delivery succeeds, failure / nothing delivered throws, success means the whole range is in place) */
__CPROVER_ensures((g_chunk >= 0 && (size_t)g_chunk == size) ==> verif_exc == 0)
__CPROVER_ensures((g_chunk < 0 || (size != 0 && g_chunk == 0)) ==> verif_exc != 0)
__CPROVER_ensures((verif_exc == 0 && size > 0) ==> (offset >= 0 && (size_t)offset + size <= g_src_len))      /* the whole range exists in the file */
__CPROVER_ensures((verif_exc == 0 && g_vk >= (size_t)offset && g_vk < (size_t)offset + size) ==> C14_U8(data)[g_vk - (size_t)offset] == g_sval)
__CPROVER_assigns(verif_exc, g_err_seen, g_chunk; size != 0: __CPROVER_object_upto(data, size));

void phosg_preadx_str(vstr* ret, int fd, size_t size, off_t offset)
C14_ENTRY C14_RET(ret, size)
C14_IOERR
__CPROVER_ensures((g_chunk >= 0 && (size_t)g_chunk == size) ==> verif_exc == 0)
__CPROVER_ensures((g_chunk < 0 || (size != 0 && g_chunk == 0)) ==> verif_exc != 0)
__CPROVER_ensures(verif_exc == 0 ==> ret->size == size)
__CPROVER_ensures((verif_exc == 0 && size > 0) ==> (offset >= 0 && (size_t)offset + size <= g_src_len))
__CPROVER_ensures((verif_exc == 0 && g_vk >= (size_t)offset && g_vk < (size_t)offset + size) ==> (uint8_t)ret->data[g_vk - (size_t)offset] == g_sval)
__CPROVER_assigns(verif_exc, g_err_seen, g_chunk, ret->size, __CPROVER_object_whole(ret->data));

void phosg_pwritex(int fd, const void* data, size_t size, off_t offset)
C14_ENTRY
__CPROVER_requires(size <= C14_MAXLEN)
__CPROVER_requires(__CPROVER_is_fresh(data, size))
C14_IOERR
__CPROVER_ensures((verif_exc == 0) == (g_chunk >= 0 && (size_t)g_chunk == size))
__CPROVER_ensures((verif_exc == 0 && size > 0 && g_vk >= (size_t)offset && g_vk < (size_t)offset + size) ==> g_wval == C14_U8(data)[g_vk - (size_t)offset])
__CPROVER_assigns(verif_exc, g_wval, g_err_seen, g_chunk);

void phosg_pwritex_str(int fd, const vstr* data, off_t offset)
C14_ENTRY C14_INSTR(data)
C14_IOERR
__CPROVER_ensures((verif_exc == 0) == (g_chunk >= 0 && (size_t)g_chunk == data->size))
__CPROVER_ensures((verif_exc == 0 && data->size > 0 && g_vk >= (size_t)offset && g_vk < (size_t)offset + data->size) ==> g_wval == (uint8_t)data->data[g_vk - (size_t)offset])
__CPROVER_assigns(verif_exc, g_wval, g_err_seen, g_chunk);

/* ---- FILE*, exact size ----------------------------------------------------------------------------------------------- */
void phosg_freadx(C14_FILE* f, void* data, size_t size)
C14_ENTRY
__CPROVER_requires(size <= C14_EXACT_MAX)
__CPROVER_requires(__CPROVER_is_fresh(data, size))
C14_IOERR
__CPROVER_ensures(((size_t)g_chunk == size) ==> verif_exc == 0)
__CPROVER_ensures((size != 0 && g_chunk == 0) ==> verif_exc != 0)
__CPROVER_ensures(verif_exc == 0 ==> g_pos == __CPROVER_old(g_pos) + size)
__CPROVER_ensures((verif_exc == 0 && g_vk >= __CPROVER_old(g_pos) && g_vk < g_pos) ==> C14_U8(data)[g_vk - __CPROVER_old(g_pos)] == g_sval)
__CPROVER_assigns(C14_SRC_ASSIGNS; size != 0: __CPROVER_object_upto(data, size));

void phosg_freadx_str(vstr* ret, C14_FILE* f, size_t size)
C14_ENTRY C14_RET(ret, size)
C14_IOERR
__CPROVER_ensures(((size_t)g_chunk == size) ==> verif_exc == 0)
__CPROVER_ensures((size != 0 && g_chunk == 0) ==> verif_exc != 0)
__CPROVER_ensures(verif_exc == 0 ==> (ret->size == size && g_pos == __CPROVER_old(g_pos) + size))
__CPROVER_ensures((verif_exc == 0 && g_vk >= __CPROVER_old(g_pos) && g_vk < g_pos) ==> (uint8_t)ret->data[g_vk - __CPROVER_old(g_pos)] == g_sval)
__CPROVER_assigns(C14_SRC_ASSIGNS, ret->size, __CPROVER_object_whole(ret->data));

void phosg_fwritex(C14_FILE* f, const void* data, size_t size)
C14_ENTRY
__CPROVER_requires(size <= C14_MAXLEN)
__CPROVER_requires(__CPROVER_is_fresh(data, size))
C14_IOERR
__CPROVER_ensures((verif_exc == 0) == ((size_t)g_chunk == size))
__CPROVER_ensures(verif_exc == 0 ==> g_wpos == __CPROVER_old(g_wpos) + size)
__CPROVER_ensures((verif_exc == 0 && g_vk >= __CPROVER_old(g_wpos) && g_vk < g_wpos) ==> g_wval == C14_U8(data)[g_vk - __CPROVER_old(g_wpos)])
__CPROVER_assigns(C14_SINK_ASSIGNS);

void phosg_fwritex_str(C14_FILE* f, const vstr* data)
C14_ENTRY C14_INSTR(data)
C14_IOERR
__CPROVER_ensures((verif_exc == 0) == ((size_t)g_chunk == data->size))
__CPROVER_ensures(verif_exc == 0 ==> g_wpos == __CPROVER_old(g_wpos) + data->size)
__CPROVER_ensures((verif_exc == 0 && g_vk >= __CPROVER_old(g_wpos) && g_vk < g_wpos) ==> g_wval == (uint8_t)data->data[g_vk - __CPROVER_old(g_wpos)])
__CPROVER_assigns(C14_SINK_ASSIGNS);

/* one byte or throw: never a made-up byte at end-of-file */
uint8_t phosg_fgetcx(C14_FILE* f)
C14_ENTRY
C14_IOERR
__CPROVER_ensures(verif_exc == 0 ==> (__CPROVER_old(g_pos) < g_src_len && g_pos == __CPROVER_old(g_pos) + 1))
__CPROVER_ensures((verif_exc == 0 && g_vk == __CPROVER_old(g_pos)) ==> __CPROVER_return_value == g_sval)
__CPROVER_ensures(verif_exc != 0 ==> (g_pos == __CPROVER_old(g_pos) && (g_eof_seen || g_err_seen)))
__CPROVER_assigns(C14_SRC_ASSIGNS);

/* ---- single-call readers (short results are part of their interface): exactly the k delivered bytes, never padded --------- */
void phosg_read_str(vstr* data, int fd, size_t size)
C14_ENTRY C14_RET(data, size)
C14_IOERR
__CPROVER_ensures((verif_exc == 0) == (g_chunk >= 0))
__CPROVER_ensures(verif_exc == 0 ==> (data->size == (size_t)g_chunk && g_pos == __CPROVER_old(g_pos) + data->size))
__CPROVER_ensures((verif_exc == 0 && data->size < size && size > 0 && data->size == 0) ==> g_eof_seen)
__CPROVER_ensures((verif_exc == 0 && g_vk >= __CPROVER_old(g_pos) && g_vk < g_pos) ==> (uint8_t)data->data[g_vk - __CPROVER_old(g_pos)] == g_sval)
__CPROVER_assigns(C14_SRC_ASSIGNS, data->size, __CPROVER_object_whole(data->data));

void phosg_fread_str(vstr* data, C14_FILE* f, size_t size)
C14_ENTRY C14_RET(data, size)
C14_IOERR
__CPROVER_ensures(verif_exc == 0 ==> (data->size == (size_t)g_chunk && g_pos == __CPROVER_old(g_pos) + data->size))
__CPROVER_ensures((verif_exc == 0 && data->size < size) ==> (g_eof_seen || g_err_seen))
__CPROVER_ensures((verif_exc == 0 && g_vk >= __CPROVER_old(g_pos) && g_vk < g_pos) ==> (uint8_t)data->data[g_vk - __CPROVER_old(g_pos)] == g_sval)
__CPROVER_assigns(C14_SRC_ASSIGNS, data->size, __CPROVER_object_whole(data->data));

#include <fcntl.h>
#define C14_OPENED_TO_REPLACE(fl) ((((fl) & O_ACCMODE) == O_WRONLY || ((fl) & O_ACCMODE) == O_RDWR) && ((fl) & O_CREAT) != 0 && ((fl) & O_TRUNC) != 0 && ((fl) & O_APPEND) == 0)
/* ---- whole files: one read / one write of the full size, or an exception (never a truncated result) ----------------- */
void phosg_load_file(vstr* data, const vstr* filename)
C14_ENTRY C14_RET(data, (size_t)g_stat_size)
__CPROVER_requires(g_stat_size >= 0 && (size_t)g_stat_size <= C14_MAXLEN)
__CPROVER_ensures(verif_exc == 0 || verif_exc == EXC_cannot_open_file || verif_exc == EXC_runtime_error)
__CPROVER_ensures(verif_exc == 0 ==> (data->size == (size_t)g_stat_size && g_chunk == g_stat_size && g_pos == __CPROVER_old(g_pos) + data->size))
/* the file is opened for reading and left as it is (POSIX open(2): O_TRUNC / O_APPEND / write-only would not do) */
__CPROVER_ensures(verif_exc == 0 ==> ((g_open_flags & O_ACCMODE) != O_WRONLY && (g_open_flags & (O_TRUNC | O_APPEND)) == 0))
__CPROVER_ensures((verif_exc == 0 && g_vk >= __CPROVER_old(g_pos) && g_vk < g_pos) ==> (uint8_t)data->data[g_vk - __CPROVER_old(g_pos)] == g_sval)
__CPROVER_assigns(C14_SRC_ASSIGNS, g_open_flags, data->size, __CPROVER_object_whole(data->data));

void phosg_save_file(const vstr* filename, const void* data, size_t size)
C14_ENTRY
__CPROVER_requires(size <= C14_MAXLEN)
__CPROVER_requires(__CPROVER_is_fresh(data, size))
__CPROVER_ensures(verif_exc == 0 || verif_exc == EXC_cannot_open_file || verif_exc == EXC_runtime_error)
__CPROVER_ensures(verif_exc == 0 ==> (g_chunk >= 0 && (size_t)g_chunk == size && g_wpos == __CPROVER_old(g_wpos) + size))
__CPROVER_ensures((verif_exc == 0 && g_vk >= __CPROVER_old(g_wpos) && g_vk < g_wpos) ==> g_wval == C14_U8(data)[g_vk - __CPROVER_old(g_wpos)])
/* "load_file(save_file(d)) == d for every d", also when the path already holds a longer file: by POSIX open(2)/write(2) the
 * file consists of exactly the bytes written iff it was opened for writing, created if missing, TRUNCATED, and not in append mode */
__CPROVER_ensures(verif_exc == 0 ==> C14_OPENED_TO_REPLACE(g_open_flags))
__CPROVER_assigns(C14_SINK_ASSIGNS, g_open_flags);

void phosg_save_file_str(const vstr* filename, const vstr* data)
C14_ENTRY C14_INSTR(data)
__CPROVER_ensures(verif_exc == 0 || verif_exc == EXC_cannot_open_file || verif_exc == EXC_runtime_error)
__CPROVER_ensures(verif_exc == 0 ==> (g_chunk >= 0 && (size_t)g_chunk == data->size && g_wpos == __CPROVER_old(g_wpos) + data->size))
__CPROVER_ensures((verif_exc == 0 && g_vk >= __CPROVER_old(g_wpos) && g_vk < g_wpos) ==> g_wval == (uint8_t)data->data[g_vk - __CPROVER_old(g_wpos)])
__CPROVER_ensures(verif_exc == 0 ==> C14_OPENED_TO_REPLACE(g_open_flags))
__CPROVER_assigns(C14_SINK_ASSIGNS, g_open_flags);

#endif
