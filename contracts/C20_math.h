/* C20 side-car contracts for the templates of src/Math.hh, one instantiation per compilation:
 *   -DIntT=<type> -DUIntT=<unsigned type of the same width> -DW=<bits> -DSIGNED=0|1 -DSFX=<type name> -DGCD_FULL=0|1
 *   [-DGCD_PART=1|2] [-DRF_PART=1|2]   (GCD_FULL: with the divisibility clauses, decided at 8 bits only -- props/C20.py)
 * The function text is x_math.inc (extracted on every run, IntT left as a macro).
 *
 * Specification (property C20):
 *   log2i(v) = floor(log2 v) for every positive v of every integer width
 *             <=>  0 <= r < W  and  2^r <= v < 2^(r+1)  <=>  r < W and (v >> r) == 1
 *   gcd(a,b) divides both arguments and is divisible by every common divisor, gcd(a,0) = a (non-negative operands)
 *   reduce_fraction(a,b) = (p,q): same ratio (p*b == q*a, and a = p*g, b = q*g for the gcd g) and p,q coprime
 *
 * "for every divisor d" is a ghost value: g_d is fixed (arbitrary >= 1) before the call, the clauses are proved for it,
 * generalisation over g_d is the universal quantifier (DESIGN.md 3.4).  A universal fact is *used* at one point by
 * guarding a clause with an equation on the ghost (g_d == result): for every input there is a run with that g_d.
 */
#ifndef C20_MATH_H
#define C20_MATH_H
#include "contracts/verif.h"

#define CAT_(a, b) a##b
#define CAT(a, b) CAT_(a, b)
#define LOG2I_NAME CAT(log2i_, SFX)
#define GCD_NAME CAT(gcd_, SFX)
#define GCD_INST(T) CAT(gcd_, T)      /* gcd<T>(..) written explicitly in the source */
/* Other instantiations (gcd<T2>(..) written explicitly inside gcd<IntT>): the call is replaced by the CONTRACT of gcd at T2, i.e. the
 * width-independent clauses every instantiation is proved to satisfy (groups Math.gcd<T2>.partial): arguments converted to T2 as the
 * C++ call converts them, non-negative; result non-negative, gcd(a,0) = a, zero iff both zero, <= one of the arguments.  (The
 * divisibility clauses at the caller's ghost divisors are not part of it -- they are phrased at the caller's width -- so a delegation
 * is decided through these four clauses only; in the abstract-predicate groups the callee has no contract and the group is undecided.) */
#define GCD_OTHER(T) T CAT(gcd_, T)(T a, T b) \
  __CPROVER_requires(a >= 0 && b >= 0) \
  __CPROVER_ensures(__CPROVER_return_value >= 0 && (b == 0 ==> __CPROVER_return_value == a)) \
  __CPROVER_ensures((__CPROVER_return_value == 0) == (a == 0 && b == 0)) \
  __CPROVER_ensures(__CPROVER_return_value <= a || __CPROVER_return_value <= b) \
  __CPROVER_assigns();
#if !defined(GCD_ABS) || !GCD_ABS
#ifndef SFX_IS_uint8_t
GCD_OTHER(uint8_t)
#endif
#ifndef SFX_IS_int8_t
GCD_OTHER(int8_t)
#endif
#ifndef SFX_IS_uint16_t
GCD_OTHER(uint16_t)
#endif
#ifndef SFX_IS_int16_t
GCD_OTHER(int16_t)
#endif
#ifndef SFX_IS_uint32_t
GCD_OTHER(uint32_t)
#endif
#ifndef SFX_IS_int32_t
GCD_OTHER(int32_t)
#endif
#ifndef SFX_IS_uint64_t
GCD_OTHER(uint64_t)
#endif
#ifndef SFX_IS_int64_t
GCD_OTHER(int64_t)
#endif
#else
uint8_t gcd_uint8_t(uint8_t, uint8_t); int8_t gcd_int8_t(int8_t, int8_t); uint16_t gcd_uint16_t(uint16_t, uint16_t); int16_t gcd_int16_t(int16_t, int16_t);
uint32_t gcd_uint32_t(uint32_t, uint32_t); int32_t gcd_int32_t(int32_t, int32_t); uint64_t gcd_uint64_t(uint64_t, uint64_t); int64_t gcd_int64_t(int64_t, int64_t);
#endif
#define RF_NAME CAT(reduce_fraction_, SFX)

/* value of an IntT as a non-negative number of the wider type WT (only used on non-negative values); products of two
 * IntT values do not wrap in WT for W <= 32 */
#if W <= 16
#define WT uint32_t
#else
#define WT uint64_t
#endif
#define U64(x) ((WT)(UIntT)(x))
/* d divides x   (d >= 1) */
#define DIVS(d, x) ((U64(x) % U64(d)) == 0)
#if SIGNED
#define NONNEG(x) ((x) >= 0)
#else
#define NONNEG(x) 1
#endif

/* ---------------------------------------------------------------- log2i */
IntT LOG2I_NAME(IntT v)
__CPROVER_requires(v > 0)
__CPROVER_ensures(NONNEG(__CPROVER_return_value) && U64(__CPROVER_return_value) < W)
__CPROVER_ensures((U64(v) >> (U64(__CPROVER_return_value) & 63)) == 1)
__CPROVER_assigns();

/* ---------------------------------------------------------------- gcd */
UIntT g_d, g_d2;    /* ghosts: two arbitrary candidate divisors, >= 1 (two, so that a caller can use the universal
                       clauses at two points at once: reduce_fraction needs d = g and d = e*g) */
IntT g_a0, g_b0;    /* ghost: entry values of a and b (the loop overwrites the parameters) */

/* The clauses about g_d and the clauses about g_d2 are independent conjuncts (same function, same precondition), so they
 * are discharged in two separate runs to keep each SAT instance small: -DGCD_PART=1 compiles only the g_d clauses (ensures
 * and loop invariant), -DGCD_PART=2 only the g_d2 clauses; without GCD_PART the contract is the conjunction of both, which
 * is what callers (reduce_fraction, the lemma) use with --replace-call-with-contract. */
#ifndef GCD_PART
#define GCD_PART 0
#endif
#define GCD_INV_DIV1(d) ((DIVS(d, g_a0) && DIVS(d, g_b0)) == (DIVS(d, a) && DIVS(d, b)))
#if GCD_FULL && GCD_PART == 1
#define GCD_INV_DIV GCD_INV_DIV1(g_d)
#elif GCD_FULL && GCD_PART == 2
#define GCD_INV_DIV GCD_INV_DIV1(g_d2)
#elif GCD_FULL
#define GCD_INV_DIV (GCD_INV_DIV1(g_d) && GCD_INV_DIV1(g_d2))
#else
#define GCD_INV_DIV 1
#endif
/* loop contract, injected by the extractor at the while loop of gcd (props/C20.py):
 *   common divisors of (a,b) are exactly the common divisors of the arguments; (a,b) == (0,0) iff the arguments are;
 *   a is 0 or at most the larger argument; variant b */
#define GCD_INV_LIN (NONNEG(a) && NONNEG(b) && ((a == 0 && b == 0) == (g_a0 == 0 && g_b0 == 0)) && \
                     (a <= g_a0 || a <= g_b0) && (b <= g_a0 || b <= g_b0))

/* the three divisibility clauses for one ghost divisor d:
 *   every common divisor of the arguments divides the result; every divisor of the result is a common divisor;
 *   the result divides both arguments (the previous clause used at d = result) */
#define GCD_POST_DIV(d, r) \
  (((DIVS(d, a) && DIVS(d, b)) ==> DIVS(d, r)) && \
   (DIVS(d, r) ==> (DIVS(d, a) && DIVS(d, b))) && \
   (((r) != 0 && (d) == (UIntT)(r)) ==> (DIVS(d, a) && DIVS(d, b))))

/* ---- width-independent proof of the divisibility clauses (16/32/64-bit instantiations), -DGCD_ABS -------------------
 * No back end decides the non-linear induction step  d|a && d|b <=> d|b && d|(a mod b)  beyond 8 bits (measured), so for
 * the wide instantiations "g_d divides x" is an ABSTRACT predicate D(x): its value for the current a, b and the remainder
 * is carried by ghost booleans that move with the real assignments (ghost statements injected next to them by the
 * extractor).  ASSUMED (number theory, listed in the evidence): D(0) holds; the Euclid step lemma for the remainder that
 * the code has just computed.  PROVED for the code as written: D(result) <=> D(a) && D(b)  -- i.e. that the code really
 * iterates remainders of the right operands, swaps them correctly, stops at b == 0, returns the right variable, and has
 * no width-specific path that leaves this scheme.  The same text is proved without any assumption at 8 bits. */
#if defined(GCD_ABS) && GCD_ABS
_Bool g_Da, g_Db, g_Da0, g_Db0, g_Dm, g_Dres; IntT g_mval;
_Bool nondet_gcd_bool(void);
#define GCD_ABS_D(v) (*(&(v) == &a ? &g_Da : &(v) == &b ? &g_Db : &g_Dm))       /* the ghost that belongs to variable v */
#define GCD_ABS_ENTRY g_Da0 = g_Da; g_Db0 = g_Db
#define GCD_ABS_REM(m, x, y) g_Dm = nondet_gcd_bool() ? 1 : 0; g_mval = (m); \
  __CPROVER_assume(&(x) == &a && &(y) == &b ? ((g_Da && g_Db) == (g_Db && g_Dm)) : 1);   /* Euclid step lemma, only for a % b */ \
  __CPROVER_assume((m) == 0 ==> g_Dm)                                                     /* D(0) */
#define GCD_ABS_MOVE(dst, src) GCD_ABS_D(dst) = GCD_ABS_D(src)
#define GCD_ABS_RET(v) g_Dres = GCD_ABS_D(v)
#define GCD_ABS_LOOP_ASSIGNS , g_Da, g_Db, g_Dm, g_mval
#define GCD_ABS_INV ((g_Da0 && g_Db0) == (g_Da && g_Db)) && (b == 0 ==> g_Db) && (a == 0 ==> g_Da)
#else
#define GCD_ABS_ENTRY
#define GCD_ABS_REM(m, x, y)
#define GCD_ABS_MOVE(dst, src)
#define GCD_ABS_RET(v)
#define GCD_ABS_LOOP_ASSIGNS
#define GCD_ABS_INV 1
#endif

IntT GCD_NAME(IntT a, IntT b)
#if defined(GCD_ABS) && GCD_ABS
__CPROVER_requires((a == 0 ==> g_Da) && (b == 0 ==> g_Db))                      /* D(0) for the arguments */
__CPROVER_ensures((g_Dres != 0) == (g_Da0 && g_Db0))                                    /* D(result) <=> D(a) && D(b) */
#endif
__CPROVER_requires(NONNEG(a) && NONNEG(b) && g_d >= 1 && g_d2 >= 1)
#if GCD_FULL && GCD_PART != 2
__CPROVER_ensures(GCD_POST_DIV(g_d, __CPROVER_return_value))
#endif
#if GCD_FULL && GCD_PART != 1
__CPROVER_ensures(GCD_POST_DIV(g_d2, __CPROVER_return_value))
#endif
__CPROVER_ensures(b == 0 ==> __CPROVER_return_value == a)
__CPROVER_ensures(NONNEG(__CPROVER_return_value))
__CPROVER_ensures((__CPROVER_return_value == 0) == (a == 0 && b == 0))
__CPROVER_ensures(__CPROVER_return_value <= a || __CPROVER_return_value <= b)
#if defined(GCD_ABS) && GCD_ABS
__CPROVER_assigns(g_a0, g_b0, g_Da, g_Db, g_Da0, g_Db0, g_Dm, g_Dres, g_mval);
#else
__CPROVER_assigns(g_a0, g_b0);
#endif

/* ---------------------------------------------------------------- reduce_fraction */
typedef struct { IntT first; IntT second; } PairT;      /* std::pair<IntT, IntT> */
#define MAKE_PAIR(x, y) ((PairT){ (x), (y) })          /* std::make_pair + conversion to pair<IntT,IntT> */
IntT g_denom;       /* ghost witness: the value gcd returned inside reduce_fraction */
UIntT g_e;          /* ghost: an arbitrary candidate common divisor of the two returned terms, >= 1 */

/* -DRF_PART=1: only the same-ratio clauses, -DRF_PART=2: only the coprime clause (independent conjuncts, two runs) */
#ifndef RF_PART
#define RF_PART 0
#endif
PairT RF_NAME(IntT a, IntT b)
__CPROVER_requires(NONNEG(a) && NONNEG(b) && (a != 0 || b != 0) && g_d >= 1 && g_d2 >= 1 && g_e >= 1)
#if RF_PART != 2
/* same ratio: a = p*g and b = q*g for one g >= 1, hence p*b == q*a  (used at d = g) */
__CPROVER_ensures(g_d == (UIntT)g_denom ==>
                  (g_denom >= 1 && U64(__CPROVER_return_value.first) * U64(g_denom) == U64(a) &&
                   U64(__CPROVER_return_value.second) * U64(g_denom) == U64(b)))
__CPROVER_ensures(g_d == (UIntT)g_denom ==>
                  U64(__CPROVER_return_value.first) * U64(b) == U64(__CPROVER_return_value.second) * U64(a))
#endif
#if RF_PART != 1
/* coprime: a common divisor e of both terms is 1  (gcd contract used at d = g and d2 = e*g) */
__CPROVER_ensures((g_d == (UIntT)g_denom && U64(g_d2) == U64(g_e) * U64(g_denom) && DIVS(g_e, __CPROVER_return_value.first) &&
                   DIVS(g_e, __CPROVER_return_value.second)) ==> g_e == 1)
#endif
__CPROVER_ensures(NONNEG(__CPROVER_return_value.first) && NONNEG(__CPROVER_return_value.second))
__CPROVER_assigns(g_a0, g_b0, g_denom);

#endif
