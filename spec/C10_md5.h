/* C10 specification of the MD5 block operation, written from RFC 1321 section 3.3/3.4.
 *
 *   A = 0x67452301, B = 0xefcdab89, C = 0x98badcfe, D = 0x10325476   ("word A: 01 23 45 67" low-order byte first)
 *   F(X,Y,Z) = XY v not(X) Z      G(X,Y,Z) = XZ v Y not(Z)      H(X,Y,Z) = X xor Y xor Z      I(X,Y,Z) = Y xor (X v not(Z))
 *   T[i] = integer part of 4294967296 * abs(sin(i)), i in radians, i = 1..64
 *   X[k] = k-th 32-bit word of the block, low-order byte first
 *   [abcd k s i]:  a = b + ((a + f(b,c,d) + X[k] + T[i]) <<< s)
 *   the 64 operations are listed in the RFC as [ABCD k s i] [DABC k s i] [CDAB k s i] [BCDA k s i] repeated; the lists of
 *   k and s below are copied from those operation lists; then A += AA, B += BB, C += CC, D += DD.
 * Operation number t = i - 1 (0..63): round t >> 4, register pattern t & 3. */
#ifndef C10_MD5_SPEC_H
#define C10_MD5_SPEC_H
#include <stdint.h>

#define C10_MD5_A0 0x67452301u
#define C10_MD5_B0 0xefcdab89u
#define C10_MD5_C0 0x98badcfeu
#define C10_MD5_D0 0x10325476u

#define C10_MD5_F(X, Y, Z) ((((uint32_t)(X)) & ((uint32_t)(Y))) | ((~(uint32_t)(X)) & ((uint32_t)(Z))))
#define C10_MD5_G(X, Y, Z) ((((uint32_t)(X)) & ((uint32_t)(Z))) | (((uint32_t)(Y)) & (~(uint32_t)(Z))))
#define C10_MD5_H(X, Y, Z) (((uint32_t)(X)) ^ ((uint32_t)(Y)) ^ ((uint32_t)(Z)))
#define C10_MD5_I(X, Y, Z) (((uint32_t)(Y)) ^ (((uint32_t)(X)) | (~(uint32_t)(Z))))
/* auxiliary function of round r = 0..3 */
#define C10_MD5_AUX(r, X, Y, Z) \
  ((r) == 0 ? C10_MD5_F(X, Y, Z) : (r) == 1 ? C10_MD5_G(X, Y, Z) : (r) == 2 ? C10_MD5_H(X, Y, Z) : C10_MD5_I(X, Y, Z))

#define C10_ROTL32(x, n) ((uint32_t)((((uint32_t)(x)) << (n)) | (((uint32_t)(x)) >> (32 - (n)))))

/* value assigned to the first register of [abcd k s i]; aux = f(b,c,d), xk = X[k], ti = T[i] */
#define C10_MD5_OP(a, b, aux, xk, s, ti) \
  ((uint32_t)(((uint32_t)(b)) + C10_ROTL32((uint32_t)(((uint32_t)(a)) + ((uint32_t)(aux)) + ((uint32_t)(xk)) + ((uint32_t)(ti))), (s))))

/* T[1..64] (index t = i - 1): floor(2^32 * |sin(i)|); recomputed from that formula by tools/C10_validate_spec.sh */
static const uint32_t C10_MD5_T[64] = {
  0xd76aa478u, 0xe8c7b756u, 0x242070dbu, 0xc1bdceeeu, 0xf57c0fafu, 0x4787c62au, 0xa8304613u, 0xfd469501u,
  0x698098d8u, 0x8b44f7afu, 0xffff5bb1u, 0x895cd7beu, 0x6b901122u, 0xfd987193u, 0xa679438eu, 0x49b40821u,
  0xf61e2562u, 0xc040b340u, 0x265e5a51u, 0xe9b6c7aau, 0xd62f105du, 0x02441453u, 0xd8a1e681u, 0xe7d3fbc8u,
  0x21e1cde6u, 0xc33707d6u, 0xf4d50d87u, 0x455a14edu, 0xa9e3e905u, 0xfcefa3f8u, 0x676f02d9u, 0x8d2a4c8au,
  0xfffa3942u, 0x8771f681u, 0x6d9d6122u, 0xfde5380cu, 0xa4beea44u, 0x4bdecfa9u, 0xf6bb4b60u, 0xbebfbc70u,
  0x289b7ec6u, 0xeaa127fau, 0xd4ef3085u, 0x04881d05u, 0xd9d4d039u, 0xe6db99e5u, 0x1fa27cf8u, 0xc4ac5665u,
  0xf4292244u, 0x432aff97u, 0xab9423a7u, 0xfc93a039u, 0x655b59c3u, 0x8f0ccc92u, 0xffeff47du, 0x85845dd1u,
  0x6fa87e4fu, 0xfe2ce6e0u, 0xa3014314u, 0x4e0811a1u, 0xf7537e82u, 0xbd3af235u, 0x2ad7d2bbu, 0xeb86d391u,
};
/* k of operation t, copied from the four operation lists of RFC 1321 section 3.4 */
static const uint8_t C10_MD5_K[64] = {
  0, 1, 2, 3, 4, 5, 6, 7, 8, 9, 10, 11, 12, 13, 14, 15,
  1, 6, 11, 0, 5, 10, 15, 4, 9, 14, 3, 8, 13, 2, 7, 12,
  5, 8, 11, 14, 1, 4, 7, 10, 13, 0, 3, 6, 9, 12, 15, 2,
  0, 7, 14, 5, 12, 3, 10, 1, 8, 15, 6, 13, 4, 11, 2, 9,
};
/* s of operation t, copied from the same lists */
static const uint8_t C10_MD5_S[64] = {
  7, 12, 17, 22, 7, 12, 17, 22, 7, 12, 17, 22, 7, 12, 17, 22,
  5, 9, 14, 20, 5, 9, 14, 20, 5, 9, 14, 20, 5, 9, 14, 20,
  4, 11, 16, 23, 4, 11, 16, 23, 4, 11, 16, 23, 4, 11, 16, 23,
  6, 10, 15, 21, 6, 10, 15, 21, 6, 10, 15, 21, 6, 10, 15, 21,
};

/* X[k]: word k of the 64-byte block p, low-order byte first */
#define C10_LE32_AT(p, k) \
  ((uint32_t)(((uint32_t)((const uint8_t*)(p))[4 * (k)]) | (((uint32_t)((const uint8_t*)(p))[4 * (k) + 1]) << 8) | \
              (((uint32_t)((const uint8_t*)(p))[4 * (k) + 2]) << 16) | (((uint32_t)((const uint8_t*)(p))[4 * (k) + 3]) << 24)))

/* One operation t on the registers A,B,C,D (lvalues); xk, s, ti are X[K[t]], S[t], T[t+1] bound by the caller.
 * Patterns [ABCD] [DABC] [CDAB] [BCDA] for t & 3 = 0,1,2,3.  Comma expression (no statement, no loop). */
#define C10_MD5_STEP(t, A, B, C, D, xk, s, ti)                                                        \
  ((((t) & 3) == 0)   ? ((A) = C10_MD5_OP(A, B, C10_MD5_AUX((t) >> 4, B, C, D), xk, s, ti))           \
   : (((t) & 3) == 1) ? ((D) = C10_MD5_OP(D, A, C10_MD5_AUX((t) >> 4, A, B, C), xk, s, ti))           \
   : (((t) & 3) == 2) ? ((C) = C10_MD5_OP(C, D, C10_MD5_AUX((t) >> 4, D, A, B), xk, s, ti))           \
                      : ((B) = C10_MD5_OP(B, C, C10_MD5_AUX((t) >> 4, C, D, A), xk, s, ti)))

/* digest: "begin with the low-order byte of A, and end with the high-order byte of D": byte j (0..15) */
#define C10_MD5_DIGEST_BYTE(A, B, C, D, j) \
  ((uint8_t)((((j) >> 2) == 0 ? (uint32_t)(A) : ((j) >> 2) == 1 ? (uint32_t)(B) : ((j) >> 2) == 2 ? (uint32_t)(C) : (uint32_t)(D)) >> (8 * ((j) & 3))))

#endif
