/* C11: base64_encode / base64_decode / rot13 (extracted text: build/C11/x_encoding.c, alphabets: x_b64_alphabets.h) */
#include <stdlib.h>
#include "x_b64_alphabets.h"
#include "contracts/C11_encoding.h"
int verif_exc; size_t g_vk;
int g_url; size_t g_blk, g_len; uint8_t g_b0, g_b1, g_b2, g_c0, g_c1, g_c2, g_c3, g_l2, g_l3, g_s0, g_s1, g_s2, g_s3; size_t g_wit, g_k, g_q, g_i; char g_ch, g_e0, g_e1, g_e2, g_e3;
#include "x_encoding.c"

/* which alphabet argument: 0 = nullptr (the default argument), 1 = DEFAULT_ALPHABET, 2 = URLSAFE_ALPHABET */
#if ALPHA == 0
#define ALPHA_PTR ((const char*)0)
#define URL 0
#elif ALPHA == 1
#define ALPHA_PTR DEFAULT_ALPHABET
#define URL 0
#elif ALPHA == 2
#define ALPHA_PTR URLSAFE_ALPHABET
#define URL 1
#else      /* symbolic choice among the three */
#define ALPHA_PTR (in_alpha == 0 ? (const char*)0 : in_alpha == 1 ? DEFAULT_ALPHABET : URLSAFE_ALPHABET)
#define URL (in_alpha >= 2)
#endif

/* ---- loop bodies / tail branches against their loop-free contracts ---- */
#define H_ENC_PIECE(name) void h_##name(void) { \
  vstr* ret; const C11_ENC_T* data; size_t in_off, in_len, in_rsize; uint8_t in_s0, in_s1, in_s2; unsigned in_alpha; \
  g_len = in_len; g_s0 = in_s0; g_s1 = in_s1; g_s2 = in_s2; g_url = URL; \
  const char* alpha = ALPHA_PTR; \
  name(ret, data, in_off, alpha ? alpha : DEFAULT_ALPHABET); \
  VERIF_REACH(); }
H_ENC_PIECE(base64_encode_block) H_ENC_PIECE(base64_encode_tail2) H_ENC_PIECE(base64_encode_tail1)

void h_base64_decode_block(void) {
  vstr* ret; const C11_DEC_T* data; const char* table; size_t in_off, in_end, in_len; uint8_t in_s0, in_s1, in_s2, in_s3; unsigned in_alpha;
  g_len = in_len; g_s0 = in_s0; g_s1 = in_s1; g_s2 = in_s2; g_s3 = in_s3; g_url = URL;
  base64_decode_block(ret, data, in_off, in_end, table);
  VERIF_REACH();
}

void h_base64_encode(void) {
  vstr* ret; const void* data; size_t in_size, in_blk; uint8_t in_b0, in_b1, in_b2; unsigned in_alpha; char in_e0, in_e1, in_e2, in_e3;
  g_blk = in_blk; g_b0 = in_b0; g_b1 = in_b1; g_b2 = in_b2; g_url = URL; g_e0 = in_e0; g_e1 = in_e1; g_e2 = in_e2; g_e3 = in_e3; g_len = in_size; g_q = in_size / 3;
  base64_encode(ret, data, in_size, ALPHA_PTR);
  VERIF_REACH();
}

void h_base64_decode(void) {
  vstr* ret; const void* data; size_t in_size, in_blk; uint8_t in_c0, in_c1, in_c2, in_c3, in_l2, in_l3; unsigned in_alpha;
  g_blk = in_blk; g_c0 = in_c0; g_c1 = in_c1; g_c2 = in_c2; g_c3 = in_c3; g_l2 = in_l2; g_l3 = in_l3; g_url = URL; g_len = in_size;
  base64_decode(ret, data, in_size, ALPHA_PTR);
  VERIF_REACH();
}

void h_rot13(void) {
  vstr* ret; const void* data; size_t in_size, in_k; char in_ch;
  g_k = in_k; g_ch = in_ch;
  rot13(ret, data, in_size);
  VERIF_REACH();
}

/* ---- lemmas ---- */

/* the two readings of the RFC tables used by the contracts are inverse to each other (consistency of the specification) */
void l_b64_tables(void) {
  uint8_t in_v, in_c; int in_url;
  int url = in_url != 0;
  if (in_v < 64) {
    __CPROVER_assert(B64_VAL((uint8_t)B64_CHAR(in_v, url), url) == in_v, "B64_VAL(B64_CHAR(v)) == v");
    __CPROVER_assert(B64_CHAR(in_v, url) != '=', "the pad character is not in the alphabet");
  }
  if (B64_IN(in_c, url))
    __CPROVER_assert((uint8_t)B64_CHAR(B64_VAL(in_c, url), url) == in_c, "B64_CHAR(B64_VAL(c)) == c");
  __CPROVER_assert((B64_VAL(in_c, url) == B64_PAD) == (in_c == '='), "pad value only for '='");
  VERIF_REACH();
}

#define LEMMA_MAX 0x100000
static vstr* fresh_vstr(size_t cap) {
  vstr* s = malloc(sizeof(vstr));
  __CPROVER_assume(s != 0);
  s->data = malloc(cap); s->size = 0; s->cap = cap;
  __CPROVER_assume(s->data != 0);
  return s;
}

/* base64_decode(base64_encode(x)) == x, over the two contracts, at one symbolic group k (generalise over k):
 *   - the text has a length that is a multiple of four, and an exception of the decoder never names block k
 *     (the decoder's contract: an exception names a block inside the text) ==> no exception;
 *   - the result has |x| octets and octets 3k..3k+2 are those of x. */
void l_b64_roundtrip(void) {
  size_t in_size, in_blk; unsigned in_alpha;
  __CPROVER_assume(in_size <= LEMMA_MAX && in_blk <= LEMMA_MAX);
  uint8_t* x = malloc(in_size);
  __CPROVER_assume(x != 0);
  vstr* enc = fresh_vstr(2 * in_size + 4);
  vstr* dec = fresh_vstr(2 * in_size + 4);
  verif_exc = 0; g_url = URL; g_blk = in_blk;
  g_q = in_size / 3;
  if (3 * in_blk + 0 < in_size) g_b0 = x[3 * in_blk + 0];
  if (3 * in_blk + 1 < in_size) g_b1 = x[3 * in_blk + 1];
  if (3 * in_blk + 2 < in_size) g_b2 = x[3 * in_blk + 2];
  if (3 * in_blk < in_size) {      /* the encoder's contract defines g_e* as the RFC characters of the group */
    size_t n_ = in_size - 3 * in_blk < 3 ? in_size - 3 * in_blk : 3;
    g_e0 = B64_ENC0(g_b0, g_b1, g_b2, n_, g_url); g_e1 = B64_ENC1(g_b0, g_b1, g_b2, n_, g_url);
    g_e2 = B64_ENC2(g_b0, g_b1, g_b2, n_, g_url); g_e3 = B64_ENC3(g_b0, g_b1, g_b2, n_, g_url);
  }
  g_len = in_size;
  base64_encode(enc, x, in_size, ALPHA_PTR);
  size_t n = enc->size;
  const uint8_t* e = (const uint8_t*)enc->data;
  __CPROVER_assert((n & 3) == 0, "encoded length is a multiple of four");
  if (4 * in_blk + 0 < n) g_c0 = e[4 * in_blk + 0];
  if (4 * in_blk + 1 < n) g_c1 = e[4 * in_blk + 1];
  if (4 * in_blk + 2 < n) g_c2 = e[4 * in_blk + 2];
  if (4 * in_blk + 3 < n) g_c3 = e[4 * in_blk + 3];
  /* the last two characters of the text belong to the last group; the encoder's contract speaks about ONE group, so the
   * length part of the round trip is asked at the last group (in_blk == last), the content part at any group */
  if (n >= 2) { g_l2 = e[n - 2]; g_l3 = e[n - 1]; }
  g_len = n;
  base64_decode(dec, e, n, ALPHA_PTR);
  __CPROVER_assert(verif_exc == 0 || verif_exc == EXC_invalid_argument, "only invalid_argument");
  __CPROVER_assert(verif_exc == 0 || ((g_wit & 3) == 0 && g_wit < n), "an exception names a block of the text");
  __CPROVER_assert(verif_exc == 0 || g_wit != 4 * in_blk, "the decoder never rejects block k of an encoder output (every k: no exception)");
  if (verif_exc == 0) {
    if (in_size == 0) __CPROVER_assert(dec->size == 0, "empty round trip");
    if (3 * in_blk < in_size && 3 * in_blk + 3 >= in_size) __CPROVER_assert(dec->size == in_size, "length of the round trip (k = last group)");
    if (3 * in_blk + 0 < in_size) __CPROVER_assert((uint8_t)dec->data[3 * in_blk + 0] == x[3 * in_blk + 0], "octet 3k");
    if (3 * in_blk + 1 < in_size) __CPROVER_assert((uint8_t)dec->data[3 * in_blk + 1] == x[3 * in_blk + 1], "octet 3k+1");
    if (3 * in_blk + 2 < in_size) __CPROVER_assert((uint8_t)dec->data[3 * in_blk + 2] == x[3 * in_blk + 2], "octet 3k+2");
  }
  VERIF_REACH();
}

/* the specification macro itself: involution, identity outside the ASCII letters, letters stay letters of the same case */
void l_rot13_spec(void) {
  char in_c;
  __CPROVER_assert(ROT13_SPEC(ROT13_SPEC(in_c)) == in_c, "ROT13(ROT13(c)) == c");
  __CPROVER_assert(IS_LETTER(in_c) || ROT13_SPEC(in_c) == in_c, "non-letters are unchanged");
  __CPROVER_assert(!IS_UPPER(in_c) || (IS_UPPER(ROT13_SPEC(in_c)) && ROT13_SPEC(in_c) != in_c), "upper-case letters map to another upper-case letter");
  __CPROVER_assert(!IS_LOWER(in_c) || (IS_LOWER(ROT13_SPEC(in_c)) && ROT13_SPEC(in_c) != in_c), "lower-case letters map to another lower-case letter");
  VERIF_REACH();
}

/* rot13(rot13(x)) == x over the contract (byte g_k) */
void l_rot13_involution(void) {
  size_t in_size, in_k;
  __CPROVER_assume(in_size <= LEMMA_MAX);
  char* x = malloc(in_size);
  __CPROVER_assume(x != 0);
  vstr* a = fresh_vstr(in_size);
  vstr* b = fresh_vstr(in_size);
  g_k = in_k;
  if (in_k < in_size) g_ch = x[in_k];
  rot13(a, x, in_size);
  if (in_k < a->size) g_ch = a->data[in_k];
  rot13(b, a->data, a->size);
  __CPROVER_assert(b->size == in_size, "length preserved");
  if (in_k < in_size) __CPROVER_assert(b->data[in_k] == x[in_k], "byte k of rot13(rot13(x)) is byte k of x");
  VERIF_REACH();
}
