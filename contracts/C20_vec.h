/* C20 side-car contracts for Vector2/3/4<T> and Matrix4<T> (src/Vector.hh, src/Vector-inl.hh), one element type per
 * compilation:  -DT=<type> -DT_SIGNED=0|1 -DT_PROMOTES=0|1 (T narrower than int) -DT_MIN=<min of T, signed only>
 * The struct layouts are x_vec_types.h (data members cut from Vector.hh), the function text is x_vec.inc.
 * Per-class parameters are set here, the contracts common to the three vector classes are in C20_vec_ops.h.
 */
#ifndef C20_VEC_H
#define C20_VEC_H
#include "contracts/verif.h"
#include "x_vec_types.h"

#define CAT3_(a, b, c) a##b##c
#define CAT3(a, b, c) CAT3_(a, b, c)
#define RV __CPROVER_return_value

/* ghosts: entry values of the operands (self, other vector, scalar, index) -- named so that a counterexample carries them */
T g_s[4], g_o[4], g_t;
size_t g_dim;

/* inputs on which the native operator on T is defined */
#if T_SIGNED && !T_PROMOTES
#define OK_NEG(a) ((a) != T_MIN)
#define OK_ADD(a, b) (!__CPROVER_overflow_plus((T)(a), (T)(b)))
#define OK_SUB(a, b) (!__CPROVER_overflow_minus((T)(a), (T)(b)))
#define OK_MUL(a, b) (!__CPROVER_overflow_mult((T)(a), (T)(b)))
#define OK_DIV(a, b) ((b) != 0 && !((a) == T_MIN && (b) == -1))
#elif !T_SIGNED && !T_PROMOTES
/* unsigned, at least as wide as int: wrap-around arithmetic, always defined */
#define OK_NEG(a) 1
#define OK_ADD(a, b) 1
#define OK_SUB(a, b) 1
#define OK_MUL(a, b) 1
#define OK_DIV(a, b) ((b) != 0)
#else
#error "C20_vec.h: element type not supported (int64_t, uint64_t, uint32_t)"
#endif

/* per-component clauses (c = component name) */
#define P_ZERO(c) (RV.c == 0)
#define P_NEG(c) (RV.c == (T)(-self->c))
#define P_ADD(c) (RV.c == (T)(self->c + other->c))
#define P_SUB(c) (RV.c == (T)(self->c - other->c))
#define P_ADDS(c) (RV.c == (T)(self->c + other))
#define P_SUBS(c) (RV.c == (T)(self->c - other))
#define P_MULS(c) (RV.c == (T)(self->c * other))
#define P_DIVS(c) (RV.c == (T)(self->c / other))
#define P_MODS(c) (RV.c == (T)(self->c % other))
#define Q_ADD(c) (self->c == (T)(__CPROVER_old(self->c) + other->c))
#define Q_SUB(c) (self->c == (T)(__CPROVER_old(self->c) - other->c))
#define Q_ADDS(c) (self->c == (T)(__CPROVER_old(self->c) + other))
#define Q_SUBS(c) (self->c == (T)(__CPROVER_old(self->c) - other))
#define Q_MULS(c) (self->c == (T)(__CPROVER_old(self->c) * other))
#define Q_DIVS(c) (self->c == (T)(__CPROVER_old(self->c) / other))
#define Q_MODS(c) (self->c == (T)(__CPROVER_old(self->c) % other))
#define Q_OTHER_SAME(c) (other->c == __CPROVER_old(other->c))
#define PRE_NEG(c) OK_NEG(self->c)
#define PRE_ADD(c) OK_ADD(self->c, other->c)
#define PRE_SUB(c) OK_SUB(self->c, other->c)
#define PRE_ADDS(c) OK_ADD(self->c, other)
#define PRE_SUBS(c) OK_SUB(self->c, other)
#define PRE_MULS(c) OK_MUL(self->c, other)
#define PRE_DIVS(c) OK_DIV(self->c, other)
#define P_ISZ(c) (self->c == 0)
#define P_EQ(c) (self->c == other->c)
#define S_ID(c) (self->c)
#define S_SQ(c) (self->c * self->c)
#define S_DOT(c) (self->c * other->c)
#define PRE_SQ(c) OK_MUL(self->c, self->c)
#define PRE_DOT(c) OK_MUL(self->c, other->c)

/* lexicographic order, i-th component, "equals the ghost array" for the three classes */
#define LEX2(a, b) ((a)->x < (b)->x || ((a)->x == (b)->x && (a)->y < (b)->y))
#define LEX3(a, b) ((a)->x < (b)->x || ((a)->x == (b)->x && ((a)->y < (b)->y || ((a)->y == (b)->y && (a)->z < (b)->z))))
#define LEX4(a, b) ((a)->x < (b)->x || ((a)->x == (b)->x && ((a)->y < (b)->y || ((a)->y == (b)->y && \
                    ((a)->z < (b)->z || ((a)->z == (b)->z && (a)->w < (b)->w))))))
#define AT2(s, i) ((i) == 0 ? (s)->x : (s)->y)
#define AT3(s, i) ((i) == 0 ? (s)->x : (i) == 1 ? (s)->y : (s)->z)
#define AT4(s, i) ((i) == 0 ? (s)->x : (i) == 1 ? (s)->y : (i) == 2 ? (s)->z : (s)->w)
#define EQG2(p, g) ((p)->x == g[0] && (p)->y == g[1])
#define EQG3(p, g) ((p)->x == g[0] && (p)->y == g[1] && (p)->z == g[2])
#define EQG4(p, g) ((p)->x == g[0] && (p)->y == g[1] && (p)->z == g[2] && (p)->w == g[3])

/* ------------------------------------------------------------------------------------------------ Vector2 */
#define V Vector2
#define NC 2
#define ALLC(P) (P(x) && P(y))
#define SUMC(P) (P(x) + P(y))
#define OK_SUMC(P) (OK_ADD(P(x), P(y)))
#define LEX LEX2
#define AT AT2
#define EQG EQG2
Vector2 Vector2_make(T x, T y)
__CPROVER_ensures(RV.x == x && RV.y == y)
__CPROVER_assigns();
#include "contracts/C20_vec_ops.h"
#undef V
#undef NC
#undef ALLC
#undef SUMC
#undef OK_SUMC
#undef LEX
#undef AT
#undef EQG

/* ------------------------------------------------------------------------------------------------ Vector3 */
#define V Vector3
#define NC 3
#define ALLC(P) (P(x) && P(y) && P(z))
#define SUMC(P) (P(x) + P(y) + P(z))
#define OK_SUMC(P) (OK_ADD(P(x), P(y)) && OK_ADD(P(x) + P(y), P(z)))
#define LEX LEX3
#define AT AT3
#define EQG EQG3
Vector3 Vector3_make(T x, T y, T z)
__CPROVER_ensures(RV.x == x && RV.y == y && RV.z == z)
__CPROVER_assigns();
Vector3 Vector3_make_v2(const Vector2* xy, T z)
__CPROVER_requires(__CPROVER_is_fresh(xy, sizeof(Vector2)) && EQG2(xy, g_s) && z == g_t)
__CPROVER_ensures(RV.x == xy->x && RV.y == xy->y && RV.z == z)
__CPROVER_assigns();
/* cross product: (a2*b3 - a3*b2, a3*b1 - a1*b3, a1*b2 - a2*b1) */
#define ORTH(p, r) ((UT)(p)->x * (UT)(r).x + (UT)(p)->y * (UT)(r).y + (UT)(p)->z * (UT)(r).z)
#define OK_CROSS1(p, q, r, s) (OK_MUL(p, q) && OK_MUL(r, s) && OK_SUB((p) * (q), (r) * (s)))
Vector3 Vector3_cross(const Vector3* self, const Vector3* other)
__CPROVER_requires(__CPROVER_is_fresh(self, sizeof(Vector3)) && __CPROVER_is_fresh(other, sizeof(Vector3)) &&
                   EQG3(self, g_s) && EQG3(other, g_o))
__CPROVER_requires(OK_CROSS1(self->y, other->z, self->z, other->y) && OK_CROSS1(self->z, other->x, self->x, other->z) &&
                   OK_CROSS1(self->x, other->y, self->y, other->x))
__CPROVER_ensures(RV.x == (T)(self->y * other->z - self->z * other->y))
__CPROVER_ensures(RV.y == (T)(self->z * other->x - self->x * other->z))
__CPROVER_ensures(RV.z == (T)(self->x * other->y - self->y * other->x))
/* orthogonal to both operands: a . (a x b) == 0 and b . (a x b) == 0, dot product evaluated in Z/2^n (UT = unsigned twin of
 * T).  Stated for the unsigned instantiations, where no operation is undefined; the signed instantiations execute the
 * same two's-complement operations bit for bit whenever no overflow occurs. */
#if !T_SIGNED
__CPROVER_ensures(ORTH(self, RV) == 0)
__CPROVER_ensures(ORTH(other, RV) == 0)
#endif
__CPROVER_assigns();
#include "contracts/C20_vec_ops.h"
#undef V
#undef NC
#undef ALLC
#undef SUMC
#undef OK_SUMC
#undef LEX
#undef AT
#undef EQG

/* ------------------------------------------------------------------------------------------------ Vector4 */
#define V Vector4
#define NC 4
#define ALLC(P) (P(x) && P(y) && P(z) && P(w))
#define SUMC(P) (P(x) + P(y) + P(z) + P(w))
#define OK_SUMC(P) (OK_ADD(P(x), P(y)) && OK_ADD(P(x) + P(y), P(z)) && OK_ADD(P(x) + P(y) + P(z), P(w)))
#define LEX LEX4
#define AT AT4
#define EQG EQG4
Vector4 Vector4_make(T x, T y, T z, T w)
__CPROVER_ensures(RV.x == x && RV.y == y && RV.z == z && RV.w == w)
__CPROVER_assigns();
Vector4 Vector4_make_v2(const Vector2* xy, T z, T w)
__CPROVER_requires(__CPROVER_is_fresh(xy, sizeof(Vector2)) && EQG2(xy, g_s) && z == g_t)
__CPROVER_ensures(RV.x == xy->x && RV.y == xy->y && RV.z == z && RV.w == w)
__CPROVER_assigns();
Vector4 Vector4_make_v3(const Vector3* xyz, T w)
__CPROVER_requires(__CPROVER_is_fresh(xyz, sizeof(Vector3)) && EQG3(xyz, g_s) && w == g_t)
__CPROVER_ensures(RV.x == xyz->x && RV.y == xyz->y && RV.z == xyz->z && RV.w == w)
__CPROVER_assigns();
#include "contracts/C20_vec_ops.h"
#undef V
#undef NC
#undef ALLC
#undef SUMC
#undef OK_SUMC
#undef LEX
#undef AT
#undef EQG

#include "contracts/C20_mat.h"
#endif
