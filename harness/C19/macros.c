/* C19: the macro layer of src/UnitTest.hh.  x_macros.h holds the #define lines verbatim (cut on every run); they are
 * expanded here by the C preprocessor exactly as at a real call site.  expect_generic / expect_raises_fn<E> are replaced
 * by their contracts.  What each macro NAME promises (the specification, written from the property text):
 *   expect_eq a == b, expect_ne a != b, expect_gt a > b, expect_ge a >= b, expect_lt a < b, expect_le a <= b,
 *   expect(p) p is true, expect_msg(p, m) p is true with message m; failure message of the relation macros:
 *   the operand texts around the complementary relation. */
#include "x_unittest_base.h"
#include "contracts/C19_unittest.h"
#include "x_expect_generic.c"
#ifdef ER_NAME
#include "x_expect_raises.inc"
#endif
#define VERIF_ER_INST(type) expect_raises_fn__##type
#include "x_macros.h"
#include "x_macro_expansion.h"

int verif_exc;
const char* g_exc_msg; const char* g_exc_file; uint64_t g_exc_line;
const char* g_what_msg; const char* g_what_file; uint64_t g_what_line;

/* "p is the string lit": cbmc interns string literals by content (identical literals are one object, different
 * literals are different objects -- probed), so in the model pointer equality with a literal is content equality.
 * p always originates from a literal of the macro expansion here. */
#define STR_IS(p, lit) ((p) == (lit))

#define PRELUDE \
  const char *m0, *f0; uint64_t in_old_line; \
  g_exc_msg = m0; g_exc_file = f0; g_exc_line = in_old_line; \
  int na = 0, nb = 0; \
  verif_exc = EXC_none;

#define SITE_CHECKS(name, MSG) \
  __CPROVER_assert(verif_exc == EXC_none || g_exc_line == ln, #name ": the failure carries __LINE__ of the call site"); \
  __CPROVER_assert(verif_exc == EXC_none || STR_IS(g_exc_file, __FILE__), #name ": the failure carries __FILE__ of the call site"); \
  __CPROVER_assert(verif_exc == EXC_none || STR_IS(g_exc_msg, MSG), #name ": the failure carries the message"); \
  __CPROVER_assert(verif_exc != EXC_none || (g_exc_msg == m0 && g_exc_file == f0 && g_exc_line == in_old_line), #name ": does nothing when the relation holds"); \
  /* (x_macro_expansion.h records whether the g++ -E expansion through the real include chain is the reference token sequence:
   *  informational only -- an equivalent rewriting of a macro is not a violation; the relation itself is decided above) */

/* the operands carry a side effect (na++ / nb++): each must be evaluated exactly once */
#define H_REL(name, OP, NEG) void h_macro_##name(void) { \
  T in_a, in_b; PRELUDE \
  expect_##name((na++, in_a), (nb++, in_b)); uint64_t ln = __LINE__; \
  __CPROVER_assert(verif_exc == ((in_a OP in_b) ? EXC_none : EXC_expectation_failed), "expect_" #name "(a, b) throws expectation_failed exactly when !(a " #OP " b)"); \
  __CPROVER_assert(na == 1 && nb == 1, "expect_" #name ": each operand is evaluated exactly once"); \
  SITE_CHECKS(expect_##name, "(na++, in_a)" " " NEG " " "(nb++, in_b)") \
  VERIF_REACH(); }

H_REL(eq, ==, "!=")
H_REL(ne, !=, "==")
H_REL(gt, >, "<=")
H_REL(ge, >=, "<")
H_REL(lt, <, ">=")
H_REL(le, <=, ">")

/* operand hygiene: a macro argument is an arbitrary expression.  The operands here have a top-level operator (?:) that binds
 * looser than every relational operator; the macro must still compare the VALUES of its two operands. */
#define H_HYG(name, OP, NEG) void h_macro_hyg_##name(void) { \
  T in_a, in_a2, in_b, in_b2; uint8_t in_ca, in_cb; PRELUDE \
  expect_##name(in_ca ? in_a : in_a2, in_cb ? in_b : in_b2); uint64_t ln = __LINE__; \
  T va = in_ca ? in_a : in_a2, vb = in_cb ? in_b : in_b2; \
  __CPROVER_assert(verif_exc == ((va OP vb) ? EXC_none : EXC_expectation_failed), "expect_" #name "(x ? a : a2, y ? b : b2) throws expectation_failed exactly when !((x ? a : a2) " #OP " (y ? b : b2))"); \
  SITE_CHECKS(expect_##name, "in_ca ? in_a : in_a2" " " NEG " " "in_cb ? in_b : in_b2") \
  VERIF_REACH(); }

H_HYG(eq, ==, "!=")
H_HYG(ne, !=, "==")
H_HYG(gt, >, "<=")
H_HYG(ge, >=, "<")
H_HYG(lt, <, ">=")
H_HYG(le, <=, ">")

void h_macro_expect(void) {
  T in_a, in_b; PRELUDE
  expect((na++, in_a)); uint64_t ln = __LINE__;
  __CPROVER_assert(verif_exc == ((in_a != 0) ? EXC_none : EXC_expectation_failed), "expect(p) throws expectation_failed exactly when p is false");
  __CPROVER_assert(na == 1, "expect: the operand is evaluated exactly once");
  SITE_CHECKS(expect, "!(" "(na++, in_a)" ")")
  VERIF_REACH();
}

void h_macro_expect_msg(void) {
  T in_a, in_b; PRELUDE
  const char* msg;
  expect_msg((na++, in_a), (nb++, msg)); uint64_t ln = __LINE__;
  __CPROVER_assert(verif_exc == ((in_a != 0) ? EXC_none : EXC_expectation_failed), "expect_msg(p, m) throws expectation_failed exactly when p is false");
  __CPROVER_assert(na == 1 && nb == 1, "expect_msg: each operand is evaluated exactly once");
  __CPROVER_assert(verif_exc == EXC_none || g_exc_msg == msg, "expect_msg: the failure carries the given message");
  __CPROVER_assert(verif_exc == EXC_none || g_exc_line == ln, "expect_msg: the failure carries __LINE__ of the call site");
  __CPROVER_assert(verif_exc == EXC_none || STR_IS(g_exc_file, __FILE__), "expect_msg: the failure carries __FILE__ of the call site");
  __CPROVER_assert(verif_exc != EXC_none || (g_exc_msg == m0 && g_exc_file == f0 && g_exc_line == in_old_line), "expect_msg: does nothing when p holds");
  VERIF_REACH();
}

#ifdef ER_NAME
/* expect_raises(type, fn) -> expect_raises_fn<type>(__FILE__, __LINE__, fn); the instantiation is replaced by its contract */
void h_macro_expect_raises(void) {
  verif_function in_fn; PRELUDE
  if (!VERIF_FUNCTION_VALID(in_fn)) in_fn = 0;      /* the 14 behaviours of the callback (precondition of the contract) */
  expect_raises(runtime_error, (na++, in_fn)); uint64_t ln = __LINE__;
  __CPROVER_assert(verif_exc == (VERIF_SUBTYPE(in_fn, EXC_runtime_error) ? EXC_none : EXC_expectation_failed), "expect_raises(E, fn) fails exactly when fn does not throw an E");
  __CPROVER_assert(na == 1, "expect_raises: fn is evaluated exactly once");
  __CPROVER_assert(verif_exc == EXC_none || g_exc_line == ln, "expect_raises: the failure carries __LINE__ of the call site");
  __CPROVER_assert(verif_exc == EXC_none || STR_IS(g_exc_file, __FILE__), "expect_raises: the failure carries __FILE__ of the call site");
  VERIF_REACH();
}
#endif
