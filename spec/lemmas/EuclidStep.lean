/-
C20 (gcd at 16/32/64 bits): the two number-theoretic facts that the width-independent proof of `gcd` uses through the abstract
predicate D(x) = "d divides x" (contracts/C20_math.h, GCD_ABS_REM):
  * D(0),
  * the Euclid step lemma   D(x) ∧ D(y)  ↔  D(y) ∧ D(x mod y).
Stated over the natural numbers and checked by the Lean 4 kernel (no Mathlib needed: `Nat.dvd_mod_iff` is in core).
Link to the code: `gcd` is only specified for non-negative operands (precondition NONNEG), and for non-negative machine integers
of any width `a % b` (b ≠ 0) is the remainder of the natural numbers they denote; the loop never evaluates `a % b` with b = 0.
For y = 0 Lean defines x % 0 = x, for which the lemma holds as well.
-/
theorem dvd_zero' (d : Nat) : d ∣ 0 := Nat.dvd_zero d

theorem euclid_step (d x y : Nat) : (d ∣ x ∧ d ∣ y) ↔ (d ∣ y ∧ d ∣ x % y) := by
  constructor
  · intro h
    exact ⟨h.2, (Nat.dvd_mod_iff h.2).mpr h.1⟩
  · intro h
    exact ⟨(Nat.dvd_mod_iff h.1).mp h.2, h.1⟩

#print axioms euclid_step
