#!/usr/bin/env python3
"""tools/seedrun.py <PROP-ID> <name> <patch.diff> <demo.cc> [--needs "text"] [--keep-if-missed]

Confirms a seeded change (written by an independent sub-agent that saw nothing of /verif) in a scratch git worktree of
/repo outside /repo and /verif, runs the property's quick check against that worktree (./check <ID> --src <worktree>),
records everything under /verif/seeded/<ID>-<name>/ and removes the worktree with its build output.

Steps: pristine build + demo must exit 0; patch applies; patched build + full ctest must pass; demo must exit non-zero;
then the check.  Nothing is ever applied to /repo itself.
"""
import json
import os
import shutil
import subprocess
import sys
import time

V = os.path.dirname(os.path.dirname(os.path.abspath(__file__)))


def sh(cmd, cwd=None, timeout=3600):
    p = subprocess.run(cmd, shell=True, cwd=cwd, capture_output=True, text=True, timeout=timeout)
    return p.returncode, (p.stdout + p.stderr)


def main():
    pid, name, patch, demo = sys.argv[1:5]
    needs = ''
    if '--needs' in sys.argv:
        needs = sys.argv[sys.argv.index('--needs') + 1]
    wt = '/tmp/seedrun-%s-%s' % (pid, name)
    sh('git -C /repo worktree remove --force %s' % wt)
    shutil.rmtree(wt, ignore_errors=True)
    rc, out = sh('git -C /repo worktree add -q --detach %s HEAD' % wt)
    if rc:
        print(out)
        return 2
    meta = {'property': pid, 'name': name, 'needs': needs, 'repo_commit': sh('git -C /repo rev-parse --short HEAD')[1].strip(), 'ran': []}
    try:
        def build(tag):
            rc, out = sh('cmake -G Ninja -S %s -B %s/_b >/dev/null && cmake --build %s/_b -j8 2>&1 | tail -3' % (wt, wt, wt))
            meta['ran'].append({'cmd': 'cmake build (%s)' % tag, 'rc': rc})
            return rc == 0

        def rundemo(tag):
            os.makedirs(wt + '/_inc', exist_ok=True)
            if not os.path.exists(wt + '/_inc/phosg'):
                os.symlink(wt + '/src', wt + '/_inc/phosg')     # demos may #include <phosg/X.hh>
            rc, out = sh('g++ -std=c++20 -I%s/src -I%s/_inc %s %s/_b/libphosg.a -lpthread -lz -o %s/_demo && %s/_demo' % (wt, wt, demo, wt, wt, wt), timeout=600)
            meta['ran'].append({'cmd': 'demo (%s)' % tag, 'rc': rc, 'out': out[-400:]})
            return rc
        if not build('pristine'):
            print('pristine build failed')
            return 2
        d0 = rundemo('pristine')
        rc, out = sh('git apply %s' % os.path.abspath(patch), cwd=wt)
        meta['ran'].append({'cmd': 'git apply', 'rc': rc, 'out': out[-300:]})
        if rc:
            print('patch does not apply:', out)
            return 2
        if not build('patched'):
            print('patched build failed')
            meta['confirmed'] = False
        rc, out = sh('ctest --test-dir %s/_b -j8 --timeout 900 2>&1 | tail -4' % wt)
        meta['ran'].append({'cmd': 'ctest (patched)', 'rc': rc, 'out': out[-300:]})
        if rc != 0:
            # ProcessTest looks processes up by name and aborts ("multiple processes found") when another worktree's
            # ProcessTest runs at the same moment: re-run the failed tests alone, up to 4 times
            for _ in range(4):
                time.sleep(3)
                rc, out = sh('ctest --test-dir %s/_b --rerun-failed --timeout 900 2>&1 | tail -4' % wt)
                meta['ran'].append({'cmd': 'ctest --rerun-failed (patched)', 'rc': rc, 'out': out[-300:]})
                if rc == 0:
                    break
        tests_ok = rc == 0
        d1 = rundemo('patched')
        meta['confirmed'] = bool(d0 == 0 and d1 != 0 and tests_ok)
        t0 = time.time()
        rc, out = sh('%s/check %s --src %s --tag seed-%s --no-evidence --jobs 8' % (V, pid, wt, name), timeout=7200)
        vio = [l for l in out.split('\n') if l.startswith('VIOLATION')]
        und = [l for l in out.split('\n') if l.startswith('UNDECIDED') or l.startswith('EXTRACTION')]
        meta['check'] = {'cmd': './check %s --src <worktree with the patch>' % pid, 'rc': rc, 'violations': vio[:10], 'undecided': [u[:300] for u in und[:5]],
                         'seconds': round(time.time() - t0, 1), 'summary': out.strip().split('\n')[-1]}
        meta['detected'] = rc == 1 and bool(vio)
        d = os.path.join(V, 'seeded', '%s-%s' % (pid, name))
        os.makedirs(d, exist_ok=True)
        for s, n in ((patch, 'patch.diff'), (demo, 'demo.cc')):
            if os.path.abspath(s) != os.path.join(d, n):
                shutil.copy(s, os.path.join(d, n))
        json.dump(meta, open(os.path.join(d, 'meta.json'), 'w'), indent=1)
        print('%s-%s: confirmed=%s (demo %s -> %s, tests %s) detected=%s rc=%s  %s' % (pid, name, meta['confirmed'], d0, d1, 'pass' if tests_ok else 'FAIL',
                                                                                   meta['detected'], rc, (vio or und or [''])[0][:200]))
        return 0
    finally:
        sh('git -C /repo worktree remove --force %s' % wt)
        shutil.rmtree(wt, ignore_errors=True)
        shutil.rmtree(os.path.join(V, 'build', '%s-seed-%s' % (pid, name)), ignore_errors=True)


if __name__ == '__main__':
    sys.exit(main())
