// Native replay for the typed one-liners: driver <rd_get|rd_pget|sw_put|sw_pput|bw_put|bw_pput> <method> g_len= g_off= g_wsize= g_wcap= in_offset= in_v= in_advance=
#include "replay/common/args.hh"
#include "Strings.hh"
#include <sys/mman.h>
#include <stdexcept>
using namespace phosg;
using namespace std;

static uint8_t* guarded(size_t n) {
  size_t pg = 4096, tot = ((n + pg - 1) / pg + 1) * pg;
  uint8_t* m = (uint8_t*)mmap(nullptr, tot, PROT_READ | PROT_WRITE, MAP_PRIVATE | MAP_ANONYMOUS, -1, 0);
  mprotect(m + tot - pg, pg, PROT_NONE);
  uint8_t* p = m + tot - pg - n;
  for (size_t i = 0; i < n; i++) p[i] = (uint8_t)(i * 37 + 11) | ((i % 5 == 0) ? 0x80 : 0);
  return p;
}
static bool inr(size_t off, size_t n, size_t len) { return off <= len && n <= len - off; }
static uint64_t dec(const uint8_t* p, int n, bool big) { uint64_t v = 0; for (int i = 0; i < n; i++) v |= (uint64_t)p[big ? n - 1 - i : i] << (8 * i); return v; }
template <typename T> static uint64_t bits(T v) { uint64_t u = 0; memcpy(&u, &v, sizeof(v)); return u; }
template <typename T> static T unbits(uint64_t u) { T v; memcpy(&v, &u, sizeof(v)); return v; }

#define ALL(X) X(u8, uint8_t, 1) X(s8, int8_t, 1) \
  X(u16b, uint16_t, 2) X(u16l, uint16_t, 2) X(s16b, int16_t, 2) X(s16l, int16_t, 2) \
  X(u32b, uint32_t, 4) X(u32l, uint32_t, 4) X(s32b, int32_t, 4) X(s32l, int32_t, 4) \
  X(u64b, uint64_t, 8) X(u64l, uint64_t, 8) X(s64b, int64_t, 8) X(s64l, int64_t, 8) \
  X(f32b, float, 4) X(f32l, float, 4) X(f64b, double, 8) X(f64l, double, 8)

int main(int argc, char** argv) {
  Args A(argc, argv);
  if (A.extra.empty()) return 2;
  string meth = A.extra[0];
  size_t len = A.u("g_len"), off = A.u("g_off"), offset = A.u("in_offset"), wsize = A.u("g_wsize");
  bool adv = A.u("in_advance") != 0; uint64_t vb = A.u("in_v");
  string sfx = meth.substr(meth.find('_') + 1); bool big = sfx.back() != 'l';
  printf("%s %s: len=%zu cursor=%zu offset=%zu wsize=%zu v=0x%llX\n", A.mode.c_str(), meth.c_str(), len, off, offset, wsize, (unsigned long long)vb);
  if (len > (1u << 24) || wsize > (1u << 24)) { printf("too large to replay natively\n"); return 2; }
  int n = 0; uint64_t got = 0; bool threw = false, other = false;
  if (A.mode == "rd_get" || A.mode == "rd_pget") {
    uint8_t* d = guarded(len); StringReader r(d, len, off); bool pos = A.mode == "rd_pget"; size_t at = pos ? offset : off;
    try {
#define X(s, T, N) if (sfx == #s) { n = N; got = bits<T>(pos ? r.pget_##s(at) : r.get_##s(adv)); }
      ALL(X)
#undef X
    } catch (const out_of_range&) { threw = true; } catch (...) { other = true; }
    if (!n) { if (threw) { /* width unknown only if suffix unknown */ } }
#define X(s, T, N) if (sfx == #s) n = N;
    ALL(X)
#undef X
    if (!n) { fprintf(stderr, "unknown accessor %s\n", meth.c_str()); return 2; }
    RCHECK(!other && threw == !inr(at, n, len), "%s at %zu on %zu bytes: %s", meth.c_str(), at, len, threw ? "threw" : other ? "threw a foreign exception" : "returned");
    if (!threw) { RCHECK(got == dec(d + at, n, big), "value bits 0x%llX, bytes encode 0x%llX", (unsigned long long)got, (unsigned long long)dec(d + at, n, big));
      if (!pos) RCHECK(r.where() == off + (adv ? n : 0), "cursor %zu", r.where()); }
    else if (!pos) RCHECK(r.where() == off, "cursor moved on failure");
  } else if (A.mode == "sw_put" || A.mode == "sw_pput") {
    StringWriter w; w.extend_to(wsize, 'q'); bool pos = A.mode == "sw_pput"; size_t at = pos ? offset : wsize;
    try {
#define X(s, T, N) if (sfx == #s) { n = N; if (pos) w.pput_##s(at, unbits<T>(vb)); else w.put_##s(unbits<T>(vb)); }
      ALL(X)
#undef X
    } catch (const length_error&) { threw = true; } catch (const bad_alloc&) { threw = true; } catch (...) { other = true; }
    if (!n) { fprintf(stderr, "unknown accessor %s\n", meth.c_str()); return 2; }
    if (threw) { RCHECK(!inr(at, n, (size_t)1 << 40), "threw although the string could grow"); printf("holds on this input (threw)\n"); return 0; }
    RCHECK(!other, "foreign exception");
    const string& s = w.str();
    RCHECK(inr(at, n, s.size()), "after pput the string has %zu bytes but the write went to [%zu, +%d)", s.size(), at, n);
    RCHECK(s.size() == max(wsize, at + n), "size %zu", s.size());
    uint64_t mask = n == 8 ? ~0ull : ((1ull << (8 * n)) - 1);
    RCHECK(dec((const uint8_t*)s.data() + at, n, big) == (vb & mask), "stored bytes encode 0x%llX, value bits 0x%llX", (unsigned long long)dec((const uint8_t*)s.data() + at, n, big), (unsigned long long)(vb & mask));
    for (size_t i = 0; i < s.size(); i++) if (i < at || i >= at + n) RCHECK(s[i] == (i < wsize ? 'q' : 0), "byte %zu changed / not zero-extended", i);
  } else if (A.mode == "bw_put" || A.mode == "bw_pput") {
    uint8_t* buf = guarded(len); BufferWriter w(buf, len); bool pos = A.mode == "bw_pput"; size_t at = pos ? offset : off;
    if (!pos && off) { if (off > len) return 2; string pre(off, 'p'); w.write(pre); }
    try {
#define X(s, T, N) if (sfx == #s) { n = N; if (pos) w.pput_##s(at, unbits<T>(vb)); else w.put_##s(unbits<T>(vb)); }
      ALL(X)
#undef X
    } catch (const runtime_error&) { threw = true; } catch (...) { other = true; }
#define X(s, T, N) if (sfx == #s) n = N;
    ALL(X)
#undef X
    if (!n) { fprintf(stderr, "unknown accessor %s\n", meth.c_str()); return 2; }
    RCHECK(!other && threw == !inr(at, n, len), "%s at %zu into %zu-byte buffer: %s", meth.c_str(), at, len, threw ? "threw" : "stored");
    uint64_t mask = n == 8 ? ~0ull : ((1ull << (8 * n)) - 1);
    if (!threw) RCHECK(dec(buf + at, n, big) == (vb & mask), "stored bytes");
  } else { fprintf(stderr, "unknown mode\n"); return 2; }
  printf("holds on this input\n");
  return 0;
}
