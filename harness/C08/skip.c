/* C08: skip_* (both overloads), toupper, tolower. */
#include "harness/C08/common.h"
#include "contracts/C08_skip.h"
size_t g_off0, g_mid, g_len;
#include "x_skip.c"
#define IN_SKIP size_t in_offset, in_len, in_mid; g_len = in_len; g_mid = in_mid
#define HSKIP(name, ty) void h_##name(void) { ty s; IN_GHOSTS; IN_SKIP; name(s, in_offset); VERIF_REACH(); }
HSKIP(skip_whitespace_str, const vstr*) HSKIP(skip_non_whitespace_str, const vstr*) HSKIP(skip_word_str, const vstr*)
HSKIP(skip_whitespace_cstr, const char*) HSKIP(skip_non_whitespace_cstr, const char*) HSKIP(skip_word_cstr, const char*)
void h_toupper_str(void) { vout* ret; const vstr* s; IN_GHOSTS; toupper_str(ret, s); VERIF_REACH(); }
void h_tolower_str(void) { vout* ret; const vstr* s; IN_GHOSTS; tolower_str(ret, s); VERIF_REACH(); }
