/* C mirrors of the reader/writer classes of src/Strings.hh (member lists are checked against the class text by
 * props/rw_common.py:check_members on every run). Dropped: owned_data (shared_ptr keeps the string alive; lifetime only). */
#ifndef RW_TYPES_H
#define RW_TYPES_H
#include "contracts/verif.h"
typedef struct { const uint8_t* data; size_t length; size_t offset; } StringReader;
typedef struct { const uint8_t* data; size_t length; size_t offset; } BitReader;
typedef struct { uint8_t* buf; size_t buf_size; size_t offset; } BufferWriter;
/* ghosts that only name the reader state on entry so that counterexamples carry it */
extern size_t g_len, g_off;
#endif
