/* C17: get_multi<RetT>(name[, format]) (-DC17_GM_KIND=0 string / 1 integral / 2 floating, -DRetT, -DGM_NAME).
 * The option's vector is a memory object of any length; in_nj is the observed value; the conversion outcome of that value
 * is (in_ok, in_val); get_values_multi is inlined, the conversion is the abstract GM_PARSE. */
#include "contracts/C17_getters.h"
#include "x_getters_str.c"
#include "x_get_multi.inc"

int verif_exc, verif_errno, g_base; unsigned g_ncalls;
size_t g_endoff, g_vk; bool g_neg, g_ovf; uint64_t g_mag; double g_fval;
size_t g_size, g_ck, g_nev, g_npos, g_nev0, g_npos0, g_ek;
bool g_ev_written; int g_ev_kind; const vstr* g_ev_src; size_t g_ev_koff, g_ev_klen, g_ev_toff, g_ev_tlen, g_ev_index; bool g_ev_used;
size_t g_nmap, g_ni, g_nj, g_nsz, g_pk; bool g_nused;
int g_wit_kind; size_t g_wit_i, g_wit_j; bool g_wit_used;
bool g_present, g_pkused, g_njused; ArgVec* g_vals;
vstr C17_empty_string; char C17_empty_chars[1]; ArgVec C17_empty_vec;
bool g_out_written, g_ok; uint64_t g_out_val, g_val; const vstr* g_out_ptr;

void h_get_multi(void) {
  Arguments* self; const vstr* name; ArgVec* vals; C17_outvec* ret;
  bool in_present, in_pkused, in_njused, in_ok; size_t in_pk, in_nj; uint64_t in_val; int in_format;
  g_present = in_present; g_pkused = in_pkused; g_njused = in_njused; g_pk = in_pk; g_nj = in_nj; g_vals = vals;
  g_ok = in_ok; g_val = in_val; g_out_written = 0; g_wit_j = 0;
  C17_empty_vec.size = 0; C17_empty_vec.data = 0;
  verif_exc = EXC_none;
#if C17_GM_KIND == 1
  GM_NAME(self, ret, name, in_format);
#else
  GM_NAME(self, ret, name);
#endif
  VERIF_REACH();
}
