/* C17: get<std::string>(name), get<std::string>(position), get<bool>, get_values_multi -- the lowered try/catch bodies
 * against the container model of stubs/C17_args.h.  in_present: the looked-up name is a key; the option's vector and the
 * positional vector are memory objects of any length; in_pk / in_nj: observed elements for the frame. */
#include "contracts/C17_getters.h"
#include "x_getters_str.c"

int verif_exc, verif_errno, g_base; unsigned g_ncalls;
size_t g_endoff, g_vk; bool g_neg, g_ovf; uint64_t g_mag; double g_fval;
size_t g_size, g_ck, g_nev, g_npos, g_nev0, g_npos0, g_ek;
bool g_ev_written; int g_ev_kind; const vstr* g_ev_src; size_t g_ev_koff, g_ev_klen, g_ev_toff, g_ev_tlen, g_ev_index; bool g_ev_used;
size_t g_nmap, g_ni, g_nj, g_nsz, g_pk; bool g_nused;
int g_wit_kind; size_t g_wit_i, g_wit_j; bool g_wit_used;
bool g_present, g_pkused, g_njused; ArgVec* g_vals;
vstr C17_empty_string; char C17_empty_chars[1]; ArgVec C17_empty_vec;   /* Arguments::empty_string: a valid empty std::string */

#define PRELUDE \
  Arguments* self; const vstr* name; ArgVec* vals; \
  bool in_present, in_pkused, in_njused; size_t in_pk, in_nj; \
  g_present = in_present; g_pkused = in_pkused; g_njused = in_njused; g_pk = in_pk; g_nj = in_nj; g_vals = vals; \
  C17_empty_vec.size = 0; C17_empty_vec.data = 0; \
  C17_empty_chars[0] = 0; C17_empty_string.data = C17_empty_chars; C17_empty_string.size = 0; C17_empty_string.cap = 1; \
  verif_exc = EXC_none;

void h_get_string_named(void) { PRELUDE; bool in_throw_if_missing; Arguments_get_string_named(self, name, in_throw_if_missing); VERIF_REACH(); }
void h_get_string_pos(void) { PRELUDE; size_t in_position; bool in_throw_if_missing; Arguments_get_string_pos(self, in_position, in_throw_if_missing); VERIF_REACH(); }
void h_get_bool(void) { PRELUDE; Arguments_get_bool(self, name); VERIF_REACH(); }
void h_get_values_multi(void) { PRELUDE; Arguments_get_values_multi(self, name); VERIF_REACH(); }
