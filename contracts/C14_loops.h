/* C14 side-car contracts: the read-to-end helpers read_all(int), read_all(FILE*) and the line reader fgets(FILE*).
 * Specification source: the property statement -- they "return exactly the bytes the source delivers no matter how
 * delivery is chunked ... or throw; they never silently return a truncated or padded result".
 * Source = ghost stream of stubs/C14_io.h, starting at position 0 with no end-of-file / error indication yet. */
#ifndef C14_LOOPS_CONTRACTS_H
#define C14_LOOPS_CONTRACTS_H
#include "contracts/C14_io.h"
#include "stubs/C14_vsv.h"

#define C14_FRESH_SRC __CPROVER_requires(g_pos == 0 && g_eof_seen == 0 && g_err_seen == 0 && g_overrun == 0) __CPROVER_requires(g_vsv_cap >= 0x100000 && g_vsv_cap <= VSTR_MAXCAP) __CPROVER_requires(__CPROVER_is_fresh(g_vsv_buf, g_vsv_cap))

/* everything up to end-of-file, or io_error iff a read failed */
void phosg_read_all_fd(vstr* ret, int fd)
C14_ENTRY C14_FRESH_SRC C14_RET(ret, g_src_len)
C14_IOERR
__CPROVER_ensures((verif_exc != 0) == (g_err_seen != 0))                       /* throws iff read() reported an error */
__CPROVER_ensures(verif_exc == 0 ==> ret->size == g_src_len)                   /* every byte the source delivers, no more */
__CPROVER_ensures(verif_exc == 0 ==> g_eof_seen)                               /* returns only after end-of-file was reported */
__CPROVER_ensures((verif_exc == 0 && g_vk < ret->size) ==> (uint8_t)ret->data[g_vk] == g_sval)
__CPROVER_assigns(C14_SRC_ASSIGNS, __CPROVER_object_whole(g_vsv_buf), g_cval, g_it_next, g_it_prefix, ret->size, __CPROVER_object_whole(ret->data));

/* stdio form: a short fread means end-of-file or error; an error must not be returned as a (truncated) result */
void phosg_read_all_file(vstr* ret, C14_FILE* f)
C14_ENTRY C14_FRESH_SRC C14_RET(ret, g_src_len)
C14_IOERR
__CPROVER_ensures(verif_exc == 0 ==> ret->size == g_src_len)
__CPROVER_ensures(verif_exc == 0 ==> g_eof_seen)
__CPROVER_ensures((verif_exc == 0 && g_vk < ret->size) ==> (uint8_t)ret->data[g_vk] == g_sval)
__CPROVER_assigns(C14_SRC_ASSIGNS, g_stream_fd_taken, g_stream_fd, __CPROVER_object_whole(g_vsv_buf), g_cval, g_it_next, g_it_prefix, ret->size, __CPROVER_object_whole(ret->data));

/* one line: the source's remaining bytes are one line of g_src_len bytes (terminated by '\n' iff g_has_nl, see the
 * fgets stub); the result is that line, whatever its length relative to the internal block size */
void phosg_fgets(vstr* ret, C14_FILE* f)
C14_ENTRY C14_FRESH_SRC C14_RET(ret, g_src_len + 0x200)
__CPROVER_requires(g_has_nl == 0 || (g_has_nl == 1 && g_src_len > 0))
C14_IOERR
__CPROVER_ensures(verif_exc != 0 ==> g_err_seen)
__CPROVER_ensures(verif_exc == 0 ==> !g_overrun)                               /* never reads into the next line */
__CPROVER_ensures(verif_exc == 0 ==> ret->size == g_src_len)                   /* the whole line, no padding */
__CPROVER_ensures((verif_exc == 0 && g_vk < ret->size) ==> (uint8_t)ret->data[g_vk] == g_sval)
__CPROVER_assigns(C14_SRC_ASSIGNS, g_overrun, g_fg_buf, g_fg_len, __CPROVER_object_whole(g_vsv_buf), g_cval, ret->size, __CPROVER_object_whole(ret->data));
#endif
