/* C05: h_parse -- the dispatcher of JSON::parse(StringReader&, bool); the four big branches are separate functions */
#include "harness/C05/common.h"
#include "x_json_rd.c"      /* eof / where / size / go: real bodies */
#include "x_json_dispatch.c"

void h_parse(void) { StringReader* r; JVal* ret; bool in_de; IN_COMMON; g_j.de = in_de; int in_pc; g_j.pc = in_pc; JSON_parse(r, in_de, ret); VERIF_REACH(); }
