/* C09 hex dump, the ASCII column of one line (the `if (print_ascii) { ... }` block of format_data's line lambda, cut out on every run).
 * "ASCII columns decode back to exactly the dumped bytes": the column is the separator followed by 16 cells; cell k is a blank for
 * the positions in front of / behind the dumped range (line_invalid_start_bytes / line_invalid_end_bytes) and for a byte that is not
 * a printable ASCII character (0x20 .. 0x7E), otherwise the byte itself.  Decided with colour off (the terminal guards emit nothing);
 * what is written is observed through the write_data model at the ghost output position g_opos. */
#ifndef C09_ASCII_H
#define C09_ASCII_H
#include "contracts/verif.h"
extern size_t g_out_n, g_opos; extern uint8_t g_och; extern int verif_exc;
/* write_data(ptr, n): n bytes appended to the output */
static inline void c09_write_data(const void* p, size_t n)
{
  __CPROVER_assert(n <= 4, "model restriction: the ASCII column writes at most the separator at once");
  for (size_t k = 0; k < 4; k++) if (k < n && g_out_n + k == g_opos) g_och = ((const uint8_t*)p)[k];
  g_out_n += n;
}
/* RedBoldTerminalGuard / InverseTerminalGuard g(write_data, active): escape sequences when active -- colour is off here */
static inline void c09_guard(_Bool active) { __CPROVER_assert(!active, "model restriction: terminal guards inactive (colour off)"); }
#define C09_PRINTABLE(c) ((c) >= 0x20 && (c) <= 0x7E)
#define C09_SEP(skip) ((skip) ? 1 : 3)
#define C09_CELL(buf, k, s, e) (((k) < (size_t)(s) || (k) >= (size_t)(0x10 - (e))) ? ' ' : (C09_PRINTABLE((buf)[k]) ? (buf)[k] : ' '))
void fd_ascii_column(const uint8_t* line_buf, const uint8_t* prev_line_data, uint8_t line_invalid_start_bytes, uint8_t line_invalid_end_bytes,
                     _Bool use_color, _Bool skip_separator, _Bool print_ascii)
__CPROVER_requires(__CPROVER_is_fresh(line_buf, 16) && __CPROVER_is_fresh(prev_line_data, 16))
__CPROVER_requires(use_color == 0 && print_ascii == 1 && line_invalid_start_bytes + line_invalid_end_bytes <= 16 && g_out_n == 0 && verif_exc == 0)
__CPROVER_requires(g_opos >= C09_SEP(skip_separator) && g_opos < C09_SEP(skip_separator) + 16)
__CPROVER_ensures(verif_exc == 0 && g_out_n == C09_SEP(skip_separator) + 16)                                      /* separator + 16 cells */
__CPROVER_ensures(g_och == C09_CELL(line_buf, g_opos - C09_SEP(skip_separator), line_invalid_start_bytes, line_invalid_end_bytes))
__CPROVER_assigns(g_out_n, g_och);
#endif
