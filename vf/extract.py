"""Extraction engine: builds the verified C text from the current source tree (DESIGN.md 3.1).

A property module calls

    src = Source(ctx.src)                       # ctx.src = /repo (or a scratch copy for audits)
    u = Unit(ctx, 'Encoding_leaf')
    u.function(src, 'src/Encoding.hh', r'static inline int64_t ext48\(uint64_t a\)')
    ...
    path = u.write()

Every piece of text in the unit comes from the file read *now*; the table only says where
to cut and which rewrites (each with a must-fire count) to apply.
"""
import os
import re
import hashlib
from . import lex
from .lex import Rule, ExtractionBreak


def _c_name(header):
    """name of the C function a header declares (the identifier in front of the parameter list), '' when it is not a plain identifier"""
    mo = re.search(r'([A-Za-z_]\w*)\s*\(', header or '')
    return mo.group(1) if mo else ''


class Source:
    def __init__(self, root):
        self.root = root
        self._cache = {}

    def text(self, rel):
        if rel not in self._cache:
            p = os.path.join(self.root, rel)
            try:
                raw = open(p, encoding='utf-8', errors='surrogateescape').read()
            except OSError as e:
                raise ExtractionBreak('cannot read %s: %s' % (p, e))
            self._cache[rel] = lex.inline_lambdas(lex.strip_comments(raw))
        return self._cache[rel]


class Unit:
    def __init__(self, ctx, name):
        self.ctx = ctx
        self.name = name
        self.parts = []
        self.functions = []  # (file, header) for the evidence
        self.drops = set()
        # opt-in: every function() also extracts the file-local static helpers its body calls (helpers()); names in
        # auto_helpers_known are modelled elsewhere (stubs) and are not taken
        self.auto_helpers = False
        self.auto_helpers_known = ()

    # -- low-level ---------------------------------------------------------------------
    def raw(self, ctext):
        """Verbatim C glue written by the table (typedefs, macro definitions). Must not
        contain function bodies of phosg."""
        self.parts.append(ctext.rstrip() + '\n')

    def _post(self, body, where, rules, generic=True, ret_zero=None, loops=None, nloops=None,
              witness='', classmap=None, may_throw=None, fname=''):
        if generic:
            for r in lex.GENERIC:
                body = r.apply(body, where)
            body = lex.rewrite_casts(body)
            for r in lex.POST_GENERIC:
                body = r.apply(body, where)
        nthrow = 0
        if ret_zero is not None:
            body, nthrow = lex.lower_throws(body, ret_zero, classmap, witness)
        for r in rules or []:
            body = r.apply(body, where)
        if may_throw:
            body, _ = lex.propagate_exc(body, may_throw, ret_zero if ret_zero is not None else '')
        if nloops is not None:
            body = lex.inject_loop_contracts(body, loops or {}, nloops, fname)
        return body

    def function(self, src, rel, sig_regex, *, new_header=None, rules=None, ret_zero=None,
                 loops=None, nloops=None, generic=True, witness='', classmap=None, emit=True,
                 body_prefix='', must_loops=True, scope=None, may_throw=None):
        """Extract one function definition.
        new_header: C header to emit instead of the C++ one (name mangling, self parameter,
                    references as pointers).  None: reuse the C++ header after generic rewrites.
        ret_zero:   if not None, throw statements are lowered and this is the value returned.
        loops/nloops: loop-contract injection (ordinal -> text), nloops must equal the number of
                    loops found (checked even if no contract is injected when must_loops)."""
        text = src.text(rel)
        base = 0
        if scope is not None:
            _, sbody, ss, se = lex.find_def(text, scope, 'scope')
            base = text.index(sbody, ss)
            text_in = sbody
        else:
            text_in = text
        header, body, s, e = lex.find_def(text_in, sig_regex, 'function')
        s += base
        where = '%s:%s' % (rel, sig_regex)
        if nloops is None and must_loops:
            nloops = 0 if not loops else None
            if nloops is None:
                raise ExtractionBreak('%s: nloops required with loop contracts' % where)
        if self.auto_helpers and emit:
            self.helpers(src, rel, body, known=self.auto_helpers_known)
        body = self._post(body, where, rules, generic, ret_zero, loops, nloops, witness, classmap, may_throw,
                          fname=_c_name(new_header if new_header is not None else header))
        if body_prefix:
            body = '{' + body_prefix + body[1:]
        if new_header is None:
            h = header
            for r in lex.GENERIC:
                h = r.apply(h, where)
        else:
            h = new_header
        out = h.rstrip() + '\n' + body + '\n'
        self.functions.append({'file': rel, 'cxx_header': ' '.join(header.split()),
                               'c_header': ' '.join(h.split()), 'line': text.count('\n', 0, s) + 1})
        if emit:
            self.parts.append(out)
        return out

    def helpers(self, src, rel, text, known=(), rules=None, depth=3):
        """File-local helper functions: every identifier that `text` (an extracted body) calls and that is defined in
        source file `rel` as a free function with internal linkage (`static [inline] T name(params) { ... }` at namespace
        scope) is extracted as well, with the generic rewrites only, and emitted BEFORE the caller (recursively, up to
        `depth` levels).  A maintainer who factors a condition out into such a helper changes the verified text, not the
        reach of the check.  Only plain C-compatible helpers qualify: the residue scan of the unit rejects anything else
        (extraction break, exit 2).  Returns the list of helper names emitted."""
        out = []
        if depth <= 0:
            return out
        ftext = src.text(rel)
        m = lex.mask(ftext)
        have = set(known) | {f['c_header'].split('(')[0].split()[-1].lstrip('*') for f in self.functions if '(' in f['c_header']}
        for name in dict.fromkeys(re.findall(r'(?<![\w.>:])([A-Za-z_]\w*)\s*\(', lex.mask(text))):
            if name in have or name in ('if', 'while', 'for', 'switch', 'return', 'sizeof'):
                continue
            sig = r'\bstatic\s+(?:inline\s+)?(?:const\s+)?[\w:]+[\s*&]+' + re.escape(name) + r'\s*\([^(){};]*\)'
            hits = [mo for mo in re.finditer(sig, m) if m[mo.end():].lstrip().startswith('{') and m.count('{', 0, mo.start()) - m.count('}', 0, mo.start()) <= 1]
            if len(hits) != 1:
                continue
            header, body, s0, e0 = lex.find_def(ftext, sig, 'helper ' + name)
            have.add(name)
            out += self.helpers(src, rel, body, known=have, rules=rules, depth=depth - 1)
            have.update(out)
            where = '%s:helper %s' % (rel, name)
            body = self._post(body, where, rules, True, None, None, None)
            h = header
            for r in lex.GENERIC:
                h = r.apply(h, where)
            h = re.sub(r'\b(\w+)\s*&\s*(\w+)', r'\1* \2', h) if '&' in h else h
            self.functions.append({'file': rel, 'cxx_header': ' '.join(header.split()), 'c_header': ' '.join(h.split()),
                                   'line': ftext.count('\n', 0, s0) + 1, 'helper': True})
            self.parts.append(h.rstrip() + '\n' + body + '\n')
            out.append(name)
        return out

    def block(self, src, rel, func_sig_regex, intro_regex, *, new_header, rules=None, ret_zero=None,
              loops=None, nloops=None, witness='', classmap=None, emit=True, occurrence=None):
        """Extract a brace block *inside* a function (e.g. a lambda body, one branch) and emit it as
        a C function with header new_header."""
        text = src.text(rel)
        _, fbody, fs, fe = lex.find_def(text, func_sig_regex, 'enclosing function')
        header, body, s, e = lex.find_block(fbody, intro_regex, 'block')
        where = '%s:%s:%s' % (rel, func_sig_regex, intro_regex)
        if nloops is None:
            nloops = 0
        body = self._post(body, where, rules, True, ret_zero, loops, nloops, witness, classmap, fname=_c_name(new_header))
        # a cut-out block is an additional decomposition with a fixed parameter list: when an edit makes the block use a new local of
        # the enclosing function the cut no longer compiles on its own.  It is guarded so that the rest of the unit still does
        # (vf/pipeline.py defines VERIF_NO_CUT_<name> after reading the compiler's message)
        cname = _c_name(new_header)
        out = '#ifndef VERIF_NO_CUT_%s\n' % cname + new_header.rstrip() + '\n' + body + '\n#endif /* VERIF_NO_CUT_%s */\n' % cname
        self.functions.append({'file': rel, 'cxx_header': ' '.join((func_sig_regex + ' :: ' + header).split()),
                               'c_header': ' '.join(new_header.split()),
                               'line': text.count('\n', 0, fs + s) + 1})
        if emit:
            self.parts.append(out)
        return out

    def snippet(self, src, rel, regex, *, rules=None, count=1, group=0):
        """A small non-function piece (constant table, enum) matched by regex on the comment-free
        text; exactly `count` matches required; returns the rewritten text of the first."""
        text = src.text(rel)
        ms = list(re.finditer(regex, text, re.S))
        if len(ms) != count:
            raise ExtractionBreak('%s: snippet /%s/: %d matches, expected %d' % (rel, regex, len(ms), count))
        t = ms[0].group(group)
        for r in lex.GENERIC:
            t = r.apply(t)
        for r in rules or []:
            t = r.apply(t, rel + ':' + regex)
        return t

    # -- output ------------------------------------------------------------------------
    def text(self):
        return ''.join(self.parts)

    def write(self, suffix='.c', scan=True):
        t = self.text()
        if scan:
            lex.residue_scan(t, self.name)
        d = self.ctx.build_dir
        os.makedirs(d, exist_ok=True)
        p = os.path.join(d, 'x_' + self.name + suffix)
        with open(p, 'w') as f:
            f.write('/* GENERATED on every run from %s by /verif/vf/extract.py -- do not edit */\n' % self.ctx.src)
            f.write(t)
        self.path = p
        self.sha = hashlib.sha256(t.encode('utf-8', 'surrogateescape')).hexdigest()[:16]
        return p
