/* C18: trusted model of the text that phosg builds with string_printf / operator+ in format_duration, format_size and
 * format_time, and of the few libc calls parse_size / format_time make.
 *
 * A std::string produced by string_printf is modelled by c18_text: NOT by its characters but by the sequence of printf
 * conversions that produced it (one token per conversion specification / literal run), plus its length.  The decimal
 * rendering of a number is libc's job (printf); what phosg decides is WHICH value is printed with WHICH conversion in WHICH
 * order -- that is what the tokens carry.  props/C18.py (class PrintfLowering) parses the format string of every
 * string_printf call in the extracted text on every run and emits one c18_put_* call per conversion.
 *
 * What this model assumes about printf (ISO C 7.21.6.1), each assumption is a __CPROVER_assume below or stated here:
 *   %[0][w]u/lu/zu : decimal numeral of the value, at least w characters, padded on the left with '0' (flag 0) or ' '
 *   %s             : the characters of the NUL-terminated argument (model limit: at most 2 characters -- "0" / "" are what the code passes)
 *   %.Pf / %.*lf   : "[0-9]+" if P == 0 else "[0-9]+ '.' [0-9]{P}"; a negative P given through '*' counts as omitted (= 6);
 *                    the number of integer digits D is that of the value rounded at P decimals: D == 1 for v < 9.5,
 *                    D == 2 for 10 <= v < 99.5, D >= 3 for v >= 100, either neighbour in the rounding windows [9.5,10) / [99.5,100)
 *                    (model limit: 0 <= v <= 1e20, not NaN)
 * std::string::at(i) throws std::out_of_range iff i >= size() (C++ [string.access]).
 */
#ifndef STUBS_C18_TEXT_H
#define STUBS_C18_TEXT_H
#include "contracts/verif.h"

#define C18_MAXTOK 8
enum { C18_LIT = 1, C18_U64 = 2, C18_STR = 3, C18_DBL = 4 };

typedef struct {
  uint8_t kind;
  uint8_t len;        /* LIT/STR: number of characters packed in val (<= 8); U64: decimal digits of val; DBL: integer digits D */
  uint8_t width;      /* U64: minimum field width */
  uint8_t zero;       /* U64: flag '0' */
  int prec;           /* DBL: digits after the decimal point (0: no point) */
  uint64_t val;       /* U64: the value; LIT/STR: characters, first character in the low byte */
  double dval;        /* DBL: the value handed to printf */
} c18_tok;

typedef struct {
  size_t len;                 /* std::string::size() */
  uint32_t ntok;
  c18_tok tok[C18_MAXTOK];
  /* recogniser of the duration grammar [d:][h:][m:]s[.f], advanced by every appended token (specification side: see
   * contracts/C18_duration.h for the clauses that read it).  integer ':' ... then optional literal '0's then one %f token */
  bool d_bad;                 /* the text left the grammar */
  uint8_t d_nf;               /* integer fields completed by a ':' so far */
  uint64_t d_f[3];            /* their values, left to right */
  bool d_f2[3];               /* field i is rendered as exactly two characters, zero padded */
  bool d_pend;                /* an integer token waits for its ':' */
  uint64_t d_pv; bool d_p2;
  uint8_t d_lead;             /* literal '0' characters seen since the last ':' (padding of the seconds) */
  bool d_sec;                 /* the seconds token has been appended */
  uint8_t d_sec_lead;         /* '0' characters in front of it */
  uint8_t d_sec_digits;       /* its own integer digits */
  int d_sec_prec;
  double d_sec_v;
} c18_text;

/* ---- ghost record of the last "(double)(num) / den" evaluation (c18_ratio): lets the contracts speak about the integer
 * numerator and denominator of the value that is printed, without a second floating-point divider in the specification */
extern unsigned g_ratio_calls;
extern uint64_t g_ratio_num, g_ratio_den;
extern double g_ratio_val;

/* C++: static_cast<double>(num) / den  with an unsigned long long den (usual arithmetic conversions: den -> double).
 * The body is the IEEE-754 division itself; the contract (the ghosts + the range facts the callers' proofs need: a quotient of
 * a numerator below 60 * 10^6 by 10^6 is a double in [0, 60)) is PROVED on that body by its own obligation group and then used
 * in place of the divider in the proofs of the callers. */
double c18_ratio(uint64_t num, uint64_t den)
__CPROVER_requires(1)
__CPROVER_ensures(g_ratio_calls == __CPROVER_old(g_ratio_calls) + 1 && g_ratio_num == num && g_ratio_den == den)
__CPROVER_ensures(den != 0 ==> (__CPROVER_return_value == g_ratio_val && __CPROVER_return_value >= 0.0 && __CPROVER_return_value <= 18446744073709551616.0))
__CPROVER_ensures((den == 1000000 && num < 60000000) ==> __CPROVER_return_value < 60.0)
__CPROVER_assigns(g_ratio_calls, g_ratio_num, g_ratio_den, g_ratio_val)
{
  double r = (double)num / (double)den;
  g_ratio_calls++; g_ratio_num = num; g_ratio_den = den; g_ratio_val = r;
  return r;
}
/* C++: (float)num / den  with an unsigned long long den (den -> float), then promoted to double by the varargs call */
static inline double c18_ratiof(uint64_t num, uint64_t den)
{
  double r = (double)((float)num / (float)den);
  g_ratio_calls++; g_ratio_num = num; g_ratio_den = den; g_ratio_val = r;
  return r;
}

#define C18_NDIGITS(v) ((v) < 10ull ? 1 : (v) < 100ull ? 2 : (v) < 1000ull ? 3 : (v) < 10000ull ? 4 : (v) < 100000ull ? 5 : \
  (v) < 1000000ull ? 6 : (v) < 10000000ull ? 7 : (v) < 100000000ull ? 8 : (v) < 1000000000ull ? 9 : (v) < 10000000000ull ? 10 : \
  (v) < 100000000000ull ? 11 : (v) < 1000000000000ull ? 12 : (v) < 10000000000000ull ? 13 : (v) < 100000000000000ull ? 14 : \
  (v) < 1000000000000000ull ? 15 : (v) < 10000000000000000ull ? 16 : (v) < 100000000000000000ull ? 17 : \
  (v) < 1000000000000000000ull ? 18 : (v) < 10000000000000000000ull ? 19 : 20)

/* ---- duration-grammar recogniser steps ---- */
static inline void c18_d_int(c18_text* t, uint64_t v, unsigned chars, unsigned nd, unsigned zero)
{
  if (t->d_pend || t->d_sec || t->d_lead != 0) t->d_bad = 1;
  t->d_pend = 1; t->d_pv = v; t->d_p2 = (chars == 2 && (nd == 2 || zero != 0));
}
static inline void c18_d_char(c18_text* t, char c)
{
  if (c == ':') {
    if (!t->d_pend || t->d_sec || t->d_nf >= 3) t->d_bad = 1;
    else { t->d_f[t->d_nf] = t->d_pv; t->d_f2[t->d_nf] = t->d_p2; t->d_nf++; t->d_pend = 0; }
  } else if (c == '0') {
    if (t->d_pend || t->d_sec || t->d_lead >= 4) t->d_bad = 1; else t->d_lead++;
  } else {
    t->d_bad = 1;
  }
}
static inline void c18_d_sec(c18_text* t, double v, int prec, unsigned digits)
{
  if (t->d_pend || t->d_sec) t->d_bad = 1;
  t->d_sec = 1; t->d_sec_lead = t->d_lead; t->d_lead = 0; t->d_sec_digits = digits; t->d_sec_prec = prec; t->d_sec_v = v;
}

/* ---- text construction ---- */
static inline void c18_begin(c18_text* t)
{
  t->len = 0; t->ntok = 0;
  t->d_bad = 0; t->d_nf = 0; t->d_pend = 0; t->d_lead = 0; t->d_sec = 0; t->d_sec_lead = 0; t->d_sec_digits = 0;
  t->d_sec_prec = 0; t->d_sec_v = 0.0; t->d_pv = 0; t->d_p2 = 0;
  t->d_f[0] = 0; t->d_f[1] = 0; t->d_f[2] = 0; t->d_f2[0] = 0; t->d_f2[1] = 0; t->d_f2[2] = 0;
}
static inline c18_tok* c18_new_tok(c18_text* t)
{
  __CPROVER_assert(t->ntok < C18_MAXTOK, "model limit: a text has at most C18_MAXTOK printf tokens");
  c18_tok* k = &t->tok[t->ntok < C18_MAXTOK ? t->ntok : C18_MAXTOK - 1];
  t->ntok++;
  k->kind = 0; k->len = 0; k->width = 0; k->zero = 0; k->prec = 0; k->val = 0; k->dval = 0.0;
  return k;
}
static inline void c18_d_run(c18_text* t, uint64_t packed, unsigned n)
{
  if (n > 0) c18_d_char(t, (char)(packed));
  if (n > 1) c18_d_char(t, (char)(packed >> 8));
  if (n > 2) c18_d_char(t, (char)(packed >> 16));
  if (n > 3) c18_d_char(t, (char)(packed >> 24));
  if (n > 4) c18_d_char(t, (char)(packed >> 32));
  if (n > 5) c18_d_char(t, (char)(packed >> 40));
  if (n > 6) c18_d_char(t, (char)(packed >> 48));
  if (n > 7) c18_d_char(t, (char)(packed >> 56));
}
/* a run of 1..8 literal characters of the format string (first character in the low byte) */
static inline void c18_put_lit(c18_text* t, uint64_t packed, unsigned n)
{
  c18_tok* k = c18_new_tok(t);
  k->kind = C18_LIT; k->len = n; k->val = packed;
  t->len += n;
  c18_d_run(t, packed, n);
}
/* %s */
static inline void c18_put_cstr(c18_text* t, const char* s)
{
  c18_tok* k = c18_new_tok(t);
  unsigned n = 0; uint64_t packed = 0;
  if (s[0] != 0) {
    n = 1; packed = (uint8_t)s[0];
    if (s[1] != 0) {
      n = 2; packed |= ((uint64_t)(uint8_t)s[1]) << 8;
      __CPROVER_assert(s[2] == 0, "model limit: %s arguments have at most 2 characters");
    }
  }
  k->kind = C18_STR; k->len = n; k->val = packed;
  t->len += n;
  c18_d_run(t, packed, n);
}
/* %[0][width]u / lu / zu */
static inline void c18_put_u64(c18_text* t, uint64_t v, unsigned width, unsigned zero)
{
  c18_tok* k = c18_new_tok(t);
  unsigned nd = C18_NDIGITS(v);
  unsigned chars = nd < width ? width : nd;
  k->kind = C18_U64; k->len = nd; k->width = width; k->zero = zero; k->val = v;
  t->len += chars;
  c18_d_int(t, v, chars, nd, zero);
}
unsigned nondet_c18_unsigned(void);
char nondet_c18_char(void);
int nondet_c18_int(void);
size_t nondet_c18_size(void);
/* %.*lf / %.Pf  (prec < 0: precision omitted = 6) */
static inline void c18_put_double(c18_text* t, int prec, double v)
{
  c18_tok* k = c18_new_tok(t);
  __CPROVER_assert(v >= 0.0 && v <= 1e20, "model limit: %f is modelled for 0 <= v <= 1e20 only");
  if (prec < 0) prec = 6;
  unsigned d = nondet_c18_unsigned();
  __CPROVER_assume(d >= 1 && d <= 21);
  __CPROVER_assume(!(v < 9.5) || d == 1);
  __CPROVER_assume(!(v >= 10.0) || d >= 2);
  __CPROVER_assume(!(v < 99.5) || d <= 2);
  __CPROVER_assume(!(v >= 100.0) || d >= 3);
  k->kind = C18_DBL; k->len = d; k->prec = prec; k->dval = v;
  t->len += d + (prec > 0 ? 1 + (size_t)prec : 0);
  c18_d_sec(t, v, prec, d);
}
/* operator+(std::string, const std::string&): the tokens of o are appended (model limit: o has at most 2 tokens) */
static inline void c18_put_tok(c18_text* t, const c18_tok* s)
{
  if (s->kind == C18_LIT || s->kind == C18_STR) {
    c18_tok* k = c18_new_tok(t); *k = *s; t->len += s->len; c18_d_run(t, s->val, s->len);
  } else if (s->kind == C18_U64) {
    unsigned chars = s->len < s->width ? s->width : s->len;
    c18_tok* k = c18_new_tok(t); *k = *s; t->len += chars; c18_d_int(t, s->val, chars, s->len, s->zero);
  } else {
    c18_tok* k = c18_new_tok(t); *k = *s; t->len += s->len + (s->prec > 0 ? 1 + (size_t)s->prec : 0);
    c18_d_sec(t, s->dval, s->prec, s->len);
  }
}
static inline void c18_append(c18_text* t, const c18_text* o)
{
  __CPROVER_assert(o->ntok <= 2, "model limit: operator+ with a right operand of at most 2 printf tokens");
  if (o->ntok > 0) c18_put_tok(t, &o->tok[0]);
  if (o->ntok > 1) c18_put_tok(t, &o->tok[1]);
}
static inline size_t c18_size(const c18_text* t) { return t->len; }
/* std::string::at on the text of a single %f conversion */
static inline char c18_at(const c18_text* t, size_t i)
{
  if (i >= t->len) { verif_exc = EXC_out_of_range; return 0; }
  __CPROVER_assert(t->ntok == 1 && t->tok[0].kind == C18_DBL, "model limit: at() is modelled on the text of one %f conversion only");
  char dg = nondet_c18_char();
  __CPROVER_assume(dg >= '0' && dg <= '9');
  return (t->tok[0].prec > 0 && i == t->tok[0].len) ? '.' : dg;
}

/* ---- libc used by parse_size ---- */
/* isdigit in the "C" locale (ISO C 7.4.1.5).  Argument values outside unsigned char / EOF are formally undefined; glibc
 * answers 0 for -128..-1, which is what this model does. */
static inline int c18_isdigit(int c) { return c >= '0' && c <= '9'; }

#endif
