/* C09 O-4: one parser step against its transition contract; O-2: step-simulation lemmas (formatter step -> parser steps). */
#include "contracts/C03_leaf.h"
#include "x_Encoding_leaf.c"
#include "x_c09_prelude.c"
#include "contracts/C09_step.h"
int verif_exc; size_t g_vk, g_k, g_w, g_j, g_n; bool g_quoted, g_returned; uint8_t g_vval;
const char* g_end; const char* g_text; char g_c0, g_c1, g_c2, g_c3;
unsigned g_st_calls; const char* g_st_arg; const char* g_st_end; int g_st_base; int g_st_kind;
unsigned long long g_num; double g_dbl; float g_flt; unsigned g_load_calls;
/* the parser state (locals of parse_data_string) */
const char* in; uint8_t chr;
bool reading_string, reading_unicode_string, reading_comment, reading_multiline_comment, reading_high_nybble, reading_filename;
bool big_endian, mask_enabled, allow_files;
vstr* data; vstr* mask; vstr filename;
#include "x_pds_step.c"
#include "x_fds_step.c"

void h_step(void)
{
  pds_step();
  VERIF_REACH();
}
