/* C18: contract of format_duration, written from the property statement:
 *   "format_duration never throws and, for every microsecond count and every subsecond precision, its [d:][h:][m:]s[.f] text has
 *    zero-padded inner fields and evaluates back to the input duration rounded at the printed precision."
 * The text is a c18_text (stubs/C18_text.h): the printf conversions that produced it.  The recogniser of the grammar
 * [d:][h:][m:]s[.f] (d_* members) gives the integer fields left to right and the one %f token of the seconds.
 *
 * "evaluates back": days/hours/minutes are the LAST three integer fields (whatever their number), W = their value in
 * microseconds (W1 + W2 + W3); the seconds token prints the double  (usecs - W) / 10^6  (numerator and denominator of that division are the
 * ghosts of c18_ratio), at the requested precision.  How printf rounds that double to P decimals is libc (not decided here). */
#ifndef CONTRACTS_C18_DURATION_H
#define CONTRACTS_C18_DURATION_H
#include "stubs/C18_text.h"
#include "spec/C18_arith.h"

extern uint64_t g_dur_lo, g_dur_hi;

#define DUR_N(t)    ((t)->d_nf)
#define DUR_MIN(t)  ((t)->d_nf >= 1 ? (t)->d_f[(t)->d_nf - 1] : 0)
#define DUR_HR(t)   ((t)->d_nf >= 2 ? (t)->d_f[(t)->d_nf - 2] : 0)
#define DUR_DAY(t)  ((t)->d_nf >= 3 ? (t)->d_f[(t)->d_nf - 3] : 0)
/* value of the integer fields in microseconds; the bounds keep every product below 2^64 (no wrap-around in the specification) */
#define DUR_W1(t) (DUR_DAY(t) * C18_US_DAY)
#define DUR_W2(t) (DUR_HR(t) * C18_US_HOUR)
#define DUR_W3(t) (DUR_MIN(t) * C18_US_MIN)
#define DUR_NOWRAP(t) (DUR_DAY(t) <= 213503982ull && DUR_HR(t) <= 5124095576ull && DUR_MIN(t) <= 307445734561ull)

void format_duration(c18_text* ret, uint64_t usecs, int8_t subsecond_precision)
__CPROVER_requires(__CPROVER_is_fresh(ret, sizeof(c18_text)))
__CPROVER_requires(verif_exc == 0 && g_ratio_calls == 0)
__CPROVER_requires(g_dur_lo <= usecs && usecs <= g_dur_hi)          /* case split over the magnitude (one obligation group per range; the ranges cover 0 .. 2^64-1) */
__CPROVER_assigns(verif_exc, __CPROVER_object_whole(ret), g_ratio_calls, g_ratio_num, g_ratio_den, g_ratio_val)
/* 1. never throws */
__CPROVER_ensures(verif_exc == 0)
/* 2. the text is in the grammar [d:][h:][m:]s[.f]: at most three integer fields each followed by ':', then the seconds */
__CPROVER_ensures(verif_exc == 0 ==> (!ret->d_bad && ret->d_sec && !ret->d_pend && ret->d_lead == 0 && ret->d_nf <= 3))
/* 3. inner fields are zero-padded: every field but the first is exactly two characters (integer part, for the seconds) */
__CPROVER_ensures(verif_exc == 0 ==> ((ret->d_nf >= 2 ==> ret->d_f2[1]) && (ret->d_nf >= 3 ==> ret->d_f2[2])))
__CPROVER_ensures(verif_exc == 0 ==> (ret->d_nf >= 1 ==> ret->d_sec_lead + ret->d_sec_digits == 2))
__CPROVER_ensures(verif_exc == 0 ==> (ret->d_nf == 0 ==> ret->d_sec_lead == 0))
/* 4. evaluates back to the input: fields * unit + seconds == usecs, the seconds token prints (usecs - W) / 10^6 */
__CPROVER_ensures(verif_exc == 0 ==> (g_ratio_calls == 1 && ret->d_sec_v == g_ratio_val && g_ratio_den == 1000000))
__CPROVER_ensures(verif_exc == 0 ==> (DUR_NOWRAP(ret) && DUR_W1(ret) <= usecs && DUR_W2(ret) <= usecs - DUR_W1(ret) &&
                                      DUR_W3(ret) <= usecs - DUR_W1(ret) - DUR_W2(ret)))
__CPROVER_ensures(verif_exc == 0 ==> g_ratio_num == usecs - DUR_W1(ret) - DUR_W2(ret) - DUR_W3(ret))
/* 5. mixed-radix canonical form: h < 24, m < 60, s < 60, no leading zero field */
__CPROVER_ensures(verif_exc == 0 ==> ((ret->d_nf >= 2 ==> DUR_MIN(ret) < 60) && (ret->d_nf >= 3 ==> DUR_HR(ret) < 24)))
__CPROVER_ensures(verif_exc == 0 ==> (g_ratio_num < 60000000 && (ret->d_nf >= 1 ==> ret->d_f[0] != 0)))
/* 6. printed precision: the requested one; a negative request selects a default in 0..6 */
__CPROVER_ensures(verif_exc == 0 ==> (subsecond_precision >= 0 ? ret->d_sec_prec == subsecond_precision
                                                               : (ret->d_sec_prec >= 0 && ret->d_sec_prec <= 6)))
;
#endif
