"""goto-cc -> goto-instrument --dfcc -> cbmc portfolio, result parsing, vacuity guards (DESIGN.md 3.5)."""
import json
import os
import re
import resource
import subprocess
import threading
import time
from dataclasses import dataclass, field
from typing import Optional, List, Dict, Any

VERIF = os.path.dirname(os.path.dirname(os.path.abspath(__file__)))

ENGINES = {
    'minisat': [],
    'cadical': ['--sat-solver', 'cadical'],
    'cvc5': ['--cvc5'],
    'z3': ['--z3'],
}

DEFAULT_CHECKS = ['--bounds-check', '--pointer-check', '--div-by-zero-check', '--signed-overflow-check',
                  '--pointer-overflow-check', '--undefined-shift-check']

ALL_LIB = ['src/Arguments.cc', 'src/Encoding.cc', 'src/Filesystem.cc', 'src/Hash.cc', 'src/Image.cc', 'src/JSON.cc', 'src/Network.cc',
           'src/Process.cc', 'src/Random.cc', 'src/Strings.cc', 'src/Time.cc', 'src/Tools.cc', 'src/UnitTest.cc']
MEM_LIMIT = 8 << 30
_slots = threading.BoundedSemaphore(int(os.environ.get('VERIF_SOLVER_SLOTS', '14')))


@dataclass
class Replay:
    driver: str                      # path under /verif/replay, e.g. 'C03/encoding.cc'
    mode: str                        # first argument given to the driver (which function/clause)
    sources: List[str] = field(default_factory=list)   # repo-relative .cc files to compile in
    search: Optional[str] = None     # optional replay-search harness entry (bounded, fixed-size inputs)
    search_unwind: int = 0
    extra: List[str] = field(default_factory=list)     # constant extra args (e.g. the type name)
    small_define: Optional[str] = None  # -D that restricts inputs to small sizes: used to re-ask for a replayable counterexample
    leaks: bool = False              # run the driver with LeakSanitizer on (the driver checks with __lsan_do_recoverable_leak_check)


@dataclass
class Group:
    name: str                        # stable obligation-group name, e.g. 'Encoding.ext48'
    harness: str                     # C file relative to /verif
    entry: str                       # harness function (entry point)
    function: str                    # the phosg function(s) this group is about (reporting only)
    enforce: Optional[str] = None
    replace: List[str] = field(default_factory=list)
    loops: bool = False
    rec: bool = False
    defines: List[str] = field(default_factory=list)
    kind: str = 'loop-free'          # loop-free | loop-contract | recursive | lemma | bounded
    bound: str = ''                  # textual statement of the bound when kind == 'bounded'
    cbmc_flags: List[str] = field(default_factory=list)
    checks: Optional[List[str]] = None
    timeout: int = 120
    engines: Optional[List[str]] = None
    first: str = 'minisat'           # engine tried alone during the first stage
    stage1: int = 8
    replay: Optional[Replay] = None
    min_post: int = 1
    big_endian: bool = False
    object_bits: Optional[int] = None
    clause_note: str = ''            # what the contract says, for the evidence samples
    tier: str = 'quick'              # 'quick' groups run in both tiers, 'thorough' only in thorough
    two_engines: bool = False
    covered_by: str = ''             # for a group about a cut-out block (Unit.block): the group of the enclosing function that decides the same
                                     # clause; when the cut no longer compiles on its own the group is skipped in favour of that one
    fallback_unwind: int = 0         # if >0: when only auxiliary (invariant/frame) obligations fail, re-check the contract on the
                                     # loop-unwound code for small inputs (replay.small_define) to look for a real postcondition failure
    # results
    result: Dict[str, Any] = field(default_factory=dict)


REACH = 'VERIF_REACH'


class Undecided(Exception):
    pass


def _limits():
    resource.setrlimit(resource.RLIMIT_AS, (MEM_LIMIT, MEM_LIMIT))
    os.setsid()


def run(cmd, timeout, cwd=None):
    t0 = time.time()
    try:
        p = subprocess.run(cmd, stdout=subprocess.PIPE, stderr=subprocess.PIPE, timeout=timeout, cwd=cwd,
                           preexec_fn=_limits)
        return p.returncode, p.stdout.decode('utf-8', 'replace'), p.stderr.decode('utf-8', 'replace'), time.time() - t0
    except subprocess.TimeoutExpired as e:
        return None, (e.stdout or b'').decode('utf-8', 'replace'), 'TIMEOUT', time.time() - t0


def compile_group(ctx, g: Group, extra_defines=(), suffix='', no_loop_contracts=False):
    """goto-cc + goto-instrument. Returns path of the instrumented binary. Raises Undecided on tool failure."""
    d = os.path.join(ctx.build_dir, 'g_' + re.sub(r'[^A-Za-z0-9_.-]', '_', g.name) + ('_be' if g.big_endian else '') + suffix)
    os.makedirs(d, exist_ok=True)
    a = os.path.join(d, 'a.gb')
    b = os.path.join(d, 'b.gb')
    cmd = ['goto-cc', '--function', g.entry, '-I', VERIF, '-I', ctx.build_dir, '-DVERIF=1']
    if g.big_endian:
        cmd += ['--big-endian', '-D__BYTE_ORDER__=__ORDER_BIG_ENDIAN__', '-DVERIF_BE=1']
    cmd += ['-D' + x for x in list(g.defines) + list(extra_defines)]
    cmd += [os.path.join(VERIF, g.harness), '-o', a]
    rc, out, err, _ = run(cmd, 300)
    g.result['goto_cc'] = ' '.join(cmd)
    if rc != 0:
        raise Undecided('goto-cc failed for %s:\n%s\n%s' % (g.name, out[-3000:], err[-3000:]))
    if g.enforce or g.replace or g.loops:
        replace = list(g.replace)
        while True:
            cmd = ['goto-instrument', '--dfcc', g.entry]
            if g.enforce:
                cmd += ['--enforce-contract-rec' if g.rec else '--enforce-contract', g.enforce]
            for r in replace:
                cmd += ['--replace-call-with-contract', r]
            if g.loops and not no_loop_contracts:
                cmd += ['--apply-loop-contracts']
            cmd += [a, b]
            rc, out, err, _ = run(cmd, 600)
            g.result['goto_instrument'] = ' '.join(cmd)
            if rc == 0:
                break
            # goto-instrument aborts when a callee named for replacement is never called in this version of the code
            # (e.g. a library call that a source edit removed): drop it and retry -- nothing is replaced that is not there
            mo = re.search(r"Function to replace '([^']+)' not found", out + err)
            if mo and mo.group(1) in replace:
                replace.remove(mo.group(1))
                continue
            raise Undecided('goto-instrument failed for %s:\n%s\n%s' % (g.name, out[-3000:], err[-3000:]))
    else:
        b = a
    g.result['binary'] = b
    return b


def cbmc_cmd(g: Group, binary, engine, trace=False, prop=None):
    cmd = ['cbmc', binary] + (g.checks if g.checks is not None else DEFAULT_CHECKS)
    # plain-text UI for the verdict run (the JSON UI always builds a counterexample trace for every failed property,
    # i.e. for the VERIF_REACH guard of every group -- slow and, for wide float code, out of memory); JSON only for traces
    cmd += (['--json-ui'] if trace else []) + ['--verbosity', '6', '--drop-unused-functions']
    if g.object_bits:
        cmd += ['--object-bits', str(g.object_bits)]
    cmd += g.cbmc_flags + ENGINES[engine]
    if trace:
        cmd += ['--trace']
    if prop:
        cmd += ['--property', prop]
    return cmd


_RES = re.compile(r'^\[([^\]]+)\] (.*): (SUCCESS|FAILURE|UNKNOWN|ERROR)$')
_HDR = re.compile(r'^(\S+) function (\S+)$')


def parse_text(out):
    """Plain-text cbmc output -> same shape as parse_json."""
    results, status, msgs = [], None, []
    cur_file, cur_fn = '', ''
    for line in out.split('\n'):
        line = line.rstrip()
        mo = _RES.match(line)
        if mo:
            name, mid, st = mo.groups()
            f, ln = cur_file, ''
            m2 = re.match(r'(?:file (\S+) )?(?:function (\S+) )?(?:line (\d+) )?(.*)$', mid)
            if m2:
                f = m2.group(1) or cur_file
                ln = m2.group(3) or ''
                desc = m2.group(4)
            else:
                desc = mid
            results.append({'property': name, 'description': desc, 'status': st,
                            'sourceLocation': {'file': f, 'line': ln, 'function': cur_fn}})
            continue
        mo = _HDR.match(line)
        if mo:
            cur_file, cur_fn = mo.groups()
            continue
        if line.startswith('VERIFICATION SUCCESSFUL'):
            status = 'success'
        elif line.startswith('VERIFICATION FAILED'):
            status = 'failure'
        elif 'ignoring' in line.lower() or 'parse error' in line.lower() or 'error running' in line.lower():
            msgs.append(line)
    if status is None or not results:
        return None
    return _finish(results, status, msgs)


def parse_json(out):
    """Returns (results list, status string, messages) or None if the output is not a complete answer."""
    if not out.lstrip().startswith('['):
        return parse_text(out)
    try:
        j = json.loads(out)
    except Exception:
        return None
    results, status, msgs = None, None, []
    for o in j:
        if isinstance(o, dict):
            if 'result' in o:
                results = o['result']
            if 'cProverStatus' in o:
                status = o['cProverStatus']
            if 'messageText' in o:
                msgs.append(o['messageText'])
    if results is None or status not in ('success', 'failure'):
        return None
    return _finish(results, status, msgs)


def _finish(results, status, msgs):
    bad = [m for m in msgs if 'ignoring' in m.lower() or 'parse error' in m.lower() or 'error running' in m.lower()]
    if bad:
        return None
    # an SMT back end that failed leaves ERROR statuses
    anyfail = any(r.get('status') == 'FAILURE' and r.get('description') != REACH for r in results)
    for r in results:
        st = r.get('status')
        if st in ('SUCCESS', 'FAILURE'):
            continue
        # cbmc leaves a property UNKNOWN when the run already refuted other properties; that is an answer for the
        # refuted ones only.  Any other status (ERROR ...) or UNKNOWN without a refutation is a non-answer.
        if st == 'UNKNOWN' and anyfail:
            continue
        return None
    return results, status, msgs


class _Race:
    def __init__(self):
        self.lock = threading.Lock()
        self.answer = None
        self.procs = []
        self.done = threading.Event()


def _engine_run(cmd, timeout, race, engine, log):
    with _slots:
        if race.done.is_set():
            return
        t0 = time.time()
        for attempt in (1, 2, 3):
            try:
                p = subprocess.Popen(cmd, stdout=subprocess.PIPE, stderr=subprocess.PIPE, preexec_fn=_limits)
            except OSError as e:
                log.append((engine, 'spawn failed %s' % e, 0))
                return
            with race.lock:
                race.procs.append(p)
            try:
                out, err = p.communicate(timeout=timeout)
            except subprocess.TimeoutExpired:
                _kill(p)
                out, err = p.communicate()
                log.append((engine, 'timeout', time.time() - t0))
                return
            if p.returncode in (0, 10) or race.done.is_set() or p.returncode < 0:
                break
            if b'too many addressed objects' in out + err and '--object-bits' in cmd:
                # the object-bits budget of the group (kept small on purpose) does not cover this version of the code: doubled twice at most
                k = cmd.index('--object-bits') + 1
                if int(cmd[k]) < 14:
                    cmd = cmd[:k] + [str(min(14, int(cmd[k]) + 2))] + cmd[k + 1:]
                    log.append((engine, 'too many addressed objects, retrying with --object-bits %s' % cmd[k], time.time() - t0))
                    continue
            # a crash of the tool (rc 6 = abort seen under heavy load) is retried once
            log.append((engine, 'crashed rc=%s, retrying' % p.returncode, time.time() - t0))
            time.sleep(1.0)
        dt = time.time() - t0
        if race.done.is_set():
            return
        parsed = parse_json(out.decode('utf-8', 'replace')) if p.returncode in (0, 10) else None
        if parsed is None:
            log.append((engine, 'no answer (rc=%s)' % p.returncode, dt))
            return
        with race.lock:
            if race.answer is None:
                race.answer = (engine, parsed, dt, out)
                race.done.set()
        log.append((engine, 'answered', dt))


def _kill(p):
    try:
        os.killpg(os.getpgid(p.pid), 9)
    except Exception:
        try:
            p.kill()
        except Exception:
            pass


def portfolio(g: Group, binary, trace=False, prop=None, engines=None, timeout=None):
    """Staged portfolio. Returns (engine, (results,status,msgs), seconds, log, raw). Raises Undecided."""
    engines = engines or g.engines or ['minisat', 'cadical', 'cvc5', 'z3']
    timeout = timeout or g.timeout
    log = []
    t0 = time.time()
    first = g.first if g.first in engines else engines[0]
    race = _Race()
    _engine_run(cbmc_cmd(g, binary, first, trace, prop), min(g.stage1, timeout), race, first, log)
    if race.answer is None and (len(engines) > 1 or timeout > g.stage1):
        ths = []
        for e in engines:
            th = threading.Thread(target=_engine_run, args=(cbmc_cmd(g, binary, e, trace, prop), timeout, race, e, log))
            th.start()
            ths.append(th)
        while any(t.is_alive() for t in ths):
            if race.done.wait(0.2):
                break
        with race.lock:
            for p in race.procs:
                if p.poll() is None:
                    _kill(p)
        for t in ths:
            t.join()
    if race.answer is None:
        raise Undecided('no engine answered %s within %ds: %s' % (g.name, timeout, log))
    engine, parsed, dt, raw = race.answer
    return engine, parsed, time.time() - t0, log, raw


AUX_PAT = re.compile(r'(loop_invariant_base|loop_invariant_step|loop_decreases|loop_assigns|loop_step_unwinding|\.precondition\.|unwind|no-body|recursion)')   # function-level `.assigns.` (frame) failures are primary: the frame is part of the contract


def classify(r):
    """primary: postconditions, harness assertions and safety checks inside the code under contract;
    aux: invariant/variant/frame obligations and callee preconditions (a failing aux obligation alone
    means the proof no longer goes through, not that the property is known broken)."""
    name = r.get('property', '')
    desc = r.get('description', '')
    if desc == REACH:
        return 'reach'
    if AUX_PAT.search(name):
        return 'aux'
    return 'primary'


def _bounded_only(ctx, g, why):
    """The loop contracts of g do not fit the code any more (the unit only compiles without them): bounded stand-in."""
    b3 = compile_group(ctx, g, [g.replay.small_define, 'VERIF_NO_LOOP_CONTRACTS=1'], '_unwound', no_loop_contracts=True)
    flags = list(g.cbmc_flags) + ['--unwindset', ','.join('%s.%d:%d' % (g.enforce, k, g.fallback_unwind) for k in range(6)),
                                  '--unwind', str(max(g.fallback_unwind, 40)), '--unwinding-assertions']
    g2 = Group(**{**{f: getattr(g, f) for f in ('name', 'harness', 'entry', 'function', 'checks', 'object_bits', 'first', 'stage1')},
                  'cbmc_flags': flags, 'timeout': max(g.timeout, 180)})
    e5, (res5, st5, _), dt5, log5, raw5 = portfolio(g2, b3, engines=['minisat', 'cadical'])
    f5 = [r for r in res5 if r['status'] == 'FAILURE' and classify(r) == 'primary' and 'unwind' not in r['property']]
    if not f5:
        raise Undecided('the loop contracts of %s no longer fit the code (the unit compiles only without them) and the bounded re-check '
                        '(unwind %d, small inputs) found no failing postcondition: proof broken, no violation known\n%s'
                        % (g.name, g.fallback_unwind, why[-600:]))
    failed = []
    for r in f5[:3]:
        sl = r.get('sourceLocation', {})
        failed.append({'name': r['property'], 'description': r.get('description', '') + ' [the loop contracts no longer fit the code; found on the loop-unwound code, unwind %d, small inputs]' % g.fallback_unwind,
                       'status': 'FAILURE', 'class': 'primary', 'file': sl.get('file', ''), 'line': sl.get('line', ''), 'function': sl.get('function', '')})
    g.result.update({'engine': e5, 'seconds': round(dt5, 2), 'log': [(e, s, round(t, 2)) for e, s, t in log5], 'obligations': list(failed), 'failed': failed,
                     'bounded_fallback': 'loop contracts do not compile against the edited code; postcondition fails on the unwound code',
                     'fallback_flags': flags, 'binary': b3, 'cbmc': ' '.join(cbmc_cmd(g2, b3, e5))})
    try:
        import copy as _copy
        gt = _copy.copy(g)
        gt.cbmc_flags = flags
        e3, (res3, st3, _), dt3, log3, raw3 = portfolio(gt, b3, trace=True, prop=failed[0]['name'], engines=['minisat', 'cadical'], timeout=max(g.timeout, 60))
        g.result['trace_inputs'] = trace_inputs(res3, failed[0]['name'])
        g.result['trace_property'] = failed[0]['name']
    except Undecided:
        g.result['trace_inputs'] = None
    g.result['wall'] = 0
    return None


def _broken_cuts(msg):
    """Names of the cut-out blocks (#ifndef VERIF_NO_CUT_<name> regions of the generated units) in which the compiler reports an error."""
    names = set()
    for mo in re.finditer(r'^(/\S*?/x_[\w.]+):(\d+):\d+: error', msg, re.M):
        try:
            lines = open(mo.group(1)).read().split('\n')
        except OSError:
            continue
        for k in range(min(int(mo.group(2)), len(lines)) - 1, -1, -1):
            m2 = re.match(r'#ifndef VERIF_NO_CUT_(\w+)', lines[k])
            if m2:
                names.add(m2.group(1))
                break
            if lines[k].startswith('#endif /* VERIF_NO_CUT_'):
                break
    return names


def _compile_without_broken_cuts(ctx, g):
    """compile_group; cut-out blocks that do not compile on their own are switched off one by one (they are additional decompositions;
    the group of the cut itself is skipped when the group of the enclosing function covers the clause, see Group.covered_by)."""
    off = set()
    while True:
        try:
            return compile_group(ctx, g)
        except Undecided as ex:
            cuts = _broken_cuts(str(ex)) - off if 'goto-cc failed' in str(ex) else set()
            if not cuts:
                raise
            if g.enforce in cuts or g.entry in ('h_' + c for c in cuts):
                if g.covered_by:
                    g.result['skipped'] = ('the cut-out block %s no longer compiles on its own (it uses a local of the enclosing function that is not among '
                                           'its parameters); the clause is decided by group %s on the whole function' % (g.enforce, g.covered_by))
                    return None
                raise
            off |= cuts
            g.defines = list(g.defines) + ['VERIF_NO_CUT_%s=1' % c for c in sorted(cuts)]
            g.result['cuts_switched_off'] = sorted(off)


def verify_group(ctx, g: Group):
    """Fills g.result. Never raises for verdicts; raises Undecided for tool trouble."""
    t0 = time.time()
    try:
        binary = _compile_without_broken_cuts(ctx, g)
        if binary is None:
            return g
    except Undecided as ex:
        if 'goto-cc failed' not in str(ex):
            raise
        # The extracted unit does not compile.  One recoverable cause: an injected loop contract names a local variable that an edit
        # renamed or removed.  Re-compile without the loop contracts (-DVERIF_NO_LOOP_CONTRACTS):
        #  - a group without loop contracts of its own is verified as usual (the broken contract belongs to another function of the unit);
        #  - a group with loop contracts falls back to the bounded stand-in (contract enforced on the unwound code, small inputs): a failing
        #    postcondition there is a violation with a replayable input; otherwise the group stays undecided (the proof is broken, exit 2).
        broken = sorted(set(re.findall(r"In function '(\w+)'", str(ex))))
        mine = (not broken) or (g.enforce in broken)
        if g.loops and mine and not (g.fallback_unwind and g.replay is not None and g.replay.small_define):
            raise
        try:
            if not (g.loops and mine):
                # the loop contracts that do not compile belong to other functions of the unit: switched off function by function
                g.defines = list(g.defines) + (['VERIF_NO_LOOP_CONTRACTS_%s=1' % f for f in broken] or ['VERIF_NO_LOOP_CONTRACTS=1'])
                binary = compile_group(ctx, g)
            else:
                return _bounded_only(ctx, g, str(ex))
        except Undecided as ex2:
            raise Undecided(str(ex2) if 'no longer fit the code' in str(ex2) else ('[bounded re-check without the loop contracts: %s]\n' % str(ex2)[:600] + str(ex)))
    engine, (results, status, msgs), dt, log, raw = portfolio(g, binary)
    obl = []
    reach_seen, reach_failed = False, False
    for r in results:
        c = classify(r)
        if c == 'reach':
            reach_seen = True
            reach_failed = reach_failed or r['status'] == 'FAILURE'
            continue
        sl = r.get('sourceLocation', {})
        obl.append({'name': r['property'], 'description': r.get('description', ''), 'status': r['status'],
                    'class': c, 'file': sl.get('file', ''), 'line': sl.get('line', ''), 'function': sl.get('function', '')})
    g.result.update({'engine': engine, 'seconds': round(dt, 2), 'log': [(e, s, round(t, 2)) for e, s, t in log],
                     'obligations': obl, 'cbmc': ' '.join(cbmc_cmd(g, binary, engine))})
    # a call of a function that has no body in the verified text (dfcc: "undefined function should be unreachable") says that the code now
    # calls something the extraction does not cover -- e.g. a new file-local helper: the verified text is incomplete, nothing is known
    # about the property (exit 2), whatever else fails
    nobody = [o for o in obl if o['status'] == 'FAILURE' and 'undefined function should be unreachable' in o['description']]
    if nobody:
        raise Undecided('%s: the code calls %s, which is not part of the extracted text (no body, no contract): the verified text does not cover '
                        'this version of the function' % (g.name, ', '.join(sorted({o['name'].split('.')[0] for o in nobody}))))
    has_primary_failure = any(o['status'] == 'FAILURE' and o['class'] == 'primary' for o in obl)
    if (not reach_seen or not reach_failed) and not has_primary_failure:
        # (when a primary obligation is refuted the run is not vacuous even if the end of the harness became unreachable,
        #  e.g. a mutated loop that can no longer exit under its invariant)
        raise Undecided('vacuity guard: the reachability assertion of %s did not fail (precondition unsatisfiable '
                        'or harness does not reach its end)' % g.name)
    npost = sum(1 for o in obl if o['class'] == 'primary' and ('postcondition' in o['name'] or 'assertion' in o['name']))
    if npost < g.min_post:
        raise Undecided('vacuity guard: %s generated %d postcondition/assertion obligations, expected >= %d'
                        % (g.name, npost, g.min_post))
    if g.loops and not any('loop_invariant_step' in o['name'] for o in obl):
        raise Undecided('loop contract of %s was dropped (no loop_invariant_step obligation)' % g.name)
    if g.kind == 'bounded' and any('unwind' in o['name'] and o['status'] == 'FAILURE' for o in obl) and \
            not any(o['status'] == 'FAILURE' and o['class'] == 'primary' for o in obl):
        raise Undecided('unwinding assertion failed in bounded group %s: bound too small' % g.name)
    failed = [o for o in obl if o['status'] == 'FAILURE']
    g.result['failed'] = failed
    if g.two_engines and not failed:
        others = [e for e in (g.engines or ['minisat', 'cadical', 'cvc5', 'z3']) if e != engine]
        try:
            e2, (res2, st2, _), dt2, log2, _ = portfolio(g, binary, engines=others)
            g.result['second_engine'] = e2
            f2 = [r for r in res2 if r['status'] == 'FAILURE' and classify(r) != 'reach']
            if f2:
                raise Undecided('engines disagree on %s: %s proves, %s refutes %s' % (g.name, engine, e2, f2[0]['property']))
        except Undecided as ex:
            if 'disagree' in str(ex):
                raise
            g.result['second_engine'] = 'none answered'
    if failed and not any(o['class'] == 'primary' for o in failed) and g.fallback_unwind and g.replay is not None and g.replay.small_define:
        # Only invariant/frame obligations fail: the proof does not go through, which is not yet a violation.  Bounded
        # stand-in (labelled as such): enforce the same contract on the code with its loops unwound, inputs restricted to
        # small sizes; a postcondition that fails there is a concrete violation with a replayable input.
        try:
            saved = {k: g.result.get(k) for k in ('goto_cc', 'goto_instrument', 'binary')}
            b3 = compile_group(ctx, g, [g.replay.small_define], '_unwound', no_loop_contracts=True)
            g.result.update(saved)
            g2 = Group(**{**{f: getattr(g, f) for f in ('name', 'harness', 'entry', 'function', 'checks', 'object_bits', 'first', 'stage1')},
                          'cbmc_flags': list(g.cbmc_flags) + ['--unwindset', ','.join('%s.%d:%d' % (g.enforce, k, g.fallback_unwind) for k in range(6)),
                                                            '--unwind', str(max(g.fallback_unwind, 40)), '--unwinding-assertions'],
                          'timeout': max(g.timeout, 180)})   # the global bound is for goto-instrument's own write-set loops
            e5, (res5, st5, _), dt5, log5, raw5 = portfolio(g2, b3, engines=['minisat', 'cadical'])
            f5 = [r for r in res5 if r['status'] == 'FAILURE' and classify(r) == 'primary' and 'unwind' not in r['property']]
            if f5:
                sl = f5[0].get('sourceLocation', {})
                o = {'name': f5[0]['property'], 'description': f5[0].get('description', '') + ' [found on the loop-unwound code, unwind %d, small inputs]' % g.fallback_unwind,
                     'status': 'FAILURE', 'class': 'primary', 'file': sl.get('file', ''), 'line': sl.get('line', ''), 'function': sl.get('function', '')}
                failed.append(o)
                g.result['failed'] = failed
                g.result['bounded_fallback'] = 'postcondition fails on the unwound code'
                binary = b3
                g = g    # keep group; the trace below is taken from the unwound binary
                g.result['fallback_flags'] = g2.cbmc_flags
        except Undecided as ex:
            g.result['bounded_fallback'] = 'undecided: %s' % str(ex)[:200]
    if failed:
        # get a counterexample trace for the first failed primary obligation (else first aux)
        prim = [o for o in failed if o['class'] == 'primary'] or failed
        try:
            gt = g
            if g.result.get('fallback_flags'):
                import copy as _copy
                gt = _copy.copy(g)
                gt.cbmc_flags = g.result['fallback_flags']
            e3, (res3, st3, _), dt3, log3, raw3 = portfolio(gt, binary, trace=True, prop=prim[0]['name'],
                                                           engines=[engine] if not g.result.get('fallback_flags') else ['minisat', 'cadical'],
                                                           timeout=max(g.timeout, 60))
            g.result['trace_inputs'] = trace_inputs(res3, prim[0]['name'])
            g.result['trace_property'] = prim[0]['name']
        except Undecided:
            g.result['trace_inputs'] = None
        if g.replay is not None and g.replay.small_define and not g.result.get('fallback_flags'):
            # ask again for a counterexample on small sizes so that it can be replayed natively
            try:
                saved = dict(g.result)
                b2 = compile_group(ctx, g, [g.replay.small_define], '_small')
                g.result.update({k: saved[k] for k in ('goto_cc', 'goto_instrument', 'binary') if k in saved})
                e4, (res4, st4, _), dt4, log4, raw4 = portfolio(g, b2, trace=True, prop=prim[0]['name'],
                                                               engines=[engine], timeout=max(g.timeout, 60))
                small = trace_inputs(res4, prim[0]['name'])
                if any(r.get('property') == prim[0]['name'] and r.get('status') == 'FAILURE' for r in res4) and small:
                    g.result['trace_inputs_unrestricted'] = g.result.get('trace_inputs')
                    g.result['trace_inputs'] = small
            except Undecided:
                pass
    g.result['wall'] = round(time.time() - t0, 2)
    return g


def trace_inputs(results, prop):
    """Last assignment to every variable whose base name starts with in_ / g_ in the trace of prop (A.10)."""
    vals = {}
    for r in results:
        if r.get('property') != prop or 'trace' not in r:
            continue
        for st in r['trace']:
            if st.get('stepType') != 'assignment':
                continue
            lhs = st.get('lhs', '')
            base = lhs.split('::')[-1] if '::' in lhs else lhs
            if not (base.startswith('in_') or base.startswith('g_')):
                continue
            v = st.get('value', {})
            mo = re.fullmatch(r'(\w+)\[(\d+)l?\]', base)
            if mo:
                # element assignment of a ghost/input array: merge into the array value
                arr = vals.get(mo.group(1))
                if not isinstance(arr, list):
                    arr = []
                k = int(mo.group(2))
                while len(arr) <= k:
                    arr.append({'data': '0', 'bin': '0'})
                arr[k] = _val(v)
                vals[mo.group(1)] = arr
                continue
            if '[' in base or '.' in base:
                continue
            vals[base] = _val(v)
    return vals


def _val(v):
    if 'elements' in v:
        return [_val(e.get('value', {})) for e in v['elements']]
    if 'members' in v:
        return {m.get('name'): _val(m.get('value', {})) for m in v['members']}
    if 'binary' in v:
        return {'bin': v['binary'], 'data': v.get('data'), 'type': v.get('type')}
    return {'data': v.get('data'), 'type': v.get('type'), 'name': v.get('name')}
