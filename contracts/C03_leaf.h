/* C03 side-car contracts for the leaf helpers of src/Encoding.hh (definitions are extracted text).
 * Spec source: property C03 ("reverse the byte order of the low N bits, involutions, the signed 24/48-bit
 * forms sign-extend; sign_extend/ext24/ext48 replicate the top bit of the narrower value into the wider
 * result").  Byte k (0 = least significant) of x is VBYTE(x,k). */
#ifndef C03_LEAF_H
#define C03_LEAF_H
#include "contracts/verif.h"

#define F2U(x) (((union { float f; uint32_t u; }){ .f = (x) }).u)
#define U2F(x) (((union { float f; uint32_t u; }){ .u = (x) }).f)
#define D2U(x) (((union { double f; uint64_t u; }){ .f = (x) }).u)
#define U2D(x) (((union { double f; uint64_t u; }){ .u = (x) }).f)

/* reference byte reversal, written from the definition (byte k of the result is byte n-1-k of the argument) */
#define REV16(a) ((uint16_t)((VBYTE(a,0) << 8) | VBYTE(a,1)))
#define REV24(a) ((uint32_t)(((uint32_t)VBYTE(a,0) << 16) | ((uint32_t)VBYTE(a,1) << 8) | VBYTE(a,2)))
#define REV32(a) ((uint32_t)(((uint32_t)VBYTE(a,0) << 24) | ((uint32_t)VBYTE(a,1) << 16) | ((uint32_t)VBYTE(a,2) << 8) | VBYTE(a,3)))
#define REV48(a) ((uint64_t)(((uint64_t)VBYTE(a,0) << 40) | ((uint64_t)VBYTE(a,1) << 32) | ((uint64_t)VBYTE(a,2) << 24) | \
                             ((uint64_t)VBYTE(a,3) << 16) | ((uint64_t)VBYTE(a,4) << 8) | VBYTE(a,5)))
#define REV64(a) ((uint64_t)(((uint64_t)REV32(a) << 32) | REV32(((uint64_t)(a)) >> 32)))

static inline int32_t ext24(uint32_t a)
__CPROVER_requires(a <= 0xFFFFFFu)
__CPROVER_ensures(((uint32_t)__CPROVER_return_value & 0xFFFFFFu) == a)
__CPROVER_ensures(((a >> 23) & 1) ? (((uint32_t)__CPROVER_return_value >> 24) == 0xFFu)
                                  : (((uint32_t)__CPROVER_return_value >> 24) == 0))
__CPROVER_assigns();

static inline int64_t ext48(uint64_t a)
__CPROVER_requires(a <= 0xFFFFFFFFFFFFull)
__CPROVER_ensures(((uint64_t)__CPROVER_return_value & 0xFFFFFFFFFFFFull) == a)
__CPROVER_ensures(((a >> 47) & 1) ? (((uint64_t)__CPROVER_return_value >> 48) == 0xFFFFu)
                                  : (((uint64_t)__CPROVER_return_value >> 48) == 0))
__CPROVER_assigns();

static inline uint8_t bswap8(uint8_t a)
__CPROVER_ensures(__CPROVER_return_value == a)
__CPROVER_assigns();

static inline uint16_t bswap16(uint16_t a)
__CPROVER_ensures(VBYTE(__CPROVER_return_value, 0) == VBYTE(a, 1))
__CPROVER_ensures(VBYTE(__CPROVER_return_value, 1) == VBYTE(a, 0))
__CPROVER_assigns();

static inline uint32_t bswap24(uint32_t a)
__CPROVER_ensures(VBYTE(__CPROVER_return_value, 0) == VBYTE(a, 2))
__CPROVER_ensures(VBYTE(__CPROVER_return_value, 1) == VBYTE(a, 1))
__CPROVER_ensures(VBYTE(__CPROVER_return_value, 2) == VBYTE(a, 0))
__CPROVER_ensures(VBYTE(__CPROVER_return_value, 3) == 0)
__CPROVER_assigns();

static inline int32_t bswap24s(int32_t a)
__CPROVER_ensures(((uint32_t)__CPROVER_return_value & 0xFFFFFFu) == REV24(a))
__CPROVER_ensures((VBYTE(a, 0) & 0x80) ? (VBYTE(__CPROVER_return_value, 3) == 0xFF) : (VBYTE(__CPROVER_return_value, 3) == 0))
__CPROVER_assigns();

static inline uint32_t bswap32(uint32_t a)
__CPROVER_ensures(VBYTE(__CPROVER_return_value, 0) == VBYTE(a, 3))
__CPROVER_ensures(VBYTE(__CPROVER_return_value, 1) == VBYTE(a, 2))
__CPROVER_ensures(VBYTE(__CPROVER_return_value, 2) == VBYTE(a, 1))
__CPROVER_ensures(VBYTE(__CPROVER_return_value, 3) == VBYTE(a, 0))
__CPROVER_assigns();

static inline uint64_t bswap48(uint64_t a)
__CPROVER_ensures(VBYTE(__CPROVER_return_value, 0) == VBYTE(a, 5))
__CPROVER_ensures(VBYTE(__CPROVER_return_value, 1) == VBYTE(a, 4))
__CPROVER_ensures(VBYTE(__CPROVER_return_value, 2) == VBYTE(a, 3))
__CPROVER_ensures(VBYTE(__CPROVER_return_value, 3) == VBYTE(a, 2))
__CPROVER_ensures(VBYTE(__CPROVER_return_value, 4) == VBYTE(a, 1))
__CPROVER_ensures(VBYTE(__CPROVER_return_value, 5) == VBYTE(a, 0))
__CPROVER_ensures((__CPROVER_return_value >> 48) == 0)
__CPROVER_assigns();

static inline int64_t bswap48s(int64_t a)
__CPROVER_ensures(((uint64_t)__CPROVER_return_value & 0xFFFFFFFFFFFFull) == REV48(a))
__CPROVER_ensures((VBYTE(a, 0) & 0x80) ? (((uint64_t)__CPROVER_return_value >> 48) == 0xFFFF)
                                       : (((uint64_t)__CPROVER_return_value >> 48) == 0))
__CPROVER_assigns();

static inline uint64_t bswap64(uint64_t a)
__CPROVER_ensures(VBYTE(__CPROVER_return_value, 0) == VBYTE(a, 7))
__CPROVER_ensures(VBYTE(__CPROVER_return_value, 1) == VBYTE(a, 6))
__CPROVER_ensures(VBYTE(__CPROVER_return_value, 2) == VBYTE(a, 5))
__CPROVER_ensures(VBYTE(__CPROVER_return_value, 3) == VBYTE(a, 4))
__CPROVER_ensures(VBYTE(__CPROVER_return_value, 4) == VBYTE(a, 3))
__CPROVER_ensures(VBYTE(__CPROVER_return_value, 5) == VBYTE(a, 2))
__CPROVER_ensures(VBYTE(__CPROVER_return_value, 6) == VBYTE(a, 1))
__CPROVER_ensures(VBYTE(__CPROVER_return_value, 7) == VBYTE(a, 0))
__CPROVER_assigns();

/* the float forms move bit patterns (bit-exact, NaN payloads and -0 included) */
static inline float bswap32f_u2f(uint32_t a)
__CPROVER_ensures(F2U(__CPROVER_return_value) == REV32(a))
__CPROVER_assigns();

static inline uint32_t bswap32f_f2u(float a)
__CPROVER_ensures(__CPROVER_return_value == REV32(F2U(a)))
__CPROVER_assigns();

static inline double bswap64f_u2d(uint64_t a)
__CPROVER_ensures(D2U(__CPROVER_return_value) == REV64(a))
__CPROVER_assigns();

static inline uint64_t bswap64f_d2u(double a)
__CPROVER_ensures(__CPROVER_return_value == REV64(D2U(a)))
__CPROVER_assigns();

#endif
