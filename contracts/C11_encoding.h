/* C11 side-car contracts: base64_encode / base64_decode / rot13 (src/Encoding.cc).
 * std::string results are vstr out-parameters (empty on entry, capacity = "allocation succeeds").
 * Universals are stated at ONE symbolic block / byte index fixed by the caller before the call (ghost index idiom): the
 * caller also supplies the octets of that block as ghost scalars (g_b*, g_c*), tied to the buffer by `requires`; all
 * specification macros (spec/C11_base64.h, RFC 4648) are evaluated over those scalars only. */
#ifndef C11_ENCODING_H
#define C11_ENCODING_H
#include "stubs/vstr.h"
#include "spec/C11_base64.h"
#include "spec/C11_rot13.h"

#ifdef VERIF_SMALL            /* replay search: small buffers so that the counterexample can be replayed natively */
#define C11_MAXLEN 12
#else
#define C11_MAXLEN 0x1FFFFFFFFFFFull      /* 2^45-1: 4/3 * length stays below the cbmc object size limit */
#endif

extern const char DEFAULT_ALPHABET[];
extern const char URLSAFE_ALPHABET[];

/* ghosts (defined in the harness) */
extern int g_url;                          /* 1: RFC 4648 table 2 (URLSAFE_ALPHABET), 0: table 1 (default) */
extern size_t g_blk;                       /* ghost block index */
extern uint8_t g_b0, g_b1, g_b2;           /* encode: the octets of input group g_blk */
extern uint8_t g_c0, g_c1, g_c2, g_c3;     /* decode: the characters of input block g_blk */
extern uint8_t g_l2, g_l3;                 /* decode: the last two characters of the text */
extern size_t g_wit;                       /* decode: offset of the block being examined when the exception was raised */
extern size_t g_q, g_i;                    /* encode: size / 3 and the number of loop iterations begun */
extern size_t g_k;                         /* rot13: ghost byte index */
extern char g_ch;                          /* rot13: the input byte at g_k */

#define ALPHA_REQ \
  __CPROVER_requires(alphabet == 0 || alphabet == DEFAULT_ALPHABET || alphabet == URLSAFE_ALPHABET) \
  __CPROVER_requires(g_url == (alphabet == URLSAFE_ALPHABET))
#define RET_REQ(need) \
  __CPROVER_requires(__CPROVER_is_fresh(ret, sizeof(vstr))) \
  __CPROVER_requires(ret->size == 0 && ret->cap <= VSTR_MAXCAP && ret->cap >= (need)) \
  __CPROVER_requires(__CPROVER_is_fresh(ret->data, ret->cap))

/* ---------------------------------------------------------------------------------------------------------------
 * base64_encode: result length 4*ceil(size/3); characters 4k..4k+3 are the RFC 4648 encoding of input group k. */
#define ENC_N (size - 3 * g_blk)          /* octets present in group g_blk (>= 1 when 3*g_blk < size) */
#define ENC_C0 B64_ENC0(g_b0, g_b1, g_b2, ENC_N, g_url)
#define ENC_C1 B64_ENC1(g_b0, g_b1, g_b2, ENC_N, g_url)
#define ENC_C2 B64_ENC2(g_b0, g_b1, g_b2, ENC_N, g_url)
#define ENC_C3 B64_ENC3(g_b0, g_b1, g_b2, ENC_N, g_url)

void base64_encode(vstr* ret, const void* vdata, size_t size, const char* alphabet)
RET_REQ(2 * size + 4)
__CPROVER_requires(size <= C11_MAXLEN)
__CPROVER_requires(__CPROVER_is_fresh(vdata, size))
ALPHA_REQ
__CPROVER_requires(g_blk <= C11_MAXLEN)
__CPROVER_requires(3 * g_blk + 0 < size ==> g_b0 == ((const uint8_t*)vdata)[3 * g_blk + 0])
__CPROVER_requires(3 * g_blk + 1 < size ==> g_b1 == ((const uint8_t*)vdata)[3 * g_blk + 1])
__CPROVER_requires(3 * g_blk + 2 < size ==> g_b2 == ((const uint8_t*)vdata)[3 * g_blk + 2])
/* length: (ret->size / 4) == ceil(size / 3), written without division */
__CPROVER_ensures((ret->size & 3) == 0 && 3 * (ret->size >> 2) >= size && 3 * (ret->size >> 2) < size + 3)
__CPROVER_ensures(3 * g_blk < size ==> ret->data[4 * g_blk + 0] == ENC_C0)
__CPROVER_ensures(3 * g_blk < size ==> ret->data[4 * g_blk + 1] == ENC_C1)
__CPROVER_ensures(3 * g_blk < size ==> ret->data[4 * g_blk + 2] == ENC_C2)
__CPROVER_ensures(3 * g_blk < size ==> ret->data[4 * g_blk + 3] == ENC_C3)
__CPROVER_assigns(g_q, g_i, ret->size, __CPROVER_object_whole(ret->data));

/* ---------------------------------------------------------------------------------------------------------------
 * base64_decode: strict inverse.
 *   no exception  <=>  size % 4 == 0  and every block is acceptable (B64_BLOCK_OK: four alphabet characters, or the
 *   last block of the form xx== / xxx=); the only exception is invalid_argument.
 *   "=>" : at the caller's block g_blk  (DEC_OK fails  ==>  exception)
 *   "<=" : an exception raised inside the loop names the block it was examining (g_wit); when that is the caller's
 *          block, the block is not acceptable (generalise over g_blk: the witness block is never acceptable).
 *   output: 3 octets per block, minus the padding of the last block; octets 3k.. are the RFC decoding of block k. */
#define DEC_LAST (4 * g_blk + 4 == size)
#define DEC_OK   B64_BLOCK_OK(g_c0, g_c1, g_c2, g_c3, DEC_LAST, g_url)
#define DEC_NOUT B64_NOUT(g_c2, g_c3)
#define DEC_PADN (3 - B64_NOUT(g_l2, g_l3))      /* pad characters at the end of the whole text */

void base64_decode(vstr* ret, const void* vdata, size_t size, const char* alphabet)
RET_REQ(size)
__CPROVER_requires(size <= C11_MAXLEN && verif_exc == 0)
__CPROVER_requires(__CPROVER_is_fresh(vdata, size))
ALPHA_REQ
__CPROVER_requires(g_blk <= C11_MAXLEN)
__CPROVER_requires(4 * g_blk + 0 < size ==> g_c0 == ((const uint8_t*)vdata)[4 * g_blk + 0])
__CPROVER_requires(4 * g_blk + 1 < size ==> g_c1 == ((const uint8_t*)vdata)[4 * g_blk + 1])
__CPROVER_requires(4 * g_blk + 2 < size ==> g_c2 == ((const uint8_t*)vdata)[4 * g_blk + 2])
__CPROVER_requires(4 * g_blk + 3 < size ==> g_c3 == ((const uint8_t*)vdata)[4 * g_blk + 3])
__CPROVER_requires(size >= 2 ==> (g_l2 == ((const uint8_t*)vdata)[size - 2] && g_l3 == ((const uint8_t*)vdata)[size - 1]))
__CPROVER_ensures(verif_exc == 0 || verif_exc == EXC_invalid_argument)
__CPROVER_ensures((size & 3) != 0 ==> verif_exc == EXC_invalid_argument)
__CPROVER_ensures(((size & 3) == 0 && 4 * g_blk < size && !DEC_OK) ==> verif_exc == EXC_invalid_argument)
__CPROVER_ensures((verif_exc != 0 && (size & 3) == 0) ==> ((g_wit & 3) == 0 && g_wit < size))
__CPROVER_ensures((verif_exc != 0 && (size & 3) == 0 && g_wit == 4 * g_blk) ==> !DEC_OK)
__CPROVER_ensures(verif_exc == 0 ==> ret->size == 3 * (size >> 2) - (size != 0 ? DEC_PADN : 0))
__CPROVER_ensures((verif_exc == 0 && 4 * g_blk < size) ==> ret->data[3 * g_blk] == (char)B64_DEC0(g_c0, g_c1, g_url))
__CPROVER_ensures((verif_exc == 0 && 4 * g_blk < size && DEC_NOUT >= 2) ==> ret->data[3 * g_blk + 1] == (char)B64_DEC1(g_c1, g_c2, g_url))
__CPROVER_ensures((verif_exc == 0 && 4 * g_blk < size && DEC_NOUT >= 3) ==> ret->data[3 * g_blk + 2] == (char)B64_DEC2(g_c2, g_c3, g_url))
__CPROVER_assigns(verif_exc, g_wit, ret->size, __CPROVER_object_whole(ret->data));

/* ---------------------------------------------------------------------------------------------------------------
 * rot13: same length, byte k is ROT13_SPEC of input byte k */
void rot13(vstr* ret, const void* vdata, size_t size)
RET_REQ(size)
__CPROVER_requires(size <= C11_MAXLEN)
__CPROVER_requires(__CPROVER_is_fresh(vdata, size))
__CPROVER_requires(g_k < size ==> g_ch == ((const char*)vdata)[g_k])
__CPROVER_ensures(ret->size == size)
__CPROVER_ensures(g_k < size ==> ret->data[g_k] == ROT13_SPEC(g_ch))
__CPROVER_assigns(ret->size, __CPROVER_object_whole(ret->data));

#endif
