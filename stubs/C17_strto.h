/* C17: trusted models of the libc numeral scanners used by Arguments::parse_int / parse_float (DESIGN.md 3.2).
 *
 * What a numeral *is* (which characters strtoull / strtod accept, white space, sign, 0x prefix ...) is libc's business
 * and is NOT decided here.  The text is abstracted to what ISO C 7.22.1.3/7.22.1.4 says the scanner reports about it:
 *
 *   g_endoff   how many characters of the text the scanner consumed (endptr - nptr); 0 = "no conversion could be
 *              performed" (the text does not start with a numeral), == text->size = the whole text is one numeral.
 *              A C scanner never runs past the first NUL, so g_endoff <= size (harness precondition).
 *   g_neg      the numeral starts with a minus sign
 *   g_mag      the magnitude of the numeral (the digits read in the requested base), when it is below 2^64
 *   g_ovf      the magnitude is 2^64 or more ("the correct value is outside the range of representable values")
 *
 * strtoull (7.22.1.4p5, p8): the value of the digit sequence, negated *in the return type* when the numeral starts
 * with a minus sign; ULLONG_MAX and errno = ERANGE when the magnitude is not representable; 0 when no conversion was
 * performed.  endptr receives nptr + consumed.
 *
 * The specification side (contracts/C17_parse.h) reads the same ghosts as the mathematical numeral (-1)^g_neg * g_mag,
 * so the contract relates the *text's* number to the getter's result through the scanner's documented behaviour. */
#ifndef STUBS_C17_STRTO_H
#define STUBS_C17_STRTO_H
#include "stubs/vstr.h"

#define C17_ERANGE 34
#ifndef ERANGE
#define ERANGE C17_ERANGE
#endif
#define VSTR_NPOS ((size_t)-1)

extern size_t g_endoff;
extern bool g_neg, g_ovf;
extern uint64_t g_mag;
extern int g_base;            /* base argument of the last scanner call (ghost, observed by the contract) */
extern unsigned g_ncalls;     /* number of scanner calls (ghost) */
extern int verif_errno;       /* models errno */
extern double g_fval;         /* value strtod reports for the text (any double, incl. inf / nan) */

/* std::string::c_str(): pointer to the characters; data[size] == 0 is a type invariant (harness precondition) */
static inline const char* C17_c_str(const vstr* s) { return s->data; }

static inline unsigned long long C17_strtoull(const char* s, char** endp, int base)
{
  g_base = base;
  g_ncalls++;
  *endp = (char*)s + g_endoff;
  if (g_endoff == 0) return 0;                                   /* no conversion: zero is returned */
  if (g_ovf) { verif_errno = C17_ERANGE; return 0xFFFFFFFFFFFFFFFFull; }   /* ULLONG_MAX, errno = ERANGE */
  return g_neg ? (0ull - g_mag) : g_mag;                          /* negated in the return type */
}

/* strtoll (same clause): the value as long long, saturating to LLONG_MIN / LLONG_MAX with errno = ERANGE */
static inline long long C17_strtoll(const char* s, char** endp, int base)
{
  g_base = base;
  g_ncalls++;
  *endp = (char*)s + g_endoff;
  if (g_endoff == 0) return 0;
  if (g_neg) {
    if (g_ovf || g_mag > 0x8000000000000000ull) { verif_errno = C17_ERANGE; return (long long)(-0x7FFFFFFFFFFFFFFFll - 1); }
    return (long long)(0ull - g_mag);
  }
  if (g_ovf || g_mag > 0x7FFFFFFFFFFFFFFFull) { verif_errno = C17_ERANGE; return 0x7FFFFFFFFFFFFFFFll; }
  return (long long)g_mag;
}

/* strtod (7.22.1.3): which double a literal denotes is not modelled -- any double */
static inline double C17_strtod(const char* s, char** endp)
{
  g_ncalls++;
  *endp = (char*)s + g_endoff;
  if (g_endoff == 0) return 0.0;
  return g_fval;
}

/* exception classes a handler of the getters can select (C++ standard [std.exceptions]): out_of_range, invalid_argument,
 * length_error, domain_error derive from logic_error, which derives from exception; the getters' handlers name
 * std::out_of_range only, which has no derived class in the model */
#define VERIF_PARENT17(t) \
  (((t) == EXC_logic_error || (t) == EXC_runtime_error || (t) == EXC_bad_alloc) ? EXC_exception : \
   ((t) == EXC_out_of_range || (t) == EXC_invalid_argument || (t) == EXC_length_error || (t) == EXC_domain_error) ? EXC_logic_error : \
   ((t) == EXC_range_error || (t) == EXC_overflow_error || (t) == EXC_underflow_error) ? EXC_runtime_error : EXC_none)
#define VERIF_CATCHES(x, T) ((x) != EXC_none && ((x) == (T) || VERIF_PARENT17(x) == (T) || VERIF_PARENT17(VERIF_PARENT17(x)) == (T)))

/* std::stod(const string& str, size_t* idx) (ISO C++ [string.conversions] p4-6): calls strtod(str.c_str(), &ptr); throws
 * invalid_argument if no conversion could be performed, out_of_range if strtod sets errno to ERANGE (the literal
 * overflows or underflows double -- which literals do is libc's business: nondet); otherwise *idx = ptr - str.c_str(). */
_Bool nondet_C17_range(void);
static inline double C17_stod(const vstr* s, size_t* idx)
{
  char* verif_e;
  double v = C17_strtod(C17_c_str(s), &verif_e);
  if (g_endoff == 0) { verif_exc = EXC_invalid_argument; return 0.0; }
  if (nondet_C17_range()) { verif_exc = EXC_out_of_range; return 0.0; }
  if (idx) *idx = g_endoff;
  return v;
}

/* text.find('-') on a text that is one complete numeral: the subject sequence of 7.22.1.4p3 is
 * [white space] [+|-] [0x] digits, so a '-' occurs iff the numeral carries the minus sign.  For any other text the
 * answer is not modelled (nondet). */
size_t nondet_C17_size(void);
static inline size_t C17_find_minus(const vstr* s)
{
  size_t r = nondet_C17_size();
  if (g_endoff != 0 && g_endoff == s->size) {
    if (!g_neg) return VSTR_NPOS;
    __CPROVER_assume(r < s->size);
    return r;
  }
  return r;
}

#endif
