/* C03 side-car contracts for every member of converted_endian<ExposedT, StoredT, OnStoreSt, OnLoadSt>
 * (src/Encoding.hh), macro-parameterised; one instantiation per harness compilation (-DCE=..., see props/C03.py).
 *
 * Specification (property C03): the object occupies sizeof(T) bytes that hold the value in the *named* byte order;
 * conversion returns exactly the value stored (bit-exact for floats); every assignment / compound assignment /
 * increment / decrement produces, in the stored value and in the value the operator returns, exactly what the same
 * operator yields on the native type.
 *
 * NAMED_DEC(p)  numeral formed by the bytes at p in the named order (big / little / reverse-of-host)
 * RAWDEC(raw)   the same numeral, computed from the raw stored integer (needed because __CPROVER_old accepts only
 *               simple lvalues): memory bytes of `raw` are host-order
 * BITS(x)       bit pattern of an ExposedT value; UNBITS(u) the ExposedT value with bit pattern u
 */
#if W == 16
#define UT uint16_t
#define DEC_BE(p) ((UT)DEC_BE16(p))
#define DEC_LE(p) ((UT)DEC_LE16(p))
#define REVW(x) REV16(x)
#elif W == 32
#define UT uint32_t
#define DEC_BE(p) ((UT)DEC_BE32(p))
#define DEC_LE(p) ((UT)DEC_LE32(p))
#define REVW(x) REV32(x)
#else
#define UT uint64_t
#define DEC_BE(p) ((UT)DEC_BE64(p))
#define DEC_LE(p) ((UT)DEC_LE64(p))
#define REVW(x) REV64(x)
#endif

/* NAMED: 1 big-endian, 2 little-endian, 3 reverse of the host order */
#if NAMED == 1
#define NAMED_IS_BIG 1
#elif NAMED == 2
#define NAMED_IS_BIG 0
#else
#define NAMED_IS_BIG (!VERIF_HOST_BIG)
#endif
#if NAMED_IS_BIG
#define NAMED_DEC(p) DEC_BE(p)
#else
#define NAMED_DEC(p) DEC_LE(p)
#endif
#if NAMED_IS_BIG == VERIF_HOST_BIG
#define RAWDEC(raw) ((UT)(raw))
#else
#define RAWDEC(raw) ((UT)REVW((UT)(raw)))
#endif

#if ISFLOAT && W == 32
#define BITS(x) F2U(x)
#define UNBITS(u) U2F(u)
#elif ISFLOAT
#define BITS(x) D2U(x)
#define UNBITS(u) U2D(u)
#else
#define BITS(x) ((UT)(x))
#define UNBITS(u) ((ExposedT)(UT)(u))
#endif

/* RESEQ(b, e): the bit pattern b equals the value e produced by a native arithmetic operator.  For integers: equality
 * of bit patterns.  For floats: bit-exact whenever e is not a NaN; a NaN result must be stored/returned as a NaN (the
 * payload of an arithmetic NaN result is not pinned: the SMT floating-point theory used by the cvc5/z3 back ends has a
 * single NaN, so requiring the payload would make those back ends report spurious failures). */
#if ISFLOAT && W == 32
#define ISNANBITS(b) ((((b) & 0x7F800000u) == 0x7F800000u) && (((b) & 0x007FFFFFu) != 0))
#elif ISFLOAT
#define ISNANBITS(b) ((((b) & 0x7FF0000000000000ull) == 0x7FF0000000000000ull) && (((b) & 0x000FFFFFFFFFFFFFull) != 0))
#endif
#if ISFLOAT
#define RESEQ(b, e) (((e) != (e)) ? ISNANBITS(b) : ((b) == BITS(e)))
#else
#define RESEQ(b, e) ((b) == BITS(e))
#endif

#define SELF_OK (__CPROVER_is_fresh(self, sizeof(CE)) && self->value == g_self_raw)
#define OLDX UNBITS(RAWDEC(__CPROVER_old(self->value)))   /* native value held before the call */
#define CURX UNBITS(RAWDEC(self->value))                   /* native value held (in requires: before the call) */

void M(ctor)(CE* self, ExposedT v)
__CPROVER_requires(SELF_OK)
__CPROVER_ensures(NAMED_DEC(self) == BITS(v))
__CPROVER_assigns(self->value);

ExposedT M(conv)(const CE* self)
__CPROVER_requires(SELF_OK)
__CPROVER_ensures(BITS(__CPROVER_return_value) == NAMED_DEC(self))
__CPROVER_assigns();

void M(store)(CE* self, ExposedT v)
__CPROVER_requires(SELF_OK)
__CPROVER_ensures(NAMED_DEC(self) == BITS(v))
__CPROVER_assigns(self->value);

ExposedT M(load)(const CE* self)
__CPROVER_requires(SELF_OK)
__CPROVER_ensures(BITS(__CPROVER_return_value) == NAMED_DEC(self))
__CPROVER_assigns();

void M(store_raw)(CE* self, StoredT v)
__CPROVER_requires(SELF_OK)
__CPROVER_ensures(self->value == v)
__CPROVER_assigns(self->value);

StoredT M(load_raw)(const CE* self)
__CPROVER_requires(SELF_OK)
__CPROVER_ensures(__CPROVER_return_value == self->value)
__CPROVER_assigns();

CE* M(assign)(CE* self, ExposedT v)
__CPROVER_requires(SELF_OK)
__CPROVER_ensures(__CPROVER_return_value == self)
__CPROVER_ensures(NAMED_DEC(self) == BITS(v))
__CPROVER_assigns(self->value);

/* preconditions: exactly the operand pairs on which the native operator is defined in C */
#if ISFLOAT
#define PRE_ADD(x, d) 1
#define PRE_SUB(x, d) 1
#define PRE_MUL(x, d) 1
#define PRE_DIV(x, d) 1
#else
#if COMMON_SIGNED
#define PRE_ADD(x, d) (!__CPROVER_overflow_plus((COMMON)(x), (COMMON)(d)))
#define PRE_SUB(x, d) (!__CPROVER_overflow_minus((COMMON)(x), (COMMON)(d)))
#define PRE_MUL(x, d) (!__CPROVER_overflow_mult((COMMON)(x), (COMMON)(d)))
#define PRE_DIV(x, d) ((COMMON)(d) != 0 && !((COMMON)(d) == -1 && (COMMON)(x) == COMMON_MIN))
#else
#define PRE_ADD(x, d) 1
#define PRE_SUB(x, d) 1
#define PRE_MUL(x, d) 1
#define PRE_DIV(x, d) ((COMMON)(d) != 0)
#endif
#if PL_SIGNED
#define PRE_SHL(x, d) ((d) >= 0 && (d) < PL_BITS && (PL)(x) >= 0 && (PL)(x) <= (PL_MAX >> (d)))
#else
#define PRE_SHL(x, d) ((d) >= 0 && (d) < PL_BITS)
#endif
#define PRE_SHR(x, d) ((d) >= 0 && (d) < PL_BITS)
#endif

#define OPASSIGN(name, OP, PRE) \
CE* M(name)(CE* self, R delta) \
__CPROVER_requires(SELF_OK) \
__CPROVER_requires(PRE(CURX, delta)) \
__CPROVER_ensures(__CPROVER_return_value == self) \
__CPROVER_ensures(RESEQ(NAMED_DEC(self), (ExposedT)(OLDX OP delta))) \
__CPROVER_assigns(self->value);

OPASSIGN(add_assign, +, PRE_ADD)
OPASSIGN(sub_assign, -, PRE_SUB)
OPASSIGN(mul_assign, *, PRE_MUL)
OPASSIGN(div_assign, /, PRE_DIV)
#if !ISFLOAT
#define PRE_ANY(x, d) 1
OPASSIGN(mod_assign, %, PRE_DIV)
OPASSIGN(and_assign, &, PRE_ANY)
OPASSIGN(or_assign, |, PRE_ANY)
OPASSIGN(xor_assign, ^, PRE_ANY)
OPASSIGN(shl_assign, <<, PRE_SHL)
OPASSIGN(shr_assign, >>, PRE_SHR)
#endif

/* ++ / --: operand 1 is an int, so the arithmetic type is P1 = common type of ExposedT and int */
#if ISFLOAT || !P1_SIGNED
#define PRE_INC(x) 1
#define PRE_DEC(x) 1
#else
#define PRE_INC(x) ((P1)(x) != P1_MAX)
#define PRE_DEC(x) ((P1)(x) != P1_MIN)
#endif

ExposedT M(preinc)(CE* self)
__CPROVER_requires(SELF_OK)
__CPROVER_requires(PRE_INC(CURX))
__CPROVER_ensures(RESEQ(BITS(__CPROVER_return_value), (ExposedT)(OLDX + 1)))   /* ++x yields the new value */
__CPROVER_ensures(RESEQ(NAMED_DEC(self), (ExposedT)(OLDX + 1)))
__CPROVER_assigns(self->value);

ExposedT M(predec)(CE* self)
__CPROVER_requires(SELF_OK)
__CPROVER_requires(PRE_DEC(CURX))
__CPROVER_ensures(RESEQ(BITS(__CPROVER_return_value), (ExposedT)(OLDX - 1)))
__CPROVER_ensures(RESEQ(NAMED_DEC(self), (ExposedT)(OLDX - 1)))
__CPROVER_assigns(self->value);

ExposedT M(postinc)(CE* self)
__CPROVER_requires(SELF_OK)
__CPROVER_requires(PRE_INC(CURX))
__CPROVER_ensures(RESEQ(BITS(__CPROVER_return_value), OLDX))                   /* x++ yields the old value */
__CPROVER_ensures(RESEQ(NAMED_DEC(self), (ExposedT)(OLDX + 1)))
__CPROVER_assigns(self->value);

ExposedT M(postdec)(CE* self)
__CPROVER_requires(SELF_OK)
__CPROVER_requires(PRE_DEC(CURX))
__CPROVER_ensures(RESEQ(BITS(__CPROVER_return_value), OLDX))
__CPROVER_ensures(RESEQ(NAMED_DEC(self), (ExposedT)(OLDX - 1)))
__CPROVER_assigns(self->value);
