/* Trusted contract-only model of the C formatted-output calls used by string_vprintf (ISO C 7.21.6.12 vsnprintf, GNU vasprintf).
 * The formatted text is ABSTRACT: its length is the ghost g_fmt_len (0 .. INT_MAX-1) and "the character at ghost index g_fk" is
 * the ghost g_fch (never NUL).  Both calls produce THE SAME text for the same (fmt, va) -- that is what makes "returns
 * exactly what the reference returns" expressible without a model of printf's conversions. */
#ifndef C08_PRINTF_H
#define C08_PRINTF_H
#include "stubs/vstr.h"
typedef int verif_va_list;
extern size_t g_fmt_len, g_fk; extern char g_fch;
extern int verif_exc;
#define va_list verif_va_list
#define va_copy(d, s) ((d) = (s))
#define va_end(x) ((void)0)

/* vsnprintf: returns the length the complete text has; stores min(len, size-1) characters of it followed by a NUL */
int verif_vsnprintf(char* buf, size_t size, const char* fmt, verif_va_list va)
__CPROVER_requires(size == 0 || __CPROVER_w_ok(buf, size))
__CPROVER_ensures(__CPROVER_return_value == (int)g_fmt_len)
__CPROVER_ensures((size > 0 && g_fk < g_fmt_len && g_fk < size - 1) ==> buf[g_fk] == g_fch)
__CPROVER_ensures(size > 0 ==> buf[g_fmt_len < size - 1 ? g_fmt_len : size - 1] == 0)
__CPROVER_assigns(size > 0: __CPROVER_object_upto(buf, size));

/* vasprintf: allocates len+1 bytes holding the complete text and a NUL, or fails (returns -1, *out unspecified -> modelled as NULL) */
int verif_vasprintf(char** out, const char* fmt, verif_va_list va)
__CPROVER_requires(__CPROVER_w_ok(out, sizeof(char*)))
__CPROVER_ensures(__CPROVER_return_value == -1 ? *out == 0
                  : (__CPROVER_return_value == (int)g_fmt_len && __CPROVER_is_fresh(*out, g_fmt_len + 1)))
__CPROVER_ensures((__CPROVER_return_value != -1 && g_fk < g_fmt_len) ==> (*out)[g_fk] == g_fch)
__CPROVER_ensures(__CPROVER_return_value != -1 ==> (*out)[g_fmt_len] == 0)
__CPROVER_assigns(*out);

void verif_free(void* p) __CPROVER_requires(1) __CPROVER_ensures(1) __CPROVER_assigns();     /* leaks are not modelled */
#endif
