/* C04: the intermediate language between JSON::escape_string and the string branch of JSON::parse: for a byte b and an escape
 * mode, the group of 1, 2, 4 or 6 bytes that stands for b.  This is the *cut formula* of the composition: the serializer side
 * is proved to emit exactly C04_ESC(b, mode) for every character (loop contract of escape_string), the parser side is proved to
 * decode C04_ESC(b, mode) back to b in one iteration of its loop.  Its content is read off src/JSON.hh's description of the
 * SerializeOption flags (STANDARD: \uXXXX escapes, HEX_ESCAPE_CODES: \xXX, ESCAPE_CONTROLS_ONLY: bytes above 0x7E verbatim); a
 * mistake in it makes one of the two proofs fail, it cannot make the round trip pass wrongly. */
#ifndef SPEC_C04_ESCAPE_H
#define SPEC_C04_ESCAPE_H
#include <stdint.h>

enum { ESCM_STANDARD = 0, ESCM_HEX = 1, ESCM_CONTROL_ONLY = 2 };
#define C04_UB(b) ((uint8_t)(b))
/* 2-byte escapes:  " \ and the five control characters with a letter */
#define C04_ESC_LETTER(b) ((b) == '"' ? '"' : (b) == '\\' ? '\\' : (b) == '\b' ? 'b' : (b) == '\f' ? 'f' : (b) == '\n' ? 'n' : (b) == '\r' ? 'r' : (b) == '\t' ? 't' : 0)
#define C04_ESC_IS2(b) (C04_ESC_LETTER(b) != 0)
/* numeric escapes: other control characters in every mode, bytes above 0x7E unless CONTROL_ONLY */
#define C04_ESC_ISNUM(b, mode) (!C04_ESC_IS2(b) && (C04_UB(b) < 0x20 || (C04_UB(b) > 0x7E && (mode) != ESCM_CONTROL_ONLY)))
/* \uXXXX only in STANDARD mode, \xXX otherwise */
#define C04_ESC_ISU(b, mode) (C04_ESC_ISNUM(b, mode) && (mode) == ESCM_STANDARD)
#define C04_ESC_LEN(b, mode) (C04_ESC_IS2(b) ? 2u : !C04_ESC_ISNUM(b, mode) ? 1u : C04_ESC_ISU(b, mode) ? 6u : 4u)
#define C04_HEXU(d) ((char)((d) < 10 ? '0' + (d) : 'A' + ((d) - 10)))
/* byte j (j < C04_ESC_LEN) of the group */
#define C04_ESC_BYTE(b, mode, j) \
  (C04_ESC_IS2(b) ? ((j) == 0 ? '\\' : C04_ESC_LETTER(b)) : \
   !C04_ESC_ISNUM(b, mode) ? (char)(b) : \
   C04_ESC_ISU(b, mode) ? ((j) == 0 ? '\\' : (j) == 1 ? 'u' : (j) == 2 ? '0' : (j) == 3 ? '0' : (j) == 4 ? C04_HEXU(C04_UB(b) >> 4) : C04_HEXU(C04_UB(b) & 15)) : \
   ((j) == 0 ? '\\' : (j) == 1 ? 'x' : (j) == 2 ? C04_HEXU(C04_UB(b) >> 4) : C04_HEXU(C04_UB(b) & 15)))
#endif
