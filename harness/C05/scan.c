/* C05: supporting static fact as an obligation (x_json_scan.h is written by props/C05.py:static_scan on every run). */
#include "contracts/verif.h"
#include "x_json_scan.h"
int verif_exc;
void h_scan(void)
{
  __CPROVER_assert(C05_READER_ONLY_THROUGH_MEMBERS, "the JSON parser reads its input only through bounds-checked StringReader members (static scan): " C05_SCAN_FINDING);
  VERIF_REACH();
}
