/* C17: split_args (src/Strings.cc) -- the dialect-independent core: plain command lines are split into their maximal
 * non-blank runs.  The input is any std::string (< 2^16 bytes, any bytes); in_ck is the observed source position. */
#include "contracts/C17_split.h"
#include "x_split_args.c"

int verif_exc, verif_errno, g_base; unsigned g_ncalls;
size_t g_endoff, g_vk; bool g_neg, g_ovf; uint64_t g_mag; double g_fval;
size_t g_ck, g_size;
bool g_plain; size_t g_ref_words, g_ref_start, g_ref_chars, g_snap_words, g_snap_start;
bool g_rec; size_t g_rec_tok, g_rec_off, g_npush; char g_rec_ch;
#ifdef VERIF_SMALL
char g_t0, g_t1, g_t2, g_t3, g_t4, g_t5, g_t6, g_t7, g_t8;
#endif

void h_split_args(void) {
  C17_tokvec* ret; const vstr* s;
  size_t in_size, in_ck;
  g_size = in_size; g_ck = in_ck;
  g_plain = 1; g_rec = 0; g_ref_words = 0; g_ref_start = 0; g_ref_chars = 0; g_npush = 0; g_snap_words = 0; g_snap_start = 0;
#ifdef VERIF_SMALL
  char in_t0, in_t1, in_t2, in_t3, in_t4, in_t5, in_t6, in_t7, in_t8;
  g_t0 = in_t0; g_t1 = in_t1; g_t2 = in_t2; g_t3 = in_t3; g_t4 = in_t4; g_t5 = in_t5; g_t6 = in_t6; g_t7 = in_t7; g_t8 = in_t8;
#endif
  verif_exc = EXC_none;
  split_args(ret, s);
  VERIF_REACH();
}
