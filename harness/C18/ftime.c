/* C18: format_time.  The function text is x_format_time.c (cut from src/Time.cc on every run). */
#include "contracts/C18_ftime.h"
#include "x_format_time.c"

int verif_exc;
c18_fstr g_ft_out; size_t g_ft_str_n;
unsigned g_ft_gm_calls, g_ft_sf_calls, g_ft_sn_calls;
int64_t g_ft_secs; const struct tm* g_ft_tm;
char* g_ft_sf_dst; size_t g_ft_sf_max; bool g_ft_sf_fmt_ok, g_ft_sf_tm_ok; size_t g_ft_len;
char* g_ft_sn_dst; size_t g_ft_sn_n; unsigned g_ft_sn_zero, g_ft_sn_width; uint32_t g_ft_sn_val; int g_ft_sn_ret;

void h_format_time(void) {
  uint64_t in_t;
  verif_exc = 0; g_ft_gm_calls = 0; g_ft_sf_calls = 0; g_ft_sn_calls = 0; g_ft_len = 0; g_ft_sn_ret = 0;
  format_time(&g_ft_out, in_t);
  VERIF_REACH();
}
