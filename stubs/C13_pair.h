/* C13 trusted stub: std::pair<CoordType, ValueType>, std::make_pair and the std::vector<pair> returned by within().
 * CoordType / ValueType must be defined (macros or typedefs) before this header.  The vector is a bounded array; only
 * emplace_back is used by the code under check; exceeding the capacity is an assertion failure. */
#ifndef C13_PAIR_H
#define C13_PAIR_H
#include <stddef.h>
typedef struct { CoordType first; ValueType second; } Pair;
static inline Pair make_pair(CoordType a, ValueType b) { Pair p; p.first = a; p.second = b; return p; }
#ifndef VVEC_CAP
#define VVEC_CAP 8
#endif
typedef struct { Pair item[VVEC_CAP]; size_t size; } vvec;
static inline void vvec_init(vvec* v) { v->size = 0; }
static inline void vvec_emplace_back(vvec* v, Pair p) {
  __CPROVER_assert(v->size < VVEC_CAP, "vector stub capacity suffices for the bounded shape");
  __CPROVER_assume(v->size < VVEC_CAP); /* assert-then-assume: the overflow is reported, execution beyond it is not modelled */
  v->item[v->size] = p;
  v->size++;
}
#endif
