/* C05: h_skip */
#include "harness/C05/common.h"
#include "x_json_rd.c"      /* eof / where / size / go: real bodies */
#include "x_json_skip.c"

void h_skip(void) { StringReader* r; bool in_de; IN_COMMON; g_j.de = in_de; int in_wc0, in_wc1; g_w.c0 = in_wc0; g_w.c1 = in_wc1; skip_whitespace_and_comments(r, in_de); VERIF_REACH(); }
