"""C20 -- integer, vector and matrix helpers (DESIGN.md section 4, C20)."""
import os
import re
from vf import lex
from vf.extract import Source, Unit
from vf.lex import Rule, ExtractionBreak
from vf.pipeline import Group, Replay

ID = 'C20'
LEVEL = 'proof'
EXPLANATION = ('log2i, every Vector2/3/4 member, Matrix4 M*v and reduce_fraction are loop-free: each contract is enforced with '
               'goto-instrument --dfcc and decided over the whole input domain of the instantiation. gcd (Euclid loop), the Matrix4 '
               'identity constructor / transposition (4x4 loops) and the random_data refill loop are proved with loop contracts '
               '(invariant + variant), i.e. for any number of iterations. Universally quantified facts (every divisor d, every element '
               '(x,y), every byte offset k) are proved for one arbitrary ghost value fixed before the call. Independent conjuncts of the gcd / '
               'reduce_fraction contracts are discharged in separate runs (-DGCD_PART / -DRF_PART). Strict-weak-order laws, '
               'transpose-twice and gcd symmetry are lemmas proved over the contracts (callee replaced by its contract); '
               'cross-product orthogonality is an ensures clause of cross (polynomial identity in Z/2^n, decided by cvc5). '
               'Matrix4<double>::invert / inverse: structure of the elimination against a reference over uninterpreted arithmetic (constant loops unwound).')
TRUSTED = [
    'contracts/C20_math.h, C20_vec.h, C20_vec_ops.h, C20_mat.h, C20_random.h: the specification macros (divisibility, componentwise '
    'definitions, lexicographic order, m[column][row] convention of Matrix4)',
    'contracts/C20_random.h: stubs -- std::string model of the static refill buffer (capacity 4096), readx(fd,4096) = 4096 arbitrary '
    'bytes or io_error, memcpy with abstracted content (source readable; one arbitrary byte stored at an arbitrary offset of the '
    'destination range, so that every destination byte passes the pointer and assigns-clause checks), string(bytes, 0) = allocation or bad_alloc',
    "cbmc's built-in model of __builtin_clz / __builtin_clzll",
    'contracts/C20_invert.h: the reference elimination spec_gauss_jordan (written from the textbook algorithm), the identity model of Matrix4<T>() (its text is decided by group Matrix4.ctor), '
    "cbmc's treatment of __CPROVER_uninterpreted_* as uninterpreted functions; z3 is the only back end that answers this group",
]
ASSUMPTIONS = [
    'gcd at 16/32/64 bits (groups "divisibility[abstract predicate, modulo Euclid step lemma]"): the Euclid step lemma d|x and d|y <=> d|y and d|(x mod y) '
    'and d|0 are assumed inside cbmc (number theory; the same code is proved without them at 8 bits); they are machine-checked separately by the Lean 4 kernel '
    '(spec/lemmas/EuclidStep.lean, group "Math.gcd.lemma[...]") when lean is installed -- what remains assumed is the link "the machine remainder of '
    'non-negative operands is the remainder of the naturals they denote"',
    'gcd / reduce_fraction: operands non-negative (the property\'s domain); reduce_fraction: not both operands zero (0/0 divides by zero)',
    'vector operators at T = int64_t: the preconditions exclude exactly the inputs on which the native C++ operator is undefined '
    '(signed overflow, division by zero, INT64_MIN / -1); cross orthogonality and Matrix4 * Vector4 are stated at unsigned element '
    'types (uint64_t, uint32_t) where no input has to be excluded (wrap-around arithmetic)',
    'the two operands of a binary vector operator are distinct objects (is_fresh): a += a style aliasing is not covered',
    'at(dim): dim < N. The real code has no bounds check; for dim >= N it reads outside the object (undefined behaviour)',
    'random_int: lo <= hi and hi - lo < 2^63; random_data: the static buffer holds at most 4096 bytes on entry (its type invariant, re-established by every call)',
]
DROPS = ('constexpr dropped; templates instantiated textually (IntT / T as macros); constructors: the member-initialiser lists are turned '
         'into assignments to a result struct (bodies must be empty, checked); member functions get an explicit self, references become '
         'pointers, Vector<T>(..) temporaries become Vector_make(..); std::pair -> struct {first, second}; the function-local statics of '
         'random_data are hoisted (fd: part of the readx stub; buffer: file-scope model); std::string members -> model calls; '
         'not taken (not part of the property or not decidable here): norm() (sqrt), str(), Matrix4 element-wise operators, ==, !=, '
         'the element-wise compound operators; operator*(Matrix4), operator*=(Matrix4), invert()/inverse(): entry arithmetic (/=, += .. * ..) rewritten to uninterpreted function symbols by rule '
         '(anything else arithmetic in the body stops the extraction), Matrix4<T>() -> the identity model, T = double')
NOT_DECIDED = [
    'gcd<IntT>: "divides both arguments / divisible by every common divisor" is proved for the 8-bit instantiations only (int8_t, uint8_t; '
    'loop contract, all values). The inductive step d|a and d|b <=> d|b and d|(a mod b) is non-linear: no back end decides it at 16 bits within '
    '300 s (12 bits already > 120 s, measured), so for 16/32/64-bit IntT only termination, absence of UB, gcd(a,0) = a, result = 0 iff a = b = 0 '
    'and result <= max(a,b) are proved outright (groups *.partial); in addition the divisibility clauses are proved at 16/32/64 bits MODULO the assumed Euclid step lemma '
    'and D(0) with "d divides" as an abstract predicate carried by ghost booleans (groups *.divisibility[abstract predicate ...]); '
    'reduce_fraction is proved for the 8-bit instantiations only',
    '(AB)v = A(Bv): Matrix4::operator*(Matrix4) accumulates in a double for every T; a contract over the integer instantiations needs '
    '(double)acc + (double)t == (double)(acc + t), which no back end decided within 300 s (cvc5 additionally hits an SMT2 generation error). '
    'Decided instead (groups Matrix4<double>.operator*(Matrix4) / operator*=(Matrix4)): every entry of A * B is sum_z A.m[z][y] * B.m[x][z] (accumulated from 0, z ascending) '
    'for every interpretation of + and * (uninterpreted functions, z3, constant loops unwound completely), also for A * A, and A *= B stores and returns the product of the '
    'operand values at the call, also for A *= A. M*v is proved as the componentwise definition (uint64_t). That these two definitions give (AB)v = A(Bv) in exact arithmetic '
    'is the textbook associativity of the matrix product (distributivity + associativity of the ring), not machine-checked; the accumulation order is part of the reference, '
    'so a re-associated accumulation is reported as a difference (without a failing input when the arithmetic is exact)',
    'M * inverse(M) = I for diagonally dominant M as a numerical statement (rounding-error bound of floating-point Gauss-Jordan elimination): outside what the bit-precise '
    'back ends decide. Decided instead (groups Matrix4<double>.invert / .inverse): invert() equals the reference Gauss-Jordan elimination on [M | I] entry by entry and raises '
    '"not invertible" exactly on a zero pivot, for every interpretation of + * / on the entries (uninterpreted functions, z3), all loops (constant bound 4) unwound completely; '
    'that this elimination yields the inverse in exact arithmetic is textbook algebra, not machine-checked',
    'norm() (sqrt of a double) and the floating-point instantiations Vector<float/double>, Matrix4<float/double>: not decided; '
    'the integer instantiations int64_t / uint64_t / uint32_t are',
    'random_data: that the stored bytes are the bytes delivered by the source (byte values are abstracted); proved instead: every requested '
    'byte is stored exactly once, nothing else is written, and stored + remaining = initial + refilled (no source byte handed out twice or dropped)',
]

MATH = 'src/Math.hh'

INT_TYPES = [  # name, unsigned twin, bits, signed
    ('uint8_t', 'uint8_t', 8, 0), ('int8_t', 'uint8_t', 8, 1),
    ('uint16_t', 'uint16_t', 16, 0), ('int16_t', 'uint16_t', 16, 1),
    ('uint32_t', 'uint32_t', 32, 0), ('int32_t', 'uint32_t', 32, 1),
    ('uint64_t', 'uint64_t', 64, 0), ('int64_t', 'uint64_t', 64, 1),
]
GCD_FULL_BITS = (8,)       # widths at which the divisibility clauses of gcd are discharged (see NOT_DECIDED)


def math_unit(ctx, src):
    u = Unit(ctx, 'math')
    u.function(src, MATH, r'constexpr IntT gcd\(IntT a, IntT b\)', new_header='IntT GCD_NAME(IntT a, IntT b)',
               loops={1: '__CPROVER_assigns(a, b GCD_ABS_LOOP_ASSIGNS)\n'
                         '__CPROVER_loop_invariant(GCD_INV_LIN)\n'
                         '__CPROVER_loop_invariant(GCD_INV_DIV)\n'
                         '__CPROVER_loop_invariant(GCD_ABS_INV)\n'
                         '__CPROVER_decreases(b)'},
               nloops=1, body_prefix=' g_a0 = a; g_b0 = b; GCD_ABS_ENTRY; ',
               # ghost bookkeeping for the width-independent ("abstract divisibility") proof; all three expand to nothing
               # unless -DGCD_ABS (contracts/C20_math.h).  They follow the data flow of the real statements: the predicate
               # value of the remainder is introduced where the remainder is computed, and moves with the assignments.
               rules=[Rule(r'\bgcd<(\w+)>\(', r'GCD_INST(\1)(', count=None, regex=True),     # explicit call of another instantiation
                      Rule(r'(IntT (\w+) = (\w+) % (\w+);)', r'\1 GCD_ABS_REM(\2, \3, \4);', count=None, regex=True),
                      Rule(r'(?<![\w.>])(a|b) = (\w+);', r'\1 = \2; GCD_ABS_MOVE(\1, \2);', count=None, regex=True),
                      Rule(r'return (\w+);', r'{ GCD_ABS_RET(\1); return \1; }', count=None, regex=True)])
    u.function(src, MATH, r'constexpr std::pair<IntT, IntT> reduce_fraction\(IntT a, IntT b\)',
               new_header='PairT RF_NAME(IntT a, IntT b)',
               # (ghost g_denom: the value the gcd call returned, wherever it is bound; any number of return statements)
               rules=[Rule(r'\b((?:const )?(?:IntT|auto) (\w+) = )gcd\(a, b\);', r'IntT \2 = GCD_NAME(a, b); g_denom = \2;', count=None, regex=True),
                      Rule(r'(?<![\w.>])gcd\(a, b\)', 'GCD_NAME(a, b)', count=None, regex=True),
                      Rule('make_pair(', 'MAKE_PAIR(', count='+')])
    u.function(src, MATH, r'constexpr IntT log2i\(IntT v\)', new_header='IntT LOG2I_NAME(IntT v)')
    u.write(suffix='.inc')
    return u


def math_groups(ctx):
    H = 'harness/C20/math.c'
    gs = []
    OTH = lambda name: ['gcd_' + t for t in getattr(ctx, 'gcd_others', []) if t != name]
    for name, un, w, sg in INT_TYPES:
        full = w in GCD_FULL_BITS
        d = ['IntT=' + name, 'UIntT=' + un, 'W=%d' % w, 'SIGNED=%d' % sg, 'SFX=' + name, 'GCD_FULL=%d' % full, 'SFX_IS_%s=1' % name]
        dabs = ['IntT=' + name, 'UIntT=' + un, 'W=%d' % w, 'SIGNED=%d' % sg, 'SFX=' + name, 'GCD_FULL=0', 'GCD_ABS=1', 'SFX_IS_%s=1' % name]
        gs.append(Group(name='Math.log2i<%s>' % name, harness=H, entry='h_log2i', function='log2i<%s>' % name,
                        enforce='log2i_' + name, defines=d,
                        clause_note='contracts/C20_math.h: 0 <= r < W and (v >> r) == 1, i.e. r = floor(log2 v), for every v > 0',
                        replay=Replay(driver='C20/math.cc', mode='log2i', extra=[name])))
        if not full:
            gs.append(Group(name='Math.gcd<%s>.partial' % name, harness=H, entry='h_gcd', function='gcd<%s>' % name,
                            enforce='gcd_' + name, replace=OTH(name), loops=True, defines=d, kind='loop-contract',
                            clause_note='contracts/C20_math.h: termination, no UB, gcd(a,0) = a, result 0 iff both arguments 0, '
                                        'result <= max(a,b) -- divisibility clauses not decided at this width',
                            replay=Replay(driver='C20/math.cc', mode='gcd', extra=[name])))
            gs.append(Group(name='Math.gcd<%s>.divisibility[abstract predicate, modulo Euclid step lemma]' % name, harness=H, entry='h_gcd_abs',
                            function='gcd<%s>' % name, enforce='gcd_' + name, loops=True, defines=dabs, kind='loop-contract',
                            clause_note='contracts/C20_math.h (GCD_ABS): D = "g_d divides" is an abstract predicate carried by ghost booleans along the '
                                        'data flow; ASSUMED: D(0) and the Euclid step lemma D(x) && D(y) <=> D(y) && D(x mod y); PROVED: D(result) <=> '
                                        'D(a) && D(b) for the code as written at this width (which remainder is taken, the swap, termination, the '
                                        'returned variable, any width-specific path)',
                            replay=Replay(driver='C20/math.cc', mode='gcd', extra=[name])))
        else:
            # the contract's clauses about the two ghost divisors are independent conjuncts: one run each (contracts/C20_math.h)
            for part in (1, 2):
                gs.append(Group(name='Math.gcd<%s>.divisor-%s' % (name, 'd' if part == 1 else 'd2'), harness=H, entry='h_gcd',
                                function='gcd<%s>' % name, enforce='gcd_' + name, replace=OTH(name), loops=True, defines=d + ['GCD_PART=%d' % part],
                                kind='loop-contract', first='cadical', timeout=400,
                                clause_note='contracts/C20_math.h: d | a and d | b <=> d | gcd(a,b) for the ghost divisor; gcd | a, gcd | b; gcd(a,0) = a',
                                replay=Replay(driver='C20/math.cc', mode='gcd', extra=[name])))
            for part, what in ((1, 'same-ratio'), (2, 'coprime')):
                gs.append(Group(name='Math.reduce_fraction<%s>.%s' % (name, what), harness=H, entry='h_reduce_fraction',
                                function='reduce_fraction<%s>' % name, enforce='reduce_fraction_' + name, replace=['gcd_' + name],
                                defines=d + ['RF_PART=%d' % part], kind='loop-free', first='cadical', timeout=400,
                                clause_note='contracts/C20_math.h: p*g == a, q*g == b, p*b == q*a; a common divisor of p and q is 1',
                                replay=Replay(driver='C20/math.cc', mode='reduce_fraction', extra=[name])))
            gs.append(Group(name='Math.gcd<%s>.commutes' % name, harness=H, entry='l_gcd_commutes', function='gcd<%s>' % name,
                            replace=['gcd_' + name], defines=d, kind='lemma',
                            replay=Replay(driver='C20/math.cc', mode='gcd_commutes', extra=[name])))
    return gs



# ------------------------------------------------------------------------------------------------------------
# Vector2/3/4, Matrix4 (src/Vector.hh, src/Vector-inl.hh)
VHH = 'src/Vector.hh'
VINL = 'src/Vector-inl.hh'

OPNAME = {  # (operator token, kind of the parameter) -> C name suffix
    ('operator-', ''): 'neg', ('operator+', 'V'): 'add', ('operator-', 'V'): 'sub', ('operator+', 'T'): 'adds',
    ('operator-', 'T'): 'subs', ('operator*', 'T'): 'muls', ('operator/', 'T'): 'divs', ('operator%', 'T'): 'mods',
    ('operator+=', 'V'): 'iadd', ('operator-=', 'V'): 'isub', ('operator+=', 'T'): 'iadds', ('operator-=', 'T'): 'isubs',
    ('operator*=', 'T'): 'imuls', ('operator/=', 'T'): 'idivs', ('operator%=', 'T'): 'imods',
    ('operator!', ''): 'isz', ('operator==', 'V'): 'eq', ('operator!=', 'V'): 'ne', ('operator<', 'V'): 'lt',
    ('at', 'size_t'): 'at', ('norm1', ''): 'norm1', ('norm', ''): 'norm', ('norm2', ''): 'norm2', ('dot', 'V'): 'dot',
    ('cross', 'V'): 'cross', ('str', ''): 'str', ('dimensions', ''): 'dimensions',
    ('operator*', 'Vector4'): 'mulv', ('operator*', 'V_M'): 'mulm', ('operator*=', 'V_M'): 'imulm',
    ('transposition', ''): 'transposition', ('transpose', ''): 'transpose', ('inverse', ''): 'inverse', ('invert', ''): 'invert',
}
# members that are not put under contract, with the reason (listed in NOT_DECIDED / DROPS)
VEC_SKIP = {'norm': 'sqrt of a double', 'str': 'string formatting, not part of the property'}
MAT_TAKE = ('ctor', 'transposition', 'transpose', 'mulv')


def member_headers(src):
    """every `template <typename T> <header> {` of Vector-inl.hh, whitespace-normalised"""
    from vf import lex
    text = src.text(VINL)
    m = lex.mask(text)
    out = []
    for mo in re.finditer(r'template <typename T>\s*', m):
        j = mo.end()
        k = m.index('{', j)
        out.append(' '.join(text[j:k].split()))
    return out


def hdr_regex(h):
    return r'\s+'.join(re.escape(w) for w in h.split())


def ctype(t):
    """C spelling of a C++ parameter/return type of these classes"""
    t = t.strip()
    mo = re.fullmatch(r'(const )?(Vector[234]|Matrix4)<T>(&)?', t)
    if mo:
        return (mo.group(1) or '') + mo.group(2) + ('*' if mo.group(3) else '')
    if t in ('T', 'bool', 'size_t', 'double'):
        return t
    raise ExtractionBreak('unexpected type %r in Vector-inl.hh' % t)


def _tie_compare(mo):
    """std::tie(a1, .., an) OP std::tie(b1, .., bn): the lexicographic comparison of std::tuple (element-wise, left to right), written out"""
    a = [x.strip() for x in mo.group(1).split(',')]
    op = mo.group(2)
    b = [x.strip() for x in mo.group(3).split(',')]
    if len(a) != len(b) or not all(a) or not all(b):
        raise ExtractionBreak('std::tie comparison with %d against %d elements' % (len(a), len(b)))

    def lt(x, y):
        e = '((%s) < (%s))' % (x[-1], y[-1])
        for xi, yi in reversed(list(zip(x[:-1], y[:-1]))):
            e = '(((%s) < (%s)) || (!((%s) < (%s)) && %s))' % (xi, yi, yi, xi, e)
        return e
    eq = '(' + ' && '.join('((%s) == (%s))' % (x, y) for x, y in zip(a, b)) + ')'
    return {'<': lt(a, b), '>': lt(b, a), '<=': '(!%s)' % lt(b, a), '>=': '(!%s)' % lt(a, b), '==': eq, '!=': '(!%s)' % eq}[op]


TIE_RULE = Rule(r'(?:std::)?tie\(([^()]*)\)\s*(<=|>=|==|!=|<|>)\s*(?:std::)?tie\(([^()]*)\)', _tie_compare, count=None, regex=True)


def vec_units(ctx, src):
    """x_vec_types.h (the data members, cut from Vector.hh), x_vec.inc (every member function taken), and the list of
    (class, cname, c_function, kind-of-parameter, returns) used to build the groups."""
    heads = member_headers(src)
    ut = Unit(ctx, 'vec_types')
    classes = ['Vector2', 'Vector3', 'Vector4', 'Matrix4']
    first_member = {'Vector2': r'Vector2\(\);', 'Vector3': r'Vector3\(\);', 'Vector4': r'Vector4\(\);', 'Matrix4': r'Matrix4\(\);'}
    for c in classes:
        body = ut.snippet(src, VHH, r'template <typename T>\s*struct %s \{(.*?)\n\s*%s' % (c, first_member[c]), group=1)
        if re.search(r'[()]', body) or not re.fullmatch(r'(\s*union \{[^{}]*\};)+\s*', body):
            raise ExtractionBreak('%s: data members are no longer a sequence of anonymous unions: %r' % (c, body))
        ut.raw('typedef struct %s {%s\n} %s;' % (c, body, c))
    ut.write(suffix='.h')

    u = Unit(ctx, 'vec')
    table = []
    seen = set()
    for h in heads:
        seen.add(h)
        # constructors ---------------------------------------------------------------------------------------
        mo = re.fullmatch(r'(Vector[234])<T>::\1\((.*?)\) : (.*)', h)
        if mo:
            cls, params, inits = mo.groups()
            ptypes = [p.rsplit(' ', 1)[0] for p in params.split(', ')] if params else []
            if not ptypes:
                nm = 'make0'
            elif all(p == 'T' for p in ptypes):
                nm = 'make'
            elif ptypes[0] == 'const Vector2<T>&':
                nm = 'make_v2'
            elif ptypes[0] == 'const Vector3<T>&':
                nm = 'make_v3'
            else:
                raise ExtractionBreak('unknown constructor %s' % h)
            cparams = ', '.join('%s %s' % (ctype(p.rsplit(' ', 1)[0]), p.rsplit(' ', 1)[1]) for p in params.split(', ')) if params else 'void'
            refs = [p.rsplit(' ', 1)[1] for p in params.split(', ') if p.endswith(tuple('& ' + x for x in ('xy', 'xyz')))] if params else []
            # body must be empty: everything the constructor does is its member-initialiser list
            hd, body, _, _ = __import__('vf.lex', fromlist=['x']).find_def(src.text(VINL), hdr_regex(h), 'constructor')
            if body.strip('{} \n\t') != '':
                raise ExtractionBreak('%s: constructor body is not empty' % h)
            stmts = []
            for name, expr in re.findall(r'(\w+)\(([^()]*)\)', inits):
                for r in refs:
                    expr = re.sub(r'\b%s\.' % r, r + '->', expr)
                stmts.append('  r.%s = %s;' % (name, expr))
            if ', '.join('%s(%s)' % x for x in re.findall(r'(\w+)\(([^()]*)\)', inits)) != inits:
                raise ExtractionBreak('%s: member-initialiser list not understood' % h)
            cname = '%s_%s' % (cls, nm)
            u.raw('%s %s(%s)\n{\n  %s r;\n%s\n  return r;\n}' % (cls, cname, cparams, cls, '\n'.join(stmts)))
            u.functions.append({'file': VINL, 'cxx_header': h, 'c_header': '%s %s(%s)' % (cls, cname, cparams), 'line': 0})
            table.append((cls, nm, cname, ','.join(ptypes), cls))
            continue
        if h == 'Matrix4<T>::Matrix4()':
            u.function(src, VINL, hdr_regex(h), new_header='void Matrix4_ctor(Matrix4* self)', nloops=2, loops=MAT_LOOPS['ctor'])
            table.append(('Matrix4', 'ctor', 'Matrix4_ctor', '', 'void'))
            continue
        # member functions -----------------------------------------------------------------------------------
        mo = re.fullmatch(r'(?:constexpr )?(.*?) (Vector[234]|Matrix4)<T>::([\w]+|operator[^\s(]+)\((.*?)\)( const)?', h)
        if not mo:
            raise ExtractionBreak('member header not understood: %s' % h)
        ret, cls, name, params, const = mo.groups()
        ptype = params.rsplit(' ', 1)[0] if params else ''
        pname = params.rsplit(' ', 1)[1] if params else ''
        if ptype == 'const %s<T>&' % cls:
            pk = 'V_M' if cls == 'Matrix4' and name in ('operator*', 'operator*=') else 'V'
        elif ptype == 'const Vector4<T>&' and cls == 'Matrix4':
            pk = 'Vector4'
        else:
            pk = ptype
        if (name, pk) not in OPNAME:
            raise ExtractionBreak('member %s is not in the C20 table (new operator?)' % h)
        nm = OPNAME[(name, pk)]
        if ret == 'std::string':
            if nm != 'str':
                raise ExtractionBreak('unexpected string-returning member %s' % h)
            continue
        if nm in VEC_SKIP or (cls == 'Matrix4' and nm not in MAT_TAKE):
            continue
        cname = '%s_%s' % (cls, nm)
        cret = ctype(ret)
        static = nm == 'dimensions'
        cps = [] if static else ['%s%s* self' % ('const ' if const else '', cls)]
        if params:
            cps.append('%s %s' % (ctype(ptype), pname))
        rules = []
        if ptype.endswith('&'):
            rules.append(Rule(r'\b%s\.' % pname, pname + '->', count=(0 if nm == 'ne' else '+'), regex=True))
        if cls != 'Matrix4' and cret == cls or nm == 'mulv':
            rc = 'Vector4' if nm == 'mulv' else cls
            rules.append(Rule(r'\b%s(?:<T>)?\(' % rc, rc + '_make(', count=None, regex=True))
        if cret.endswith('*'):
            rules.append(Rule('return *this;', 'return self;', count=None))
        if nm == 'ne':
            rules.append(Rule('self->operator==(other)', '%s_eq(self, other)' % cls, count=None))
        # a member written in terms of another member of the same class: self->operator*(x) etc. (same kind of parameter)
        if cls != 'Matrix4':
            def _opcall(mo, cls=cls, pk=pk):
                key = ('operator' + mo.group(1), pk if pk in ('T', 'V') else 'T')
                if key not in OPNAME:
                    raise ExtractionBreak('call of operator%s inside %s::%s is not in the C20 table' % (mo.group(1), cls, nm))
                return '%s_%s(self, ' % (cls, OPNAME[key])
            rules.append(Rule(r'self->operator([^\s(]+)\(', _opcall, count=None, regex=True))
        if nm == 'at':
            rules.append(Rule('(this)', '(self)', count=1))
        rules.append(TIE_RULE)
        kw = {}
        if nm == 'at':
            kw['ret_zero'] = '0'      # a bounds check that throws (none in the code as it is) is lowered; the contract demands no exception for dim < N
        if cls == 'Matrix4':
            if nm == 'transposition':
                rules.append(Rule('Matrix4<T> res;', 'Matrix4 res; Matrix4_ctor(&res);', count=1))
            if nm == 'transpose':
                rules += [Rule('Matrix4<T> t = self->transposition();', 'Matrix4 t = Matrix4_transposition(self);', count=1),
                          Rule('*this = t;', '*self = t;', count=1)]
            if nm in MAT_LOOPS:
                kw = dict(loops=MAT_LOOPS[nm], nloops=MAT_NLOOPS[nm])
            if nm in MAT_PREFIX:
                kw['body_prefix'] = MAT_PREFIX[nm]
            rules += MAT_RULES.get(nm, [])
        u.function(src, VINL, hdr_regex(h), new_header='%s %s(%s)' % (cret, cname, ', '.join(cps) or 'void'), rules=rules, **kw)
        table.append((cls, nm, cname, pk, cret))
    u.write(suffix='.inc')
    return ut, u, table


# loop contracts of the Matrix4 members (text in contracts/C20_vec.h as macros)
MAT_LOOPS = {
    'ctor': {1: 'M4_CTOR_OUTER', 2: 'M4_CTOR_INNER'},
    'transposition': {1: 'M4_TR_OUTER', 2: 'M4_TR_INNER'},
}
MAT_NLOOPS = {'ctor': 2, 'transposition': 2}
MAT_PREFIX = {}
MAT_RULES = {}

TDEF = {
    'int64_t': ['T=int64_t', 'UT=uint64_t', 'T_SIGNED=1', 'T_PROMOTES=0', 'T_MIN=INT64_MIN'],
    'uint64_t': ['T=uint64_t', 'UT=uint64_t', 'T_SIGNED=0', 'T_PROMOTES=0'],
    'uint32_t': ['T=uint32_t', 'UT=uint32_t', 'T_SIGNED=0', 'T_PROMOTES=0'],
}
HEAVY = ('muls', 'divs', 'mods', 'imuls', 'idivs', 'imods', 'norm2', 'dot', 'cross')   # 64-bit * / % : cvc5 first


def vec_groups(ctx, table):
    H = 'harness/C20/vec.c'
    gs = []
    T = 'int64_t'
    for cls, nm, cname, pk, cret in table:
        if cls == 'Matrix4':
            continue
        g = Group(name='Vector.%s<%s>.%s' % (cls, T, nm), harness=H, entry='h_' + cname, function='%s<%s>::%s' % (cls, T, nm),
                  enforce=cname, defines=TDEF[T], kind='loop-free',
                  clause_note='contracts/C20_vec_ops.h: the result is the componentwise definition (native operator on T per component)',
                  replay=Replay(driver='C20/vec.cc', mode=cname, extra=[T]))
        if nm in HEAVY:
            g.first, g.stage1, g.timeout = 'cvc5', 20, 300
        gs.append(g)
    for cls in ('Vector2', 'Vector3', 'Vector4'):
        gs.append(Group(name='Vector.%s<%s>.strict-weak-order' % (cls, T), harness=H, entry='l_%s_order' % cls,
                        function='%s<%s>::operator< / == / !=' % (cls, T),
                        replace=['%s_lt' % cls, '%s_eq' % cls, '%s_ne' % cls], defines=TDEF[T], kind='lemma', min_post=7,
                        replay=Replay(driver='C20/vec.cc', mode='%s_order' % cls, extra=[T])))
    # cross product orthogonal to both operands: ensures clauses of cross at the element types without undefined overflow
    # (polynomial identity in Z/2^n), plus the composition a.dot(a.cross(b)) == 0 executed on the real text of both functions
    for T2 in ('uint64_t', 'uint32_t'):
        for nm in ('cross', 'dot'):
            g = Group(name='Vector.Vector3<%s>.%s' % (T2, nm), harness=H, entry='h_Vector3_' + nm,
                      function='Vector3<%s>::%s' % (T2, nm), enforce='Vector3_' + nm, defines=TDEF[T2], kind='loop-free',
                      replay=Replay(driver='C20/vec.cc', mode='Vector3_' + nm, extra=[T2]))
            g.first, g.stage1 = 'cvc5', 20
            gs.append(g)
        # only cvc5 normalises the polynomial; the SAT back ends cannot prove the identity even at 4 bits (measured)
        gs.append(Group(name='Vector.Vector3<%s>.cross-orthogonal' % T2, harness=H, entry='l_cross_orthogonal',
                        function='Vector3<%s>::cross / dot' % T2, defines=TDEF[T2],
                        kind='lemma', min_post=2, first='cvc5', stage1=60,
                        replay=Replay(driver='C20/vec.cc', mode='cross_orthogonal', extra=[T2])))
    return gs


def mat_groups(ctx):
    H = 'harness/C20/mat.c'
    T = 'int64_t'
    d = TDEF[T]
    rp = lambda m: Replay(driver='C20/vec.cc', mode=m, extra=[T])
    gs = [
        Group(name='Vector.Matrix4<%s>.ctor' % T, harness=H, entry='h_Matrix4_ctor', function='Matrix4<%s>::Matrix4()' % T,
              enforce='Matrix4_ctor', loops=True, defines=d, kind='loop-contract',
              clause_note='contracts/C20_mat.h: m[x][y] == (x == y) at the ghost element', replay=rp('Matrix4_ctor')),
        Group(name='Vector.Matrix4<%s>.transposition' % T, harness=H, entry='h_Matrix4_transposition',
              function='Matrix4<%s>::transposition' % T, enforce='Matrix4_transposition', replace=['Matrix4_ctor'], loops=True,
              defines=d, kind='loop-contract', clause_note='contracts/C20_mat.h: r.m[y][x] == m[x][y] at the ghost element',
              replay=rp('Matrix4_transposition')),
        Group(name='Vector.Matrix4<%s>.transpose' % T, harness=H, entry='h_Matrix4_transpose',
              function='Matrix4<%s>::transpose' % T, enforce='Matrix4_transpose', replace=['Matrix4_transposition'],
              defines=d, kind='loop-free', replay=rp('Matrix4_transpose')),
        Group(name='Vector.Matrix4<%s>.transposition-twice' % T, harness=H, entry='l_transpose_twice',
              function='Matrix4<%s>::transposition' % T, replace=['Matrix4_transposition'], defines=d, kind='lemma',
              replay=rp('Matrix4_transposition_twice')),
        Group(name='Vector.Matrix4<%s>.transpose-twice' % T, harness=H, entry='l_transpose_inplace_twice',
              function='Matrix4<%s>::transpose' % T, replace=['Matrix4_transpose'], defines=d, kind='lemma',
              replay=rp('Matrix4_transpose_twice')),
        Group(name='Vector.Matrix4<uint64_t>.mulv', harness=H, entry='h_Matrix4_mulv', function='Matrix4<uint64_t>::operator*(Vector4)',
              enforce='Matrix4_mulv', defines=TDEF['uint64_t'], kind='loop-free', first='cvc5', stage1=30,
              clause_note='contracts/C20_mat.h: (Mv).row_i == sum_j m[j][i]*v_j in wrap-around arithmetic',
              replay=Replay(driver='C20/vec.cc', mode='Matrix4_mulv', extra=['uint64_t'])),
    ]
    return gs


# ------------------------------------------------------------------------------------------------------------
# random_data / random_object / random_int (src/Random.cc, src/Random.hh)
RCC = 'src/Random.cc'


def random_units(ctx, src):
    uo = Unit(ctx, 'random_object')
    uo.function(src, 'src/Random.hh', r'T random_object\(\)', new_header='RO_T RO_NAME(void)',
                rules=[Rule('T ret;', 'RO_T ret;', count=1),
                       Rule('random_data(&ret, sizeof(T));', 'random_data(&ret, sizeof(RO_T)); if (verif_exc) return 0;', count=1)])
    uo.write(suffix='.inc')
    u = Unit(ctx, 'random')
    u.function(src, RCC, r'void random_data\(void\* data, size_t bytes\)',
               rules=[Rule('static scoped_fd fd("/dev/urandom", O_RDONLY);', '', count=1),      # the descriptor: part of the stub
                      Rule(r'static (?:thread_local )?string buffer;', '', count=1, regex=True),                   # hoisted (contracts/C20_random.h)
                      Rule('buffer.size()', 'buffer.size', count=6),
                      Rule('buffer.data()', 'buffer.data', count=2),
                      Rule('buffer = readx(fd, 4096);', 'readx_into(&buffer, 4096); if (verif_exc) return;', count=1),
                      Rule('buffer.resize(', 'vstr_resize(&buffer, ', count=1),
                      Rule('memcpy(', 'G_MEMCPY(', count=2)],
               loops={1: 'RD_LOOP'}, nloops=1,
               body_prefix=' g_data0 = data; g_bytes0 = bytes; g_size0 = buffer.size; g_filled = 0; g_k_hits = 0; g_refills = 0; ')
    u.function(src, RCC, r'string random_data\(size_t bytes\)', new_header='void random_data_str(pstr* ret, size_t bytes)',
               rules=[Rule("string ret(bytes, '\\0');", "pstr_init_fill(ret, bytes, '\\0'); if (verif_exc) return;", count=1),
                      Rule('random_data(ret.data(), ret.size());', 'random_data(ret->data, ret->size); if (verif_exc) return;', count=1),
                      Rule('return ret;', 'return;', count=1)])
    u.function(src, RCC, r'int64_t random_int\(int64_t low, int64_t high\)',
               rules=[Rule('random_object<uint%d_t>()' % w, 'random_object_uint%d_t()' % w, count=1) for w in (64, 32, 16, 8)])
    u.write()
    return uo, u


def random_groups(ctx):
    H = 'harness/C20/random.c'
    rp = lambda m: Replay(driver='C20/random.cc', mode=m, sources=['src/Random.cc', 'src/Filesystem.cc', 'src/Strings.cc', 'src/Process.cc', 'src/Time.cc'])
    return [
        Group(name='Random.random_data', harness=H, entry='h_random_data', function='random_data(void*, size_t)',
              enforce='random_data', loops=True, kind='loop-contract', min_post=3, timeout=400, stage1=200,
              clause_note='contracts/C20_random.h: every offset < bytes is stored exactly once, nothing else is written (assigns)',
              replay=rp('random_data')),
        Group(name='Random.random_data(size_t)', harness=H, entry='h_random_data_str', function='random_data(size_t)',
              enforce='random_data_str', replace=['random_data'], kind='loop-free',
              clause_note='contracts/C20_random.h: the returned string has exactly `bytes` bytes, all stored',
              replay=rp('random_data_str')),
        Group(name='Random.random_int', harness=H, entry='h_random_int', function='random_int', enforce='random_int',
              replace=['random_data'], kind='loop-free', timeout=400, stage1=100,
              clause_note='contracts/C20_random.h: lo <= random_int(lo,hi) <= hi for hi - lo < 2^63, random source nondet',
              replay=rp('random_int')),
    ]

# ------------------------------------------------------------------------------------------------------------
# Matrix4<T>::invert / inverse: Gauss-Jordan structure over uninterpreted arithmetic (contracts/C20_invert.h)
ENTRY = r'(?:left\.|self->|res\.)?m\[\w+\]\[\w+\]'


def invert_unit(ctx, src):
    u = Unit(ctx, 'invert')

    def no_arith(body, where=''):
        """every entry operation must have been lowered: no arithmetic operator may be left except the loop counters' ++ and the unary minus"""
        m = re.sub(r'\b\w\+\+', '', lex.mask(body))
        left = re.findall(r'[^\n;{}]*(?:[-+*/%]=|[/%]|[\w\])]\s*[*+]\s*[\w(]|[\w\])]\s+-\s+[\w(])[^\n;{}]*', m)
        if left:
            raise ExtractionBreak('%s: arithmetic outside the lowering table of C20 invert: %r' % (where, left[0].strip()[:80]))
        return body
    u.function(src, VINL, r'Matrix4<T>& Matrix4<T>::invert\(\)', new_header='Matrix4* Matrix4_invert(Matrix4* self)', ret_zero='0', nloops=4, loops={},
               rules=[Rule('Matrix4<T> left = *this;', 'Matrix4 left = *self;', count=1),
                      Rule(r'\*this = Matrix4<T>\(\);', 'Matrix4_identity(self);', count=1, regex=True),
                      Rule('return *this;', 'return self;', count=1),
                      # entry arithmetic -> the uninterpreted operations (type-directed: the operands are matrix entries / doubles)
                      Rule(r'(?<![\w.>])(?:std::)?f?abs\(', 'UF_FABS(', count=None, regex=True),
                      Rule(r'(%s) /= (\w+);' % ENTRY, r'\1 = UF_DIV(\1, \2);', count='+', regex=True),
                      Rule(r'(%s) \+= (%s) \* (\w+);' % (ENTRY, ENTRY), r'\1 = UF_ADD(\1, UF_MUL(\2, \3));', count='+', regex=True),
                      Fn20(no_arith)])
    u.function(src, VINL, r'Matrix4<T> Matrix4<T>::inverse\(\) const', new_header='Matrix4 Matrix4_inverse(const Matrix4* self)', ret_zero='res',
               rules=[Rule('Matrix4<T> res = *this;', 'Matrix4 res = *self;', count=1),
                      Rule('res.invert();', 'Matrix4_invert(&res); if (verif_exc) return res;', count=1),
                      Rule(r'\*this\b', '*self', count=None, regex=True)])
    # the matrix product and the in-place product, same lowering (T = double).  The rules are shape-directed: any accumulation
    # `v += <entry> * <entry>;` becomes the uninterpreted operations, whatever the operands are called
    OPND = r'(?:\w+(?:->|\.))?\w+(?:\[\w+\])+'

    def no_arith_p(body, where=''):
        return no_arith(re.sub(r'\*self\b', 'SELF', body), where) and body
    PROD_RULES = [Rule(r'\bMatrix4<T> res;', 'Matrix4 res; Matrix4_identity(&res);', count=None, regex=True),
                  Rule(r'\bMatrix4<T> (\w+) = \*this \* other;', r'Matrix4 \1 = Matrix4_mulm(self, other);', count=None, regex=True),
                  Rule(r'\bMatrix4<T>\b', 'Matrix4', count=None, regex=True), Rule(r'\bT\b', 'double', count=None, regex=True),
                  Rule(r'\*this\b', '*self', count=None, regex=True), Rule(r'\bthis->', 'self->', count=None, regex=True),
                  Rule(r'\bother\.', 'other->', count=None, regex=True),
                  Rule(r'(\w+) \+= (%s) \* (%s);' % (OPND, OPND), r'\1 = UF_ADD(\1, UF_MUL(\2, \3));', count=None, regex=True),
                  Fn20(no_arith_p)]
    u.function(src, VINL, r'Matrix4<T> Matrix4<T>::operator\*\(const Matrix4<T>& other\) const',
               new_header='Matrix4 Matrix4_mulm(const Matrix4* self, const Matrix4* other)', ret_zero='res', must_loops=False, rules=PROD_RULES)
    u.function(src, VINL, r'Matrix4<T> Matrix4<T>::operator\*=\(const Matrix4<T>& other\)',
               new_header='Matrix4 Matrix4_imulm(Matrix4* self, const Matrix4* other)', ret_zero='*self', must_loops=False, rules=PROD_RULES)
    u.write()
    return u


class Fn20(Rule):
    def __init__(self, fn):
        self.fn, self.pat = fn, fn.__name__

    def apply(self, text, where=''):
        return self.fn(text, where)


def invert_groups(ctx):
    H = 'harness/C20/invert.c'
    UNW = ['--unwind', '17', '--unwinding-assertions']
    bound = 'all loops have the constant bound 4 and are unwound completely (unwinding assertions on): complete, not a bounded stand-in'
    rp = lambda m: Replay(driver='C20/invert.cc', mode=m, sources=['src/Strings.cc', 'src/Filesystem.cc', 'src/Process.cc', 'src/Time.cc', 'src/Encoding.cc', 'src/Hash.cc', 'src/Random.cc'])
    return [
        Group(name='Vector.Matrix4<double>.invert', harness=H, entry='h_invert', function='Matrix4<double>::invert', enforce='Matrix4_invert',
              kind='unwound-constant-loops', bound=bound, cbmc_flags=UNW, min_post=3, timeout=600, stage1=120, engines=['z3'], first='z3',     # uninterpreted functions: congruence closure (SAT back ends: Ackermann expansion, no answer in 900 s; cvc5: aborts on the double<->bits union)
              clause_note='contracts/C20_invert.h: result == reference Gauss-Jordan elimination on [M | I] entry by entry (ghost entry), error iff zero pivot, '
                          'for every interpretation of + * / on entries (uninterpreted functions)', replay=rp('invert')),
        Group(name='Vector.Matrix4<double>.inverse', harness=H, entry='h_inverse', function='Matrix4<double>::inverse', enforce='Matrix4_inverse',
              replace=['Matrix4_invert'], kind='loop-free', min_post=2, cbmc_flags=UNW,
              clause_note='contracts/C20_invert.h: inverse() = invert() of a copy, the operand is not modified (assigns)', replay=rp('inverse')),
        Group(name='Vector.Matrix4<double>.operator*(Matrix4)', harness=H, entry='h_mulm', function='Matrix4<double>::operator*(const Matrix4&)', enforce='Matrix4_mulm',
              kind='unwound-constant-loops', bound=bound, cbmc_flags=UNW, min_post=1, timeout=600, stage1=120, engines=['z3'], first='z3',
              clause_note='contracts/C20_invert.h: entry (x, y) == sum_z A.m[z][y] * B.m[x][z] (accumulated from 0, z ascending) at the ghost entry, for every interpretation '
                          'of + and * (uninterpreted functions), also for A * A', replay=rp('mulm')),
        Group(name='Vector.Matrix4<double>.operator*=(Matrix4)', harness=H, entry='h_imulm', function='Matrix4<double>::operator*=(const Matrix4&)', enforce='Matrix4_imulm',
              replace=['Matrix4_mulm'], kind='unwound-constant-loops', bound=bound, cbmc_flags=UNW, min_post=1, timeout=600, stage1=120, engines=['z3'], first='z3',
              clause_note='contracts/C20_invert.h: A *= B leaves in A (and returns) the product of the operand values at the call, also when B is A itself', replay=rp('imulm')),
    ]


def plan(ctx):
    src = Source(ctx.src)
    groups = []
    um = math_unit(ctx, src)
    ctx.gcd_others = sorted(set(re.findall(r'GCD_INST\((\w+)\)', um.text())))     # other instantiations the text of gcd calls explicitly
    ctx.functions_under_contract = list(um.functions)
    groups += math_groups(ctx)
    # the two number-theoretic facts that the abstract-predicate proof of gcd assumes (D(0), Euclid step lemma) are checked by the Lean 4
    # kernel on every run when lean is installed (spec/lemmas/EuclidStep.lean, core library only); the group below records the outcome
    import shutil as _sh, subprocess as _sp
    from vf.pipeline import VERIF as _V
    lean_ok, lean_msg = 0, 'lean not found on PATH: the lemma stays an assumption'
    if _sh.which('lean'):
        try:
            pr = _sp.run(['lean', os.path.join(_V, 'spec', 'lemmas', 'EuclidStep.lean')], capture_output=True, text=True, timeout=300)
            out = (pr.stdout + pr.stderr).strip()
            lean_ok = int(pr.returncode == 0 and 'error' not in out and 'sorry' not in out)
            lean_msg = ('accepted by lean (%s)' % ' '.join(out.split())[:160]) if lean_ok else ('lean rejected the file: %s' % ' '.join(out.split())[:300])
        except (OSError, _sp.TimeoutExpired) as e:
            lean_msg = 'lean could not be run (%s): the lemma stays an assumption' % e
    ul = Unit(ctx, 'lemmas')
    ul.raw('#define C20_EUCLID_STEP_BY_LEAN %d\n#define C20_LEAN_SAYS "%s"' % (lean_ok, lean_msg.replace('\\', '/').replace('"', "'")))
    ul.write(suffix='.h', scan=False)
    ctx.lean_euclid = (lean_ok, lean_msg)
    if lean_ok or 'rejected' in lean_msg:
        groups.append(Group(name='Math.gcd.lemma[D(0), Euclid step: Lean 4 kernel]', harness='harness/C20/lemmas.c', entry='h_lemmas', kind='lemma', min_post=1,
                            function='spec/lemmas/EuclidStep.lean (d | 0;  d | x and d | y <=> d | y and d | x mod y, over the natural numbers)',
                            clause_note='the number theory assumed by the groups "divisibility[abstract predicate, modulo Euclid step lemma]" is machine-checked: ' + lean_msg))
    ut, uv, table = vec_units(ctx, src)
    ctx.functions_under_contract += uv.functions
    groups += vec_groups(ctx, table)
    groups += mat_groups(ctx)
    ui = invert_unit(ctx, src)
    ctx.functions_under_contract += ui.functions
    groups += invert_groups(ctx)
    uo, ur = random_units(ctx, src)
    ctx.functions_under_contract += uo.functions + ur.functions
    groups += random_groups(ctx)
    return groups


CLAIMED = True
MANIFEST = dict(
    category='proof',
    text=('log2i (8 integer types: r < W and v >> r == 1 for every v > 0), every operator/constructor/at/dot/norm1/norm2/cross/dimensions of '
          'Vector2/3/4<int64_t> (componentwise definition, full input domain minus C++-undefined inputs), cross-product orthogonality in Z/2^64 and Z/2^32, '
          'operator< strict weak order consistent with == (lemmas over the contracts), Matrix4 identity constructor, transposition()[y][x] == m[x][y], '
          'transpose, transpose twice = identity, M*v componentwise, random_int(lo,hi) in [lo,hi] for hi-lo < 2^63 with a nondet random source, '
          'random_data storing every requested byte exactly once and nothing else: function contracts enforced with goto-instrument --dfcc on text '
          'extracted from /repo/src on every run; loops (Euclid, 4x4 matrix loops, refill loop) by loop contracts for any iteration count. '
          'gcd divisibility and reduce_fraction (same ratio, coprime) are proved for the 8-bit instantiations over all values.'),
    note=('Not decided: gcd divisibility / reduce_fraction for 16/32/64-bit types (non-linear induction step; only termination, UB-freedom, gcd(a,0)=a, '
          'zero-iff-both-zero, <= max proved there); (AB)v = A(Bv) as an algebraic identity (decided: A*B and A*=B are the textbook product entry by entry over uninterpreted arithmetic, M*v componentwise); M*inverse(M) = I; norm(); float/double '
          'instantiations. Trusted: cbmc/goto-instrument, the answering SAT/SMT solver, the extractor, the spec macros in contracts/C20_*.h, the stubs for '
          'the random source / std::string / memcpy (content abstracted) in contracts/C20_random.h, cbmc\'s __builtin_clz(ll) model. Preconditions exclude '
          'inputs on which the native C++ operator is undefined; operands of binary vector operators are distinct objects; at(dim) only for dim < N.'),
    technique=('function contracts (requires/ensures/assigns) and loop contracts (invariant/decreases/assigns) enforced with goto-instrument --dfcc, '
               'discharged by cbmc (SAT/SMT portfolio); ghost-value universals; lemmas over contracts'),
)
