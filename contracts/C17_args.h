/* C17 side-car contracts: the per-token body of Arguments::parse and Arguments::assert_none_unused
 * (src/Arguments.cc; definitions are extracted text).
 *
 * Spec source: property C17 --
 *   "every token is classified exactly once and in order as a positional argument, a --name[=value] option
 *    (repeatable) or a group of single-letter flags"  and
 *   "assert_none_unused throws iff some supplied argument was never read".
 *
 * Shapes (the documented command-line grammar):
 *   OPTION      "--" followed by at least one more character: name = the characters after "--" up to the first '='
 *               (or the end), value = everything after that '=' ("" when there is no '=')
 *   FLAGS       '-' followed by a character other than '-': every following character is one flag (name = that one
 *               character, value ""), in order.  Characters are taken up to the first NUL, which for every
 *               NUL-free token (all that argv can deliver) is the end of the token.
 *   POSITIONAL  everything else: the empty token, tokens not starting with '-', and the bare "-" and "--"
 *               (conventional stdin / end-of-options markers; they carry no name and no flag, so "classified exactly
 *               once" leaves only this class for them). */
#ifndef C17_ARGS_H
#define C17_ARGS_H
#include "stubs/C17_args.h"

#define TOK_OPTION(a)     ((a)->size >= 3 && (a)->data[0] == '-' && (a)->data[1] == '-')
#define TOK_FLAGS(a)      ((a)->size >= 2 && (a)->data[0] == '-' && (a)->data[1] != '-')
#define TOK_POSITIONAL(a) ((a)->size == 0 || (a)->data[0] != '-' || (a)->size == 1 || ((a)->size == 2 && (a)->data[1] == '-'))

extern size_t g_nev0, g_npos0;    /* ghost copies of the log counters at entry (harness) */
extern size_t g_size;

/* a std::string token: size < cap, terminator in place (operator[](size()) is the only legal read past the text) */
#define C17_TOKEN_REQ(arg) \
  __CPROVER_requires(__CPROVER_is_fresh(arg, sizeof(vstr))) \
  __CPROVER_requires((arg)->size < 0x10000 && (arg)->cap == (arg)->size + 1 && (arg)->size == g_size) \
  __CPROVER_requires(__CPROVER_is_fresh((arg)->data, (arg)->cap)) \
  __CPROVER_requires((arg)->data[(arg)->size] == 0) \
  C17_SMALL_REQ(arg)

/* after a failure the verifier is asked again for a short token whose bytes are visible (replay) */
#ifdef VERIF_SMALL
extern char g_t0, g_t1, g_t2, g_t3, g_t4, g_t5, g_t6, g_t7, g_t8;
#define C17_TB(arg, k) ((arg)->size < (k) || (arg)->data[k] == g_t##k)
#define C17_SMALL_REQ(arg) __CPROVER_requires((arg)->size <= 8 && C17_TB(arg, 0) && C17_TB(arg, 1) && C17_TB(arg, 2) && C17_TB(arg, 3) && \
                                              C17_TB(arg, 4) && C17_TB(arg, 5) && C17_TB(arg, 6) && C17_TB(arg, 7) && C17_TB(arg, 8))
#else
#define C17_SMALL_REQ(arg)
#endif

#define C17_EV_IS(kind, arg) (g_ev_written && g_ev_kind == (kind) && g_ev_src == (arg) && g_ev_used == false)

void Arguments_parse_token(Arguments_log* self, vstr* arg)
C17_TOKEN_REQ(arg)
__CPROVER_requires(verif_exc == EXC_none && !g_ev_written)
__CPROVER_requires(g_nev == g_nev0 && g_npos == g_npos0 && g_nev0 < 0x100000 && g_npos0 <= g_nev0)
/* parsing never fails */
__CPROVER_ensures(verif_exc == EXC_none)
/* POSITIONAL: exactly one event, the next positional index, text = the whole token */
__CPROVER_ensures(TOK_POSITIONAL(arg) ==> (g_nev == g_nev0 + 1 && g_npos == g_npos0 + 1))
__CPROVER_ensures((TOK_POSITIONAL(arg) && g_ek == g_nev0) ==>
                  (C17_EV_IS(C17_EV_POSITIONAL, arg) && g_ev_index == g_npos0 && g_ev_toff == 0 && g_ev_tlen == arg->size))
/* OPTION: exactly one event; key = [2, 2+klen) holds no '='; either the token ends there (value "") or a '=' follows
 * and the value is the rest of the token */
__CPROVER_ensures(TOK_OPTION(arg) ==> (g_nev == g_nev0 + 1 && g_npos == g_npos0))
__CPROVER_ensures((TOK_OPTION(arg) && g_ek == g_nev0) ==>
                  (C17_EV_IS(C17_EV_NAMED, arg) && g_ev_koff == 2 && g_ev_klen <= arg->size - 2))
__CPROVER_ensures((TOK_OPTION(arg) && g_ek == g_nev0 && g_ck >= 2 && g_ck < 2 + g_ev_klen) ==> arg->data[g_ck] != '=')
__CPROVER_ensures((TOK_OPTION(arg) && g_ek == g_nev0) ==>
                  ((2 + g_ev_klen == arg->size) ? g_ev_tlen == 0
                   : (arg->data[2 + g_ev_klen] == '=' && g_ev_toff == 2 + g_ev_klen + 1 && g_ev_tlen == arg->size - g_ev_toff)))
/* FLAGS: one event per character from index 1 up to the first NUL, in order, name = that character, value "" */
__CPROVER_ensures(TOK_FLAGS(arg) ==> (g_npos == g_npos0 && g_nev >= g_nev0 && 1 + (g_nev - g_nev0) <= arg->size &&
                                      arg->data[1 + (g_nev - g_nev0)] == 0))
__CPROVER_ensures((TOK_FLAGS(arg) && g_ck >= 1 && g_ck < 1 + (g_nev - g_nev0)) ==> arg->data[g_ck] != 0)
__CPROVER_ensures((TOK_FLAGS(arg) && g_ek >= g_nev0 && g_ek < g_nev) ==>
                  (C17_EV_IS(C17_EV_NAMED, arg) && g_ev_koff == 1 + (g_ek - g_nev0) && g_ev_klen == 1 && g_ev_tlen == 0))
/* append-only: earlier events are untouched, nothing beyond the new ones is written */
__CPROVER_ensures((g_ek < g_nev0 || g_ek >= g_nev) ==> !g_ev_written)
__CPROVER_assigns(g_nev, g_npos, g_ev_written, g_ev_kind, g_ev_src, g_ev_koff, g_ev_klen, g_ev_toff, g_ev_tlen, g_ev_index, g_ev_used);

/* loop contract of the flag loop (injected by props/C17.py) */
#define C17_FLAGS_LOOP_ASSIGNS z, g_nev, g_ev_written, g_ev_kind, g_ev_src, g_ev_koff, g_ev_klen, g_ev_toff, g_ev_tlen, g_ev_index, g_ev_used

/* ---------------------------------------------------------------------------------------------- assert_none_unused */
extern size_t g_pk;               /* ghost index into positional */
extern int g_wit_kind; extern size_t g_wit_i, g_wit_j; extern bool g_wit_used;   /* witness recorded at the throw */

#define C17_ARGS_REQ(self) \
  __CPROVER_requires(__CPROVER_is_fresh(self, sizeof(Arguments))) \
  __CPROVER_requires((self)->positional.size <= C17_MAXVEC && g_nmap <= C17_MAXVEC && g_nsz <= C17_MAXVEC) \
  __CPROVER_requires(__CPROVER_is_fresh((self)->positional.data, (self)->positional.size * sizeof(ArgText)))

void Arguments_assert_none_unused(const Arguments* self)
C17_ARGS_REQ(self)
__CPROVER_requires(verif_exc == EXC_none && g_wit_kind == 0)
__CPROVER_ensures(verif_exc == EXC_none || verif_exc == EXC_invalid_argument)
/* returns normally  =>  every supplied argument was read */
__CPROVER_ensures((verif_exc == EXC_none && g_pk < self->positional.size) ==> self->positional.data[g_pk].used)
__CPROVER_ensures((verif_exc == EXC_none && g_ni < g_nmap && g_nj < g_nsz) ==> g_nused)
/* throws  =>  the witness is a supplied argument that was never read */
__CPROVER_ensures(verif_exc != EXC_none ==> (g_wit_kind == 1 || g_wit_kind == 2) && !g_wit_used)
__CPROVER_ensures((verif_exc != EXC_none && g_wit_kind == 1) ==> (g_wit_i < self->positional.size && !self->positional.data[g_wit_i].used))
__CPROVER_ensures((verif_exc != EXC_none && g_wit_kind == 2) ==> g_wit_i < g_nmap)
__CPROVER_ensures((verif_exc != EXC_none && g_wit_kind == 2 && g_wit_i == g_ni) ==> (g_wit_j < g_nsz && (g_wit_j == g_nj ==> !g_nused)))
__CPROVER_assigns(verif_exc, g_wit_kind, g_wit_i, g_wit_j, g_wit_used);

#endif
