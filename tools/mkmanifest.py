#!/usr/bin/env python3
"""Regenerates /verif/MANIFEST.json from the property modules (props/Cxx.py: MANIFEST dict) and props/not_applicable.json."""
import importlib, json, os, sys
V = os.path.dirname(os.path.dirname(os.path.abspath(__file__)))
sys.path.insert(0, V)
ids = [json.loads(l)['id'] for l in open(os.path.join(V, 'properties.jsonl'))]
na = json.load(open(os.path.join(V, 'props', 'not_applicable.json')))
checks, nas = [], []
claimed = json.load(open(os.path.join(V, 'props', 'claimed.json')))   # the lead's list of finished, reviewed checks
for i in ids:
    mod = None
    if i in claimed and os.path.exists(os.path.join(V, 'props', i + '.py')):
        mod = importlib.import_module('props.' + i)
    if mod is not None and getattr(mod, 'CLAIMED', False):
        m = mod.MANIFEST
        checks.append({
            'property_id': i,
            'quick_cmd': './check %s --tier quick' % i,
            'thorough_cmd': './check %s --tier thorough' % i,
            'evidence_file': '/verif/evidence/%s.json' % i,
            'replay_cmd_template': './check %s --replay {path}' % i,
            'engine': 'cbmc-dfcc',
            'level_claimed': {'category': m['category'], 'text': m['text'], 'design_ref': m.get('design_ref', 'DESIGN.md section 4, ' + i)},
            'level_note': m['note'],
            'technique': m['technique'],
        })
    else:
        nas.append({'property_id': i, 'reason': na[i]})
man = {
    'version': 1,
    'setup_cmd': 'true',
    'hooks': {'guard': 'PHOSG_VERIF',
              'enable': 'no hooks are needed: contracts are side-car files under /verif/contracts and the verified C text is extracted from /repo/src on every run (the guard name is reserved, no source line uses it)',
              'baseline_off_cmd': 'cmake -G Ninja -S /repo -B /repo/_build >/dev/null && cmake --build /repo/_build >/dev/null && ctest --test-dir /repo/_build -j8 --timeout 900',
              'source_commits': [], 'add_only': True},
    'engines': [{'name': 'cbmc-dfcc', 'path': '/verif/check', 'serves_properties': [c['property_id'] for c in checks],
                 'kind_free_text': 'contract-based deductive verification: goto-cc + goto-instrument --dfcc (function and loop contracts) + cbmc 6.11 with a SAT/SMT portfolio, on C text extracted mechanically from /repo/src on every run'}],
    'checks': checks,
    'not_applicable': nas,
    'notes': 'See DESIGN.md. exit 2 of a check means undecided (extraction break, solver timeout, vacuity guard) and never carries a VIOLATION line.',
}
json.dump(man, open(os.path.join(V, 'MANIFEST.json'), 'w'), indent=1)
print('claimed:', [c['property_id'] for c in checks])
