// Native replay for C03: calls the real phosg functions (headers of the working tree) with the verifier's
// counterexample and evaluates the same postcondition. exit 1 = violated on the real code, 0 = holds, 2 = usage.
#include "replay/common/args.hh"
#include "Encoding.hh"
#include <type_traits>
using namespace phosg;

static uint64_t rev(uint64_t a, int n) { uint64_t r = 0; for (int k = 0; k < n; k++) r |= ((a >> (8 * k)) & 0xFF) << (8 * (n - 1 - k)); return r; }
template <typename T, typename U> static U bits(T v) { U u; memcpy(&u, &v, sizeof(u)); return u; }

template <typename R, typename S> static int se(uint64_t a) {
  S s = (S)a; R r = sign_extend<R, S>(s);
  using SS = std::make_signed_t<S>; using SR = std::make_signed_t<R>; using UR = std::make_unsigned_t<R>;
  UR e = (UR)(SR)(SS)s;
  RCHECK((UR)r == e, "sign_extend(0x%llX) = 0x%llX, expected 0x%llX", (unsigned long long)a, (unsigned long long)(UR)r, (unsigned long long)e);
  printf("holds on this input\n"); return 0;
}
template <typename S> static int se_r(const std::string& R, uint64_t a) {
  if constexpr (sizeof(S) < 2) { if (R == "uint16_t") return se<uint16_t, S>(a); if (R == "int16_t") return se<int16_t, S>(a); }
  if constexpr (sizeof(S) < 4) { if (R == "uint32_t") return se<uint32_t, S>(a); if (R == "int32_t") return se<int32_t, S>(a); }
  if (R == "uint64_t") return se<uint64_t, S>(a); if (R == "int64_t") return se<int64_t, S>(a);
  return 2;
}
template <typename A_, typename R_> static int bs(uint64_t a, int n) {
  A_ x; memcpy(&x, &a, sizeof(x)); R_ r = bswap<A_, R_>(x); uint64_t rb = 0; memcpy(&rb, &r, sizeof(r));
  RCHECK(rb == rev(a & (n == 8 ? ~0ull : ((1ull << (8 * n)) - 1)), n), "bswap<> of bits 0x%llX gives bits 0x%llX", (unsigned long long)a, (unsigned long long)rb);
  printf("holds on this input\n"); return 0;
}

int main(int argc, char** argv) {
  Args A(argc, argv);
  uint64_t a = A.u("in_a");
  const std::string& m = A.mode;
  printf("mode=%s in_a=0x%llX\n", m.c_str(), (unsigned long long)a);
  if (m == "sign_extend" && A.extra.size() == 2) {
    const std::string& S = A.extra[1];
    if (S == "uint8_t") return se_r<uint8_t>(A.extra[0], a); if (S == "int8_t") return se_r<int8_t>(A.extra[0], a);
    if (S == "uint16_t") return se_r<uint16_t>(A.extra[0], a); if (S == "int16_t") return se_r<int16_t>(A.extra[0], a);
    if (S == "uint32_t") return se_r<uint32_t>(A.extra[0], a); if (S == "int32_t") return se_r<int32_t>(A.extra[0], a);
    return 2;
  }
  if (m == "bswap_spec" && A.extra.size() == 2) {
    std::string k = A.extra[0] + "," + A.extra[1];
    if (k == "uint8_t,uint8_t") return bs<uint8_t, uint8_t>(a, 1); if (k == "int8_t,int8_t") return bs<int8_t, int8_t>(a, 1);
    if (k == "uint16_t,uint16_t") return bs<uint16_t, uint16_t>(a, 2); if (k == "int16_t,int16_t") return bs<int16_t, int16_t>(a, 2);
    if (k == "uint32_t,uint32_t") return bs<uint32_t, uint32_t>(a, 4); if (k == "int32_t,int32_t") return bs<int32_t, int32_t>(a, 4);
    if (k == "uint64_t,uint64_t") return bs<uint64_t, uint64_t>(a, 8); if (k == "int64_t,int64_t") return bs<int64_t, int64_t>(a, 8);
    if (k == "float,uint32_t") return bs<float, uint32_t>(a, 4); if (k == "uint32_t,float") return bs<uint32_t, float>(a, 4);
    if (k == "double,uint64_t") return bs<double, uint64_t>(a, 8); if (k == "uint64_t,double") return bs<uint64_t, double>(a, 8);
    return 2;
  }
  if (m == "ext24") { a &= 0xFFFFFF; int32_t r = ext24(a); int32_t e = (a & 0x800000) ? (int32_t)(a | 0xFF000000u) : (int32_t)a;
    RCHECK(r == e, "ext24(0x%llX) = 0x%X, expected 0x%X", (unsigned long long)a, r, e); }
  else if (m == "ext48") { a &= 0xFFFFFFFFFFFFull; int64_t r = ext48(a); int64_t e = (a >> 47) ? (int64_t)(a | 0xFFFF000000000000ull) : (int64_t)a;
    RCHECK(r == e, "ext48(0x%llX) = 0x%llX, expected 0x%llX", (unsigned long long)a, (unsigned long long)r, (unsigned long long)e); }
  else if (m == "bswap8") { RCHECK(bswap8(a) == (uint8_t)a, "bswap8"); }
  else if (m == "bswap16") { RCHECK(bswap16(a) == rev(a & 0xFFFF, 2), "bswap16(0x%llX)=0x%X", (unsigned long long)a, bswap16(a)); }
  else if (m == "bswap24") { RCHECK(bswap24(a) == rev(a & 0xFFFFFF, 3), "bswap24(0x%llX)=0x%X", (unsigned long long)a, bswap24(a)); }
  else if (m == "bswap32") { RCHECK(bswap32(a) == rev(a & 0xFFFFFFFFu, 4), "bswap32(0x%llX)=0x%X", (unsigned long long)a, bswap32(a)); }
  else if (m == "bswap48") { RCHECK(bswap48(a) == rev(a & 0xFFFFFFFFFFFFull, 6), "bswap48(0x%llX)=0x%llX", (unsigned long long)a, (unsigned long long)bswap48(a)); }
  else if (m == "bswap64") { RCHECK(bswap64(a) == rev(a, 8), "bswap64(0x%llX)=0x%llX", (unsigned long long)a, (unsigned long long)bswap64(a)); }
  else if (m == "bswap24s") { uint64_t e = rev(a & 0xFFFFFF, 3); if (e & 0x800000) e |= 0xFF000000u;
    RCHECK((uint32_t)bswap24s((int32_t)a) == (uint32_t)e, "bswap24s(0x%llX)=0x%X expected 0x%X", (unsigned long long)a, bswap24s((int32_t)a), (uint32_t)e); }
  else if (m == "bswap48s") { uint64_t e = rev(a & 0xFFFFFFFFFFFFull, 6); if (e & 0x800000000000ull) e |= 0xFFFF000000000000ull;
    RCHECK((uint64_t)bswap48s((int64_t)a) == e, "bswap48s(0x%llX)=0x%llX expected 0x%llX", (unsigned long long)a, (unsigned long long)bswap48s((int64_t)a), (unsigned long long)e); }
  else if (m == "bswap32f_u2f") { float f = bswap32f((uint32_t)a); RCHECK((bits<float, uint32_t>(f)) == rev(a & 0xFFFFFFFFu, 4), "bswap32f(uint32 0x%llX)", (unsigned long long)a); }
  else if (m == "bswap32f_f2u") { float f = bits<uint32_t, float>((uint32_t)a); RCHECK(bswap32f(f) == rev(a & 0xFFFFFFFFu, 4), "bswap32f(float bits 0x%llX)", (unsigned long long)a); }
  else if (m == "bswap64f_u2d") { double f = bswap64f((uint64_t)a); RCHECK((bits<double, uint64_t>(f)) == rev(a, 8), "bswap64f(uint64 0x%llX)", (unsigned long long)a); }
  else if (m == "bswap64f_d2u") { double f = bits<uint64_t, double>(a); RCHECK(bswap64f(f) == rev(a, 8), "bswap64f(double bits 0x%llX)", (unsigned long long)a); }
  else if (m == "bswap8_involution") { RCHECK(bswap8(bswap8(a)) == (uint8_t)a, "bswap8 involution"); }
  else if (m == "bswap16_involution") { RCHECK(bswap16(bswap16(a)) == (uint16_t)a, "bswap16 involution"); }
  else if (m == "bswap24_involution") { RCHECK(bswap24(bswap24(a)) == (a & 0xFFFFFF), "bswap24 involution"); }
  else if (m == "bswap32_involution") { RCHECK(bswap32(bswap32(a)) == (uint32_t)a, "bswap32 involution"); }
  else if (m == "bswap48_involution") { RCHECK(bswap48(bswap48(a)) == (a & 0xFFFFFFFFFFFFull), "bswap48 involution"); }
  else if (m == "bswap64_involution") { RCHECK(bswap64(bswap64(a)) == a, "bswap64 involution"); }
  else if (m == "bswap24s_involution") { int32_t x = (int32_t)a; RCHECK(bswap24s(bswap24s(x)) == x, "bswap24s involution"); }
  else if (m == "bswap48s_involution") { int64_t x = (int64_t)a; RCHECK(bswap48s(bswap48s(x)) == x, "bswap48s involution"); }
  else if (m == "bswap32f_roundtrip") { float f = bits<uint32_t, float>((uint32_t)a); float g = bswap32f(bswap32f(f)); RCHECK((bits<float, uint32_t>(g)) == (uint32_t)a, "bswap32f round trip"); }
  else if (m == "bswap64f_roundtrip") { double f = bits<uint64_t, double>(a); double g = bswap64f(bswap64f(f)); RCHECK((bits<double, uint64_t>(g)) == a, "bswap64f round trip"); }
  else { fprintf(stderr, "unknown mode %s\n", m.c_str()); return 2; }
  printf("holds on this input\n");
  return 0;
}
