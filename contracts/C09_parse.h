/* C09 O-1: totality of parse_data_string on every NUL-terminated text (side-car contract; the definition is extracted text).
 * C view of the signature: the result string is the out-parameter `data` (empty on entry), `s` is s.c_str() and s_size is
 * s.size() (ghost: only used by the specification), mask is the optional out-parameter.
 * Statement: "the parser accepts any text at all without crashing, hanging or reading out of bounds":
 *   - no exception (verif_exc stays 0; load_file is never reached with ALLOW_FILES off),
 *   - every read of the text is inside [s, s + s_size] (cbmc pointer checks on every in[0] / in[1], strto* argument check),
 *   - the loop terminates (decreases clause), the output needs at most 4 bytes per input character,
 *   - mask, when requested, has the length of the data (its bytes are 0xFF / 0x00: clause of the step contract).
 * The output strings are the append-only model of stubs/C09_str.h (the parser never reads what it has appended). */
#ifndef C09_PARSE_H
#define C09_PARSE_H
#include "contracts/C09_glue.h"



#ifdef MASK_NULL
#define PDS_MASK_REQ __CPROVER_requires(mask_out == 0)
#define PDS_MASK_ASSIGNS
#else
#define PDS_MASK_REQ __CPROVER_requires(__CPROVER_is_fresh(mask_out, sizeof(OUT_STR))) \
                     __CPROVER_requires(mask_out->cap <= VSTR_MAXCAP && mask_out->size <= mask_out->cap && mask_out->cap >= 4 * s_size + C09_WIN)
#define PDS_MASK_ASSIGNS , mask_out->size, mask_out->nw, mask_out->first, __CPROVER_object_upto(mask_out->w, C09_WIN)
#endif

void parse_data_string(OUT_STR* data_out, const char* s, size_t s_size, OUT_STR* mask_out, uint64_t flags)
__CPROVER_requires(s_size <= PDS_MAXTEXT)
__CPROVER_requires(__CPROVER_is_fresh(s, s_size + 1))
__CPROVER_requires(s[s_size] == 0)
__CPROVER_requires(__CPROVER_is_fresh(data_out, sizeof(OUT_STR)))
__CPROVER_requires(data_out->cap <= VSTR_MAXCAP && data_out->size == 0 && data_out->nw == 0 && data_out->cap >= 4 * s_size + C09_WIN)
PDS_MASK_REQ
__CPROVER_requires((flags & ParseDataFlags_ALLOW_FILES) == 0)
__CPROVER_requires(verif_exc == 0 && g_load_calls == 0)
__CPROVER_ensures(verif_exc == 0 && g_load_calls == 0)
__CPROVER_ensures(data_out->size <= 4 * s_size)
__CPROVER_ensures(mask_out != 0 ==> mask_out->size == data_out->size)
__CPROVER_assigns(verif_exc, g_end, data, mask, in, chr, reading_string, reading_unicode_string, reading_comment, reading_multiline_comment,
                  reading_high_nybble, reading_filename, big_endian, mask_enabled, allow_files, g_returned, g_n, g_c0, g_c1, g_c2, g_c3, g_st_calls, g_st_arg, g_st_end, g_st_base, g_st_kind, g_num, g_dbl, g_flt, g_load_calls,
                  data_out->size, data_out->nw, data_out->first, __CPROVER_object_upto(data_out->w, C09_WIN) PDS_MASK_ASSIGNS);

#endif
