/* C20: contracts shared by Vector2 / Vector3 / Vector4 (included once per class from contracts/C20_vec.h).
 * Parameters (macros set by the includer):
 *   V          class name (Vector2 | Vector3 | Vector4)          NC        number of components
 *   ALLC(P)    P(c) for every component c, joined by &&          SUMC(P)   P(c) for every component, joined by + (left to right)
 *   OK_SUMC(P) no partial sum of SUMC(P) overflows               LEX(a,b)  lexicographic "a before b"
 *   AT(s,i)    i-th component of *s                              EQG(p,g)  components of *p equal the ghost array g
 * Specification = the property text: every operator is the componentwise definition on T (the native operator applied
 * per component, result converted to T), == all components equal, < lexicographic, at(i) the i-th component, dot the sum
 * of componentwise products, norm1 the sum, norm2 the sum of squares.  The preconditions exclude exactly the inputs on
 * which the native operator on T is undefined in C++ (signed overflow, division by zero, MIN / -1).
 * The two operands are distinct objects (is_fresh); a += a style aliasing is not covered.
 */
#define FN(n) CAT3(V, _, n)
#define FRESH(p) __CPROVER_is_fresh(p, sizeof(V))
#define SELF_IN (FRESH(self) && EQG(self, g_s))
#define BOTH_IN (FRESH(self) && FRESH(other) && EQG(self, g_s) && EQG(other, g_o))

V FN(make0)(void)
__CPROVER_ensures(ALLC(P_ZERO))
__CPROVER_assigns();

V FN(neg)(const V* self)
__CPROVER_requires(SELF_IN && ALLC(PRE_NEG))
__CPROVER_ensures(ALLC(P_NEG))
__CPROVER_assigns();

#define BIN_VV(name, P, PRE) \
V FN(name)(const V* self, const V* other) \
__CPROVER_requires(BOTH_IN && ALLC(PRE)) \
__CPROVER_ensures(ALLC(P)) \
__CPROVER_assigns();
BIN_VV(add, P_ADD, PRE_ADD)
BIN_VV(sub, P_SUB, PRE_SUB)

#define BIN_VS(name, P, PRE) \
V FN(name)(const V* self, T other) \
__CPROVER_requires(SELF_IN && other == g_t && ALLC(PRE)) \
__CPROVER_ensures(ALLC(P)) \
__CPROVER_assigns();
BIN_VS(adds, P_ADDS, PRE_ADDS)
BIN_VS(subs, P_SUBS, PRE_SUBS)
BIN_VS(muls, P_MULS, PRE_MULS)
BIN_VS(divs, P_DIVS, PRE_DIVS)
BIN_VS(mods, P_MODS, PRE_DIVS)

#define CMP_VV(name, Q, PRE) \
V* FN(name)(V* self, const V* other) \
__CPROVER_requires(BOTH_IN && ALLC(PRE)) \
__CPROVER_ensures(__CPROVER_return_value == self && ALLC(Q) && ALLC(Q_OTHER_SAME)) \
__CPROVER_assigns(__CPROVER_object_whole(self));
CMP_VV(iadd, Q_ADD, PRE_ADD)
CMP_VV(isub, Q_SUB, PRE_SUB)

#define CMP_VS(name, Q, PRE) \
V* FN(name)(V* self, T other) \
__CPROVER_requires(SELF_IN && other == g_t && ALLC(PRE)) \
__CPROVER_ensures(__CPROVER_return_value == self && ALLC(Q)) \
__CPROVER_assigns(__CPROVER_object_whole(self));
CMP_VS(iadds, Q_ADDS, PRE_ADDS)
CMP_VS(isubs, Q_SUBS, PRE_SUBS)
CMP_VS(imuls, Q_MULS, PRE_MULS)
CMP_VS(idivs, Q_DIVS, PRE_DIVS)
CMP_VS(imods, Q_MODS, PRE_DIVS)

bool FN(isz)(const V* self)
__CPROVER_requires(SELF_IN)
__CPROVER_ensures(__CPROVER_return_value == (ALLC(P_ISZ)))
__CPROVER_assigns();

bool FN(eq)(const V* self, const V* other)
__CPROVER_requires(BOTH_IN)
__CPROVER_ensures(__CPROVER_return_value == (ALLC(P_EQ)))
__CPROVER_assigns();

bool FN(ne)(const V* self, const V* other)
__CPROVER_requires(BOTH_IN)
__CPROVER_ensures(__CPROVER_return_value == !(ALLC(P_EQ)))
__CPROVER_assigns();

bool FN(lt)(const V* self, const V* other)
__CPROVER_requires(BOTH_IN)
__CPROVER_ensures(__CPROVER_return_value == (LEX(self, other)))
__CPROVER_assigns();

/* at(dim): the dim-th component for dim < NC.  The real code has no bounds check: for dim >= NC it reads outside the
 * object (undefined behaviour), which the precondition excludes. */
extern int verif_exc;
T FN(at)(const V* self, size_t dim)
__CPROVER_requires(SELF_IN && dim == g_dim && dim < NC && verif_exc == 0)
__CPROVER_ensures(verif_exc == 0 && __CPROVER_return_value == AT(self, dim))      /* every valid index yields its component (no exception) */
__CPROVER_assigns(verif_exc);

T FN(norm1)(const V* self)
__CPROVER_requires(SELF_IN && OK_SUMC(S_ID))
__CPROVER_ensures(__CPROVER_return_value == (T)(SUMC(S_ID)))
__CPROVER_assigns();

T FN(norm2)(const V* self)
__CPROVER_requires(SELF_IN && ALLC(PRE_SQ) && OK_SUMC(S_SQ))
__CPROVER_ensures(__CPROVER_return_value == (T)(SUMC(S_SQ)))
__CPROVER_assigns();

T FN(dot)(const V* self, const V* other)
__CPROVER_requires(BOTH_IN && ALLC(PRE_DOT) && OK_SUMC(S_DOT))
__CPROVER_ensures(__CPROVER_return_value == (T)(SUMC(S_DOT)))
__CPROVER_assigns();

size_t FN(dimensions)(void)
__CPROVER_ensures(__CPROVER_return_value == NC)
__CPROVER_assigns();

#undef FN
#undef FRESH
#undef SELF_IN
#undef BOTH_IN
#undef BIN_VV
#undef BIN_VS
#undef CMP_VV
#undef CMP_VS
