// C12 native replay, full API: also the const& overload of LRUMap::insert and the const overload of LRUMap::at.
// Only used when the tree under check instantiates those members (props/C12.py instantiation gate); lru.cc alone
// serves a tree in which they do not compile.
#define C12_CONST_OVERLOADS 1
#include "lru.cc"
