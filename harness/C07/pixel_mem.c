/* C07: memory-level obligations of the two pixel accessors (bounded in canvas dimension).  Function text: x_pixel.c. */
#include "contracts/C07_pixel_mem.h"
int verif_exc;
const Image *g_dimg, *g_simg, *g_mimg;
ssize_t g_dw, g_dh, g_sw, g_sh, g_mw, g_mh;
bool g_dalpha, g_salpha, g_malpha;
uint8_t g_dcw, g_scw, g_mcw;
ssize_t g_dx, g_dy, g_sx, g_sy, g_mx, g_my, g_ex, g_ey;
uint64_t g_dr, g_dg, g_db, g_da, g_sr, g_sg, g_sb, g_sa, g_mr, g_mg, g_mb, g_ma, g_er, g_eg, g_eb, g_ea;
#include "x_pixel.c"
#define GH(T, n) { T in_gh_##n; g_##n = in_gh_##n; }
#define IN_D GH(ssize_t, dw) GH(ssize_t, dh) GH(bool, dalpha) GH(uint8_t, dcw) GH(ssize_t, dx) GH(ssize_t, dy) \
             GH(uint64_t, dr) GH(uint64_t, dg) GH(uint64_t, db) GH(uint64_t, da)
void h_mem_write_pixel(void) { Image* self; IN_D ssize_t in_x, in_y; uint64_t in_r, in_g, in_b, in_a; Image_write_pixel(self, in_x, in_y, in_r, in_g, in_b, in_a); VERIF_REACH(); }
void h_mem_read_pixel(void) { Image* self; IN_D ssize_t in_x, in_y; int in_ptrs; uint64_t r, g, b, a;
  Image_read_pixel(self, in_x, in_y, (in_ptrs & 1) ? &r : 0, (in_ptrs & 2) ? &g : 0, (in_ptrs & 4) ? &b : 0, (in_ptrs & 8) ? &a : 0); VERIF_REACH(); }
