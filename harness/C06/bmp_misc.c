/* C06: BMP header layout, header part of the loader, save -> load lemma over the block contracts. */
#include "contracts/C06_bmp.h"
#include "x_bmp_types.h"
#ifdef C06_HEADER
#undef C06_HEADER
#define C06_HEADER 1
#endif
#ifdef C06_LEMMA
#include "x_bmp_save.c"
#include "x_bmp_load.c"
#endif
#ifdef C06_HEADER
#include "x_bmp_header.c"
#endif

int verif_exc;

/* ---- layout: the packed structs are BITMAPFILEHEADER + BITMAPV5HEADER of the format definition ---- */
#define OFF(T, m) __builtin_offsetof(T, m)
void h_layout(void) {
  __CPROVER_assert(sizeof(WindowsBitmapFileHeader) == 14, "BITMAPFILEHEADER is 14 bytes");
  __CPROVER_assert(OFF(WindowsBitmapFileHeader, magic) == 0 && OFF(WindowsBitmapFileHeader, file_size) == 2 &&
                   OFF(WindowsBitmapFileHeader, reserved) == 6 && OFF(WindowsBitmapFileHeader, data_offset) == 10, "bfType, bfSize, bfReserved, bfOffBits");
  __CPROVER_assert(sizeof(WindowsBitmapInfoHeader) == 124, "BITMAPV5HEADER is 124 bytes");
  __CPROVER_assert(WindowsBitmapInfoHeader_SIZE24 == 40, "BITMAPINFOHEADER is 40 bytes");
  __CPROVER_assert(OFF(WindowsBitmapInfoHeader, header_size) == 0 && OFF(WindowsBitmapInfoHeader, width) == 4 && OFF(WindowsBitmapInfoHeader, height) == 8,
                   "biSize, biWidth, biHeight");
  __CPROVER_assert(OFF(WindowsBitmapInfoHeader, num_planes) == 12 && OFF(WindowsBitmapInfoHeader, bit_depth) == 14 &&
                   OFF(WindowsBitmapInfoHeader, compression) == 16 && OFF(WindowsBitmapInfoHeader, image_size) == 20, "biPlanes, biBitCount, biCompression, biSizeImage");
  __CPROVER_assert(OFF(WindowsBitmapInfoHeader, x_pixels_per_meter) == 24 && OFF(WindowsBitmapInfoHeader, y_pixels_per_meter) == 28 &&
                   OFF(WindowsBitmapInfoHeader, num_used_colors) == 32 && OFF(WindowsBitmapInfoHeader, num_important_colors) == 36, "resolution, colour counts");
  __CPROVER_assert(OFF(WindowsBitmapInfoHeader, bitmask_r) == 40 && OFF(WindowsBitmapInfoHeader, bitmask_g) == 44 &&
                   OFF(WindowsBitmapInfoHeader, bitmask_b) == 48 && OFF(WindowsBitmapInfoHeader, bitmask_a) == 52, "bV4RedMask .. bV4AlphaMask");
  __CPROVER_assert(OFF(WindowsBitmapInfoHeader, color_space_type) == 56 && OFF(WindowsBitmapInfoHeader, chromacity_endpoints) == 60 &&
                   OFF(WindowsBitmapInfoHeader, gamma_r) == 96 && OFF(WindowsBitmapInfoHeader, render_intent) == 108 &&
                   OFF(WindowsBitmapInfoHeader, reserved) == 120, "bV4CSType, endpoints, gamma, bV5Intent, bV5Reserved");
  __CPROVER_assert(sizeof(WindowsBitmapHeader) == 138 && OFF(WindowsBitmapHeader, info_header) == 14, "info header follows the file header");
  __CPROVER_assert(C06_LOAD_RGB_CODE == C06_BI_RGB, "loader takes the BI_RGB branch for biCompression 0");
  __CPROVER_assert(C06_LOAD_BF_CODE == C06_BI_BITFIELDS, "loader takes the BI_BITFIELDS branch for biCompression 3");
  VERIF_REACH();
}

#ifdef C06_HEADER
void h_header(void) {
  FILE* f;
  const char* sig;
  WindowsBitmapHeader* out_header;
  int32_t* out_w;
  int32_t* out_h;
  bool* out_rev;
  Image_load_bmp_header(f, sig, out_header, out_w, out_h, out_rev);
  VERIF_REACH();
}
#endif

#ifdef C06_LEMMA
/* save, then load what was saved: composed from the block contracts (all three calls are replaced by their contracts).
 * in_k is the symbolic stream position; the branch below selects the runs in which it is the position where the loader
 * looks for the ghost channel -- the saver's contract then says which byte was emitted there. */
void l_roundtrip(void) {
  uint8_t in_x, in_y, in_c, in_w, in_h; /* narrow, see ppm_load.c */
  size_t in_k;
  uint8_t in_v;
  verif_exc = 0;
  g_wpos = 0; g_wcalls = 0; g_wseen = 0; g_fpos = 0; g_reads = 0;
  if (!(1 <= in_w && in_w <= C06_DIM && 1 <= in_h && in_h <= C06_DIM && in_x < in_w && in_y < in_h && in_c < C06_PB(C06_ALPHA))) return;
  Image* img = malloc(sizeof(Image));
  if (!img) return;
  img->width = in_w; img->height = in_h; img->has_alpha = C06_ALPHA; img->channel_width = 8; img->max_value = 0xFF;
  img->data.raw = malloc((size_t)in_w * in_h * C06_PB(C06_ALPHA));
  if (!img->data.raw) return;
  g_w = in_w; g_h = in_h;
  g_x = in_x; g_y = in_y; g_c = in_c;
  g_fr = C06_FROW(g_y, in_h, 0);
  g_oidx = (g_y * (size_t)in_w + g_x) * C06_PB(C06_ALPHA) + g_c;
  g_pv = ((const uint8_t*)img->data.raw)[g_oidx];
  g_wk = in_k;
  Image_save_bmp(img);
  __CPROVER_assert(verif_exc == 0, "an 8-bit image is saved");
  /* what the loader does with this header (dispatch constants are cut from the loader) */
  bool rev = g_h_height < 0;
  int32_t lw = g_h_width;
  int32_t lh = rev ? -g_h_height : g_h_height;
  bool* has_alpha_out = malloc(sizeof(bool));
  void** new_data = malloc(sizeof(void*));
  if (!has_alpha_out || !new_data) return;
  __CPROVER_assert(g_h_depth == 24 || g_h_depth == 32, "loader accepts the bit depth");
  __CPROVER_assert(g_h_comp == C06_LOAD_RGB_CODE || g_h_comp == C06_LOAD_BF_CODE, "loader knows the compression code");
  size_t C = g_h_comp == C06_LOAD_RGB_CODE ? 3 : 4;
  size_t pb = g_h_depth / 8;
  g_fr = C06_FROW(g_y, lh, rev);
  g_oidx = (g_y * (size_t)lw + g_x) * C + g_c;
  if (g_h_comp == C06_LOAD_RGB_CODE)
    g_in = g_x * pb + C06_RGB_CHAN_BYTE(g_c);
  else
    g_in = g_x * 4 + C06_MASK_BYTE(C06_SEL4(g_c, g_h_mask_r, g_h_mask_g, g_h_mask_b, g_h_mask_a));
  g_bk = g_fr * C06_STRIDE(lw, pb) + g_in;
  if (in_k != g_h_data_offset + g_bk) return; /* case selection on the symbolic position */
  __CPROVER_assert(g_wseen, "the position the loader reads was emitted by the saver");
  g_bv = g_wv; /* the file has there what the saver emitted */
  if (g_h_comp == C06_LOAD_RGB_CODE)
    Image_load_bmp_rgb((FILE*)0, (uint16_t)g_h_depth, lw, lh, rev, has_alpha_out, new_data);
  else
    Image_load_bmp_bitfields((FILE*)0, (uint16_t)g_h_depth, g_h_mask_r, g_h_mask_g, g_h_mask_b, g_h_mask_a, lw, lh, rev, has_alpha_out, new_data);
  __CPROVER_assert(verif_exc == 0 || verif_exc == EXC_io_error, "a saved file is not rejected as malformed");
  if (verif_exc == 0) {
    __CPROVER_assert((size_t)lw == in_w && (size_t)lh == in_h && *has_alpha_out == (bool)C06_ALPHA, "dimensions and alpha flag reproduced");
    __CPROVER_assert(g_h_data_offset + g_fpos == g_wpos, "the loader consumes exactly the emitted pixel array");
    __CPROVER_assert(((const uint8_t*)*new_data)[(g_y * (size_t)in_w + g_x) * C06_PB(C06_ALPHA) + g_c] == g_pv, "channel c of pixel (x,y) reproduced");
  }
  VERIF_REACH();
}
#endif
