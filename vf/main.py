"""./check <ID> [--tier quick|thorough] [--src DIR] [--only REGEX] [--replay FILE] [--jobs N]

exit 0: every obligation discharged (known findings printed as KNOWN-FINDING lines)
exit 1: VIOLATION property=<id> replay=<path> [no-failing-input-found]
exit 2: undecided (extraction break, tool failure, timeout, vacuity guard) -- never a VIOLATION line
"""
import argparse
import importlib
import json
import os
import re
import shutil
import sys
import time
import traceback
from concurrent.futures import ThreadPoolExecutor

from . import pipeline, replay as replaymod, evidence
from .lex import ExtractionBreak
from .pipeline import Undecided, VERIF


class Ctx:
    pass


def load_known():
    p = os.path.join(VERIF, 'known_findings.json')
    if not os.path.exists(p):
        return []
    return json.load(open(p)).get('findings', [])


def known_match(known, pid, g):
    """A known (unrepaired) finding suppresses a failure only for the same property, the same obligation group
    and failing clauses that are a subset of those recorded."""
    failed = {o['name'] for o in g.result.get('failed', [])}
    for k in known:
        if k.get('status') != 'known' or k.get('property') != pid or k.get('group') != g.name:
            continue
        cl = k.get('clauses', [])
        if cl == '*' or failed <= set(cl):
            return k
    return None


def _sweep_tmp():
    """cbmc's SMT back ends leave /tmp/smt2_dec_* files behind when a portfolio loser is killed; remove stale ones (> 30 min)."""
    import glob
    now = time.time()
    for f in glob.glob('/tmp/smt2_dec_*'):
        try:
            if now - os.path.getmtime(f) > 1800:
                os.remove(f)
        except OSError:
            pass


def main(argv=None):
    ap = argparse.ArgumentParser()
    ap.add_argument('prop')
    ap.add_argument('--tier', default=os.environ.get('VERIF_TIER', 'quick'))
    ap.add_argument('--src', default='/repo')
    ap.add_argument('--only', default=None)
    ap.add_argument('--replay', default=None)
    ap.add_argument('--jobs', type=int, default=int(os.environ.get('VERIF_JOBS', '14')))
    ap.add_argument('--tag', default='')
    ap.add_argument('--no-evidence', action='store_true')
    ap.add_argument('-v', action='store_true')
    a = ap.parse_args(argv)
    pid = a.prop
    if a.tier not in ('quick', 'thorough'):
        a.tier = 'quick'
    try:
        seed = int(os.environ.get('VERIF_SEED', '0'))
    except ValueError:
        seed = 0
    ctx = Ctx()
    ctx.src = os.path.abspath(a.src)
    ctx.tier = a.tier
    ctx.seed = seed
    ctx.pid = pid
    ctx.build_dir = os.path.join(VERIF, 'build', pid + (('-' + a.tag) if a.tag else ''))
    ctx.verbose = a.v
    if a.replay:
        return replaymod.run_replay_file(ctx, a.replay)
    shutil.rmtree(ctx.build_dir, ignore_errors=True)
    os.makedirs(ctx.build_dir, exist_ok=True)
    t0 = time.time()
    try:
        mod = importlib.import_module('props.' + pid)
    except ImportError as e:
        print('UNDECIDED: no property module for %s (%s)' % (pid, e))
        return 2
    try:
        groups = mod.plan(ctx)
    except ExtractionBreak as e:
        print('EXTRACTION-BREAK property=%s: %s' % (pid, e))
        return 2
    groups = [g for g in groups if g.tier == 'quick' or a.tier == 'thorough']
    if a.only:
        groups = [g for g in groups if re.search(a.only, g.name)]
    if not groups:
        print('UNDECIDED: no obligation groups selected')
        return 2
    names = [g.name + ('@be' if g.big_endian else '') for g in groups]
    if len(set(names)) != len(names):
        print('UNDECIDED: duplicate group names in plan')
        return 2

    undecided = []

    def work(g):
        try:
            pipeline.verify_group(ctx, g)
        except Undecided as e:
            g.result['undecided'] = str(e)
        except Exception as e:
            g.result['undecided'] = 'internal error: %s\n%s' % (e, traceback.format_exc())
        if ctx.verbose:
            st = 'UNDECIDED' if 'undecided' in g.result else 'SKIPPED' if 'skipped' in g.result else ('FAILED' if g.result.get('failed') else 'ok')
            print('  [%s] %s%s %s %.1fs' % (st, g.name, '@be' if g.big_endian else '', g.result.get('engine', '-'),
                                            g.result.get('wall', 0)), flush=True)
        return g

    with ThreadPoolExecutor(max_workers=a.jobs) as ex:
        list(ex.map(work, groups))

    known = load_known()
    violations = []
    known_lines = []
    rc = 0
    for g in groups:
        if 'skipped' in g.result:
            cov = [x for x in groups if x.name == g.covered_by]
            if (cov and 'undecided' not in cov[0].result and 'skipped' not in cov[0].result) or (not cov and a.only):
                print('SKIPPED property=%s group=%s: %s' % (pid, g.name, g.result['skipped']))
                continue
            g.result['undecided'] = g.result['skipped'] + ' -- but that group is not decided either'
        if 'undecided' in g.result:
            undecided.append(g)
            continue
        failed = g.result.get('failed', [])
        if not failed:
            continue
        k = known_match(known, pid, g)
        if k:
            known_lines.append('KNOWN-FINDING: property=%s %s [%s: %s]' % (pid, k.get('what', ''), g.name,
                                                                         ','.join(o['name'] for o in failed)))
            g.result['known_finding'] = k.get('what', '')
            continue
        prim = [o for o in failed if o['class'] == 'primary']
        rp = replaymod.attempt(ctx, g)      # {'path':..., 'reproduced': bool}
        tail = '' if rp.get('reproduced') else ' no-failing-input-found'
        violations.append((g, rp))
        print('VIOLATION property=%s replay=%s%s' % (pid, rp['path'], tail))
        o = (prim or failed)[0]
        print('  obligation %s/%s/%s (%s) failed [%s]' % (pid, g.name, o['name'], o['description'], g.result.get('engine')))
        if not prim and not rp.get('reproduced'):
            # Only invariant / variant / callee-precondition obligations fail, the counterexample did not replay and the bounded
            # re-check on the unwound code (if configured) found no failing postcondition.  Every obligation is discharged on
            # the unchanged tree, so this is "an obligation that passed and now fails, with the solver's reason attached" --
            # the weakest form of a violation report; the replay file carries the verifier's output.
            print('  note: only proof obligations fail (%s); %s' % (', '.join(x['name'] for x in failed[:4]),
                                                                   g.result.get('bounded_fallback', 'no bounded re-check configured')))
    for l in known_lines:
        print(l)
    for g in undecided:
        print('UNDECIDED property=%s group=%s: %s' % (pid, g.name, g.result['undecided'][:1500]))
    wall = time.time() - t0
    if not a.no_evidence and not a.only and a.src == '/repo':
        evidence.write(ctx, mod, groups, wall, len(violations))
    nob = sum(len(g.result.get('obligations', [])) for g in groups)
    print('%s: %d groups, %d obligations, %d violations, %d known, %d undecided, %.1fs'
          % (pid, len(groups), nob, len(violations), len(known_lines), len(undecided), wall))
    _sweep_tmp()
    if violations:
        return 1
    if undecided:
        return 2
    return 0


if __name__ == '__main__':
    sys.exit(main())
