/* C11: escape_quotes / escape_controls / escape_url (extracted text: build/C11/x_escape.c) */
#include <stdlib.h>
#include "contracts/C11_escape.h"
int verif_exc; size_t g_vk;
uint8_t g_sc, g_kch, g_o0, g_o1, g_o2, g_o3; size_t g_k, g_pos, g_pos1, g_olen; int g_flag;
#include "x_escape.c"

/* ---- one input octet (loop body) against the step contract ---- */
void h_escape_quotes_step(void) {
  vstr* ret; const vstr* s; size_t in_x; uint8_t in_ch;
  g_sc = in_ch; g_flag = 0;
  escape_quotes_step(ret, s, in_x);
  VERIF_REACH();
}
void h_escape_controls_step(void) {
  vstr* ret; const vstr* s; size_t in_x; uint8_t in_ch; bool in_flag;
  g_sc = in_ch; g_flag = in_flag ? 1 : 0;
  escape_controls_step(ret, s, in_x, in_flag);
  VERIF_REACH();
}
void h_escape_url_step(void) {
  vstr* ret; uint8_t in_ch; bool in_flag;
  g_sc = in_ch; g_flag = in_flag ? 1 : 0;
  escape_url_step(ret, (char)in_ch, in_flag);
  VERIF_REACH();
}

/* ---- whole functions (loop contract; the body is the step, bound to its contract) ---- */
#define IN_FN size_t in_k, in_size; uint8_t in_ch; bool in_flag; g_k = in_k; g_kch = in_ch; g_flag = in_flag ? 1 : 0
void h_escape_quotes(void) {
  vstr* ret; const vstr* s; IN_FN; g_flag = 0;
  escape_quotes(ret, s);
  VERIF_REACH();
}
void h_escape_controls(void) {
  vstr* ret; const vstr* s; IN_FN;
  escape_controls(ret, s, in_flag);
  VERIF_REACH();
}
void h_escape_url(void) {
  vstr* ret; const vstr* s; IN_FN;
  escape_url(ret, s, in_flag);
  VERIF_REACH();
}

/* ---- the reference decoders are self-delimiting: the length of a code is determined by its first two (URL: first)
 *      octets, so whatever follows a code cannot change how it is read; and a well-formed code has 1..4 octets ---- */
void l_escape_spec(void) {
  uint8_t in_o0, in_o1, in_o2, in_o3, in_p2, in_p3;
  __CPROVER_assert(UNESC_C_LEN(in_o0, in_o1) >= 1 && UNESC_C_LEN(in_o0, in_o1) <= 4, "C-style code length is 1, 2 or 4");
  __CPROVER_assert(UNESC_U_LEN(in_o0) == 1 || UNESC_U_LEN(in_o0) == 3, "URL code length is 1 or 3");
  /* octets beyond the code's own length do not influence well-formedness or value */
  if (UNESC_C_LEN(in_o0, in_o1) <= 2) {
    __CPROVER_assert(UNESC_C_WF(in_o0, in_o1, in_o2, in_o3) == UNESC_C_WF(in_o0, in_o1, in_p2, in_p3), "C-style: well-formedness ignores what follows the code");
    __CPROVER_assert(UNESC_C_VAL(in_o0, in_o1, in_o2, in_o3) == UNESC_C_VAL(in_o0, in_o1, in_p2, in_p3), "C-style: value ignores what follows the code");
  }
  if (UNESC_C_LEN(in_o0, in_o1) == 1)
    __CPROVER_assert(UNESC_C_VAL(in_o0, in_o1, in_o2, in_o3) == UNESC_C_VAL(in_o0, in_p2, in_p3, in_o1), "C-style: a literal octet is read on its own");
  if (UNESC_U_LEN(in_o0) == 1)
    __CPROVER_assert(UNESC_U_WF(in_o0, in_o1, in_o2) && UNESC_U_VAL(in_o0, in_o1, in_o2) == in_o0, "URL: a literal octet is read on its own");
  VERIF_REACH();
}
