/* C18: usecs_to_timeval / timeval_to_usecs.  The function text is x_timeval.c (cut from src/Time.cc on every run). */
#include "contracts/C18_timeval.h"
#include "spec/C18_arith.h"
#include "x_timeval.c"
int verif_exc;
long g_tv_sec, g_tv_usec;

void h_usecs_to_timeval(void) { uint64_t in_usecs; usecs_to_timeval(in_usecs); VERIF_REACH(); }
void h_timeval_to_usecs(void) { struct timeval* tv; long in_sec, in_usec; g_tv_sec = in_sec; g_tv_usec = in_usec; timeval_to_usecs(tv); VERIF_REACH(); }

/* inverse laws, over the contracts (both callees replaced by their contracts) */
void l_roundtrip_usecs(void) {
  uint64_t in_usecs;
  __CPROVER_assume(in_usecs <= 9223372036854775807ull);              /* the domain of the law, not a proof aid: durations up to 2^63 us */
  struct timeval* tv = malloc(sizeof(struct timeval));
  __CPROVER_assume(tv != 0);
  *tv = usecs_to_timeval(in_usecs);
  g_tv_sec = tv->tv_sec; g_tv_usec = tv->tv_usec;
  uint64_t back = timeval_to_usecs(tv);
  __CPROVER_assert(back == in_usecs, "timeval_to_usecs(usecs_to_timeval(u)) == u");
  VERIF_REACH();
}
void l_roundtrip_timeval(void) {
  long in_sec, in_usec;
  __CPROVER_assume(TV_IN_DOMAIN(in_sec, in_usec));                      /* the domain of the law: normalised timevals (tv_usec < 10^6) up to 2^63 us */
  struct timeval* tv = malloc(sizeof(struct timeval));
  __CPROVER_assume(tv != 0);
  tv->tv_sec = in_sec; tv->tv_usec = in_usec; g_tv_sec = in_sec; g_tv_usec = in_usec;
  uint64_t u = timeval_to_usecs(tv);
  struct timeval back = usecs_to_timeval(u);
  c18_lemma_divmod_unique((uint64_t)back.tv_sec, (uint64_t)back.tv_usec, (uint64_t)in_sec, (uint64_t)in_usec);   /* ghost: lemma, bound to its contract */
  __CPROVER_assert(back.tv_sec == in_sec && back.tv_usec == in_usec, "usecs_to_timeval(timeval_to_usecs(tv)) == tv");
  VERIF_REACH();
}

void h_lemma_divmod_unique(void) { uint64_t in_q1, in_r1, in_q2, in_r2; c18_lemma_divmod_unique(in_q1, in_r1, in_q2, in_r2); VERIF_REACH(); }
