/* C14 side-car contracts: scoped_fd ("scoped descriptors close exactly once").
 * C mirror of the class: its only data member is `int fd` (checked against the class text by props/C14.py).
 * Ghost: g_fd is an arbitrary descriptor; g_closes counts close(2) calls on g_fd, g_closes_other those on any other
 * descriptor (stubs/C14_io.h).  OWNED(fd) = the object holds an open descriptor. */
#ifndef C14_FD_CONTRACTS_H
#define C14_FD_CONTRACTS_H
#include "stubs/C14_io.h"
typedef struct { int fd; } scoped_fd;

#define FD_SELF __CPROVER_requires(__CPROVER_is_fresh(self, sizeof(scoped_fd)))
#define FD_OTHER __CPROVER_requires(__CPROVER_is_fresh(other, sizeof(scoped_fd)))
#define FD_COUNT_LIMIT __CPROVER_requires(g_closes < 1000u && g_closes_other < 1000u)
/* the descriptor held on entry is released exactly once: one close(2) on it, none on anything else */
#define FD_RELEASES(oldfd) \
  __CPROVER_ensures(g_closes == __CPROVER_old(g_closes) + (((oldfd) >= 0 && (oldfd) == g_fd) ? 1u : 0u)) \
  __CPROVER_ensures(g_closes_other == __CPROVER_old(g_closes_other) + (((oldfd) >= 0 && (oldfd) != g_fd) ? 1u : 0u))
#define FD_NO_CLOSE __CPROVER_ensures(g_closes == __CPROVER_old(g_closes) && g_closes_other == __CPROVER_old(g_closes_other))

void scoped_fd_ctor(scoped_fd* self)
FD_SELF __CPROVER_ensures(self->fd == -1) __CPROVER_assigns(self->fd);

void scoped_fd_ctor_int(scoped_fd* self, int fd)
FD_SELF __CPROVER_ensures(self->fd == fd) __CPROVER_assigns(self->fd);

void scoped_fd_move_ctor(scoped_fd* self, scoped_fd* other)
FD_SELF FD_OTHER
__CPROVER_ensures(self->fd == __CPROVER_old(other->fd) && other->fd == -1)       /* ownership moves, the source is left empty */
__CPROVER_assigns(self->fd, other->fd);

void scoped_fd_close(scoped_fd* self)
FD_SELF FD_COUNT_LIMIT
FD_RELEASES(__CPROVER_old(self->fd))
__CPROVER_ensures(self->fd == -1 || (__CPROVER_old(self->fd) < 0 && self->fd == __CPROVER_old(self->fd)))
__CPROVER_ensures(self->fd < 0)
__CPROVER_assigns(self->fd, g_closes, g_closes_other);

void scoped_fd_dtor(scoped_fd* self)
FD_SELF FD_COUNT_LIMIT
FD_RELEASES(__CPROVER_old(self->fd))
__CPROVER_ensures(self->fd < 0)
__CPROVER_assigns(self->fd, g_closes, g_closes_other);

scoped_fd* scoped_fd_move_assign(scoped_fd* self, scoped_fd* other)
FD_SELF FD_OTHER FD_COUNT_LIMIT
FD_RELEASES(__CPROVER_old(self->fd))
__CPROVER_ensures(self->fd == __CPROVER_old(other->fd) && other->fd == -1 && __CPROVER_return_value == self)
__CPROVER_assigns(self->fd, other->fd, g_closes, g_closes_other);

/* operator=(int): the caller hands over a descriptor the object does not already own */
scoped_fd* scoped_fd_assign_int(scoped_fd* self, int other)
FD_SELF FD_COUNT_LIMIT
__CPROVER_requires(other < 0 || other != self->fd)
FD_RELEASES(__CPROVER_old(self->fd))
__CPROVER_ensures(self->fd == other && __CPROVER_return_value == self)
__CPROVER_assigns(self->fd, g_closes, g_closes_other);

int scoped_fd_to_int(const scoped_fd* self)
FD_SELF __CPROVER_ensures(__CPROVER_return_value == self->fd) __CPROVER_assigns();

bool scoped_fd_is_open(scoped_fd* self)
FD_SELF __CPROVER_ensures(__CPROVER_return_value == (self->fd >= 0)) __CPROVER_assigns();

/* open(2) as scoped_fd::open uses it: a new descriptor (>= 0) or -1; no descriptor is closed by it (trusted stub) */
int c14_open_raw(const char* filename, int flags, unsigned perm)
__CPROVER_ensures(__CPROVER_return_value >= -1)
__CPROVER_assigns();

/* scoped_fd::open(const char*, int, mode_t): the descriptor held on entry is released exactly once BEFORE the object takes
 * the new one (otherwise it leaks: "scoped descriptors close exactly once"); afterwards the object owns the new descriptor,
 * or cannot_open_file was thrown and it owns none */
void scoped_fd_open(scoped_fd* self, const char* filename, int mode, unsigned perm)
FD_SELF FD_COUNT_LIMIT
__CPROVER_requires(verif_exc == 0)
FD_RELEASES(__CPROVER_old(self->fd))
__CPROVER_ensures(verif_exc == 0 ? self->fd >= 0 : (verif_exc == EXC_cannot_open_file && self->fd < 0))
__CPROVER_assigns(self->fd, g_closes, g_closes_other, verif_exc);
#endif
