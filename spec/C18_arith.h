/* C18: arithmetic lemma functions.  Each has an empty body and a contract that is PROVED by its own obligation group
 * (goto-instrument --enforce-contract, for all 2^64 arguments); proofs that need the fact call the function as a ghost
 * statement and bind the call to the contract (--replace-call-with-contract).  Nothing here is assumed. */
#ifndef SPEC_C18_ARITH_H
#define SPEC_C18_ARITH_H
#include <stdint.h>

#define C18_US_MIN  60000000ull          /* microseconds per minute */
#define C18_US_HOUR 3600000000ull
#define C18_US_DAY  86400000000ull

/* floor(floor(u / a) / b) == floor(u / (a * b)): the hours and days quotients are nested quotients of the minutes quotient */
void c18_lemma_nested_div(uint64_t u)
__CPROVER_requires(1)
__CPROVER_ensures(u / C18_US_HOUR == (u / C18_US_MIN) / 60)
__CPROVER_ensures(u / C18_US_DAY == ((u / C18_US_MIN) / 60) / 24)
__CPROVER_assigns()
{
}

/* uniqueness of quotient and remainder for the divisor 10^6 (used by the timeval inverse law) */
void c18_lemma_divmod_unique(uint64_t q1, uint64_t r1, uint64_t q2, uint64_t r2)
__CPROVER_requires(r1 < 1000000 && r2 < 1000000 && q1 <= 18446744073709ull && q2 <= 18446744073709ull)
__CPROVER_requires((unsigned __int128)q1 * 1000000 + r1 == (unsigned __int128)q2 * 1000000 + r2)
__CPROVER_ensures(q1 == q2 && r1 == r2)
__CPROVER_assigns()
{
}

/* congruence of % (trivial; stated as a lemma because the integer-arithmetic back end that proves the decomposition below
 * does not derive it by itself) */
void c18_lemma_cong24(uint64_t x, uint64_t y)
__CPROVER_requires(x == y)
__CPROVER_ensures(x % 24 == y % 24)
__CPROVER_assigns()
{
}

/* the mixed-radix decomposition.  d = u / DAY, h = (u / HOUR) % 24, m = (u / MIN) % 60, each computed from u itself:
 * the terms d*DAY, h*HOUR, m*MIN can be subtracted from u one after the other without wrap-around and leave p < one minute;
 * adding them up again (in this order, then p) never carries out of 64 bits.  The same for the two shorter forms
 * (u < one day: h' = u / HOUR; u < one hour: m' = u / MIN).  Quotient magnitudes are stated too, so that the bit-level
 * engines need not reason through a 64-bit divider for them.  Proved with the two lemmas above bound to their contracts. */
#define C18_D(u) ((u) / C18_US_DAY)
#define C18_H(u) (((u) / C18_US_HOUR) % 24)
#define C18_M(u) (((u) / C18_US_MIN) % 60)
#define C18_W1(u) (C18_D(u) * C18_US_DAY)
#define C18_W2(u) (C18_H(u) * C18_US_HOUR)
#define C18_W3(u) (C18_M(u) * C18_US_MIN)
#define C18_P(u)  ((u) - C18_W1(u) - C18_W2(u) - C18_W3(u))
#define C18_W2S(u) (((u) / C18_US_HOUR) * C18_US_HOUR)           /* u < DAY:  hours = u / HOUR */
#define C18_PS(u)  ((u) - C18_W2S(u) - C18_W3(u))
#define C18_W3S(u) (((u) / C18_US_MIN) * C18_US_MIN)             /* u < HOUR: minutes = u / MIN */
#define C18_PSS(u) ((u) - C18_W3S(u))
void c18_lemma_dhm(uint64_t u)
__CPROVER_requires(1)
/* three fields */
__CPROVER_ensures(C18_W1(u) <= u && C18_W2(u) <= u - C18_W1(u) && C18_W3(u) <= u - C18_W1(u) - C18_W2(u) && C18_P(u) < C18_US_MIN)
__CPROVER_ensures(C18_W1(u) + C18_W2(u) >= C18_W1(u) && C18_W1(u) + C18_W2(u) + C18_W3(u) >= C18_W1(u) + C18_W2(u) &&
                  C18_W1(u) + C18_W2(u) + C18_W3(u) + C18_P(u) >= C18_W1(u) + C18_W2(u) + C18_W3(u))
__CPROVER_ensures(C18_D(u) <= 213503982ull && C18_H(u) < 24 && C18_M(u) < 60 && (u >= C18_US_DAY ==> C18_D(u) >= 1))
/* two fields */
__CPROVER_ensures(u < C18_US_DAY ==> (C18_D(u) == 0 && u / C18_US_HOUR < 24 && C18_H(u) == u / C18_US_HOUR && C18_PS(u) < C18_US_MIN &&
                                      C18_W2S(u) + C18_W3(u) >= C18_W2S(u) && C18_W2S(u) + C18_W3(u) + C18_PS(u) >= C18_W2S(u) + C18_W3(u)))
__CPROVER_ensures(u >= C18_US_HOUR ==> u / C18_US_HOUR >= 1)
/* one field */
__CPROVER_ensures(u < C18_US_HOUR ==> (u / C18_US_MIN < 60 && C18_M(u) == u / C18_US_MIN && C18_H(u) == 0))
__CPROVER_ensures(C18_PSS(u) < C18_US_MIN && C18_W3S(u) <= u && u / C18_US_MIN <= 307445734561ull && C18_W3S(u) + C18_PSS(u) >= C18_W3S(u))
__CPROVER_ensures(u >= C18_US_MIN ==> u / C18_US_MIN >= 1)
__CPROVER_assigns()
{
  c18_lemma_nested_div(u);
  c18_lemma_cong24(u / C18_US_HOUR, (u / C18_US_MIN) / 60);
}
#endif
