/* C08: string_vprintf returns exactly the formatted text, whatever its length relative to any internal buffer
 * (property: "printf-to-string helpers return exactly what their plain reference definitions return ... including
 * results far longer than any internal buffer"), or throws bad_alloc when the allocation fails. */
#ifndef C08C_PRINTF_H
#define C08C_PRINTF_H
#include "stubs/C08_printf.h"
void string_vprintf(vstr* ret, const char* fmt, verif_va_list va)
__CPROVER_requires(__CPROVER_is_fresh(ret, sizeof(vstr)))
__CPROVER_requires(ret->size == 0 && ret->cap <= VSTR_MAXCAP && ret->cap > g_fmt_len)
__CPROVER_requires(__CPROVER_is_fresh(ret->data, ret->cap))
__CPROVER_requires(verif_exc == 0 && g_fmt_len < 0x7FFFFFFF && g_fch != 0)
__CPROVER_ensures(verif_exc == 0 || verif_exc == EXC_bad_alloc)
__CPROVER_ensures(verif_exc == 0 ==> ret->size == g_fmt_len)
__CPROVER_ensures((verif_exc == 0 && g_fk < g_fmt_len) ==> ret->data[g_fk] == g_fch)
__CPROVER_assigns(verif_exc, ret->size, __CPROVER_object_whole(ret->data));
#endif
