/* C06: contract of the PPM / PGM / PAM part of Image::load from the allocation on (extracted statement range
 * `DataPtrs new_data; ... if (format == GRAYSCALE_PPM) { expansion }`).  Compile with -DC06_DIM, -DC06_CW, -DC06_GRAY.
 *
 * Specification (Netpbm: PGM "P5" = one sample per pixel; PAM "P7" TUPLTYPE GRAYSCALE_ALPHA = gray, alpha per pixel; PPM "P6" /
 * RGB[_ALPHA] = 3 (4) samples per pixel; tuples in row-major order; property C06: a gray pixel decodes to (v,v,v[,a]);
 * class Image keeps 3 (4 with alpha) samples of channel_width bits per pixel, get_data_size() bytes in all):
 *   success  => members == header values; the buffer holds w*h*(3+alpha) samples; exactly w*h*channels samples were consumed;
 *               channel g_c of pixel g_P (ghosts: any channel of any pixel) == the gray (channel 3: alpha) sample of THAT pixel in the file / == its own sample for colour
 *   io_error => no member of *this changed (truncated file rejected without side effects)
 */
#ifndef C06_PPM_H
#define C06_PPM_H
#include "stubs/C06_io.h"
#include "x_image_types.h"

#if C06_CW == 8
typedef uint8_t C06_SAMPT;
#elif C06_CW == 16
typedef uint16_t C06_SAMPT;
#elif C06_CW == 32
typedef uint32_t C06_SAMPT;
#else
typedef uint64_t C06_SAMPT;
#endif
#define C06_SAMP(p, i) (((const C06_SAMPT*)(p))[i])

/* malloc of the sample buffer (stub, trusted): the same allocation, written as `sizeof(sample) * count` so that cbmc gives the object
 * the element type the code accesses it with (one array operation per sample instead of one per byte: the byte-wise model of the
 * 64-bit instance needs 40 M clauses). The size the code asks for must be a whole number of samples -- asserted. */
void *g_alloc, *g_freed;     /* ghosts: the pixel buffer this call allocated / the last block it released */
static inline void* C06_malloc(size_t size) {
  __CPROVER_assert(size % sizeof(C06_SAMPT) == 0, "buffer size is a whole number of samples");
  g_alloc = malloc(sizeof(C06_SAMPT) * (size / sizeof(C06_SAMPT)));
  return g_alloc;
}
static inline void C06_free(void* p) { g_freed = p; free(p); }

size_t g_P;        /* ghost pixel number y*w + x */
#ifndef C06_SAVE_H
size_t g_c;        /* ghost channel 0..2 (3 with alpha) of that pixel in memory */
#endif
C06_SAMPT g_v;     /* the sample of the FILE that the format assigns to channel g_c of pixel g_P */

#define C06_D(alpha) (3 + (size_t)(alpha))             /* samples per pixel in memory */
#if C06_GRAY
/* PGM / PAM GRAYSCALE[_ALPHA]: tuple = (gray[, alpha]); channels 0..2 of the pixel take the gray sample, channel 3 the alpha sample */
#define C06_S(alpha) (1 + (size_t)(alpha))             /* samples per pixel in the file */
#define C06_FORMAT Format_GRAYSCALE_PPM
#define C06_SRC_INDEX(alpha) (g_P * C06_S(alpha) + (g_c == 3 ? 1 : 0))
#else
/* PPM / PAM RGB[_ALPHA]: tuple = (r, g, b[, a]) */
#define C06_S(alpha) (3 + (size_t)(alpha))
#define C06_FORMAT Format_COLOR_PPM
#define C06_SRC_INDEX(alpha) (g_P * C06_S(alpha) + g_c)
#endif
/* ghost statement placed right after the read: remember the file's sample (one typed read; the spec index comes from the format) */
#define C06_GHOST_AFTER_READ(raw) { g_v = C06_SAMP(raw, C06_SRC_INDEX(new_has_alpha)); }
#define C06_PPM_DONE(self) (C06_SAMP((self)->data.raw, g_P * C06_D((self)->has_alpha) + g_c) == g_v)
#define C06_PPM_INTACT(self) (C06_SAMP((self)->data.raw, C06_SRC_INDEX((self)->has_alpha)) == g_v)

/* loop invariant of the expansion: pixels numbered >= from are expanded, the samples of the others are still where the file put them */
#define C06_PPM_INV(self, from) \
  (((ssize_t)g_P >= (ssize_t)(from) ==> C06_PPM_DONE(self)) && ((ssize_t)g_P < (ssize_t)(from) ==> C06_PPM_INTACT(self)))

void Image_load_ppm_tail(Image* self, FILE* f, Format format, size_t new_width, size_t new_height, bool new_has_alpha,
                         uint8_t new_channel_width, uint64_t new_max_value)
__CPROVER_requires(__CPROVER_is_fresh(self, sizeof(Image)))
__CPROVER_requires(verif_exc == 0 && g_fpos == 0 && g_alloc == 0 && g_freed == 0)
__CPROVER_requires(1 <= new_width && new_width <= C06_DIM && 1 <= new_height && new_height <= C06_DIM)
__CPROVER_requires(new_channel_width == C06_CW && format == C06_FORMAT)
__CPROVER_requires(g_P < new_width * new_height && g_c < C06_D(new_has_alpha))
__CPROVER_assigns(verif_exc, g_fpos, g_reads, g_v, g_alloc, g_freed)
/* truncated file: the pixel buffer allocated for it is released again ("never a crash, leak or out-of-bounds access") */
__CPROVER_ensures((verif_exc != 0 && g_alloc != 0) ==> g_freed == g_alloc)
__CPROVER_assigns(self->width, self->height, self->has_alpha, self->channel_width, self->max_value, self->data.raw)
/* which exceptions */
__CPROVER_ensures(verif_exc == 0 || verif_exc == EXC_io_error || verif_exc == EXC_runtime_error || verif_exc == EXC_bad_alloc)
/* truncated file: rejected, *this untouched */
__CPROVER_ensures(verif_exc != 0 ==> (self->width == __CPROVER_old(self->width) && self->height == __CPROVER_old(self->height) &&
                                      self->has_alpha == __CPROVER_old(self->has_alpha) && self->channel_width == __CPROVER_old(self->channel_width) &&
                                      self->max_value == __CPROVER_old(self->max_value) && self->data.raw == __CPROVER_old(self->data.raw)))
/* success: header values committed */
__CPROVER_ensures(verif_exc == 0 ==> (self->width == (ssize_t)new_width && self->height == (ssize_t)new_height && self->has_alpha == new_has_alpha &&
                                      self->channel_width == new_channel_width && self->max_value == new_max_value))
/* success: exactly the file's sample array was consumed */
__CPROVER_ensures(verif_exc == 0 ==> g_fpos == new_width * new_height * C06_S(new_has_alpha) * (C06_CW / 8))
/* success: the buffer is as large as class Image takes it to be (get_data_size()) */
__CPROVER_ensures(verif_exc == 0 ==> __CPROVER_is_fresh(self->data.raw, new_width * new_height * C06_D(new_has_alpha) * (C06_CW / 8)))
/* success: every pixel has the value the format defines */
__CPROVER_ensures(verif_exc == 0 ==> C06_PPM_DONE(self))
#if !C06_GRAY
/* colour files: byte k of the sample array is byte k of the buffer (ghost byte of the stream model) */
__CPROVER_ensures((verif_exc == 0 && g_bk < new_width * new_height * C06_S(new_has_alpha) * (C06_CW / 8)) ==> ((const uint8_t*)self->data.raw)[g_bk] == g_bv)
#endif
;

#endif
