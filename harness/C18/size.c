/* C18: format_size (SIZE_T_BITS == 64 variant) and parse_size.  Function texts: x_format_size.c / x_parse_size.c (cut from
 * src/Strings.cc on every run, together with the KB_SIZE.. constants and the SIZE_T_BITS selection of src/Platform.hh). */
#include "contracts/C18_size.h"
#ifdef C18_PARSE
#include "x_parse_size.c"
#else
#include "x_format_size.c"
#endif

int verif_exc;
unsigned g_ratio_calls; uint64_t g_ratio_num, g_ratio_den; double g_ratio_val;
c18_text g_c18_out;

const char* g_ps_base; size_t g_ps_n, g_ps_ndig, g_ps_k, g_ps_k2, g_ps_sp0, g_ps_nsp; uint64_t g_ps_int;
#ifdef VERIF_SMALL
char g_ps_buf[8];
#endif

#ifdef C18_PARSE
void h_parse_size(void) {
  const char* str;
  size_t in_n, in_k, in_k2;
  g_ps_n = in_n; g_ps_k = in_k; g_ps_k2 = in_k2;
#ifdef VERIF_SMALL
  char in_b0, in_b1, in_b2, in_b3, in_b4, in_b5, in_b6, in_b7;
  g_ps_buf[0] = in_b0; g_ps_buf[1] = in_b1; g_ps_buf[2] = in_b2; g_ps_buf[3] = in_b3;
  g_ps_buf[4] = in_b4; g_ps_buf[5] = in_b5; g_ps_buf[6] = in_b6; g_ps_buf[7] = in_b7;
  str = g_ps_buf;
#endif
  parse_size(str);
  VERIF_REACH();
}
#endif

#ifndef C18_PARSE
void h_format_size(void) {
  c18_text* ret = &g_c18_out;
  size_t in_size; bool in_include_bytes;
  verif_exc = 0; g_ratio_calls = 0;
  format_size(ret, in_size, in_include_bytes);
  VERIF_REACH();
}
#endif
