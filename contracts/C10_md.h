/* C10 side-car contracts for MD5 / SHA1 / SHA256 of src/Hash.cc -- one algorithm per compilation:
 *   -DC10_ALG=1 (MD5, RFC 1321)   -DC10_ALG=2 (SHA-1, FIPS 180-4 6.1)   -DC10_ALG=3 (SHA-256, FIPS 180-4 6.2)
 * Function text: x_Hash_md5.c / x_Hash_sha1.c / x_Hash_sha256.c (extracted each run; the process_block lambdas are
 * lifted to C functions <ALG>_process_block(self, block)).
 *
 * Ghost specification state (advanced only by the ghost statements listed in props/C10.py):
 *   g_H[0..7]  chaining value of the standard: H(i-1) before a block, H(i) after it; the standard's initial value before
 *              the first block
 *   g_v[0..7]  working variables of the standard (MD5: A,B,C,D  SHA-1: a..e  SHA-256: a..h), g_r = number of steps done
 *   g_nblk     number of 64-byte blocks the block function has consumed
 *   g_k        ghost index: a byte position of the padded message; g_seen = the byte the block function was given for
 *              that position (it is given block number g_k >> 6 when g_nblk == g_k >> 6)
 *   g_j, g_t   ghost indices into the message schedule (g_j < 16: loaded words, g_t >= 16: computed words)
 *
 * Block contract:  incoming state == H(i-1)  ==>  outgoing state == H(i) as computed by the standard's steps in
 * lock-step; the message schedule array satisfies the standard's defining equations at every index (ghost index);
 * g_nblk and g_seen record which bytes were consumed.
 * Constructor contract: Merkle-Damgard driver -- state handed to the first block is the standard's initial value, the
 * blocks given to the block function are exactly the 64-byte blocks of  message || 0x80 || 0* || bitlength64 , once each,
 * in order, padded length minimal; the final object state is the chaining value after the last block. */
#ifndef C10_MD_H
#define C10_MD_H
#include "contracts/verif.h"
#include "stubs/C10_writer.h"
#include "spec/C10_md5.h"
#include "spec/C10_sha1.h"
#include "spec/C10_sha256.h"
#include "spec/C10_md_padding.h"

#if C10_ALG == 1
typedef struct { uint32_t a0, b0, c0, d0; } MD5; /* member list checked against src/Hash.hh by props/C10.py */
#define C10_T MD5
#define C10_NW 4
#define C10_PB MD5_process_block
#define C10_CTOR MD5_ctor
#define C10_BIN MD5_bin
#define C10_HEX MD5_hex
#define C10_BLK block
#define C10_S0(s) ((s)->a0)
#define C10_S1(s) ((s)->b0)
#define C10_S2(s) ((s)->c0)
#define C10_S3(s) ((s)->d0)
#define C10_IV0 C10_MD5_A0
#define C10_IV1 C10_MD5_B0
#define C10_IV2 C10_MD5_C0
#define C10_IV3 C10_MD5_D0
#define C10_LEN_BYTE(size, j) C10_MD_LEN_BYTE_LE(size, j)
#define C10_SCHED_OK 1
#define C10_SCHED_REQ 1
#define C10_STEPS_DONE (g_r == 64) /* all 64 operations of RFC 1321 */
#elif C10_ALG == 2
typedef struct { uint32_t h[5]; } SHA1;
#define C10_T SHA1
#define C10_NW 5
#define C10_PB SHA1_process_block
#define C10_CTOR SHA1_ctor
#define C10_BIN SHA1_bin
#define C10_HEX SHA1_hex
#define C10_BLK block
#define C10_IV0 C10_SHA1_H0
#define C10_IV1 C10_SHA1_H1
#define C10_IV2 C10_SHA1_H2
#define C10_IV3 C10_SHA1_H3
#define C10_IV4 C10_SHA1_H4
#define C10_NSCHED 80
#define C10_STEPS_DONE (g_r == 80) /* t = 0..79 */
#elif C10_ALG == 3
typedef struct { uint32_t h[8]; } SHA256;
#define C10_T SHA256
#define C10_NW 8
#define C10_PB SHA256_process_block
#define C10_CTOR SHA256_ctor
#define C10_BIN SHA256_bin
#define C10_HEX SHA256_hex
#define C10_BLK data
#define C10_IV0 0x6a09e667u
#define C10_IV1 0xbb67ae85u
#define C10_IV2 0x3c6ef372u
#define C10_IV3 0xa54ff53au
#define C10_IV4 0x510e527fu
#define C10_IV5 0x9b05688cu
#define C10_IV6 0x1f83d9abu
#define C10_IV7 0x5be0cd19u
#define C10_NSCHED 64
#define C10_STEPS_DONE (g_r == 64 && g_r2 == 8) /* t = 0..63, then all 8 words of H */
#else
#error "C10_ALG must be 1, 2 or 3"
#endif
#if C10_ALG != 1
#define C10_S0(s) ((s)->h[0])
#define C10_S1(s) ((s)->h[1])
#define C10_S2(s) ((s)->h[2])
#define C10_S3(s) ((s)->h[3])
#define C10_S4(s) ((s)->h[4])
#define C10_S5(s) ((s)->h[5])
#define C10_S6(s) ((s)->h[6])
#define C10_S7(s) ((s)->h[7])
#define C10_LEN_BYTE(size, j) C10_MD_LEN_BYTE_BE(size, j)
#define C10_SCHED_OK (g_load_ok && g_sched_ok)
#define C10_SCHED_REQ (g_j < 16 && g_t >= 16 && g_t < C10_NSCHED)
#endif

uint32_t g_H[8];
uint32_t g_v[8];
uint32_t g_T1, g_T2, g_xk, g_s, g_ti, g_Mj, g_w0, g_wa, g_wb, g_wc, g_wd;
size_t g_r, g_r2;
size_t g_nblk;
size_t g_k;
uint8_t g_seen;
size_t g_j, g_t;
_Bool g_load_ok, g_sched_ok, g_iv_ok;

/* object state == ghost chaining value / == the standard's initial value */
#if C10_NW == 4
#define C10_STATE_EQ(s) (C10_S0(s) == g_H[0] && C10_S1(s) == g_H[1] && C10_S2(s) == g_H[2] && C10_S3(s) == g_H[3])
#define C10_STATE_IS_IV(s) (C10_S0(s) == C10_IV0 && C10_S1(s) == C10_IV1 && C10_S2(s) == C10_IV2 && C10_S3(s) == C10_IV3)
#define C10_GH_IS_IV (g_H[0] == C10_IV0 && g_H[1] == C10_IV1 && g_H[2] == C10_IV2 && g_H[3] == C10_IV3)
#elif C10_NW == 5
#define C10_STATE_EQ(s) (C10_S0(s) == g_H[0] && C10_S1(s) == g_H[1] && C10_S2(s) == g_H[2] && C10_S3(s) == g_H[3] && C10_S4(s) == g_H[4])
#define C10_STATE_IS_IV(s) (C10_S0(s) == C10_IV0 && C10_S1(s) == C10_IV1 && C10_S2(s) == C10_IV2 && C10_S3(s) == C10_IV3 && C10_S4(s) == C10_IV4)
#define C10_GH_IS_IV (g_H[0] == C10_IV0 && g_H[1] == C10_IV1 && g_H[2] == C10_IV2 && g_H[3] == C10_IV3 && g_H[4] == C10_IV4)
#else
#define C10_STATE_EQ(s) (C10_S0(s) == g_H[0] && C10_S1(s) == g_H[1] && C10_S2(s) == g_H[2] && C10_S3(s) == g_H[3] && \
                         C10_S4(s) == g_H[4] && C10_S5(s) == g_H[5] && C10_S6(s) == g_H[6] && C10_S7(s) == g_H[7])
#define C10_STATE_IS_IV(s) (C10_S0(s) == C10_IV0 && C10_S1(s) == C10_IV1 && C10_S2(s) == C10_IV2 && C10_S3(s) == C10_IV3 && \
                            C10_S4(s) == C10_IV4 && C10_S5(s) == C10_IV5 && C10_S6(s) == C10_IV6 && C10_S7(s) == C10_IV7)
#define C10_GH_IS_IV (g_H[0] == C10_IV0 && g_H[1] == C10_IV1 && g_H[2] == C10_IV2 && g_H[3] == C10_IV3 && \
                      g_H[4] == C10_IV4 && g_H[5] == C10_IV5 && g_H[6] == C10_IV6 && g_H[7] == C10_IV7)
#endif

/* digest byte j from the ghost chaining value */
#if C10_ALG == 1
#define C10_DIGEST_BYTE(j) C10_MD5_DIGEST_BYTE(g_H[0], g_H[1], g_H[2], g_H[3], j)
#else
#define C10_DIGEST_BYTE(j) C10_BE_DIGEST_BYTE(g_H[(j) >> 2], j)
#endif

/* Pointer preconditions: when the contract is *enforced* the objects are created by is_fresh; when it *replaces* a call
 * inside the constructor the block pointer points into the middle of the message / the writer buffer, so validity is
 * stated with r_ok / w_ok (C10_PB_REPLACED is defined by the harness of the constructor groups). */
#if defined(C10_PB_REPLACED) || defined(C10_PB_UNALIGNED)   /* (C10_PB_UNALIGNED: the harness passes a block that starts 1..3 bytes into an object) */
#define C10_PB_PTRS(self, blk) (__CPROVER_w_ok(self, sizeof(C10_T)) && __CPROVER_r_ok(blk, 64))
#else
#define C10_PB_PTRS(self, blk) (__CPROVER_is_fresh(self, sizeof(C10_T)) && __CPROVER_is_fresh(blk, 64))
#endif

#define C10_GHOST_SCRATCH g_T1, g_T2, g_xk, g_s, g_ti, g_Mj, g_r, g_r2, g_load_ok, g_sched_ok, g_w0, g_wa, g_wb, g_wc, g_wd

#if C10_ALG == 3
/* helper of the SHA-256 code: FIPS 180-4 ROTR^n(x) for 0 < n < 32 (the block proof inlines the real body) */
static inline uint32_t rotate_right(uint32_t x, uint8_t bits)
__CPROVER_requires(bits >= 1 && bits <= 31)
__CPROVER_ensures(__CPROVER_return_value == C10_SHA_ROTR(x, bits))
__CPROVER_assigns();
#endif

void C10_PB(C10_T* self, const void* C10_BLK)
__CPROVER_requires(C10_PB_PTRS(self, C10_BLK))
__CPROVER_requires(C10_STATE_EQ(self))
__CPROVER_requires(C10_SCHED_REQ)
__CPROVER_ensures(C10_STATE_EQ(self))
__CPROVER_ensures(C10_SCHED_OK)
/* the specification run is complete: the ghost steps are driven by the loops of the code, so their number is part of
 * the postcondition (a loop that stops early would otherwise stop the specification with it) */
__CPROVER_ensures(C10_STEPS_DONE)
__CPROVER_ensures(g_nblk == __CPROVER_old(g_nblk) + 1)
__CPROVER_ensures(((g_k >> 6) == __CPROVER_old(g_nblk)) ==> g_seen == ((const uint8_t*)C10_BLK)[g_k & 63])
__CPROVER_ensures(((g_k >> 6) != __CPROVER_old(g_nblk)) ==> g_seen == __CPROVER_old(g_seen))
__CPROVER_assigns(__CPROVER_object_whole(self), __CPROVER_object_whole(g_H), __CPROVER_object_whole(g_v), g_nblk, g_seen, C10_GHOST_SCRATCH);

void C10_CTOR(C10_T* self, const void* data, size_t size)
__CPROVER_requires(__CPROVER_is_fresh(self, sizeof(C10_T)) && __CPROVER_is_fresh(data, size))
__CPROVER_requires(C10_GH_IS_IV && g_nblk == 0 && C10_SCHED_REQ)
__CPROVER_requires(g_wi == g_k - C10_MD_TAIL_START(size))
/* the first block is processed from the standard's initial value; the object ends in the last chaining value */
__CPROVER_ensures(g_iv_ok)
__CPROVER_ensures(C10_STATE_EQ(self))
/* number of blocks: total length is the least multiple of 64 that holds message, the 0x80 octet and the 8 length octets */
__CPROVER_ensures(g_nblk <= (size >> 6) + 2)
__CPROVER_ensures(C10_MD_TOTAL(g_nblk) >= size + 9 && C10_MD_TOTAL(g_nblk) - 64 < size + 9)
/* every position g_k of the padded message was given to the block function with the standard's byte */
__CPROVER_ensures(g_k < size ==> g_seen == ((const uint8_t*)data)[g_k])
__CPROVER_ensures(g_k == size ==> g_seen == 0x80)
__CPROVER_ensures((g_k > size && g_k < C10_MD_TOTAL(g_nblk) - 8) ==> g_seen == 0)
__CPROVER_ensures((g_k >= C10_MD_TOTAL(g_nblk) - 8 && g_k < C10_MD_TOTAL(g_nblk)) ==> g_seen == C10_LEN_BYTE(size, g_k - (C10_MD_TOTAL(g_nblk) - 8)))
__CPROVER_assigns(__CPROVER_object_whole(self), __CPROVER_object_whole(g_H), __CPROVER_object_whole(g_v), g_nblk, g_seen, g_iv_ok, C10_GHOST_SCRATCH);

/* bin(): digest bytes in the standard's order (MD5: low-order byte of A first ... high-order byte of D; SHA: big-endian
 * words), described at ghost position g_wi of the returned string (out-parameter w) */
void C10_BIN(const C10_T* self, C10_writer* w)
__CPROVER_requires(__CPROVER_is_fresh(self, sizeof(C10_T)) && __CPROVER_is_fresh(w, sizeof(C10_writer)))
__CPROVER_requires(C10_STATE_EQ(self))
__CPROVER_ensures(w->size == 4 * C10_NW)
__CPROVER_ensures(g_wi < 4 * C10_NW ==> C10_WAT(w) == C10_DIGEST_BYTE(g_wi))
__CPROVER_assigns(__CPROVER_object_whole(w));

/* hex(): two upper-case hexadecimal digits per digest byte, high nibble first, digest byte order as in bin() */
void C10_HEX(const C10_T* self, C10_hexstr* ret)
__CPROVER_requires(__CPROVER_is_fresh(self, sizeof(C10_T)) && __CPROVER_is_fresh(ret, sizeof(C10_hexstr)))
__CPROVER_requires(C10_STATE_EQ(self))
__CPROVER_ensures(ret->size == 8 * C10_NW)
__CPROVER_ensures(g_hi < 8 * C10_NW ==> ret->data[g_hi] == C10_HEXDIGIT(((g_hi & 1) ? C10_DIGEST_BYTE(g_hi >> 1) : (C10_DIGEST_BYTE(g_hi >> 1) >> 4))))
__CPROVER_assigns(__CPROVER_object_whole(ret));

#endif
