/* C20: Matrix4<T> (identity constructor, transposition, transpose, M*v); T = int64_t, for M*v T = uint64_t.
 * All function text is x_vec.inc, extracted from src/Vector-inl.hh on this run; loop contracts are injected there. */
#include "contracts/C20_vec.h"
int verif_exc;
#include "x_vec.inc"

#define IN_XY size_t in_x, in_y; g_x = in_x; g_y = in_y
#define IN_M T in_m[16]; for (int k = 0; k < 16; k++) g_m[k] = in_m[k]

void h_Matrix4_ctor(void) { IN_XY; Matrix4* a; Matrix4_ctor(a); VERIF_REACH(); }
void h_Matrix4_transposition(void) { IN_XY; IN_M; Matrix4* a; Matrix4_transposition(a); VERIF_REACH(); }
void h_Matrix4_transpose(void) { IN_XY; IN_M; T in_val; g_val = in_val; Matrix4* a; Matrix4_transpose(a); VERIF_REACH(); }
#if !T_SIGNED
void h_Matrix4_mulv(void) {
  IN_M; T in_o[4]; g_o[0] = in_o[0]; g_o[1] = in_o[1]; g_o[2] = in_o[2]; g_o[3] = in_o[3];
  Matrix4* a; Vector4* v; Matrix4_mulv(a, v); VERIF_REACH();
}
#endif

/* lemma over the contract of transposition(): transposing twice gives the original matrix, element (i,j) arbitrary.
 * The ghost index is (i,j) for the first call and (j,i) for the second. */
void l_transpose_twice(void) {
  size_t in_x, in_y; T in_m[16]; Matrix4 a;
  __CPROVER_assume(in_x < 4 && in_y < 4);            /* element index in range (precondition of the contract) */
  for (int k = 0; k < 16; k++) { a.v[k] = in_m[k]; g_m[k] = in_m[k]; }
  g_x = in_x; g_y = in_y;
  Matrix4 t1 = Matrix4_transposition(&a);
  for (int k = 0; k < 16; k++) g_m[k] = t1.v[k];
  g_x = in_y; g_y = in_x;
  Matrix4 t2 = Matrix4_transposition(&t1);
  __CPROVER_assert(t2.m[in_x][in_y] == a.m[in_x][in_y], "transposition(transposition(M)) == M, element-wise");
  VERIF_REACH();
}
/* the same for the in-place transpose() */
void l_transpose_inplace_twice(void) {
  size_t in_x, in_y; T in_m[16]; Matrix4 a;
  __CPROVER_assume(in_x < 4 && in_y < 4);
  for (int k = 0; k < 16; k++) { a.v[k] = in_m[k]; g_m[k] = in_m[k]; }
  T orig = a.m[in_x][in_y];
  g_x = in_x; g_y = in_y; g_val = orig;
  Matrix4_transpose(&a);
  for (int k = 0; k < 16; k++) g_m[k] = a.v[k];
  g_x = in_y; g_y = in_x; g_val = a.m[in_y][in_x];
  Matrix4_transpose(&a);
  __CPROVER_assert(a.m[in_x][in_y] == orig, "transpose twice == identity, element-wise");
  VERIF_REACH();
}
