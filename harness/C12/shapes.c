/* C12: bounded refinement check -- one inductive step of LRUSet<int> / LRUMap<int,int> from an arbitrary state of a
 * given *shape* against a reference recency list (DESIGN.md A.8).  NEVER counted as a proof: kind = bounded.
 *
 *   -DC12_USE_MAP                 LRUMap instead of LRUSet
 *   -DC12_NSLOT=n                 nodes in the pool of the unordered_map stub (shape bound + 1 spare node)
 *   -DCNT_A=c -DSHAPE_A={..}      the concrete shape: the c live pool nodes in recency order, most recently used first
 *   -DCNT_B / -DSHAPE_B           second container (swap)
 *   -DOP=OP_xxx                   the operation
 * Keys, values, sizes and all operation arguments are symbolic (nondet locals in_*); every pointer of the initial state
 * is built from an index.  The reference model below is the transcription of the property statement:
 *   a sequence of (key, size[, value]) entries, most recently used first; insert / emplace (LRUSet) / touch / at /
 *   change_size(.., touch = true) (LRUMap) move the entry to the front ("touch"); LRUSet::change_size,
 *   LRUMap::change_size(.., false), item_size, peek, size, count, empty and a failed lookup do not; LRUMap::emplace of an
 *   existing key changes nothing; evict_object / peek concern the last entry; size() = sum of sizes, count() = length;
 *   the boolean results are "a new key was created" (insert, emplace) / "the key exists" (erase, change_size, touch);
 *   lookups of absent keys and evict/peek on an empty container throw std::out_of_range and change nothing.
 */
#ifdef C12_USE_MAP
#include "x_LRUMap_types.h"
#include "x_LRUMap.c"
#ifdef C12_INSERT_CONST
#include "x_LRUMap_insert_const.c"
#endif
#else
#include "x_LRUSet_types.h"
#include "x_LRUSet.c"
typedef int V;
#endif
#include "stubs/C12_umap.h"   /* already included by the extracted type header (include guard); named here so that the evidence scan sees its assumptions */

#define CAT_(a, b) a##_##b
#define CAT(a, b) CAT_(a, b)
#define M(f) CAT(PFX, f)
#define LRU PFX
#define NS C12_NSLOT

int verif_exc;
int g_hint = -2;        /* lookup hint for the map stub (stubs/C12_umap.h): -2 = none */

#define OP_ctor 0
#define OP_insert 1
#define OP_emplace 2
#define OP_erase 3
#define OP_clear 4
#define OP_change_size 5
#define OP_touch 6
#define OP_evict_object 7
#define OP_peek 8
#define OP_swap 9
#define OP_swap_self 10
#define OP_observe 11        /* size(), count(), empty() on an untouched container */
#define OP_at 12
#define OP_at_const 13
#define OP_item_size 14
#define OP_insert_const 15

/* ---------------------------------------------------------------------------------------------- reference model */
/* slot[] is the refinement witness: which node of the map holds the entry (node addresses are stable, so an entry keeps its
 * node for its whole life; a new entry gets the first free node of the stub's pool) */
/* total is the reference list's "sum of the current entries' sizes", maintained by the primitives below; that it *is* the sum
 * (modulo 2^64) is the separate obligation h_model_total -- keeping the 64-bit summation out of the per-shape queries, where two
 * structurally equal adder chains are not shared by the SAT encoding */
typedef struct { int n; K key[NS]; size_t size[NS]; V val[NS]; int slot[NS]; size_t total; } model;

static int m_find(const model* m, K k)
{
  for (int j = 0; j < NS; j++)
    if (j < m->n && m->key[j] == k)
      return j;
  return -1;
}
static void m_remove_entry(model* m, int idx)
{
  for (int j = 0; j < NS - 1; j++)
    if (j >= idx) {
      m->key[j] = m->key[j + 1];
      m->size[j] = m->size[j + 1];
      m->val[j] = m->val[j + 1];
      m->slot[j] = m->slot[j + 1];
    }
  m->n--;
}
static void m_push_entry(model* m, K k, size_t s, V v, int slot)
{
  for (int j = NS - 1; j > 0; j--) {
    m->key[j] = m->key[j - 1];
    m->size[j] = m->size[j - 1];
    m->val[j] = m->val[j - 1];
    m->slot[j] = m->slot[j - 1];
  }
  m->key[0] = k;
  m->size[0] = s;
  m->val[0] = v;
  m->slot[0] = slot;
  m->n++;
}
static void m_remove(model* m, int idx)
{
  m->total -= m->size[idx];
  m_remove_entry(m, idx);
}
static void m_push_front(model* m, K k, size_t s, V v, int slot)
{
  m->total += s;
  m_push_entry(m, k, s, v, slot);
}
static void m_resize(model* m, int idx, size_t s)
{
  m->total += s - m->size[idx];
  m->size[idx] = s;
}
static void m_clear(model* m)
{
  m->n = 0;
  m->total = 0;
}
static void m_to_front(model* m, int idx)
{
  K k = m->key[idx];
  size_t s = m->size[idx];
  V v = m->val[idx];
  int slot = m->slot[idx];
  m_remove_entry(m, idx);                  /* same entries, same total */
  m_push_entry(m, k, s, v, slot);
}
/* ---------------------------------------------------------------------------------------------- state of a given shape */
static void build(LRU* c, umap_node* pool, const int* order, int cnt, const K* keys, const size_t* sizes, const V* vals, size_t total, model* m)
{
  c->items.nodes = pool;
  for (int j = 0; j < NS; j++)
    pool[j].used = 0;                       /* the other fields of a dead node stay indeterminate */
  for (int r = 0; r < NS; r++)
    if (r < cnt) {
      int s = order[r];
      pool[s].used = 1;
      pool[s].first = keys[s];
      pool[s].second.key = &pool[s].first;
      pool[s].second.size = sizes[s];
#ifdef C12_MAP
      pool[s].second.value = vals[s];
#endif
      pool[s].second.prev = r > 0 ? &pool[order[r - 1]].second : 0;
      pool[s].second.next = r + 1 < cnt ? &pool[order[r + 1]].second : 0;
      m->key[r] = keys[s];
      m->size[r] = sizes[s];
      m->val[r] = vals[s];
      m->slot[r] = s;
      for (int q = 0; q < NS; q++)
        if (q < r)
          __CPROVER_assume(keys[order[q]] != keys[s]);      /* a map holds each key once */
    }
  m->n = cnt;
  /* representation invariant: total_size is the sum of the entries' sizes.  Only an assumption on the symbolic input `total`
   * here; that the reference total stays the sum is obligation h_model_total. */
  size_t sum = 0;
  for (int j = 0; j < NS; j++)
    if (pool[j].used)
      sum += sizes[j];
  __CPROVER_assume(total == sum);
  m->total = total;
  c->head = cnt ? &pool[order[0]].second : 0;
  c->tail = cnt ? &pool[order[cnt - 1]].second : 0;
  c->total_size = total;
}

/* representation invariant + abstraction: the container c over `pool` represents exactly the reference list m */
static int first_free(const umap_node* pool)
{
  for (int j = 0; j < NS; j++)
    if (!pool[j].used)
      return j;
  return -1;
}

static void check(const LRU* c, const umap_node* pool, const model* m)
{
  __CPROVER_assert(c->items.nodes == pool, "the container owns the expected node pool");
  const Item* p = c->head;
  const Item* prev = 0;
  for (int n = 0; n < NS; n++)
    if (n < m->n) {
      int s = m->slot[n];
      const Item* e = &pool[s].second;
      __CPROVER_assert(p == e, "following head/next leads to the node of the n-th reference entry (recency order; no dangling, foreign or looping link; node addresses stable)");
      __CPROVER_assert(pool[s].used, "every linked node is live (no use after free)");
      __CPROVER_assert(e->prev == prev, "prev mirrors next");
      __CPROVER_assert(e->key == &pool[s].first, "the key pointer of an item points at the key of its own node");
      __CPROVER_assert(pool[s].first == m->key[n], "the key at this recency position equals the reference list");
      __CPROVER_assert(e->size == m->size[n], "the size stored for the entry equals the reference list");
#ifdef C12_MAP
      __CPROVER_assert(e->value == m->val[n], "the value stored for the entry equals the reference list (last stored value)");
#endif
      prev = e;
      p = e->next;                         /* continue on the asserted node */
    }
  __CPROVER_assert(p == 0, "the chain ends after the last reference entry (acyclic, nothing extra linked)");
  __CPROVER_assert(c->tail == prev, "tail is the last item of the chain (0 when empty)");
  int live = 0;
  for (int j = 0; j < NS; j++)
    if (pool[j].used)
      live++;
  __CPROVER_assert(live == m->n, "every live node of the map is linked (no leak, no entry lost)");
  __CPROVER_assert(c->total_size == m->total, "total_size is the sum of the sizes of the current entries (reference total)");
  /* the observers */
  __CPROVER_assert(M(size)(c) == m->total, "size() is the sum of the current entries' sizes");
  __CPROVER_assert(M(count)(c) == (size_t)m->n, "count() is the number of keys");
#ifdef C12_MAP
  __CPROVER_assert(M(empty)(c) == (m->n == 0), "empty() iff no keys");
#endif
}

#ifndef CNT_A
#define CNT_A 0
#define SHAPE_A {-1}
#endif
#ifndef CNT_B
#define CNT_B 0
#define SHAPE_B {-1}
#endif

bool nondet_bool(void);

void h_step(void)
{
  const int order_a[NS + 1] = SHAPE_A;
  const int order_b[NS + 1] = SHAPE_B;
  umap_node pool_a[NS], pool_b[NS];
  K in_key[NS], in_key_b[NS];
  size_t in_size[NS], in_size_b[NS];
  V in_val[NS], in_val_b[NS];
  K in_k;
  V in_v;
  size_t in_sz, in_total, in_total_b;
  ssize_t in_nsz;
  bool in_touch = nondet_bool();
  LRU a, b;
  model ma, mb;
  verif_exc = 0;

#if OP == OP_ctor
  /* base case of the induction: a new container is the empty list */
  a.items.nodes = pool_a;
  M(ctor)(&a);
  m_clear(&ma);
  check(&a, pool_a, &ma);
#else
  build(&a, pool_a, order_a, CNT_A, in_key, in_size, in_val, in_total, &ma);
#endif

  int free_a = first_free(pool_a);        /* the node a new entry will get */
  /* The key argument denotes the entry at recency position in_hit of the initial list, or (in_hit == -1) an absent key.
   * The loop is unwound, so inside its body the position r is a constant: the lookup hint and the reference step are concrete,
   * keys stay symbolic. */
  int in_hit;
#if OP == OP_evict_object
  __CPROVER_assume(in_hit == CNT_A - 1);          /* evict looks its own victim up by key: the tail entry */
#else
#ifdef HIT
  __CPROVER_assume(in_hit == HIT);
#else
  __CPROVER_assume(in_hit >= -1 && in_hit < CNT_A);
#endif
#endif
#if OP == OP_change_size && defined(C12_MAP)
  for (int tv = 0; tv < 2; tv++)               /* the same for the boolean argument: both values, never merged */
    if (in_touch == (tv != 0))
#endif
  for (int idx = -1; idx < NS - 1; idx++)
    if (idx < CNT_A && in_hit == idx) {
#if OP == OP_change_size && defined(C12_MAP)
      in_touch = (tv != 0);
#endif
      if (idx >= 0) {
#if OP != OP_evict_object                      /* evict_object chooses the key it erases itself: no hint, plain scan */
        g_hint = order_a[idx];
#endif
        in_k = in_key[order_a[idx]];
      } else {
        g_hint = -1;
        for (int q = 0; q < NS; q++)
          if (q < CNT_A)
            __CPROVER_assume(in_k != in_key[order_a[q]]);
      }
#if OP == OP_insert || OP == OP_insert_const || (OP == OP_emplace && !defined(C12_MAP))
  /* new key: pushed in front, true; existing key: size (and value) replaced, touched, false */
#if defined(C12_MAP) && OP == OP_insert_const
  bool r = M(insert_const)(&a, in_k, in_v, in_sz);
#elif defined(C12_MAP)
  bool r = M(insert)(&a, in_k, in_v, in_sz);
#elif OP == OP_insert
  bool r = M(insert)(&a, in_k, in_sz);
#else
  bool r = M(emplace)(&a, in_k, in_sz);
#endif
  if (idx < 0)
    m_push_front(&ma, in_k, in_sz, in_v, free_a);
  else {
    m_resize(&ma, idx, in_sz);
    ma.val[idx] = in_v;
    m_to_front(&ma, idx);
  }
  __CPROVER_assert(r == (idx < 0), "insert/emplace return true exactly for a new key");
  __CPROVER_assert(verif_exc == 0, "no exception");
  check(&a, pool_a, &ma);
#elif OP == OP_emplace
  /* LRUMap::emplace: an existing entry is left alone (value, size and recency), false */
  bool r = M(emplace)(&a, in_k, in_v, in_sz);
  if (idx < 0)
    m_push_front(&ma, in_k, in_sz, in_v, free_a);
  __CPROVER_assert(r == (idx < 0), "emplace returns true exactly for a new key");
  __CPROVER_assert(verif_exc == 0, "no exception");
  check(&a, pool_a, &ma);
#elif OP == OP_erase
  bool r = M(erase)(&a, in_k);
  if (idx >= 0)
    m_remove(&ma, idx);
  __CPROVER_assert(r == (idx >= 0), "erase returns true exactly for an existing key");
  __CPROVER_assert(verif_exc == 0, "no exception");
  check(&a, pool_a, &ma);
#elif OP == OP_clear
  M(clear)(&a);
  m_clear(&ma);
  __CPROVER_assert(verif_exc == 0, "no exception");
  check(&a, pool_a, &ma);
#elif OP == OP_change_size
#ifdef C12_MAP
  bool r = M(change_size)(&a, in_k, in_sz, in_touch);
#else
  bool r = M(change_size)(&a, in_k, in_sz);
#endif
  if (idx >= 0) {
    m_resize(&ma, idx, in_sz);
#ifdef C12_MAP
    if (in_touch)
      m_to_front(&ma, idx);
#endif
  }
  __CPROVER_assert(r == (idx >= 0), "change_size returns true exactly for an existing key");
  __CPROVER_assert(verif_exc == 0, "no exception escapes change_size");
  check(&a, pool_a, &ma);
#elif OP == OP_touch
  bool r = M(touch)(&a, in_k, in_nsz);
  if (idx >= 0) {
    if (in_nsz >= 0)
      m_resize(&ma, idx, (size_t)in_nsz);
    m_to_front(&ma, idx);
  }
  __CPROVER_assert(r == (idx >= 0), "touch returns true exactly for an existing key");
  __CPROVER_assert(verif_exc == 0, "no exception escapes touch");
  check(&a, pool_a, &ma);
#elif OP == OP_evict_object
#ifdef C12_MAP
  EvictedObject r = M(evict_object)(&a);
#else
  pair_K_size r = M(evict_object)(&a);
#endif
  if (ma.n == 0)
    __CPROVER_assert(verif_exc == EXC_out_of_range, "evict_object on an empty container throws std::out_of_range");
  else {
    int last = ma.n - 1;
    __CPROVER_assert(verif_exc == 0, "evict_object on a non-empty container does not throw");
#ifdef C12_MAP
    __CPROVER_assert(r.key == ma.key[last] && r.size == ma.size[last] && r.value == ma.val[last],
                     "evict_object returns the least recently used entry (key, value, size)");
#else
    __CPROVER_assert(r.first == ma.key[last] && r.second == ma.size[last], "evict_object returns the least recently used entry (key, size)");
#endif
    m_remove(&ma, last);
  }
  verif_exc = 0;
  check(&a, pool_a, &ma);
#elif OP == OP_peek
  pair_K_size r = M(peek)(&a);
  if (ma.n == 0)
    __CPROVER_assert(verif_exc == EXC_out_of_range, "peek on an empty container throws std::out_of_range");
  else {
    __CPROVER_assert(verif_exc == 0, "peek on a non-empty container does not throw");
    __CPROVER_assert(r.first == ma.key[ma.n - 1] && r.second == ma.size[ma.n - 1], "peek returns the least recently used entry");
  }
  verif_exc = 0;
  check(&a, pool_a, &ma);
#elif OP == OP_swap
  build(&b, pool_b, order_b, CNT_B, in_key_b, in_size_b, in_val_b, in_total_b, &mb);
  M(swap)(&a, &b);
  __CPROVER_assert(verif_exc == 0, "no exception");
  check(&a, pool_b, &mb);
  check(&b, pool_a, &ma);
#elif OP == OP_swap_self
  M(swap)(&a, &a);
  __CPROVER_assert(verif_exc == 0, "no exception");
  check(&a, pool_a, &ma);
#elif OP == OP_observe
  check(&a, pool_a, &ma);
#elif OP == OP_at || OP == OP_at_const
#if OP == OP_at
  const V* r = M(at)(&a, in_k);
#else
  const V* r = M(at_const)(&a, in_k);
#endif
  if (idx < 0)
    __CPROVER_assert(verif_exc == EXC_out_of_range, "at of an absent key throws std::out_of_range");
  else {
    __CPROVER_assert(verif_exc == 0 && r != 0, "at of a stored key does not throw");
    if (r != 0)
      __CPROVER_assert(*r == ma.val[idx], "at returns the last stored value");
    m_to_front(&ma, idx);
  }
  verif_exc = 0;
  check(&a, pool_a, &ma);
#elif OP == OP_item_size
  size_t r = M(item_size)(&a, in_k);
  if (idx < 0)
    __CPROVER_assert(verif_exc == EXC_out_of_range, "item_size of an absent key throws std::out_of_range");
  else
    __CPROVER_assert(verif_exc == 0 && r == ma.size[idx], "item_size returns the stored size");
  verif_exc = 0;
  check(&a, pool_a, &ma);
#endif
      /* each case ends here: the symbolic states of the cases are never merged (merging them turns every pointer of the pool
       * into a case split and multiplies the formula by ~100) */
      VERIF_REACH();
      return;
    }
  VERIF_REACH();
}

/* The reference list's total is the sum of its sizes: preserved by every primitive, from any list of at most NS - 1 entries. */
static size_t m_sum(const model* m)
{
  size_t t = 0;
  for (int j = 0; j < NS; j++)
    if (j < m->n)
      t += m->size[j];
  return t;
}
void h_model_total(void)
{
  int in_n, in_prim, in_idx;
  K in_k;
  V in_v;
  size_t in_sz;
  __CPROVER_assume(in_n >= 0 && in_n <= NS - 1 && in_prim >= 0 && in_prim <= 4 && in_idx >= 0 && in_idx < NS - 1);
  /* every (length, primitive, position) is its own unmerged case with constant indices: the obligation is a closed
   * identity over at most NS sizes */
  for (int n = 0; n < NS; n++)
    for (int prim = 0; prim < 5; prim++)
      for (int idx = 0; idx < NS - 1; idx++)
        if (in_n == n && in_prim == prim && in_idx == idx && (prim < 2 ? idx == 0 : idx < n)) {
          model m;
          m.n = n;
          __CPROVER_assume(m.total == m_sum(&m));
          if (prim == 0)
            m_push_front(&m, in_k, in_sz, in_v, 0);
          else if (prim == 1)
            m_clear(&m);
          else if (prim == 2)
            m_remove(&m, idx);
          else if (prim == 3)
            m_resize(&m, idx, in_sz);
          else
            m_to_front(&m, idx);
          __CPROVER_assert(m.n >= 0 && m.n <= NS, "reference list stays within the bound");
          __CPROVER_assert(m.total == m_sum(&m), "the reference total is the sum of the sizes of the reference entries");
          VERIF_REACH();
          return;
        }
}
