/* C18: trusted models for format_time (src/Time.cc): the std::string it fills in place and the three libc calls.
 * The calendar (gmtime_r), the rendering of the broken-down time (strftime) and of the number (snprintf) are libc and are NOT
 * modelled: each stub only checks the memory-safety conditions of its arguments (POSIX / ISO C), records in ghosts WHAT it was
 * asked to do, and returns any value its specification allows. */
#ifndef STUBS_C18_FTIME_H
#define STUBS_C18_FTIME_H
#include "contracts/verif.h"
#include <time.h>

#define C18_FSTR_CAP 256
extern size_t g_ft_str_n;
/* std::string of at most C18_FSTR_CAP characters (model limit), filled in place through data() */
typedef struct { char buf[C18_FSTR_CAP + 1]; size_t size; } c18_fstr;

static inline void c18_fstr_init(c18_fstr* s, size_t n, char c)     /* std::string(n, c) */
{
  __CPROVER_assert(n <= C18_FSTR_CAP, "model limit: std::string(n, c) with n <= 256");
  s->size = n; g_ft_str_n = n;
  (void)c;       /* content is not tracked: the text written by libc is not modelled */
}
static inline char* c18_fstr_data(c18_fstr* s) { return s->buf; }
static inline size_t c18_fstr_size(const c18_fstr* s) { return s->size; }
static inline void c18_fstr_resize(c18_fstr* s, size_t n)
{
  __CPROVER_assert(n <= C18_FSTR_CAP, "model limit: resize(n) with n <= 256");
  s->size = n;
}
#define C18_MIN_SIZE(a, b) ((size_t)(a) < (size_t)(b) ? (size_t)(a) : (size_t)(b))      /* std::min<size_t> */

/* ghosts: what libc was asked */
extern unsigned g_ft_gm_calls, g_ft_sf_calls, g_ft_sn_calls;
extern int64_t g_ft_secs;                 /* *timep of gmtime_r */
extern const struct tm* g_ft_tm;          /* the struct it filled */
extern char* g_ft_sf_dst; extern size_t g_ft_sf_max; extern bool g_ft_sf_fmt_ok, g_ft_sf_tm_ok; extern size_t g_ft_len;
extern char* g_ft_sn_dst; extern size_t g_ft_sn_n; extern unsigned g_ft_sn_zero, g_ft_sn_width; extern uint32_t g_ft_sn_val; extern int g_ft_sn_ret;

int nondet_c18_int(void);
size_t nondet_c18_size(void);
struct tm nondet_c18_tm(void);

/* POSIX gmtime_r: converts *timep to broken-down UTC time in *result; returns result */
static inline struct tm* c18_gmtime_r(const time_t* timep, struct tm* result)
{
  g_ft_gm_calls++; g_ft_secs = *timep; g_ft_tm = result;
  *result = nondet_c18_tm();
  return result;
}
#define C18_FT_FMT_IS_ISO(f) ((f)[0]=='%' && (f)[1]=='Y' && (f)[2]=='-' && (f)[3]=='%' && (f)[4]=='m' && (f)[5]=='-' && (f)[6]=='%' && (f)[7]=='d' && \
  (f)[8]==' ' && (f)[9]=='%' && (f)[10]=='H' && (f)[11]==':' && (f)[12]=='%' && (f)[13]=='M' && (f)[14]==':' && (f)[15]=='%' && (f)[16]=='S' && (f)[17]==0)
/* ISO C strftime: writes at most max bytes (terminator included) into s; returns the number of bytes written without the
 * terminator, or 0 if the result does not fit */
static inline size_t c18_strftime(char* s, size_t max, const char* format, const struct tm* tm)
{
  __CPROVER_assert(max == 0 || __CPROVER_w_ok(s, max), "strftime: s[0..max) must be writable");
  g_ft_sf_calls++; g_ft_sf_dst = s; g_ft_sf_max = max; g_ft_sf_fmt_ok = C18_FT_FMT_IS_ISO(format); g_ft_sf_tm_ok = (tm == g_ft_tm);
  size_t len = nondet_c18_size();
  __CPROVER_assume(len == 0 || len < max);
  g_ft_len = len;
  return len;
}
/* snprintf(dst, n, ".%[0][width]" PRIu32, v): writes at most n bytes (terminator included); returns the number of characters
 * the complete output has ('.' plus max(width, digits of v)), or a negative value on an output error */
static inline int c18_snprintf_dot_u32(char* dst, size_t n, unsigned zero, unsigned width, uint32_t v)
{
  __CPROVER_assert(n == 0 || __CPROVER_w_ok(dst, n), "snprintf: dst[0..n) must be writable");
  unsigned nd = v < 10u ? 1 : v < 100u ? 2 : v < 1000u ? 3 : v < 10000u ? 4 : v < 100000u ? 5 : v < 1000000u ? 6 : v < 10000000u ? 7 :
                v < 100000000u ? 8 : v < 1000000000u ? 9 : 10;
  int r = nondet_c18_int();
  __CPROVER_assume(r < 0 || r == (int)(1 + (nd < width ? width : nd)));
  g_ft_sn_calls++; g_ft_sn_dst = dst; g_ft_sn_n = n; g_ft_sn_zero = zero; g_ft_sn_width = width; g_ft_sn_val = v; g_ft_sn_ret = r;
  return r;
}
#endif
