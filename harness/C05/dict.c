/* C05: h_dict */
#include "harness/C05/common.h"
#include "x_json_rd.c"      /* eof / where / size / go: real bodies */
#include "x_json_dict.c"

void h_dict(void) { StringReader* r; JVal* ret; bool in_de; IN_COMMON; g_j.de = in_de; JSON_parse_dict(r, in_de, ret); VERIF_REACH(); }
