/* C05: shared prelude of the JSON parser harnesses.
 * Reader calls are replaced by the C01/C02 contracts (all clauses: -DPROP_C01 -DPROP_C02); the 8-bit typed accessors
 * get_s8 / pget_s8 get their contracts from the C_RD_GET / C_RD_PGET templates of contracts/RW_typed.h. */
#ifndef PROP_C01
#define PROP_C01 1
#endif
#ifndef PROP_C02
#define PROP_C02 1
#endif
#define SPEC_T int8_t
#define SPEC_W 8
#define SPEC_BIG 1
#define SPEC_FLOAT 0
#define FKIND 0
#include "contracts/RW_typed.h"
C_RD_GET(StringReader_get_s8)
C_RD_PGET(StringReader_pget_s8)
#include "contracts/C05_json.h"

int verif_exc;
size_t g_len, g_off, g_mk, g_vk, g_sk;
uint8_t g_b0, g_b1, g_b2, g_b3, g_b4, g_b5, g_b6, g_b7;
size_t g_wk, g_nw, g_nwx;
struct c05_skip_ghost g_w;
struct c05_ghost g_j;
int g_nt; uint64_t g_tok;

#define IN_BYTES uint8_t in_b0, in_b1, in_b2, in_b3, in_b4, in_b5, in_b6, in_b7; g_b0 = in_b0; g_b1 = in_b1; g_b2 = in_b2; g_b3 = in_b3; \
                 g_b4 = in_b4; g_b5 = in_b5; g_b6 = in_b6; g_b7 = in_b7
#define IN_COMMON IN_BYTES; size_t in_wk, in_sk, in_cmk; g_wk = in_wk; g_sk = in_sk; g_j.cmk = in_cmk
