"""Shared extraction for C01 / C02: StringReader, BitReader, BitWriter, StringWriter, BufferWriter (src/Strings.hh, src/Strings.cc).

C types (what the extraction drops: `owned_data` shared_ptr -- lifetime only; virtual destructor; std::string -> vstr stub):
  StringReader { const uint8_t* data; size_t length; size_t offset; }   BitReader likewise (length/offset in bits)
"""
import re
from vf.extract import Source, Unit
from vf.lex import Rule, ExtractionBreak, find_def, mask

HH = 'src/Strings.hh'
CC = 'src/Strings.cc'
SR = r'class StringReader'

TYPES = '#include "contracts/RW_types.h"\n'


def check_members(src):
    """The C structs above mirror the data members of the classes; verify that against the class text."""
    text = src.text(HH)
    for cls, want in [(r'class StringReader', ['std::shared_ptr<std::string> owned_data;', 'const uint8_t* data;', 'size_t length;', 'size_t offset;']),
                      (r'class BitReader', ['std::shared_ptr<std::string> owned_data;', 'const uint8_t* data;', 'size_t length;', 'size_t offset;']),
                      (r'class BufferWriter', ['uint8_t* buf;', 'size_t buf_size;', 'size_t offset;']),
                      (r'class StringWriter', ['std::string data;']),
                      (r'class BitWriter', ['std::string data;', 'uint8_t last_byte_unset_bits;'])]:
        _, body, _, _ = find_def(text, cls, 'class')
        i = body.rfind('private:')
        if i < 0:
            raise ExtractionBreak('%s: no private section' % cls)
        got = [l.strip() for l in body[i + 8:].strip().rstrip('}').strip().split('\n') if l.strip()]
        if got != want:
            raise ExtractionBreak('%s: data members changed: %r' % (cls, got))


def M(name):           # C name of a StringReader method
    return 'StringReader_' + name


def reader_core(ctx, src):
    """pgetv/getv/peek/skip/... and the hand-assembled 24/48-bit accessors."""
    check_members(src)
    u = Unit(ctx, 'reader_core')
    u.raw('#include "stubs/libc.h"\n' + TYPES)
    call = lambda n: Rule(r'self->%s\((\s*\))?' % n, lambda mo: M(n) + ('(self)' if mo.group(1) else '(self, '), count='+', regex=True)
    # --- Strings.hh, inline members ---
    u.function(src, HH, r'inline const void\* pgetv\(size_t offset, size_t size\) const', scope=SR,
               new_header='const void* %s(const StringReader* self, size_t offset, size_t size)' % M('pgetv'), ret_zero='0')
    u.function(src, HH, r'inline const void\* getv\(size_t size, bool advance = true\)', scope=SR,
               new_header='const void* %s(StringReader* self, size_t size, bool advance)' % M('getv'),
               rules=[call('pgetv')], may_throw=[M('pgetv')], ret_zero='0')
    for w, ty in (('24', 'uint32_t'), ('48', 'uint64_t')):
        for e in 'bl':
            n = 'pget_u%s%s' % (w, e)
            u.function(src, HH, r'inline %s %s\(size_t offset\) const' % (ty, n), scope=SR,
                       new_header='%s %s(const StringReader* self, size_t offset)' % (ty, M(n)), ret_zero='0')
        for e in 'bl':
            n = 'get_u%s%s' % (w, e)
            u.function(src, HH, r'inline %s %s\(bool advance = true\)' % (ty, n), scope=SR,
                       new_header='%s %s(StringReader* self, bool advance)' % (ty, M(n)),
                       rules=[call('pget_u%s%s' % (w, e))], may_throw=[M('pget_u%s%s' % (w, e))], ret_zero='0')
        sty = ty[1:]
        for e in 'bl':
            n = 'get_s%s%s' % (w, e)
            u.function(src, HH, r'inline %s %s\(bool advance = true\)' % (sty, n), scope=SR,
                       new_header='%s %s(StringReader* self, bool advance)' % (sty, M(n)),
                       rules=[Rule('return ext%s(self->get_u%s%s(advance));' % (w, w, e),
                                   '{ %s verif_t = %s(self, advance); if (verif_exc) return 0; return ext%s(verif_t); }' % (ty, M('get_u%s%s' % (w, e)), w), count=1)])
            n = 'pget_s%s%s' % (w, e)
            u.function(src, HH, r'inline %s %s\(size_t offset\) const' % (sty, n), scope=SR,
                       new_header='%s %s(const StringReader* self, size_t offset)' % (sty, M(n)),
                       rules=[Rule('return ext%s(self->pget_u%s%s(offset));' % (w, w, e),
                                   '{ %s verif_t = %s(self, offset); if (verif_exc) return 0; return ext%s(verif_t); }' % (ty, M('pget_u%s%s' % (w, e)), w), count=1)])
    # --- Strings.cc ---
    def cc(name, sig, hdr, **kw):
        u.function(src, CC, sig, new_header=hdr, **kw)
    cc('where', r'size_t StringReader::where\(\) const', 'size_t %s(const StringReader* self)' % M('where'))
    cc('size', r'size_t StringReader::size\(\) const', 'size_t %s(const StringReader* self)' % M('size'))
    cc('remaining', r'size_t StringReader::remaining\(\) const', 'size_t %s(const StringReader* self)' % M('remaining'))
    cc('truncate', r'void StringReader::truncate\(size_t new_size\)', 'void %s(StringReader* self, size_t new_size)' % M('truncate'), ret_zero='')
    cc('go', r'void StringReader::go\(size_t offset\)', 'void %s(StringReader* self, size_t offset)' % M('go'))
    cc('skip', r'void StringReader::skip\(size_t bytes\)', 'void %s(StringReader* self, size_t bytes)' % M('skip'), ret_zero='')
    cc('eof', r'bool StringReader::eof\(\) const', 'bool %s(const StringReader* self)' % M('eof'))
    cc('peek', r'const char\* StringReader::peek\(size_t size\)', 'const char* %s(StringReader* self, size_t size)' % M('peek'), ret_zero='0')
    cc('skip_if', r'bool StringReader::skip_if\(const void\* data, size_t size\)',
       'bool %s(StringReader* self, const void* data, size_t size)' % M('skip_if'),
       rules=[call('remaining'), call('peek'), Rule('memcmp(', 'verif_memcmp(', count=1),
              # peek() may throw inside the condition: the lowered callee returns 0 with verif_exc set and the memcmp
              # stub ignores its arguments while an exception is in flight; both branches then re-raise first
              Rule('return false;', 'if (verif_exc) return 0; return false;', count=1),
              Rule('self->skip(size);', 'if (verif_exc) return 0; %s(self, size); if (verif_exc) return 0;' % M('skip'), count=1)])
    MC = Rule('memcpy(', 'verif_memcpy(', count='+')
    cc('pread', r'size_t StringReader::pread\(size_t offset, void\* data, size_t size\) const',
       'size_t %s(const StringReader* self, size_t offset, void* data, size_t size)' % M('pread_buf'), rules=[MC])
    cc('preadx', r'void StringReader::preadx\(size_t offset, void\* data, size_t size\) const',
       'void %s(const StringReader* self, size_t offset, void* data, size_t size)' % M('preadx_buf'), rules=[MC], ret_zero='')
    cc('read', r'size_t StringReader::read\(void\* data, size_t size, bool advance\)',
       'size_t %s(StringReader* self, void* data, size_t size, bool advance)' % M('read_buf'),
       rules=[Rule('self->pread(', M('pread_buf') + '(self, ', count=1)])
    cc('readx', r'void StringReader::readx\(void\* data, size_t size, bool advance\)',
       'void %s(StringReader* self, void* data, size_t size, bool advance)' % M('readx_buf'),
       rules=[Rule('self->preadx(', M('preadx_buf') + '(self, ', count=1)], may_throw=[M('preadx_buf')], ret_zero='')
    # sub-readers: `return StringReader(ptr, n);` -> out-parameter initialisation through the extracted constructor
    ctor_args = u.snippet(src, CC, r'StringReader::StringReader\(const void\* data, size_t size, size_t offset\)\s*:\s*data\((.*?)\),\s*length\((\w+)\),\s*offset\((\w+)\)\s*\{\s*\}', group=0)
    mo = re.search(r':\s*data\((.*)\),\s*length\((\w+)\),\s*offset\((\w+)\)', ctor_args, re.S)
    from vf.lex import rewrite_casts
    u.raw('static inline void StringReader_ctor(StringReader* self, const void* data, size_t size, size_t offset)\n{\n  self->data = %s;\n  self->length = %s;\n  self->offset = %s;\n}'
          % (rewrite_casts(mo.group(1)), mo.group(2), mo.group(3)))
    dflt = u.snippet(src, CC, r'StringReader::StringReader\(\)\s*:\s*owned_data\(nullptr\),\s*data\((\w+)\),\s*length\((\w+)\),\s*offset\((\w+)\)\s*\{\s*\}', group=0)
    mo = re.search(r'data\((\w+)\),\s*length\((\w+)\),\s*offset\((\w+)\)', dflt)
    u.raw('static inline void StringReader_ctor0(StringReader* self)\n{\n  self->data = %s;\n  self->length = %s;\n  self->offset = %s;\n}' % mo.groups())
    RETSUB = [Rule(r'return StringReader\(\);', '{ StringReader_ctor0(ret); return; }', regex=True),
              Rule(r'return StringReader\(\s*([^;]*?)\);', r'{ StringReader_ctor(ret, \1, 0); return; }', regex=True, count='+')]
    for n, sig in [('sub1', r'StringReader StringReader::sub\(size_t offset\) const'),
                   ('sub2', r'StringReader StringReader::sub\(size_t offset, size_t size\) const'),
                   ('subx1', r'StringReader StringReader::subx\(size_t offset\) const'),
                   ('subx2', r'StringReader StringReader::subx\(size_t offset, size_t size\) const')]:
        args = 'size_t offset' + (', size_t size' if n.endswith('2') else '')
        cc(n, sig, 'void %s(const StringReader* self, StringReader* ret, %s)' % (M(n), args), rules=RETSUB, ret_zero='')
    # bit sub-readers
    bctor = u.snippet(src, CC, r'BitReader::BitReader\(const void\* data, size_t size, size_t offset\)\s*:\s*data\((.*?)\),\s*length\((\w+)\),\s*offset\((\w+)\)\s*\{\s*\}', group=0)
    mo = re.search(r':\s*data\((.*)\),\s*length\((\w+)\),\s*offset\((\w+)\)', bctor, re.S)
    u.raw('static inline void BitReader_ctor(BitReader* self, const void* data, size_t size, size_t offset)\n{\n  self->data = %s;\n  self->length = %s;\n  self->offset = %s;\n}'
          % (rewrite_casts(mo.group(1)), mo.group(2), mo.group(3)))
    bdflt = u.snippet(src, CC, r'BitReader::BitReader\(\)\s*:\s*owned_data\(nullptr\),\s*data\((\w+)\),\s*length\((\w+)\),\s*offset\((\w+)\)\s*\{\s*\}', group=0)
    mo = re.search(r'data\((\w+)\),\s*length\((\w+)\),\s*offset\((\w+)\)', bdflt)
    u.raw('static inline void BitReader_ctor0(BitReader* self)\n{\n  self->data = %s;\n  self->length = %s;\n  self->offset = %s;\n}' % mo.groups())
    RETBIT = [Rule(r'return BitReader\(\);', '{ BitReader_ctor0(ret); return; }', regex=True),
              Rule(r'return BitReader\(\s*([^;]*?)\);', r'{ BitReader_ctor(ret, \1, 0); return; }', regex=True, count='+')]
    for n, sig in [('sub_bits1', r'BitReader StringReader::sub_bits\(size_t offset\) const'),
                   ('sub_bits2', r'BitReader StringReader::sub_bits\(size_t offset, size_t size\) const'),
                   ('subx_bits1', r'BitReader StringReader::subx_bits\(size_t offset\) const'),
                   ('subx_bits2', r'BitReader StringReader::subx_bits\(size_t offset, size_t size\) const')]:
        args = 'size_t offset' + (', size_t size' if n.endswith('2') else '')
        cc(n, sig, 'void %s(const StringReader* self, BitReader* ret, %s)' % (M(n), args), rules=RETBIT, ret_zero='')
    return u


# ---------------------------------------------------------------------------------------------------------------------
from vf.pipeline import Group, Replay, ALL_LIB

LIBC = ['verif_memcpy', 'verif_memcmp']


def plan(ctx, pid):
    from props import C03 as c03
    src = Source(ctx.src)
    leaf = c03.leaf_unit(ctx, src)
    leaf.write()
    core = reader_core(ctx, src)
    core.write()
    ctx.functions_under_contract = list(core.functions)
    D = ['PROP_' + pid]
    groups = []
    H = 'harness/RW/reader_core.c'
    RP = lambda mode: Replay(driver='RW/reader.cc', mode=mode, sources=ALL_LIB, small_define='VERIF_SMALL')

    def G(fn, enforce=None, replace=None, **kw):
        g = Group(name='StringReader.' + fn, harness=H, entry='h_' + fn, function='StringReader::' + fn,
                  enforce=enforce or ('StringReader_' + fn), replace=replace or [], defines=list(D), replay=RP(fn), **kw)
        groups.append(g)
        return g
    G('pgetv')
    G('getv')
    for w in ('24', '48'):
        for e in 'bl':
            G('pget_u%s%s' % (w, e))
            G('get_u%s%s' % (w, e), replace=[])
            G('pget_s%s%s' % (w, e), replace=['ext' + w])
            G('get_s%s%s' % (w, e), replace=['ext' + w])
    for fn in ['where', 'size', 'remaining', 'eof', 'go', 'truncate', 'skip', 'peek']:
        G(fn)
    G('skip_if', replace=['verif_memcmp'])
    G('pread_buf', replace=['verif_memcpy'])
    G('preadx_buf', replace=['verif_memcpy'])
    G('read_buf', replace=['verif_memcpy'])
    G('readx_buf', replace=['verif_memcpy'])
    if pid == 'C02':
        for fn in ['sub1', 'sub2', 'subx1', 'subx2', 'sub_bits1', 'sub_bits2', 'subx_bits1', 'subx_bits2']:
            G(fn)
    return groups
