// C09 native replay: format_data_string / parse_data_string of the real library (links all of libphosg).
//   driver <mode> name=0xHEX[,0xHEX...] ...     exit 1 = postcondition violated on the real code, 0 = holds, 2 = usage
// modes
//   roundtrip   in_x=bytes in_mask=bytes in_len= in_has_mask= in_flags=    parse(format(x, mask)) == (x, mask classification)
//   sim_quoted  in_b= in_m= in_has_mask= in_me= in_next=                    the failing instance of the step lemma, embedded in a string
//   sim_hex     (same inputs)                                               hex form (flags = HEX_ONLY)
//   brackets                                                                "" and "a" round-trip
//   wide_char   in_c= in_be=                                                'c' gives the 16-bit code unit of the byte, zero-extended
//   initial                                                                 numerals little-endian / mask enabled at the start
//   classify                                                                quoted form iff every byte is printable (all 1-byte strings + pairs)
//   parse_total in_text=bytes                                               parse under ASan, with and without mask (a crash is the failure)
//   step        g_c0.. g_c3, g_s_* (parser state flags), g_num ...          one parser step from a synthesised prefix
#include <string>
#include <vector>

#include "Strings.hh"
#include "replay/common/args.hh"

using namespace std;
using namespace phosg;

static bool printable(uint8_t c) {
  return c == '\r' || c == '\n' || c == '\t' || (c >= 0x20 && c <= 0x7E);
}

static string hexs(const string& s) {
  string r;
  char b[4];
  for (unsigned char c : s) {
    snprintf(b, sizeof(b), "%02X ", c);
    r += b;
  }
  return r;
}

// returns 0 if parse(format(x, mask)) gives back x and the mask classification, else 1
static int roundtrip(const string& x, const string* mask, uint64_t flags) {
  string text = format_data_string(x.data(), x.size(), mask ? mask->data() : nullptr, flags);
  string pmask;
  string back = parse_data_string(text, &pmask, 0);
  string back_nomask = parse_data_string(text, nullptr, 0);
  printf("x = [%s] mask = [%s] flags = %llu\n  text = %s\n  parsed = [%s] parsed mask = [%s]\n", hexs(x).c_str(),
      mask ? hexs(*mask).c_str() : "none", (unsigned long long)flags, text.c_str(), hexs(back).c_str(), hexs(pmask).c_str());
  RCHECK(back == x, "parse_data_string(format_data_string(x)) != x");
  RCHECK(back_nomask == x, "parse_data_string(format_data_string(x)) != x (no mask requested)");
  RCHECK(pmask.size() == x.size(), "parsed mask has %zu bytes for %zu data bytes", pmask.size(), x.size());
  for (size_t k = 0; k < x.size(); k++) {
    bool want = mask ? ((*mask)[k] != 0) : true;
    RCHECK(((uint8_t)pmask[k] == (want ? 0xFF : 0x00)), "mask classification of byte %zu differs", k);
  }
  return 0;
}

static int sim(const Args& a, uint64_t flags) {
  uint8_t b = a.u("in_b"), m = a.u("in_m"), next = a.u("in_next");
  bool has_mask = a.u("in_has_mask"), me = a.u("in_me", 1);
  // the byte in front puts the formatter/parser into mask state `me`; the bytes behind supply the look-ahead character
  vector<string> suffixes = {"", "n", "\"", "a", "\\"};
  if (printable(next) || flags) {
    suffixes.push_back(string(1, (char)next));
  }
  int rc = 0;
  for (const string& suf : suffixes) {
    string x = string("a") + string(1, (char)b) + suf;
    string mask;
    mask += (char)(me ? 0xFF : 0x00);
    mask += (char)m;
    mask += string(suf.size(), (char)(m ? 0xFF : 0x00));
    rc |= roundtrip(x, has_mask ? &mask : nullptr, flags);
    string y = string(1, (char)b) + suf;
    string ymask = mask.substr(1);
    rc |= roundtrip(y, has_mask ? &ymask : nullptr, flags);
  }
  return rc;
}

int main(int argc, char** argv) {
  Args a(argc, argv);
  if (a.mode == "roundtrip") {
    size_t len = a.u("in_len");
    const auto& xs = a.arr("in_x");
    const auto& ms = a.arr("in_mask");
    string x, mask;
    for (size_t k = 0; k < len; k++) {
      x += (char)(k < xs.size() ? xs[k] : 0);
      mask += (char)(k < ms.size() ? ms[k] : 0);
    }
    return roundtrip(x, a.u("in_has_mask") ? &mask : nullptr, a.u("in_flags"));
  }
  if (a.mode == "sim_quoted") {
    return sim(a, 0);
  }
  if (a.mode == "sim_hex") {
    return sim(a, FormatDataFlags::HEX_ONLY);
  }
  if (a.mode == "brackets") {
    string m1("\xFF", 1), m0("\x00", 1);
    return roundtrip("", nullptr, 0) | roundtrip("a", nullptr, 0) | roundtrip("a", &m0, 0) | roundtrip("a", &m1, 0);
  }
  if (a.mode == "initial") {
    string m;
    string d = parse_data_string("##258 01", &m, 0);
    printf("##258 01 -> [%s] mask [%s]\n", hexs(d).c_str(), hexs(m).c_str());
    RCHECK(d == string("\x02\x01\x01", 3), "initial state: little-endian numerals, hex pairs");
    RCHECK(m == string("\xFF\xFF\xFF", 3), "initial state: mask enabled");
    return 0;
  }
  if (a.mode == "wide_char") {
    char c = (char)a.u("in_c");
    bool be = a.u("in_be");
    string text = string(be ? "$" : "") + "'" + string(1, c) + "'";
    string out = parse_data_string(text);
    printf("text = %s -> [%s]\n", text.c_str(), hexs(out).c_str());
    RCHECK(out.size() == 2, "one character inside '...' gives %zu bytes", out.size());
    RCHECK((uint8_t)out[be ? 1 : 0] == (uint8_t)c, "low byte of the code unit");
    RCHECK((uint8_t)out[be ? 0 : 1] == 0, "high byte of the code unit of character 0x%02X is 0x%02X, not zero (sign extension of char)",
        (uint8_t)c, (uint8_t)out[be ? 0 : 1]);
    return 0;
  }
  if (a.mode == "classify") {
    for (unsigned v = 0; v < 256; v++) {
      for (unsigned w : {0x41u, v}) {
        string x;
        x += (char)w;
        x += (char)v;
        string t = format_data_string(x.data(), x.size(), nullptr, 0);
        bool quoted = !t.empty() && t[0] == '"';
        bool want = printable(v) && printable(w);
        RCHECK(quoted == want, "bytes %02X %02X: quoted form %s, every byte printable %s (text %s)", w, v, quoted ? "chosen" : "not chosen",
            want ? "yes" : "no", t.c_str());
        string th = format_data_string(x.data(), x.size(), nullptr, FormatDataFlags::HEX_ONLY);
        RCHECK(th.empty() || th[0] != '"', "HEX_ONLY produced a quoted string");
      }
    }
    return 0;
  }
  if (a.mode == "parse_total") {
    string text;
    for (uint64_t v : a.arr("in_text")) {
      text += (char)v;
    }
    string mask;
    string d1 = parse_data_string(text, &mask, 0);
    string d2 = parse_data_string(text, nullptr, 0);
    RCHECK(d1 == d2, "result depends on whether a mask is requested");
    RCHECK(mask.size() == d1.size(), "mask size %zu != data size %zu", mask.size(), d1.size());
    RCHECK(d1.size() <= 4 * text.size(), "more than 4 output bytes per input character");
    for (unsigned char c : mask) {
      RCHECK(c == 0xFF || c == 0x00, "mask byte %02X", c);
    }
    return 0;
  }
  if (a.mode == "step") {
    // synthesise a prefix that brings the real parser into the recorded state, then compare the effect of the next construct
    bool rc = a.u("g_s_rc"), rmc = a.u("g_s_rmc"), rs = a.u("g_s_rs"), rus = a.u("g_s_rus");
    bool high = a.u("g_s_high", 1), be = a.u("g_s_be"), me = a.u("g_s_me", 1);
    uint8_t chr = a.u("g_s_chr");
    char c[4] = {(char)a.u("g_c0"), (char)a.u("g_c1"), (char)a.u("g_c2"), (char)a.u("g_c3")};
    string prefix;
    if (be) prefix += "$";
    if (!me) prefix += "?";
    static const char* digits = "0123456789ABCDEF";
    if (!high) prefix += digits[chr >> 4];
    if (rc) prefix += "//";
    if (rmc) prefix += "/*";
    if (rs) prefix += "\"";
    if (rus) prefix += "'";
    string tail;
    for (int k = 0; k < 4 && c[k]; k++) {
      tail += c[k];
    }
    bool n = !rc && !rmc && !rs && !rus;
    bool numeric = n && (c[0] == '#' || c[0] == '%');
    if (numeric) {
      // keep only the markers, then a fixed numeral
      size_t k = 1;
      while (k < 4 && c[k] == c[0] && (c[0] == '#' || k < 2)) k++;
      tail = string(k, c[0]) + "258 ";
    }
    string m0, m1;
    string d0 = parse_data_string(prefix, &m0, 0);
    string d1 = parse_data_string(prefix + tail, &m1, 0);
    printf("prefix = %s  then = %s\n  before [%s]  after [%s] mask [%s]\n", prefix.c_str(), tail.c_str(), hexs(d0).c_str(), hexs(d1).c_str(), hexs(m1).c_str());
    RCHECK(d1.size() >= d0.size() && d1.compare(0, d0.size(), d0) == 0, "earlier output changed");
    RCHECK(m1.size() == d1.size(), "mask size");
    string added = d1.substr(d0.size());
    auto unesc = [](char ch) -> char { return ch == 'n' ? '\n' : ch == 'r' ? '\r' : ch == 't' ? '\t' : ch; };
    if (rs && c[0] != '"') {
      char want = (c[0] == '\\') ? unesc(c[1]) : c[0];
      if (!(c[0] == '\\' && !c[1])) {
        RCHECK(!added.empty() && added[0] == want, "inside \"...\": expected byte %02X first", (uint8_t)want);
      }
    }
    if (rus && c[0] != '\'' && !(c[0] == '\\' && !c[1])) {
      uint8_t want = (uint8_t)((c[0] == '\\') ? unesc(c[1]) : c[0]);
      RCHECK(added.size() >= 2 && (uint8_t)added[be ? 1 : 0] == want && (uint8_t)added[be ? 0 : 1] == 0,
          "inside '...': expected code unit %04X in %s order", want, be ? "big-endian" : "little-endian");
    }
    if (n && c[0] == '#') {
      size_t k = 1;
      while (k < 4 && c[k] == '#') k++;
      size_t w = k == 1 ? 1 : k == 2 ? 2 : k == 3 ? 4 : 8;
      RCHECK(added.size() == w, "%zu '#' select %zu bytes, got %zu", k, w, added.size());
      uint64_t v = 258;
      for (size_t j = 0; j < w; j++) {
        uint8_t want = (uint8_t)(v >> (8 * (be ? w - 1 - j : j)));
        RCHECK((uint8_t)added[j] == want, "byte %zu of the %zu-byte numeral 258 (%s-endian)", j, w, be ? "big" : "little");
        RCHECK((uint8_t)m1[d0.size() + j] == (me ? 0xFF : 0x00), "mask byte");
      }
    }
    if (n && c[0] == '%') {
      bool dbl = c[1] == '%';
      size_t w = dbl ? 8 : 4;
      RCHECK(added.size() == w, "%% selects 4 bytes, %%%% 8; got %zu", added.size());
      uint64_t bits;
      if (dbl) {
        double d = 258.0;
        memcpy(&bits, &d, 8);
      } else {
        float f = 258.0f;
        uint32_t b32;
        memcpy(&b32, &f, 4);
        bits = b32;
      }
      for (size_t j = 0; j < w; j++) {
        uint8_t want = (uint8_t)(bits >> (8 * (be ? w - 1 - j : j)));
        RCHECK((uint8_t)added[j] == want, "byte %zu of the float/double 258", j);
      }
    }
    if (n && c[0] == '$') {
      string t2 = prefix + "$##1";
      string r = parse_data_string(t2);
      RCHECK(r.size() == d0.size() + 2 && (uint8_t)r[d0.size() + (be ? 0 : 1)] == 1, "$ toggles the byte order");
    }
    if (n && c[0] == '?') {
      string mm;
      string r = parse_data_string(prefix + "?00", &mm, 0);
      RCHECK(!mm.empty() && (uint8_t)mm.back() == (me ? 0x00 : 0xFF), "? toggles the mask");
    }
    return 0;
  }
  fprintf(stderr, "unknown mode %s\n", a.mode.c_str());
  return 2;
}
