/* C12: the default arguments of the public operations (the extracted C functions take every argument explicitly).
 * x_defaults.h is cut from the declarations on every run.  What the defaults have to be is read off the property statement
 * and the headers' interface: touch(k) refreshes recency "precisely" -- it must not change the size, i.e. new_size defaults
 * to "none" (negative); LRUMap::change_size(k, s) is one of the operations that touch; an entry inserted without a size
 * counts 0 in an LRUSet and 1 in an LRUMap (LRUSet.hh / LRUMap.hh). */
#include "contracts/verif.h"
#include "x_defaults.h"

void h_defaults(void)
{
  ssize_t in_set_touch = DEF_LRUSet_touch_new_size, in_map_touch = DEF_LRUMap_touch_new_size;
  bool in_map_change_size_touch = DEF_LRUMap_change_size_touch;
  size_t in_set_insert = DEF_LRUSet_insert_size, in_set_emplace = DEF_LRUSet_emplace_size;
  size_t in_map_insert = DEF_LRUMap_insert_size, in_map_insert_const = DEF_LRUMap_insert_const_size, in_map_emplace = DEF_LRUMap_emplace_size;
  __CPROVER_assert(in_set_touch < 0, "LRUSet::touch(k) does not change the size: new_size defaults to a negative value");
  __CPROVER_assert(in_map_touch < 0, "LRUMap::touch(k) does not change the size: new_size defaults to a negative value");
  __CPROVER_assert(in_map_change_size_touch == true, "LRUMap::change_size(k, s) refreshes recency: touch defaults to true");
  __CPROVER_assert(in_set_insert == 0 && in_set_emplace == 0, "LRUSet::insert(k) / emplace(k): size defaults to 0");
  __CPROVER_assert(in_map_insert == 1 && in_map_emplace == 1, "LRUMap::insert(k, v) / emplace(k, v): size defaults to 1");
  __CPROVER_assert(in_map_insert_const == in_map_insert, "both LRUMap::insert overloads have the same default size");
  VERIF_REACH();
}
