/* C09 O-4 / O-1: one parser step (the body of parse_data_string's loop, cut by Unit.block) against its transition contract. */
#include "contracts/C03_leaf.h"
#include "x_Encoding_leaf.c"
#include "x_c09_prelude.c"
#include "contracts/C09_step.h"
int verif_exc; size_t g_vk, g_k, g_w, g_j, g_n; bool g_quoted, g_returned; 
const char* g_end; char g_c0, g_c1, g_c2, g_c3;
unsigned g_st_calls; const char* g_st_arg; const char* g_st_end; int g_st_base; int g_st_kind;
unsigned long long g_num; double g_dbl; float g_flt; unsigned g_load_calls;
bool g_s_rc, g_s_rmc, g_s_rs, g_s_rus, g_s_high, g_s_be, g_s_me; uint8_t g_s_chr;
/* the parser state (locals of parse_data_string) */
const char* in; uint8_t chr;
bool reading_string, reading_unicode_string, reading_comment, reading_multiline_comment, reading_high_nybble, reading_filename;
bool big_endian, mask_enabled, allow_files;
OUT_STR* data; OUT_STR* mask; vstr filename;
#include "x_pds_step.c"

void h_step(void)
{
  pds_step();
  VERIF_REACH();
}
