/* C05: h_string */
#include "harness/C05/common.h"
#include "x_json_rd.c"      /* eof / where / size / go: real bodies */
#include "x_json_string.c"

void h_string(void) { StringReader* r; JVal* ret; IN_COMMON; JSON_parse_string(r, ret); VERIF_REACH(); }
