/* C09 hex dump: the ASCII column of a line (contracts/C09_ascii.h); the three loops have the constant bound 16 and are unwound completely. */
#include "contracts/C09_ascii.h"
int verif_exc; size_t g_out_n, g_opos; uint8_t g_och;
#include "x_fd_ascii.c"
void h_ascii_column(void)
{
  const uint8_t *buf, *prev; uint8_t in_s, in_e; _Bool in_skip; size_t in_opos;
  g_opos = in_opos; g_out_n = 0; g_och = 0;
  fd_ascii_column(buf, prev, in_s, in_e, 0, in_skip, 1);
  VERIF_REACH();
}
