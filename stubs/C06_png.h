/* C06: trusted models for write_png_chunk (src/Image.cc).
 *
 *  be_u32 / BE_MAKE / BE_GET   phosg::be_uint32_t (src/Encoding.hh, decided by C03): the object holds the value in big-endian
 *        byte order; construction / assignment from an integer stores it byte-swapped, conversion to integer swaps back.
 *  C6P_writer(data, size)      the `writer` callback: consumes exactly `size` readable bytes.  Ghost record of the first four
 *        calls: source pointer, size, and (for 4-byte calls) the big-endian number the four bytes denote -- the view of a PNG
 *        decoder (PNG spec 5.3: length, type, data, CRC; length and CRC are 4-byte big-endian integers).
 *  C6P_crc32(crc, buf, len)    zlib's crc32 (zlib.h): "Update a running CRC-32 with the bytes buf[0..len-1] and return the
 *        updated CRC-32.  If buf is Z_NULL, this function returns the required initial value for the crc."  The CRC
 *        polynomial itself is zlib's business: the CRC of the chunk type and the CRC of type||data are the abstract values
 *        g_crc_type / g_crc_full (any 32-bit numbers, fixed by the harness);  an update by zero bytes from a non-null buffer
 *        leaves the running value unchanged; a call that continues anything else than these two chains yields an arbitrary value.
 */
#ifndef C06_PNG_H
#define C06_PNG_H
#include "contracts/verif.h"

typedef unsigned char Bytef;
typedef struct { uint32_t raw; } be_u32;
#ifdef VERIF_BIG_ENDIAN_HOST
#define C6P_SWAP(v) ((uint32_t)(v))
#else
#define C6P_SWAP(v) __builtin_bswap32((uint32_t)(v))
#endif
static inline be_u32 BE_MAKE(uint32_t v) { be_u32 r; r.raw = C6P_SWAP(v); return r; }
#define BE_GET(x) C6P_SWAP((x).raw)

#define C6P_MAXCALLS 4
extern unsigned g_pw_calls;
extern const void* g_pw_ptr[C6P_MAXCALLS];
extern size_t g_pw_len[C6P_MAXCALLS];
extern uint32_t g_pw_be[C6P_MAXCALLS];
extern size_t g_pw_total;
extern const char* g_png_type;      /* the chunk-type argument (ghost, set by the harness) */
extern const void* g_png_data;
extern uint32_t g_png_size;
extern uint32_t g_crc_type, g_crc_full;
extern unsigned g_crc_bad;          /* number of crc32 calls that are neither step of the chain type -> type||data */

static inline void C6P_writer(const void* data, size_t size)
{
  __CPROVER_assert(__CPROVER_r_ok(data, size), "writer source holds size bytes");
  if (g_pw_calls < C6P_MAXCALLS) {
    g_pw_ptr[g_pw_calls] = data;
    g_pw_len[g_pw_calls] = size;
    if (size == 4) {
      const uint8_t* p = (const uint8_t*)data;
      g_pw_be[g_pw_calls] = ((uint32_t)p[0] << 24) | ((uint32_t)p[1] << 16) | ((uint32_t)p[2] << 8) | (uint32_t)p[3];
    }
  }
  g_pw_calls++;
  g_pw_total += size;
}

uint32_t nondet_c6p_u32(void);
static inline uint32_t C6P_crc32(uint32_t crc, const Bytef* buf, uint32_t len)
{
  if (buf == 0) return 0;                                               /* Z_NULL: the initial value, whatever crc was */
  __CPROVER_assert(__CPROVER_r_ok(buf, len), "crc32 source holds len bytes");
  if (len == 0) return crc;
  if (crc == 0 && buf == (const Bytef*)g_png_type && len == 4) return g_crc_type;
  if (crc == g_crc_type && buf == (const Bytef*)g_png_data && len == g_png_size) return g_crc_full;
  g_crc_bad++;
  return nondet_c6p_u32();
}
#endif
