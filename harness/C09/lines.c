/* C09 hex dump: line geometry of format_data's main loop (assembled from extracted snippets, see contracts/C09_lines.h). */
#include "contracts/verif.h"
#include "x_fd_flags.h"
#include "contracts/C09_lines.h"
int verif_exc; uint64_t g_i, g_consumed, g_off, g_hits, g_col; bool g_interior; int g_width;
#include "x_fd_lines.c"

void h_lines(void)
{
  uint64_t in_start, in_size, in_flags, in_off;
  g_off = in_off;
  fd_line_loop(in_start, in_size, in_flags);
  VERIF_REACH();
}
